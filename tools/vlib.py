"""Shared plumbing for the checks: environment, scratch space, builds from /repo's working tree, Coq runs,
evidence files, violation reporting and known findings."""
import atexit, hashlib, json, os, shutil, subprocess, sys, tempfile, time

VERIF = os.path.dirname(os.path.dirname(os.path.abspath(__file__)))
REPO = os.environ.get("VERIF_REPO", "/repo")
COQ = os.path.join(VERIF, "coq")
BUILD = os.path.join(VERIF, "build")
CACHE = os.path.join(VERIF, ".cache")
EVID = os.path.join(VERIF, "evidence")
GOROOT_BIN = "/opt/veriftools/go1.26.8/bin"

_T0 = time.time()


def goenv(extra=None):
    e = dict(os.environ)
    e["PATH"] = GOROOT_BIN + ":" + e.get("PATH", "")
    e.update(GOTOOLCHAIN="local", GOPROXY="off", GOSUMDB="off", GOWORK="off", GOFLAGS="-mod=mod")
    e.setdefault("GOCACHE", os.path.join(CACHE, "gocache"))
    if extra:
        e.update(extra)
    return e


def run(cmd, cwd=None, env=None, timeout=600, input=None, check=False):
    """subprocess.run with a deadline; returns (rc, stdout, stderr); rc = -9 on timeout."""
    try:
        p = subprocess.run(cmd, cwd=cwd, env=env, timeout=timeout, input=input, capture_output=True, text=True)
        rc, out, err = p.returncode, p.stdout, p.stderr
    except subprocess.TimeoutExpired as ex:
        rc = -9
        out = ex.stdout.decode() if isinstance(ex.stdout, bytes) else (ex.stdout or "")
        err = ex.stderr.decode() if isinstance(ex.stderr, bytes) else (ex.stderr or "")
    if check and rc != 0:
        raise RuntimeError("command failed (%s): %s\n%s\n%s" % (rc, cmd, out[-3000:], err[-3000:]))
    return rc, out, err


_scratch = None


def scratch():
    """Per-process scratch directory outside /repo and /verif, removed at exit."""
    global _scratch
    if _scratch is None:
        base = os.environ.get("VERIF_SCRATCH") or "/var/tmp"
        os.makedirs(base, exist_ok=True)
        _scratch = tempfile.mkdtemp(prefix="kverif-", dir=base)
        atexit.register(lambda: shutil.rmtree(_scratch, ignore_errors=True))
    return _scratch


def repo_hash(subdirs=("",)):
    """sha256 over the Go sources, go.mod/go.sum, README and embedded skill files of /repo's working tree."""
    h = hashlib.sha256()
    for root, dirs, files in os.walk(REPO):
        dirs[:] = sorted(d for d in dirs if d not in (".git", "node_modules"))
        for f in sorted(files):
            if f.endswith((".go", ".mod", ".sum", ".md", ".tmpl", ".json")) or "/skills/" in root + "/":
                p = os.path.join(root, f)
                try:
                    with open(p, "rb") as fh:
                        h.update(p.encode())
                        h.update(fh.read())
                except OSError:
                    pass
    return h.hexdigest()[:16]


def tools_hash():
    """hash of the framework itself (tools, harness, Coq sources), part of every stage-cache key"""
    h = hashlib.sha256()
    for sub, exts in (("tools", (".py", ".sh")), ("harness", (".go", ".mod")), ("coq", (".v",)), ("coq/Properties", (".v",)), ("corpus", (".json", ".go"))):
        d = os.path.join(VERIF, sub)
        if not os.path.isdir(d):
            continue
        for root, dirs, files in os.walk(d):
            dirs.sort()
            for f in sorted(files):
                if f.endswith(exts):
                    with open(os.path.join(root, f), "rb") as fh:
                        h.update(f.encode())
                        h.update(fh.read())
    return h.hexdigest()[:10]


_built = {}


def build_kessoku():
    """Build the CLI from /repo's working tree (cached by source hash). Returns path or raises."""
    if "kessoku" in _built:
        return _built["kessoku"]
    hd = os.path.join(CACHE, "bin", repo_hash())
    out = os.path.join(hd, "kessoku")
    if not os.path.exists(out):
        os.makedirs(hd, exist_ok=True)
        rc, o, e = run(["go", "build", "-o", out, "./cmd/kessoku"], cwd=REPO, env=goenv(), timeout=600)
        if rc != 0:
            raise BuildError("kessoku does not build from /repo: " + e[-2000:])
    _built["kessoku"] = out
    return out


class BuildError(Exception):
    pass


def build_tool(name):
    """Build a harness tool (stdlib only) into /verif/build."""
    out = os.path.join(BUILD, name)
    src = os.path.join(VERIF, "harness", "cmd", name)
    newest = max(os.path.getmtime(os.path.join(src, f)) for f in os.listdir(src))
    if not os.path.exists(out) or os.path.getmtime(out) < newest:
        os.makedirs(BUILD, exist_ok=True)
        run(["go", "build", "-o", out, "./cmd/" + name], cwd=os.path.join(VERIF, "harness"), env=goenv(), timeout=300, check=True)
    return out


def new_scratch_module(name="m"):
    """A Go module 'vscratch' under the scratch dir with kessoku replaced by /repo and the verifrt runtime."""
    d = os.path.join(scratch(), name)
    os.makedirs(os.path.join(d, "verifrt"), exist_ok=True)
    with open(os.path.join(d, "go.mod"), "w") as f:
        f.write("module vscratch\n\ngo 1.24.0\n\nrequire (\n\tgithub.com/mazrean/kessoku v0.0.0\n\tgolang.org/x/sync v0.19.0\n)\n\nreplace github.com/mazrean/kessoku => %s\n" % REPO)
    shutil.copy(os.path.join(REPO, "go.sum"), os.path.join(d, "go.sum"))
    shutil.copy(os.path.join(VERIF, "harness", "verifrt", "rt.go"), os.path.join(d, "verifrt", "rt.go"))
    return d


# ------------------------------------------------------------------ Coq

def coq_built():
    return os.path.exists(os.path.join(COQ, "Assembly.vo"))


def coq_make(targets=None, timeout=1500, keep_going=False):
    """(Re)build the Coq development; returns (ok, log)."""
    if not os.path.exists(os.path.join(COQ, "Makefile")):
        run(["coq_makefile", "-f", "_CoqProject", "-o", "Makefile"], cwd=COQ, check=True)
    rc, o, e = run(["make", "-j16"] + (["-k"] if keep_going else []) + (targets or []), cwd=COQ, timeout=timeout)
    return rc == 0, o + e


_COQ_UP_TO_DATE = False
_COQ_BUILD_LOG = ""


def coqc_file(path, timeout=600):
    """Compile one .v file against the built development; returns (rc, output). The whole development is brought up to
    date first (once per process): a case file may import libraries the property's own theorem file does not depend on, and
    a library compiled against an older version of another one cannot be loaded next to it."""
    global _COQ_UP_TO_DATE, _COQ_BUILD_LOG
    if not _COQ_UP_TO_DATE:
        # make -k: a theorem file of ANOTHER property that no longer checks (a regenerated table such as Reserved_gen.v or
        # Census_gen.v can break it) must not stand in the way of this property's libraries
        ok, out = coq_make(keep_going=True)
        _COQ_BUILD_LOG = "" if ok else out[-2000:]
        _COQ_UP_TO_DATE = True
    rc, o, e = run(["coqc", "-R", COQ, "Kessoku", path], cwd=os.path.dirname(path), timeout=timeout)
    if rc != 0 and _COQ_BUILD_LOG:
        return rc, "the development does not build completely: " + _COQ_BUILD_LOG + "\n" + o + e
    return rc, o + e


def proof_hygiene(files):
    """Textual check: no Admitted/admit/Axiom/Parameter/Conjecture/guard switches in the given .v files."""
    import re
    bad = []
    pat = re.compile(r"\b(Admitted|admit|Axiom|Axioms|Parameter|Parameters|Conjecture|Abort All|Unset Guard Checking|bypass_check|Unset Positivity Checking|Unset Universe Checking)\b")
    for f in files:
        txt = open(f).read()
        txt = re.sub(r"\(\*.*?\*\)", "", txt, flags=re.S)
        for m in pat.finditer(txt):
            bad.append("%s: %s" % (os.path.relpath(f, VERIF), m.group(1)))
    return bad


# ------------------------------------------------------------------ evidence / reporting

def write_evidence(pid, tier, seed, coverage, assumptions, violations, level="proof", extra=None):
    os.makedirs(EVID, exist_ok=True)
    ev = dict(property_id=pid, tier=tier, seed=int(seed), level=level, coverage=coverage,
              assumptions=assumptions, wall_s=round(time.time() - _T0, 2), violations=int(violations))
    if extra:
        ev.update(extra)
    with open(os.path.join(EVID, pid + ".json"), "w") as f:
        json.dump(ev, f, indent=1, sort_keys=True)


def write_replay(pid, name, payload):
    d = os.path.join(EVID, "replays", pid)
    os.makedirs(d, exist_ok=True)
    p = os.path.join(d, name + ".json")
    with open(p, "w") as f:
        json.dump(payload, f, indent=1, sort_keys=True, default=str)
    return p


def known_findings():
    p = os.path.join(VERIF, "known_findings.json")
    if not os.path.exists(p):
        return []
    return json.load(open(p))["findings"]


class Report:
    """Collects violations and known findings of one check run and prints the contract lines."""
    def __init__(self, pid):
        self.pid = pid
        self.violations = []     # (replay path, nofail: bool, summary)
        self.known = []
        self.notes = []

    def violation(self, name, payload, summary, no_failing_input=False):
        # one printable line (a diff of a damaged file can carry NUL bytes)
        summary = "".join(ch if ch.isprintable() else "?" for ch in summary.replace("\n", " | "))
        path = write_replay(self.pid, name, dict(property=self.pid, summary=summary, no_failing_input_found=no_failing_input, **payload))
        self.violations.append((path, no_failing_input, summary))

    def known_finding(self, kid, what):
        if kid not in [k for k, _ in self.known]:
            self.known.append((kid, what))

    def finish(self):
        for kid, what in self.known:
            print("KNOWN-FINDING: property=%s %s %s" % (self.pid, kid, what))
        seen = set()
        for path, nofail, summary in self.violations:
            if path in seen:
                continue
            seen.add(path)
            print("# " + summary)
            print("VIOLATION property=%s replay=%s%s" % (self.pid, path, " no-failing-input-found" if nofail else ""))
        sys.stdout.flush()
        return 1 if self.violations else 0


def trim_caches(limit_kb=6 * 1024 * 1024):
    """Disk hygiene: the Go build cache of the scratch packages (-race objects) grows by gigabytes per recomputed stage.
    When it exceeds the limit, entries not used for an hour are removed (oldest stage sources and binaries too)."""
    import subprocess, time
    gc = os.path.join(CACHE, "gocache")
    try:
        kb = int(subprocess.run(["du", "-sk", gc], capture_output=True, text=True).stdout.split()[0])
    except Exception:
        return
    if kb > limit_kb:
        subprocess.run(["find", gc, "-type", "f", "-amin", "+60", "-delete"], capture_output=True)
        kb2 = int(subprocess.run(["du", "-sk", gc], capture_output=True, text=True).stdout.split()[0])
        if kb2 > limit_kb:
            subprocess.run(["find", gc, "-type", "f", "-amin", "+10", "-delete"], capture_output=True)
    for sub, keepn in (("bin", 8), ("stage", 60)):
        d = os.path.join(CACHE, sub)
        if not os.path.isdir(d):
            continue
        ents = sorted((os.path.getmtime(os.path.join(d, x)), x) for x in os.listdir(d))
        for _, x in ents[:-keepn]:
            pth = os.path.join(d, x)
            shutil.rmtree(pth, ignore_errors=True) if os.path.isdir(pth) else os.remove(pth)
