"""Regenerate the translated tables (DESIGN 4.4) from /repo's current sources into coq/*_gen.v."""
import os, sys
sys.path.insert(0, os.path.dirname(os.path.abspath(__file__)))
import vlib
gt = vlib.build_tool("gentables")
for which, name in (("reserved", "Reserved_gen.v"), ("agents", "Agents_gen.v")):
    rc, out, err = vlib.run([gt, which, vlib.REPO], timeout=60)
    if rc != 0:
        print("gentables %s failed: %s" % (which, err), file=sys.stderr)
        sys.exit(1)
    p = os.path.join(vlib.COQ, name)
    if not os.path.exists(p) or open(p).read() != out:
        open(p, "w").write(out)
import census
census.regenerate()
print("tables regenerated")
