"""Naming and type-spelling stream (C04, end-to-end part of C12): packages adversarial to the name allocator and to
createASTTypeExpr go through the real generator; the user's package together with the generated file must type-check
(`go vet`; only compile/type errors count). Known-finding reproducers are part of the corpus and expected to fail with
their recorded signature."""
import json, os, random, re, shutil, sys
from concurrent.futures import ThreadPoolExecutor
import vlib

HDR = 'package main\n\n'
IMPORTS = {
    "time": ('"time"', "time.Now"),
    "netip": ('"net/netip"', "netip.MustParseAddr"),
    "template": ('"text/template"', "template.New"),
    "htemplate": ('htemplate "html/template"', "htemplate.New"),
    "context": ('"context"', "context.Background"),
    "io": ('"io"', "io.EOF"),
    "unsafe": ('"unsafe"', "unsafe.Sizeof(0)"),
}


def gen_type(rnd, depth, comparable=False):
    """random Go type expression (as written in the user's source) from the universe of C04, without variadic and generic"""
    leaf = ["int", "string", "bool", "float64", "uint8", "int32", "Local1", "Local2", "time.Duration", "netip.Addr", "*Local1", "byte", "rune", "any", "error", "unsafe.Pointer"]
    if comparable:
        return rnd.choice(["int", "string", "Local2", "netip.Addr", "time.Duration", "*Local1", "[2]int"])
    if depth <= 0:
        return rnd.choice(leaf + ["template.Template", "htemplate.Template", "error", "interface{}"])
    k = rnd.choice(["leaf", "ptr", "slice", "array", "map", "chan", "func", "struct", "iface", "ptr", "slice", "map", "generic"])
    if k == "leaf":
        return gen_type(rnd, 0)
    if k == "ptr":
        return "*" + gen_type(rnd, depth - 1)
    if k == "slice":
        return "[]" + gen_type(rnd, depth - 1)
    if k == "array":
        return "[%d]%s" % (rnd.choice([1, 3, 16]), gen_type(rnd, depth - 1))
    if k == "map":
        return "map[%s]%s" % (gen_type(rnd, 0, comparable=True), gen_type(rnd, depth - 1))
    if k == "chan":
        if rnd.random() < 0.2:
            return "chan (<-chan %s)" % gen_type(rnd, depth - 1)        # needs its parentheses: chan <-chan T is chan<- (chan T)
        return rnd.choice(["chan ", "<-chan ", "chan<- "]) + gen_type(rnd, depth - 1)
    if k == "func":
        pl = [gen_type(rnd, depth - 1) for _ in range(rnd.randint(0, 2))]
        if pl and rnd.random() < 0.3:
            pl[-1] = "..." + pl[-1]                 # variadic
        ps = ", ".join(pl)
        rs = [gen_type(rnd, depth - 1) for _ in range(rnd.randint(0, 2))]
        r = "" if not rs else (" " + rs[0] if len(rs) == 1 and not rs[0].startswith("func") else " (" + ", ".join(rs) + ")")
        return "func(%s)%s" % (ps, r)
    if k == "struct":
        r = rnd.random()
        if r < 0.2:
            return "struct{ %s; A %s }" % (rnd.choice(["Local1", "*Local1", "io.Reader", "Box[int]"]), gen_type(rnd, depth - 1))     # embedded field
        if r < 0.4:
            return "struct{ A %s `json:\"a\"`; B %s }" % (gen_type(rnd, depth - 1), gen_type(rnd, 0))                           # field tag
        return "struct{ A %s; B %s }" % (gen_type(rnd, depth - 1), gen_type(rnd, 0))
    if k == "generic":
        r = rnd.random()
        if r < 0.4:
            return "Box[%s]" % gen_type(rnd, depth - 1)
        if r < 0.55:
            return "List[%s]" % gen_type(rnd, depth - 1)            # instance of a generic alias (type List[T any] = []T)
        if r < 0.7:
            return "BoxA[%s]" % gen_type(rnd, depth - 1)            # instance of a generic alias of a generic type
        return "Pair[%s, %s]" % (gen_type(rnd, 0, comparable=True), gen_type(rnd, depth - 1))
    return "interface{ M(%s) %s }" % (gen_type(rnd, 0), gen_type(rnd, 0))


def imports_for(src):
    used = [k for k in IMPORTS if re.search(r"\b%s\." % k, src)]
    lines = ["\t" + IMPORTS[k][0] for k in used] + ['\t"github.com/mazrean/kessoku"']
    keep = "".join("var _ = %s\n" % IMPORTS[k][1] for k in used)
    return "import (\n" + "\n".join(sorted(lines)) + "\n)\n\n" + keep


def type_package(rnd, idx):
    """async providers returning random types (they end up in the var block) + a consumer with unsupplied parameters of random types"""
    nv = rnd.randint(1, 4)
    na = rnd.randint(0, 3)
    types = []
    tries = 0
    while len(types) < nv + na and tries < 200:
        tries += 1
        t = gen_type(rnd, rnd.choice([1, 2, 2, 3]))
        if t not in types and t not in ("context.Context",):
            types.append(t)
    body = "type Local1 struct{ X int }\ntype Local2 string\ntype Box[T any] struct{ V T }\ntype Pair[K comparable, V any] struct {\n\tK K\n\tV V\n}\ntype List[T any] = []T\ntype BoxA[T any] = Box[T]\ntype R%d struct{ N int }\n" % idx
    provs = []
    for i, t in enumerate(types[:nv]):
        body += "func NewV%d_%d() (v %s) { return }\n" % (idx, i, t)
        provs.append("kessoku.Async(kessoku.Provide(NewV%d_%d))" % (idx, i))
    params = ", ".join("p%d %s" % (i, t) for i, t in enumerate(types))
    body += "func NewR%d(%s) (*R%d, error) { return &R%d{N: %d}, nil }\n" % (idx, params, idx, idx, len(types))
    provs.append("kessoku.Provide(NewR%d)" % idx)
    body += 'var _ = kessoku.Inject[*R%d]("InitR%d",\n%s)\n' % (idx, idx, "".join("\t%s,\n" % p for p in provs))
    return body, types


# packages whose real name the user's package also uses as a package-level identifier, in a file that sorts before or
# after the file that imports the package (possibly under an alias): the generated file must pick an import name that
# clashes with neither (C04 "no clash between a generated name and any user identifier", C12 import aliases)
CLASH_POOL = [
    ("log", '"log"', "*%s.Logger", "%s.Default()"),
    ("bytes", '"bytes"', "*%s.Buffer", "&%s.Buffer{}"),
    ("strings", '"strings"', "*%s.Builder", "&%s.Builder{}"),
    ("sync", '"sync"', "*%s.Mutex", "&%s.Mutex{}"),
    ("bufio", '"bufio"', "*%s.Reader", "%s.NewReader(nil)"),
    ("url", '"net/url"', "*%s.URL", "&%s.URL{}"),
    ("rand", '"math/rand"', "*%s.Rand", "%s.New(%s.NewSource(1))"),
    ("list", '"container/list"', "*%s.List", "%s.New()"),
    ("big", '"math/big"', "*%s.Int", "%s.NewInt(1)"),
    ("tar", '"archive/tar"', "*%s.Header", "&%s.Header{}"),
]


def clash_package(rnd, idx):
    """files {name: text}, targets; provider file k.go (or m.go) imports 1..3 pool packages (some aliased), other files
    declare package-level identifiers equal to the real package names."""
    picks = rnd.sample(CLASH_POOL, rnd.randint(1, 3))
    inj_file = rnd.choice(["k.go", "m.go"])
    imports = []
    body = "type Out%d struct{ N int }\n" % idx
    provs = []
    params = []
    decls = {}                      # other file -> list of declarations
    for j, (name, path, ty, ctor) in enumerate(picks):
        aliased = rnd.random() < 0.6
        local = (rnd.choice(["std", "x", "the"]) + name) if aliased else name
        imports.append("\t%s%s" % ((local + " ") if aliased else "", path))
        t = ty % local
        c = ctor.replace("%s", local)
        body += "func NewP%d_%d() %s { return %s }\n" % (idx, j, t, c)
        provs.append(rnd.choice(["kessoku.Async(kessoku.Provide(NewP%d_%d))", "kessoku.Provide(NewP%d_%d)"]) % (idx, j))
        params.append("p%d %s" % (j, t))
        if aliased and rnd.random() < 0.8:
            # the real name is free in the importing file: some other file of the package may declare it
            other = rnd.choice(["a_decl.go", "z_decl.go", "l_decl.go"])
            kind = rnd.choice(["var %s = %d", "const %s = %d", "func %s() int { return %d }", "type %s [%d]int"])
            decls.setdefault(other, []).append(kind % (name, j + 1))
    body += "func NewOut%d(%s) (*Out%d, error) { return &Out%d{N: %d}, nil }\n" % (idx, ", ".join(params), idx, idx, len(picks))
    provs.append("kessoku.Provide(NewOut%d)" % idx)
    body += 'var _ = kessoku.Inject[*Out%d]("InitOut%d",\n%s)\n' % (idx, idx, "".join("\t%s,\n" % x for x in provs))
    files = {inj_file: HDR + "import (\n" + "\n".join(sorted(imports + ['\t"github.com/mazrean/kessoku"'])) + "\n)\n\n" + body}
    for fn, ds in decls.items():
        files[fn] = HDR + "\n".join(ds) + "\n"
    return files, [inj_file], dict(kind="import-name clash", picks=[x[0] for x in picks], other_files=sorted(decls))


def third_pkg_clash(rnd, idx):
    """Types that reach the generated file only through a THIRD package: the providers live in svc, their result and
    parameter types in two packages that are both called config and that no file of the user's package imports; the user's
    package may also declare a package-level identifier config.  The generated file has to import both under distinct,
    fresh names (C04 type spelling / no clash, C12 import aliases share the file scope)."""
    name = "tp%d" % idx
    base = "vscratch/%s" % name
    pkgname = rnd.choice(["config", "config", "model", "types"])
    pair = rnd.random() < 0.5                # one two-result provider or two providers
    is_async = rnd.random() < 0.7
    user_decl = rnd.choice([None, None, "func %s() int { return 1 }", "var %s = 3", "type %s int"])
    files = {
        "alpha/%s/c.go" % pkgname: "package %s\n\ntype Config struct{ V int }\n" % pkgname,
        "beta/%s/c.go" % pkgname: "package %s\n\ntype Config struct{ V int }\n" % pkgname,
    }
    svc = 'package svc\n\nimport (\n\ta "%s/alpha/%s"\n\tb "%s/beta/%s"\n)\n\ntype Thing struct{ V int }\ntype Aux struct{ V int }\n\n' % (base, pkgname, base, pkgname)
    if pair:
        svc += "func NewPair() (*a.Config, *b.Config) { return &a.Config{V: 300}, &b.Config{V: 21} }\n"
    else:
        svc += "func NewA() *a.Config { return &a.Config{V: 300} }\nfunc NewB() (*b.Config, error) { return &b.Config{V: 21}, nil }\n"
    svc += "func NewAux() *Aux { return &Aux{V: 0} }\n"
    svc += "func NewThing(x *a.Config, y *b.Config, z *Aux) *Thing { return &Thing{V: x.V + y.V + z.V} }\n"
    files["svc/svc.go"] = svc
    w = (lambda e: "kessoku.Async(%s)" % e) if is_async else (lambda e: e)
    provs = [w("kessoku.Provide(svc.NewPair)")] if pair else [w("kessoku.Provide(svc.NewA)"), w("kessoku.Provide(svc.NewB)")]
    provs += [w("kessoku.Provide(svc.NewAux)"), "kessoku.Provide(svc.NewThing)"]
    rnd.shuffle(provs)
    reterr = not pair
    call = "InitThing(%s)" % ("context.Background()" if is_async else "")
    main = ("\tt, err := %s\n\tif err != nil || t.V != 321 {\n\t\tpanic(\"wrong result\")\n\t}\n" % call) if reterr else \
           ("\tif t := %s; t.V != 321 {\n\t\tpanic(\"wrong result\")\n\t}\n" % call)
    imps = ['\t"github.com/mazrean/kessoku"', '\t"%s/svc"' % base] + (['\t"context"'] if is_async else [])
    files["k.go"] = ("package main\n\nimport (\n%s\n)\n\nvar _ = kessoku.Inject[*svc.Thing](\"InitThing\",\n%s)\n\nfunc main() {\n%s}\n"
                     % ("\n".join(sorted(imps)), "".join("\t%s,\n" % x for x in provs), main))
    if user_decl:
        files[rnd.choice(["a_decl.go", "z_decl.go"])] = "package main\n\n" + (user_decl % pkgname) + "\n"
    return files, ["k.go"], dict(kind="types of packages the user's package does not import, two of one name", run=True,
                                  pkgname=pkgname, pair=pair, is_async=is_async, user_decl=user_decl)


# one invocation over files of TWO packages that have the same package name (`kessoku api/k.go worker/k.go`): the
# package-level names of each must be reserved when its injectors are generated
def multi_pkg(order):
    def pk(tag, T1, T2, T3):
        l1, l2, l3 = T1.lower(), T2.lower(), T3.lower()
        k = ('package main\n\nimport (\n\t"context"\n\n\t"github.com/mazrean/kessoku"\n)\n\n'
             'type {T1} struct{{ Addr string }}\ntype {T2} struct{{ A string }}\ntype {T3} struct{{ A string }}\n'
             'func New{T1}() *{T1} {{ return &{T1}{{Addr: {l1}.Addr}} }}\n'
             'func New{T2}(c *{T1}) (*{T2}, error) {{ return &{T2}{{A: c.Addr}}, nil }}\n'
             'func New{T3}(c *{T1}, s *{T2}) *{T3} {{ return &{T3}{{A: c.Addr + s.A + {l2}.A + {l3}}} }}\n'
             'var _ = kessoku.Inject[*{T3}]("InitApp",\n\tkessoku.Async(kessoku.Provide(New{T1})), kessoku.Async(kessoku.Provide(New{T2})), kessoku.Provide(New{T3}),\n)\n'
             'func main() {{\n\ta, err := InitApp(context.Background())\n\tif err != nil || a.A != "{tag}{tag}+{tag}" {{\n\t\tpanic("wrong result " + a.A)\n\t}}\n}}\n'
             ).format(T1=T1, T2=T2, T3=T3, l1=l1, l2=l2, l3=l3, tag=tag)
        dflt = 'package main\n\nvar %s = %s{Addr: "%s"}\n\nvar %s = %s{A: "+"}\n\nconst %s = "%s"\n' % (l1, T1, tag, l2, T2, l3, tag)
        return k, dflt
    files = {}
    for dname, tag, ts in (("api", "A", ("Config", "Store", "App")), ("worker", "W", ("Settings", "Queue", "Job"))):
        k, dflt = pk(tag, *ts)
        files["%s/k.go" % dname] = k
        files["%s/defaults.go" % dname] = dflt
    targets = ["api/k.go", "worker/k.go"] if order == 0 else ["worker/k.go", "api/k.go"]
    return files, targets, dict(kind="naming: two packages with the same name in one invocation", vet_pkgs=["./api", "./worker"], run_pkgs=["./api", "./worker"],
                                expect_funcs={"api/k_band.go": ["InitApp"], "worker/k_band.go": ["InitApp"]})


NAMING = {
    # allocator adversaries: every one of these must compile
    "suffix_types": '''type Foo struct{ X int }
type Foo0 struct{ X int }
type Foo1 struct{ X int }
type FooCh struct{ X int }
type FooCh0 struct{ X int }
type Err struct{ X int }
type Err0 struct{ X int }
type Err1 struct{ X int }
type Out struct{ N int }
func NewFoo() (*Foo, error) { return &Foo{}, nil }
func NewFooV() (Foo, error) { return Foo{}, nil }
func NewFoo0() (*Foo0, error) { return &Foo0{}, nil }
func NewFoo1(f Foo) *Foo1 { return &Foo1{} }
func NewFooCh() *FooCh { return &FooCh{} }
func NewFooCh0(f *Foo) (*FooCh0, error) { return &FooCh0{}, nil }
func NewErr() (*Err, error) { return &Err{}, nil }
func NewErr0(e *Err) (*Err0, error) { return &Err0{}, nil }
func NewErr1() *Err1 { return &Err1{} }
func NewOut(a *Foo, b *Foo0, c *Foo1, d *FooCh, e *FooCh0, f *Err, g *Err0, h *Err1) (*Out, error) { return &Out{N: 8}, nil }
var _ = kessoku.Inject[*Out]("InitOut",
	kessoku.Async(kessoku.Provide(NewFoo)), kessoku.Async(kessoku.Provide(NewFooV)), kessoku.Async(kessoku.Provide(NewFoo0)), kessoku.Async(kessoku.Provide(NewFoo1)),
	kessoku.Async(kessoku.Provide(NewFooCh)), kessoku.Async(kessoku.Provide(NewFooCh0)), kessoku.Async(kessoku.Provide(NewErr)),
	kessoku.Async(kessoku.Provide(NewErr0)), kessoku.Provide(NewErr1), kessoku.Provide(NewOut),
)
''',
    "package_level_names": '''type Widget struct{ X int }
type Gadget struct{ X int }
type Thing struct{ N int }
var widget = 1
var widgetCh = 2
var widget0 = 3
func gadget() int { return widget + widgetCh + widget0 + err + err0 + num }
var err = 4
var err0 = 5
const num = 6
type thing0 int
func NewWidget() (*Widget, error) { return &Widget{X: gadget()}, nil }
func NewGadget(w *Widget) (*Gadget, error) { return &Gadget{}, nil }
func NewNum() int { return 7 }
func NewThing(w *Widget, g *Gadget, n int) *Thing { return &Thing{N: n} }
var _ = kessoku.Inject[*Thing]("InitThing",
	kessoku.Async(kessoku.Provide(NewWidget)), kessoku.Async(kessoku.Provide(NewGadget)), kessoku.Async(kessoku.Provide(NewNum)), kessoku.Provide(NewThing),
)
''',
    "keyword_like_types": '''type Func struct{ X int }
type Type struct{ X int }
type Range struct{ X int }
type Len struct{ X int }
type Nil struct{ X int }
type String struct{ X int }
type Error struct{ X int }
type All struct{ N int }
func NewFunc() *Func { return &Func{} }
func NewType() (*Type, error) { return &Type{}, nil }
func NewRange() *Range { return &Range{} }
func NewLen() *Len { return &Len{} }
func NewNil() *Nil { return &Nil{} }
func NewString() *String { return &String{} }
func NewError() *Error { return &Error{} }
func NewAll(a *Func, b *Type, c *Range, d *Len, e *Nil, f *String, g *Error) *All { return &All{N: 7} }
var _ = kessoku.Inject[*All]("InitAll",
	kessoku.Async(kessoku.Provide(NewFunc)), kessoku.Async(kessoku.Provide(NewType)), kessoku.Async(kessoku.Provide(NewRange)), kessoku.Provide(NewLen),
	kessoku.Provide(NewNil), kessoku.Async(kessoku.Provide(NewString)), kessoku.Provide(NewError), kessoku.Provide(NewAll),
)
''',
}

# a file generated by another tool: its package-level names are live and must stay reserved
FOREIGN_GEN = '''// Code generated by "stringer -type=Pill"; DO NOT EDIT.

package main

var buildInfo = BuildInfo{Version: "1.4.2"}

var service0 = 0

func serviceCh() {}
'''
FOREIGN_USER = '''type BuildInfo struct{ Version string }
type Service struct{ V string }
type Service0 struct{ V string }
type App struct{ V string }
func NewInfo() *BuildInfo { return &buildInfo }
func NewService(b *BuildInfo) (*Service, error) { return &Service{V: b.Version}, nil }
func NewService0(b *BuildInfo) *Service0 { _ = service0; serviceCh(); return &Service0{V: b.Version} }
func NewApp(s *Service, t *Service0) *App { return &App{V: s.V + t.V} }
var _ = kessoku.Inject[*App]("InitApp",
	kessoku.Async(kessoku.Value(&buildInfo)), kessoku.Async(kessoku.Provide(NewService)), kessoku.Async(kessoku.Provide(NewService0)), kessoku.Provide(NewApp),
)
'''
FOREIGN_MAIN = '''
func main() {
	a, err := InitApp(context.Background())
	if err != nil || a.V != "1.4.21.4.2" {
		panic("wrong result")
	}
}
'''

KNOWN = {
    # reproducers of recorded findings: (source, regex on `go vet` output)
}

# reproducers of repaired defects (fixed: entries of known_findings.json): they must compile now, and a regression is a violation
REPAIRED = {
    # the error of eg.Wait() returned next to a result type that has no nil (repaired; was KF-C04-2)
    "nil_for_value_result": '''type Cfg struct{ N int }
type Dep struct{ N int }
func NewDep() (*Dep, error) { return &Dep{}, nil }
func NewOther() *int { n := 1; return &n }
func NewCfg(d *Dep, o *int) Cfg { return Cfg{N: *o} }
var _ = kessoku.Inject[Cfg]("InitCfg", kessoku.Async(kessoku.Provide(NewDep)), kessoku.Async(kessoku.Provide(NewOther)), kessoku.Provide(NewCfg))
''',
    # the errgroup local next to a variable named eg (type Eg); a second async injector in one file (both repaired)
    "eg_type": '''type Eg struct{ N int }
type Dep struct{ N int }
type Out struct{ N int }
func NewEg() *Eg { return &Eg{} }
func NewDep() *Dep { return &Dep{} }
func NewOut(e *Eg, d *Dep) *Out { return &Out{} }
var _ = kessoku.Inject[*Out]("InitOut", kessoku.Async(kessoku.Provide(NewEg)), kessoku.Async(kessoku.Provide(NewDep)), kessoku.Provide(NewOut))
''',
    "second_async_injector": '''type A struct{ N int }
type B struct{ N int }
type C struct{ N int }
type D struct{ N int }
func NewA() *A { return &A{} }
func NewB() *B { return &B{} }
func NewC(a *A, b *B) *C { return &C{} }
func NewD(a *A, b *B) *D { return &D{} }
var _ = kessoku.Inject[*C]("InitC", kessoku.Async(kessoku.Provide(NewA)), kessoku.Async(kessoku.Provide(NewB)), kessoku.Provide(NewC))
var _ = kessoku.Inject[*D]("InitD", kessoku.Async(kessoku.Provide(NewA)), kessoku.Async(kessoku.Provide(NewB)), kessoku.Provide(NewD))
''',
    "generic_instance": 'type Box[T any] struct{ V T }\ntype Out struct{ N int }\nfunc NewOut(b Box[int]) *Out { return &Out{N: b.V} }\nvar _ = kessoku.Inject[*Out]("InitOut", kessoku.Provide(NewOut))\n',
    "variadic_func": 'type Out struct{ N int }\nfunc NewOut(f func(...int) string) *Out { return &Out{N: len(f(1, 2))} }\nvar _ = kessoku.Inject[*Out]("InitOut", kessoku.Provide(NewOut))\n',
    "embedded_field": '''type Out struct{ N int }
type L struct{ X int }
func NewOut(s struct{ io.Reader; *L; A int }) *Out { return &Out{} }
var _ = kessoku.Inject[*Out]("InitOut", kessoku.Provide(NewOut))
''',
    "struct_tag": '''type Out struct{ N int }
func NewOut(s struct{ A int `json:"a"`; B string `k:"v" x:"y"` }) *Out { return &Out{} }
var _ = kessoku.Inject[*Out]("InitOut", kessoku.Provide(NewOut))
''',
}

# an injector argument whose type comes from a package the user's file does not import, while the file imports another
# package of the same name (repaired: the first spelling used the default package name, i.e. the OTHER package's type)
UNIMPORTED_CLASH = {
    "one/y/y.go": 'package y\n\ntype Thing struct{ S string }\n',
    "two/y/y.go": 'package y\n\ntype Thing struct{ S string }\ntype Other struct{}\n\nfunc NewOther() *Other { return &Other{} }\n',
    "a/a.go": 'package a\n\nimport (\n\toney "vscratch/fx_unimported_clash/one/y"\n\ttwoy "vscratch/fx_unimported_clash/two/y"\n)\n\ntype App struct{ S string }\n\nfunc NewApp(t oney.Thing, u *oney.Thing, o *twoy.Other) *App { return &App{S: t.S} }\n',
    "k.go": 'package main\n\nimport (\n\t"github.com/mazrean/kessoku"\n\t"vscratch/fx_unimported_clash/a"\n\t"vscratch/fx_unimported_clash/two/y"\n)\n\nvar _ = kessoku.Inject[*a.App]("InitApp", kessoku.Provide(y.NewOther), kessoku.Provide(a.NewApp))\n',
}

# a provider of *q.Impl bound to api.Svc: the generated file writes api.Svc only and must not import q (repaired: every import
# any type of a bound parameter refers to was marked used)
BIND_UNUSED_IMPORT = {
    "q/q.go": 'package q\n\ntype Impl struct{ S string }\n\nfunc (i *Impl) Get() string { return i.S }\n',
    "p/p.go": 'package p\n\nimport "vscratch/fx_bind_unused_import/q"\n\nfunc NewThing() *q.Impl { return &q.Impl{S: "x"} }\n',
    "api/api.go": 'package api\n\ntype Svc interface{ Get() string }\n',
    "r/r.go": 'package r\n\nimport "vscratch/fx_bind_unused_import/api"\n\ntype Repo struct{ S api.Svc }\n\nfunc NewRepo(s api.Svc) *Repo { return &Repo{S: s} }\nfunc NewAux() *Repo { return nil }\n',
    "k.go": 'package main\n\nimport (\n\t"github.com/mazrean/kessoku"\n\t"vscratch/fx_bind_unused_import/api"\n\t"vscratch/fx_bind_unused_import/p"\n\t"vscratch/fx_bind_unused_import/r"\n)\n\nvar _ = kessoku.Inject[api.Svc]("InitSvc", kessoku.Bind[api.Svc](kessoku.Provide(p.NewThing)))\n\ntype Out struct{ A *r.Repo }\n\nfunc NewOut(a *r.Repo, b *r.Repo) *Out { return &Out{A: a} }\n\nvar _ = kessoku.Inject[*Out]("InitOut", kessoku.Async(kessoku.Bind[api.Svc](kessoku.Provide(p.NewThing))), kessoku.Async(kessoku.Provide(r.NewRepo)), kessoku.Provide(NewOut))\n\nfunc main() { println(InitSvc().Get()) }\n',
}

# provider expressions copied into the generated file carry package qualifiers: with two packages of the same name imported
# by different files of the package, each qualifier must be rewritten to the name ITS package gets in the generated file
VALUE_QUALIFIER = {
    "staging/config/config.go": 'package config\n\nconst Region = "staging-local"\nconst Retries = 3\n\ntype Creds struct{ K string }\n',
    "prod/config/config.go": 'package config\n\nconst Region = "eu-west-1"\nconst Retries = 9\n',
    "defaults.go": 'package main\n\nimport (\n\t"github.com/mazrean/kessoku"\n\t"vscratch/value_qualifier/prod/config"\n)\n\ntype Region string\n\nvar DefaultsSet = kessoku.Set(kessoku.Value(Region(config.Region)))\n',
    "k.go": 'package main\n\nimport (\n\t"fmt"\n\n\t"github.com/mazrean/kessoku"\n\t"vscratch/value_qualifier/staging/config"\n)\n\ntype Retries int\ntype App struct{ S string }\n\nfunc NewApp(r Region, n Retries, c *config.Creds) *App { return &App{S: fmt.Sprintf("%s %d", r, n)} }\n\nvar _ = kessoku.Inject[*App]("InitApp", DefaultsSet, kessoku.Value(Retries(config.Retries)), kessoku.Provide(NewApp))\n\nfunc main() {\n\tif a := InitApp(nil); a.S != "eu-west-1 3" {\n\t\tpanic("wrong result " + a.S)\n\t}\n}\n',
}


# a Set declared in ANOTHER package and referred to as pkg.Set: the generator warns "not supported", drops the Set and
# turns everything it supplies into injector parameters (known finding KF-C10-1)
XSET = {
    "prov/p.go": 'package prov\n\nimport "github.com/mazrean/kessoku"\n\ntype A struct{ S string }\n\nfunc NewA() *A { return &A{S: "a"} }\n\nvar Base = kessoku.Set(kessoku.Provide(NewA))\n',
    "k.go": 'package main\n\nimport (\n\t"github.com/mazrean/kessoku"\n\t"vscratch/xset/prov"\n)\n\ntype B struct{ A *prov.A }\n\nfunc NewB(a *prov.A) *B { return &B{A: a} }\n\nvar _ = kessoku.Inject[*B]("InitB", prov.Base, kessoku.Provide(NewB))\n\nfunc main() {}\n',
}


# provider expressions that mention identifiers of a DOT-imported package (function, composite literal, type argument,
# inside a function literal): the generated file imports the package by name and has to qualify them (repaired)
DOT_IMPORT = {
    "prov/p.go": 'package prov\n\ntype A struct{ S string }\n\nfunc NewA() *A { return &A{S: "a"} }\n\ntype Port int\n\nvar Default = struct{ Port Port }{Port: 8080}\n\ntype Factory struct{ Tag string }\n\nfunc (f *Factory) NewLabel() Label { return Label(f.Tag) }\n\ntype Label string\n\nvar Labels = &Factory{Tag: "lbl"}\n',
    "k.go": 'package main\n\nimport (\n\t"github.com/mazrean/kessoku"\n\t. "vscratch/dot_import/prov"\n)\n\ntype B struct{ A *A }\ntype Box[T any] struct{ V T }\n\nfunc NewBox[T any]() Box[T] { return Box[T]{} }\nfunc NewB(a *A, b Box[A], n Name, p Port, l Label) *B { return &B{A: a} }\n\ntype Name string\n\nvar _ = kessoku.Inject[*B]("InitB", kessoku.Value(&A{S: "lit"}), kessoku.Provide(NewBox[A]), kessoku.Provide(func() Name { a := NewA(); return Name(a.S) }), kessoku.Value(Default.Port), kessoku.Provide(Labels.NewLabel), kessoku.Async(kessoku.Provide(NewB)))\n\nvar _ = kessoku.Inject[*A]("InitA", kessoku.Provide(NewA))\n\nfunc main() {\n\tif s := InitB(nil).A.S + InitA().S; s != "lita" {\n\t\tpanic("wrong result " + s)\n\t}\n}\n',
}


# declared injector names that are not Go identifiers: whatever the generator does with such a declaration, a file it
# writes has to compile (repaired: the names were emitted verbatim)
BAD_NAMES = {
    "k.go": 'package main\n\nimport "github.com/mazrean/kessoku"\n\ntype A struct{ S string }\n\nfunc NewA() *A { return &A{S: "a"} }\n\nvar _ = kessoku.Inject[*A]("type", kessoku.Provide(NewA))\nvar _ = kessoku.Inject[*A]("", kessoku.Provide(NewA))\nvar _ = kessoku.Inject[*A]("not an ident", kessoku.Provide(NewA))\nvar _ = kessoku.Inject[*A]("InitA", kessoku.Provide(NewA))\n\nfunc main() {\n\tif InitA().S != "a" {\n\t\tpanic("wrong result")\n\t}\n}\n',
}


# an alias and the type it stands for are ONE type: a requirement spelled through the alias is supplied by the provider of
# the target type (C10/C02), and two providers spelled differently still supply the same type (C09) (repaired)
ALIAS_KEYS = {
    "k.go": 'package main\n\nimport "github.com/mazrean/kessoku"\n\ntype A struct{ S string }\ntype X = A\ntype Str = string\ntype B struct{ A *A }\n\nfunc NewA() *A { return &A{S: "a"} }\nfunc NewB(x *X, s Str, t string, e any, f interface{}) *B { return &B{A: x} }\n\nvar _ = kessoku.Inject[*B]("InitB", kessoku.Provide(NewA), kessoku.Provide(NewB))\n\nfunc main() {\n\tif InitB("s", 1).A.S != "a" {\n\t\tpanic("wrong result")\n\t}\n}\n',
}
ALIAS_DUP = {
    "k.go": 'package main\n\nimport "github.com/mazrean/kessoku"\n\ntype A struct{ S string }\ntype X = A\ntype B struct{ A *A }\n\nfunc NewA() *A     { return &A{S: "a"} }\nfunc NewX() *X     { return &X{S: "x"} }\nfunc NewB(a *A) *B { return &B{A: a} }\n\nvar _ = kessoku.Inject[*B]("InitB", kessoku.Provide(NewA), kessoku.Provide(NewX), kessoku.Provide(NewB))\n\nfunc main() {}\n',
}


# type names that start with a non-ASCII upper-case letter: the derived variable names must stay identifiers (repaired)
UNICODE_TYPES = {
    "k.go": 'package main\n\nimport "github.com/mazrean/kessoku"\n\ntype \u00c9clair struct{ S string }\ntype \u00c0B struct{ E *\u00c9clair }\n\nfunc New\u00c9clair() (*\u00c9clair, error) { return &\u00c9clair{S: "e"}, nil }\nfunc New\u00c0B(e *\u00c9clair) *\u00c0B          { return &\u00c0B{E: e} }\n\nvar _ = kessoku.Inject[*\u00c0B]("Init\u00c0B", kessoku.Provide(New\u00c9clair), kessoku.Provide(New\u00c0B))\n\nfunc main() {\n\tv, err := Init\u00c0B()\n\tif err != nil || v.E.S != "e" {\n\t\tpanic("wrong result")\n\t}\n}\n',
}
# instances of generic ALIASES in spelled positions (var block, parameters), with package-qualified type arguments (repaired)
GENERIC_ALIAS = {
    "dsl/d.go": 'package dsl\n\nconst N = 3\n\ntype Thing struct{ V int }\n',
    "k.go": 'package main\n\nimport (\n\t"context"\n\n\t"github.com/mazrean/kessoku"\n\t"vscratch/generic_alias/dsl"\n)\n\ntype B[T any] = []T\ntype P[K comparable, V any] = map[K]V\n\nfunc NewB() B[dsl.Thing]          { return B[dsl.Thing]{{V: 1}} }\nfunc NewP() P[string, *dsl.Thing] { return nil }\n\ntype Out struct{ N int }\n\nfunc NewOut(b B[dsl.Thing], p P[string, *dsl.Thing], q B[int]) (*Out, error) { return &Out{N: len(b)}, nil }\n\nvar _ = kessoku.Inject[*Out]("InitOut", kessoku.Async(kessoku.Provide(NewB)), kessoku.Async(kessoku.Provide(NewP)), kessoku.Provide(NewOut))\n\n// the requested type mentions another package outside a type name: the constant of an array length\nfunc NewArr() [dsl.N]int { return [dsl.N]int{1, 2, 3} }\n\nvar _ = kessoku.Inject[[dsl.N]int]("InitArr", kessoku.Provide(NewArr))\n\nfunc main() {\n\to, err := InitOut(context.Background(), nil)\n\tif err != nil || o.N != 1 || InitArr()[2] != 3 {\n\t\tpanic("wrong result")\n\t}\n}\n',
}


# one type under its two predeclared spellings (byte/uint8, rune/int32): the supplier must be found (C02: the declared
# supplier is used, not a parameter)
BASIC_SPELLINGS = {
    "k.go": 'package main\n\nimport "github.com/mazrean/kessoku"\n\ntype Hasher struct{ Seed byte }\ntype Codec struct {\n\tH   *Hasher\n\tSep rune\n}\n\nvar seeds int\n\nfunc NewSeed() uint8             { seeds++; return 42 }\nfunc NewHasher(seed byte) *Hasher { return &Hasher{Seed: seed} }\nfunc NewCodec(h *Hasher, sep rune) *Codec { return &Codec{H: h, Sep: sep} }\n\nvar _ = kessoku.Inject[*Codec]("InitCodec", kessoku.Provide(NewSeed), kessoku.Provide(NewHasher), kessoku.Value(int32(58)), kessoku.Provide(NewCodec))\n\nfunc main() {\n\tvar f func() *Codec = InitCodec\n\tc := f()\n\tif c.H.Seed != 42 || c.Sep != 58 || seeds != 1 {\n\t\tpanic("wrong result")\n\t}\n}\n',
}


# a provider result nobody needs whose type comes from a package nothing else in the output mentions, in an injector
# with goroutines (variables predeclared): its import must not reach the output
UNUSED_RESULT_PKG = {
    "ext/e.go": 'package ext\n\ntype Token struct{ V string }\n',
    "prov.go": 'package main\n\nimport "vscratch/unused_result_pkg/ext"\n\ntype Config struct{ Name string }\ntype DB struct{ cfg *Config }\ntype Cache struct{}\ntype App struct {\n\tdb    *DB\n\tcache *Cache\n}\n\nfunc NewConfig() *Config { return &Config{Name: "x"} }\nfunc NewDB(c *Config) (*DB, ext.Token) { return &DB{cfg: c}, ext.Token{V: "t"} }\nfunc NewCache(c *Config) *Cache        { return &Cache{} }\nfunc NewApp(db *DB, cache *Cache) *App { return &App{db: db, cache: cache} }\n',
    "k.go": 'package main\n\nimport (\n\t"context"\n\n\t"github.com/mazrean/kessoku"\n)\n\nvar _ = kessoku.Inject[*App]("InitApp", kessoku.Provide(NewConfig), kessoku.Async(kessoku.Provide(NewDB)), kessoku.Async(kessoku.Provide(NewCache)), kessoku.Provide(NewApp))\n\nfunc main() {\n\tif a := InitApp(context.Background()); a == nil || a.db.cfg.Name != "x" {\n\t\tpanic("wrong result")\n\t}\n}\n',
}


# two sources in one invocation: an injector declared in the OTHER file is a package-level function of the package; a
# variable of this file's injector must not take its name (the copied literal calls it)
INJECTOR_NAMES_2 = {
    "types.go": 'package main\n\ntype Logger struct{ prefix string }\n\ntype App struct {\n\tlog      *Logger\n\tfallback *Logger\n}\n\nfunc NewLogger() *Logger { return &Logger{prefix: "app"} }\n',
    "a.go": 'package main\n\nimport "github.com/mazrean/kessoku"\n\nvar _ = kessoku.Inject[*App](\n\t"InitApp",\n\tkessoku.Provide(NewLogger),\n\tkessoku.Provide(func(l *Logger) *App { return &App{log: l, fallback: logger()} }),\n)\n',
    "b.go": 'package main\n\nimport "github.com/mazrean/kessoku"\n\nvar _ = kessoku.Inject[*Logger](\n\t"logger",\n\tkessoku.Provide(NewLogger),\n)\n',
    "main.go": 'package main\n\nfunc main() {\n\tapp := InitApp()\n\tif app.log == nil || app.fallback == nil || app.log == app.fallback {\n\t\tpanic("wrong result")\n\t}\n}\n',
}



# ---- round 10 (hunt on the unchanged tree): reproducers of the repaired defects and of the recorded findings
ROUND10 = {
    'PLUS_BUILD_TWO_LINES': '// +build linux darwin\n// +build amd64 arm64\n\npackage main\n\nimport "github.com/mazrean/kessoku"\n\ntype Config struct{}\ntype Server struct{ c *Config }\n\nfunc NewConfig() *Config          { return &Config{} }\nfunc NewServer(c *Config) *Server { return &Server{c} }\n\nvar _ = kessoku.Inject[*Server]("InitServer", kessoku.Provide(NewConfig), kessoku.Provide(NewServer))\n',
    'TEST_FILE_NAMES_TAGGED_TEST': '//go:build integration\n\npackage main\n\nimport "testing"\n\n// a helper of the integration tests, named like the package the generated file imports\nfunc errgroup(t *testing.T) { t.Helper() }\n\nfunc TestIntegration(t *testing.T) { errgroup(t) }\n',
    'PLATFORM_SIBLING_WIN': 'package main\n\n// only compiled on windows\nvar serviceName = "svc"\n',
    'PLATFORM_SIBLING': 'package main\n\nimport "github.com/mazrean/kessoku"\n\ntype A struct{}\n\nfunc NewA() *A { return &A{} }\n\nvar _ = kessoku.Inject[*A]("InitA", kessoku.Provide(NewA))\n\nfunc main() {\n\tif InitA() == nil {\n\t\tpanic("wrong result")\n\t}\n}\n',
    'DOT_KESSOKU_SET': 'package main\n\nimport . "github.com/mazrean/kessoku"\n\ntype DB struct{ S string }\ntype Cache struct{}\ntype App struct {\n\tD *DB\n\tC *Cache\n}\n\nfunc NewDB() *DB                  { return &DB{"db"} }\nfunc NewCache() *Cache            { return &Cache{} }\nfunc NewApp(d *DB, c *Cache) *App { return &App{d, c} }\n\nvar Base = Set(Provide(NewDB))\n\nvar _ = Inject[*App]("InitApp", Base, Set(Provide(NewCache)), Provide(NewApp))\nvar _ = Inject[*DB]("InitDB", Base)\n\nfunc main() {\n\tif InitApp().D.S != "db" || InitDB().S != "db" {\n\t\tpanic("wrong result")\n\t}\n}\n',
    'EMBEDDED_SEALED_LIB': 'package lib\n\ntype Sealed interface{ sealed() }\ntype node struct{}\n\nfunc (node) sealed()      {}\nfunc (node) Name() string { return "n" }\n\ntype App struct{ N string }\ntype Cache struct{}\n\nfunc NewNode() interface {\n\tSealed\n\tName() string\n} {\n\treturn node{}\n}\nfunc NewCache() *Cache { return &Cache{} }\nfunc NewApp(n interface {\n\tSealed\n\tName() string\n}, c *Cache) *App {\n\treturn &App{n.Name()}\n}\n',
    'EMBEDDED_SEALED': 'package main\n\nimport (\n\t"context"\n\n\t"github.com/mazrean/kessoku"\n\t"vscratch/embedded_sealed/lib"\n)\n\nvar _ = kessoku.Inject[*lib.App]("InitApp", kessoku.Async(kessoku.Provide(lib.NewNode)), kessoku.Async(kessoku.Provide(lib.NewCache)), kessoku.Provide(lib.NewApp))\n\nfunc main() { _ = InitApp(context.Background()) }\n',
    'NAME_INIT': 'package main\n\nimport "github.com/mazrean/kessoku"\n\ntype App struct{}\n\nfunc NewApp() *App { return &App{} }\n\nvar _ = kessoku.Inject[*App]("init", kessoku.Provide(NewApp))\n\nfunc main() {}\n',
    'UNEXPORTED_MEMBERS_LIB': 'package lib\n\ntype Opts = struct{ verbose bool }\ntype Sealed = interface{ sealed() }\ntype impl struct{}\n\nfunc (impl) sealed() {}\n\ntype App struct{ V bool }\ntype Cache struct{}\n\nfunc NewOpts() struct{ verbose bool }   { return struct{ verbose bool }{true} }\nfunc NewCache() *Cache                  { return &Cache{} }\nfunc NewApp(o struct{ verbose bool }, c *Cache) *App { return &App{o.verbose} }\nfunc NewSealed() interface{ sealed() }  { return impl{} }\n',
    'UNEXPORTED_MEMBERS': 'package main\n\nimport (\n\t"context"\n\n\t"github.com/mazrean/kessoku"\n\t"vscratch/unexported_members/lib"\n)\n\nvar _ = kessoku.Inject[*lib.App]("InitApp", kessoku.Async(kessoku.Provide(lib.NewOpts)), kessoku.Async(kessoku.Provide(lib.NewCache)), kessoku.Provide(lib.NewApp))\n\nfunc main() { _ = InitApp(context.Background()) }\n',
    'UNEXPORTED_MEMBERS_PARAM': 'package main\n\nimport (\n\t"github.com/mazrean/kessoku"\n\t"vscratch/unexported_members_param/lib"\n)\n\nvar _ = kessoku.Inject[*lib.App]("InitApp", kessoku.Provide(lib.NewCache), kessoku.Provide(lib.NewApp))\n\nfunc main() {}\n',
    'TEST_FILE_NAMES': 'package main\n\nimport (\n\t"context"\n\n\t"github.com/mazrean/kessoku"\n)\n\ntype A struct{}\ntype C struct{}\ntype B struct{ a *A }\n\nfunc NewA() *A           { return &A{} }\nfunc NewC() *C           { return &C{} }\nfunc NewB(a *A, c *C) *B { return &B{a} }\n\nvar _ = kessoku.Inject[*B]("InitB", kessoku.Async(kessoku.Provide(NewA)), kessoku.Async(kessoku.Provide(NewC)), kessoku.Provide(NewB))\n\nfunc main() { _ = InitB(context.Background()) }\n',
    'TEST_FILE_NAMES_TEST': 'package main\n\nimport "testing"\n\n// a helper of the package\'s own tests, named like the package the generated file imports\nfunc errgroup(t *testing.T) { t.Helper() }\n\nfunc TestB(t *testing.T) { errgroup(t) }\n',
    'TAGGED_X': '//go:build integration\n\npackage main\n\nimport (\n\t"context"\n\n\t"github.com/mazrean/kessoku"\n)\n\ntype A struct{}\ntype C struct{}\ntype B struct{ a *A }\n\nfunc NewA() *A           { return &A{} }\nfunc NewC() *C           { return &C{} }\nfunc NewB(a *A, c *C) *B { return &B{a} }\n\nvar _ = kessoku.Inject[*B]("InitB", kessoku.Async(kessoku.Provide(NewA)), kessoku.Async(kessoku.Provide(NewC)), kessoku.Provide(NewB))\n\nfunc main() { _ = InitB(context.Background()) }\n',
    'TAGGED_Y': '//go:build integration\n\npackage main\n\n// a package-level name of the same package, in the same build configuration as x.go\nvar errgroup = "taken"\n\nvar _ = errgroup\n',
    'LOCAL_REF_CLOSURE': 'package main\n\nimport "github.com/mazrean/kessoku"\n\ntype App struct{ Limit int }\n\nfunc NewApp(n int) *App { return &App{n} }\n\nvar limit = 1\n\nfunc setup() {\n\tlimit := 2\n\t_ = kessoku.Inject[*App]("InitApp",\n\t\tkessoku.Provide(func() int { return limit }),\n\t\tkessoku.Provide(NewApp),\n\t)\n}\n\nfunc main() {\n\tsetup()\n\tif InitApp().Limit != 2 {\n\t\tpanic("wrong result")\n\t}\n}\n',
    'LOCAL_REF_IN_SET': 'package main\n\nimport "github.com/mazrean/kessoku"\n\ntype App struct{ Limit int }\n\nfunc NewApp(n int) *App { return &App{n} }\n\nvar limit = 1\n\nfunc setup() {\n\tlimit := 2\n\tproviders := kessoku.Set(kessoku.Value(limit), kessoku.Provide(NewApp))\n\t_ = kessoku.Inject[*App]("InitApp", providers)\n}\n\nfunc main() {\n\tsetup()\n\tif InitApp().Limit != 2 {\n\t\tpanic("wrong result")\n\t}\n}\n',
    'LOCAL_SET_SAME_NAME': 'package main\n\nimport "github.com/mazrean/kessoku"\n\ntype A struct{ s string }\ntype B struct{ a *A }\ntype C struct{ s string }\ntype D struct{ c *C }\n\nfunc NewA() *A     { return &A{"a"} }\nfunc NewB(a *A) *B { return &B{a} }\nfunc NewC() *C     { return &C{"c"} }\nfunc NewD(c *C) *D { return &D{c} }\n\nfunc first() {\n\tset := kessoku.Set(kessoku.Provide(NewA), kessoku.Provide(NewB))\n\t_ = kessoku.Inject[*B]("InitB", set)\n}\n\nfunc second() {\n\tset := kessoku.Set(kessoku.Provide(NewC), kessoku.Provide(NewD))\n\t_ = kessoku.Inject[*D]("InitD", set)\n}\n\nfunc main() {\n\tvar f func() *B = InitB\n\tvar g func() *D = InitD\n\tif f().a.s != "a" || g().c.s != "c" {\n\t\tpanic("wrong result")\n\t}\n}\n',
    'LOCAL_SET_SAME_NAME_CYCLE': 'package main\n\nimport "github.com/mazrean/kessoku"\n\ntype A struct{ s string }\ntype B struct{ a *A }\ntype C struct{ s string }\ntype D struct{ c *C }\n\nfunc NewA() *A     { return &A{"a"} }\nfunc NewB(a *A) *B { return &B{a} }\nfunc NewC(d *D) *C { return &C{"c"} }\nfunc NewD(c *C) *D { return &D{c} }\n\nfunc first() {\n\tset := kessoku.Set(kessoku.Provide(NewA), kessoku.Provide(NewB))\n\t_ = kessoku.Inject[*B]("InitB", set)\n}\n\nfunc second() {\n\tset := kessoku.Set(kessoku.Provide(NewC), kessoku.Provide(NewD))\n\t_ = kessoku.Inject[*D]("InitD", set)\n}\n\nfunc main() {\n}\n',
    'NAME_TAKEN_DOT_LIB': 'package lib\n\ntype Tool struct{}\n\nfunc InitApp() *Tool { return &Tool{} }\n',
    'NAME_TAKEN_DOT_HELPERS': 'package main\n\nimport . "vscratch/name_taken_dot/lib"\n\nvar tool = InitApp()\n',
    'NAME_TAKEN_DOT': 'package main\n\nimport "github.com/mazrean/kessoku"\n\ntype Svc struct{}\n\nfunc NewSvc() *Svc { return &Svc{} }\n\nvar _ = kessoku.Inject[*Svc]("InitApp", kessoku.Provide(NewSvc))\n\nfunc main() { _ = tool }\n',
    'SIBLING_CONF': 'package conf\n\ntype Conf struct{ N int }\n',
    'SIBLING_APP': 'package app\n\nimport "vscratch/inaccessible_sibling/app/internal/conf"\n\ntype Svc struct{ C *conf.Conf }\ntype Cache struct{}\n\nfunc NewConf() *conf.Conf            { return &conf.Conf{N: 1} }\nfunc NewCache() *Cache               { return &Cache{} }\nfunc NewSvc(c *conf.Conf, k *Cache) *Svc { return &Svc{c} }\n',
    'SIBLING_K': 'package main\n\nimport (\n\t"context"\n\n\t"github.com/mazrean/kessoku"\n\t"vscratch/inaccessible_sibling/app"\n)\n\nvar _ = kessoku.Inject[*app.Svc]("InitSvc", kessoku.Async(kessoku.Provide(app.NewConf)), kessoku.Async(kessoku.Provide(app.NewCache)), kessoku.Provide(app.NewSvc))\n\nfunc main() { _ = InitSvc(context.Background()) }\n',
    'BIND_STRUCT_NESTED': 'package main\n\nimport "github.com/mazrean/kessoku"\n\ntype Logger interface{ Log() string }\ntype FileLogger struct {\n\tLevel Level\n\tpath  string\n}\ntype Level int\n\nfunc (f *FileLogger) Log() string { return f.path }\n\ntype Config struct{ Logger *FileLogger }\n\nfunc NewConfig() *Config { return &Config{Logger: &FileLogger{Level: 2, path: "/var/log"}} }\n\ntype Server struct {\n\tL  Logger\n\tLv Level\n}\n\nfunc NewServer(l Logger, lv Level) *Server { return &Server{l, lv} }\n\nvar _ = kessoku.Inject[*Server]("InitNested", kessoku.Provide(NewConfig), kessoku.Struct[*Config](), kessoku.Bind[Logger](kessoku.Struct[*FileLogger]()), kessoku.Provide(NewServer))\nvar _ = kessoku.Inject[*Server]("InitNested2", kessoku.Bind[Logger](kessoku.Struct[*FileLogger]()), kessoku.Provide(NewServer), kessoku.Struct[*Config](), kessoku.Provide(NewConfig))\n\nfunc main() {\n\tvar f func() *Server = InitNested\n\tvar g func() *Server = InitNested2\n\tif f().L.Log() != "/var/log" || g().Lv != 2 {\n\t\tpanic("wrong result")\n\t}\n}\n',
    'INACCESSIBLE_PARAM_LIB': 'package lib\n\ntype config struct{ N int }\ntype Server struct{ C config }\n\nfunc NewConfig() config          { return config{N: 1} }\nfunc NewServer(c config) *Server { return &Server{c} }\n',
    'INACCESSIBLE_PARAM': 'package main\n\nimport (\n\t"github.com/mazrean/kessoku"\n\t"vscratch/inaccessible_param/lib"\n)\n\nvar _ = kessoku.Inject[*lib.Server]("InitServer", kessoku.Provide(lib.NewServer))\n\nfunc main() {}\n',
    'LOCAL_REF_SHADOW': 'package main\n\nimport "github.com/mazrean/kessoku"\n\ntype Config struct{ Port int }\ntype Server struct{ Cfg Config }\n\nfunc NewServer(c Config) *Server { return &Server{c} }\n\nvar port = 1 // default\n\nfunc setup() {\n\tport := 8080\n\t_ = kessoku.Inject[*Server]("InitServer",\n\t\tkessoku.Value(Config{Port: port}),\n\t\tkessoku.Provide(NewServer),\n\t)\n}\n\nfunc main() {\n\tsetup()\n\tif InitServer().Cfg.Port != 8080 {\n\t\tpanic("wrong result")\n\t}\n}\n',
    'LOCAL_REF_ASYNC': 'package main\n\nimport (\n\t"context"\n\n\t"github.com/mazrean/kessoku"\n)\n\ntype DB struct{ dsn string }\ntype Cache struct{ addr string }\ntype App struct {\n\tdb    *DB\n\tcache *Cache\n}\n\nfunc NewCache() *Cache             { return &Cache{"c"} }\nfunc NewApp(db *DB, c *Cache) *App { return &App{db, c} }\n\nfunc setup(dsn string) {\n\tdb := &DB{dsn}\n\t_ = kessoku.Inject[*App]("InitApp",\n\t\tkessoku.Async(kessoku.Value(db)),\n\t\tkessoku.Async(kessoku.Provide(NewCache)),\n\t\tkessoku.Provide(NewApp),\n\t)\n}\n\nfunc main() {\n\tsetup("dsn")\n\tapp := InitApp(context.Background())\n\tif app.db == nil || app.db.dsn != "dsn" {\n\t\tpanic("wrong result")\n\t}\n}\n',
    'NAME_TAKEN_IMPORT_LIB': 'package server\n\ntype Server struct{ Addr string }\n\nfunc New() *Server { return &Server{Addr: ":80"} }\n',
    'NAME_TAKEN_IMPORT': 'package main\n\nimport (\n\t"github.com/mazrean/kessoku"\n\t"vscratch/name_taken_import/server"\n)\n\nvar _ = kessoku.Inject[*server.Server]("server", kessoku.Provide(server.New))\n\nfunc main() {}\n',
    'IMPORT_LOCAL_CONFIG': 'package config\n\ntype Conf struct{ Name string }\ntype Settings struct{ C *Conf }\n\nfunc New(c *Conf) *Settings { return &Settings{C: c} }\nfunc Default() *Conf        { return &Conf{Name: "d"} }\n',
    'IMPORT_LOCAL_SETS': 'package main\n\nimport (\n\t"github.com/mazrean/kessoku"\n\t"vscratch/import_local_xfile/config"\n)\n\nvar BaseSet = kessoku.Set(\n\tkessoku.Provide(config.Default),\n\tkessoku.Provide(func(cfg *config.Conf) *config.Settings { return config.New(cfg) }),\n)\n',
    'IMPORT_LOCAL_MAIN': 'package main\n\nimport (\n\t"github.com/mazrean/kessoku"\n\tcfg "vscratch/import_local_xfile/config"\n)\n\ntype App struct{ S *cfg.Settings }\n\nfunc NewApp(s *cfg.Settings) *App { return &App{S: s} }\n\nvar _ = kessoku.Inject[*App]("InitApp", BaseSet, kessoku.Provide(NewApp))\n\nfunc main() {\n\tif InitApp().S.C.Name != "d" {\n\t\tpanic("wrong result")\n\t}\n}\n',
    'DOT_QUALIFIER_PARAM': 'package main\n\nimport (\n\t"github.com/mazrean/kessoku"\n\t. "vscratch/dot_qualifier_param/config"\n)\n\ntype App struct{ S *Settings }\n\nfunc NewApp(s *Settings) *App { return &App{S: s} }\n\nvar _ = kessoku.Inject[*App]("InitApp",\n\tkessoku.Provide(Default),\n\tkessoku.Provide(func(config *Conf) *Settings { return New(config) }),\n\tkessoku.Provide(NewApp),\n)\n\nfunc main() {\n\tif InitApp().S.C.Name != "d" {\n\t\tpanic("wrong result")\n\t}\n}\n',
    'DOT_QUALIFIER_LOCAL_LIB': 'package config\n\ntype Config struct{ Port int }\ntype Server struct{ Cfg Config }\n\nfunc Load() Config               { return Config{Port: 8080} }\nfunc NewServer(c Config) *Server { return &Server{c} }\n',
    'DOT_QUALIFIER_LOCAL': 'package main\n\nimport (\n\t. "vscratch/dot_qualifier_local/config"\n\n\t"github.com/mazrean/kessoku"\n)\n\nvar _ = kessoku.Inject[*Server]("InitServer",\n\tkessoku.Provide(func() *Server {\n\t\tconfig := Load()\n\t\tconfig.Port++\n\t\treturn NewServer(config)\n\t}),\n)\n\nfunc main() {\n\tif InitServer().Cfg.Port != 8081 {\n\t\tpanic("wrong result")\n\t}\n}\n',
    'SET_MULTI_VALUE': 'package main\n\nimport "github.com/mazrean/kessoku"\n\ntype A struct{}\ntype B struct{ a *A }\ntype App struct{ b *B }\n\nfunc NewA() *A         { return &A{} }\nfunc NewB(a *A) *B     { return &B{a} }\nfunc NewApp(b *B) *App { return &App{b} }\n\nfunc two[T any](x, y T) (T, T) { return x, y }\n\nvar s1, s2 = two(kessoku.Set(kessoku.Provide(NewA)), kessoku.Set(kessoku.Provide(NewB)))\n\nvar _ = kessoku.Inject[*App]("InitApp", s1, s2, kessoku.Provide(NewApp))\n\nfunc main() {}\n',
    'BIND_STRUCT2': 'package main\n\nimport "github.com/mazrean/kessoku"\n\ntype Store interface{ Name() string }\ntype Lag int\ntype Primary struct{ n string }\ntype Replica struct {\n\tLag Lag\n\tn   string\n}\n\nfunc (p *Primary) Name() string { return p.n }\nfunc (r *Replica) Name() string { return r.n }\n\nfunc NewStores() (*Primary, *Replica) { return &Primary{"primary"}, &Replica{Lag: 3, n: "replica"} }\n\ntype App struct {\n\tS Store\n\tL Lag\n\tP *Primary\n}\n\nfunc NewApp(s Store, l Lag, p *Primary) *App { return &App{s, l, p} }\n\nvar _ = kessoku.Inject[*App]("InitApp", kessoku.Provide(NewStores), kessoku.Bind[Store](kessoku.Struct[*Replica]()), kessoku.Provide(NewApp))\n\nfunc main() {\n\tvar f func() *App = InitApp\n\ta := f()\n\tif a.S.Name() != "replica" || a.L != 3 || a.P.Name() != "primary" {\n\t\tpanic("wrong result")\n\t}\n}\n',
    'BIND_STRUCT_NOFIELDS': 'package main\n\nimport "github.com/mazrean/kessoku"\n\ntype Greeter interface{ Greet() string }\ntype impl struct{ s string }\n\nfunc (i *impl) Greet() string { return i.s }\nfunc NewImpl() *impl          { return &impl{"hi"} }\n\ntype App struct{ G Greeter }\n\nfunc NewApp(g Greeter) *App { return &App{g} }\n\nvar _ = kessoku.Inject[*App]("InitApp", kessoku.Provide(NewImpl), kessoku.Bind[Greeter](kessoku.Struct[*impl]()), kessoku.Provide(NewApp))\n\nfunc main() {\n\tvar f func() *App = InitApp\n\tif f().G.Greet() != "hi" {\n\t\tpanic("wrong result")\n\t}\n}\n',
    'LOCAL_SET2': 'package main\n\nimport "github.com/mazrean/kessoku"\n\ntype A struct{}\ntype B struct{ a *A }\ntype App struct{ b *B }\n\nfunc NewA() *A          { return &A{} }\nfunc NewB(a *A) *B      { return &B{a} }\nfunc NewApp(b *B) *App  { return &App{b} }\n\nfunc wiring() {\n\tbase, extra := kessoku.Set(kessoku.Provide(NewA)), kessoku.Set(kessoku.Provide(NewB))\n\t_ = kessoku.Inject[*App]("InitApp", base, extra, kessoku.Provide(NewApp))\n}\n\nfunc main() {\n\tvar f func() *App = InitApp\n\tif f().b.a == nil {\n\t\tpanic("wrong result")\n\t}\n}\n',
    'LOCAL_SET2_DUP': 'package main\n\nimport "github.com/mazrean/kessoku"\n\ntype A struct{}\ntype B struct{ a *A }\ntype App struct{ b *B }\n\nfunc NewA() *A          { return &A{} }\nfunc NewB(a *A) *B      { return &B{a} }\nfunc NewB2() *B          { return &B{} }\nfunc NewApp(b *B) *App  { return &App{b} }\n\nfunc wiring() {\n\tbase, extra := kessoku.Set(kessoku.Provide(NewA)), kessoku.Set(kessoku.Provide(NewB), kessoku.Provide(NewB2))\n\t_ = kessoku.Inject[*App]("InitApp", base, extra, kessoku.Provide(NewApp))\n}\n\nfunc main() {\n}\n',
    'SELF_FIELD_DUP': 'package main\n\nimport "github.com/mazrean/kessoku"\n\ntype Node struct {\n\tParent *Node\n\tName   string\n}\ntype App struct{ n string }\n\nfunc NewRoot() *Node     { return &Node{Name: "root"} }\nfunc NewApp(n string) *App { return &App{n} }\n\nvar _ = kessoku.Inject[*App]("InitApp", kessoku.Provide(NewRoot), kessoku.Struct[*Node](), kessoku.Provide(NewApp))\n\nfunc main() {}\n',
    'NAME_TAKEN_FUNCBODY': 'package main\n\nimport "github.com/mazrean/kessoku"\n\ntype DB struct{}\ntype Server struct{ d *DB }\n\nfunc NewDB() *DB            { return &DB{} }\nfunc NewServer(d *DB) *Server { return &Server{d} }\n\nfunc InitServer() *Server { return NewServer(NewDB()) }\n\nfunc wiring() {\n\tbase := kessoku.Set(kessoku.Provide(NewDB))\n\t_ = kessoku.Inject[*Server]("InitServer", base, kessoku.Provide(NewServer))\n}\n\nfunc main() { _ = InitServer() }\n',
    'BUILTIN_ERROR_ASYNC': 'package main\n\nimport (\n\t"context"\n\n\t"github.com/mazrean/kessoku"\n)\n\ntype error struct {\n\tCode int\n\tMsg  string\n}\n\ntype A struct{}\ntype C struct{}\ntype B struct{ a *A }\n\nfunc NewA() *A           { return &A{} }\nfunc NewC() *C           { return &C{} }\nfunc NewB(a *A, c *C) *B { return &B{a} }\n\nvar _ = kessoku.Inject[*B]("InitB", kessoku.Async(kessoku.Provide(NewA)), kessoku.Async(kessoku.Provide(NewC)), kessoku.Provide(NewB))\n\nfunc main() {\n\t_ = error{}\n\tif InitB(context.Background()) == nil {\n\t\tpanic("wrong result")\n\t}\n}\n',
    'DOT_KESSOKU': 'package main\n\nimport (\n\t"context"\n\n\t. "github.com/mazrean/kessoku"\n)\n\ntype DB struct{ S string }\ntype Cache struct{}\ntype App struct {\n\tD *DB\n\tC *Cache\n}\n\nfunc NewDB() (*DB, error)         { return &DB{"db"}, nil }\nfunc NewCache() *Cache            { return &Cache{} }\nfunc NewApp(d *DB, c *Cache) *App { return &App{d, c} }\n\nvar _ = Inject[*App]("InitApp", Async(Provide(NewDB)), Async(Provide(NewCache)), Provide(NewApp))\n\nfunc main() {\n\ta, err := InitApp(context.Background())\n\tif err != nil || a.D.S != "db" {\n\t\tpanic("wrong result")\n\t}\n}\n',
    'ERR_NOT_LAST': 'package main\n\nimport (\n\t"errors"\n\n\t"github.com/mazrean/kessoku"\n)\n\ntype Conn struct{ S string }\ntype Warning interface{ Error() string }\ntype App struct {\n\tC *Conn\n\tW Warning\n}\n\nfunc Open() (*Conn, error, Warning) { return &Conn{"c"}, nil, errors.New("deprecated driver") }\nfunc NewApp(c *Conn, w Warning) *App { return &App{c, w} }\n\nvar _ = kessoku.Inject[*App]("InitApp", kessoku.Provide(Open), kessoku.Provide(NewApp))\n\ntype Svc struct{ C *Conn }\n\nfunc Dial() (error, *Conn)  { return nil, &Conn{"d"} }\nfunc NewSvc(c *Conn) *Svc   { return &Svc{c} }\n\nvar _ = kessoku.Inject[*Svc]("InitSvc", kessoku.Provide(Dial), kessoku.Provide(NewSvc))\n\nfunc main() {\n\ta, err := InitApp()\n\tif err != nil || a == nil || a.C.S != "c" || a.W == nil || a.W.Error() != "deprecated driver" {\n\t\tpanic("wrong result")\n\t}\n\ts, err := InitSvc()\n\tif err != nil || s.C.S != "d" {\n\t\tpanic("wrong result")\n\t}\n}\n',
    'BIND_STRUCT': 'package main\n\nimport "github.com/mazrean/kessoku"\n\ntype Namer interface{ Name() string }\ntype Port int\ntype Config struct {\n\tPort Port\n\tname string\n}\n\nfunc (c *Config) Name() string { return c.name }\nfunc NewConfig() *Config       { return &Config{Port: 5, name: "cfg"} }\n\ntype App struct {\n\tN Namer\n\tP Port\n}\n\nfunc NewApp(n Namer, p Port) *App { return &App{n, p} }\n\nvar _ = kessoku.Inject[*App]("InitApp", kessoku.Provide(NewConfig), kessoku.Bind[Namer](kessoku.Struct[*Config]()), kessoku.Provide(NewApp))\n\nfunc main() {\n\tvar f func() *App = InitApp\n\ta := f()\n\tif a.N.Name() != "cfg" || a.P != 5 {\n\t\tpanic("wrong result")\n\t}\n}\n',
    'BIND_STRUCT_DUP': 'package main\n\nimport "github.com/mazrean/kessoku"\n\ntype Namer interface{ Name() string }\ntype Port int\ntype Config struct {\n\tPort Port\n\tname string\n}\n\nfunc (c *Config) Name() string { return c.name }\nfunc NewConfig() *Config       { return &Config{Port: 5, name: "cfg"} }\n\ntype Other struct{}\n\nfunc (*Other) Name() string { return "other" }\nfunc NewOther() *Other      { return &Other{} }\n\ntype App struct{ N Namer }\n\nfunc NewApp(n Namer, p Port) *App { return &App{n} }\n\nvar _ = kessoku.Inject[*App]("InitApp", kessoku.Provide(NewConfig), kessoku.Bind[Namer](kessoku.Struct[*Config]()), kessoku.Bind[Namer](kessoku.Provide(NewOther)), kessoku.Provide(NewApp))\n\nfunc main() {}\n',
    'BUILTIN_CLOSE': 'package main\n\nimport (\n\t"context"\n\n\t"github.com/mazrean/kessoku"\n)\n\ntype A struct{}\ntype C struct{}\ntype B struct{ a *A }\n\nfunc close(v any) {}\n\nfunc NewA() *A     { return &A{} }\nfunc NewC() *C     { return &C{} }\nfunc NewB(a *A, c *C) *B { return &B{a} }\n\nvar _ = kessoku.Inject[*B]("InitB", kessoku.Async(kessoku.Provide(NewA)), kessoku.Async(kessoku.Provide(NewC)), kessoku.Provide(NewB))\n\nfunc main() {\n\tclose(nil)\n\tif InitB(context.Background()) == nil {\n\t\tpanic("wrong result")\n\t}\n}\n',
    'BUILTIN_MAKE': 'package main\n\nimport (\n\t"context"\n\n\t"github.com/mazrean/kessoku"\n)\n\ntype A struct{}\ntype C struct{}\ntype B struct{ a *A }\n\nvar make = 1\n\nfunc NewA() *A     { return &A{} }\nfunc NewC() *C     { return &C{} }\nfunc NewB(a *A, c *C) *B { return &B{a} }\n\nvar _ = kessoku.Inject[*B]("InitB", kessoku.Async(kessoku.Provide(NewA)), kessoku.Async(kessoku.Provide(NewC)), kessoku.Provide(NewB))\n\nfunc main() {\n\t_ = make\n\tif InitB(context.Background()) == nil {\n\t\tpanic("wrong result")\n\t}\n}\n',
    'FUNC_TYPE': 'package main\n\nimport "github.com/mazrean/kessoku"\n\ntype DB struct{ S string }\ntype Factory func() *DB\ntype Maker = func(*DB) *App\ntype App struct{ D *DB }\n\nvar factory Factory = func() *DB { return &DB{"db"} }\nvar maker Maker = func(d *DB) *App { return &App{d} }\n\nvar _ = kessoku.Inject[*App]("InitApp", kessoku.Provide(factory), kessoku.Provide(maker))\n\nfunc main() {\n\tif InitApp().D.S != "db" {\n\t\tpanic("wrong result")\n\t}\n}\n',
    'STRUCT_ALIAS_PTR': 'package main\n\nimport "github.com/mazrean/kessoku"\n\ntype Port int\ntype Config struct{ Port Port }\ntype ConfigPtr = *Config\ntype App struct{ P Port }\n\nfunc NewConfig() *Config { return &Config{Port: 7} }\nfunc NewApp(p Port) *App { return &App{p} }\n\nvar _ = kessoku.Inject[*App]("InitApp", kessoku.Provide(NewConfig), kessoku.Struct[ConfigPtr](), kessoku.Provide(NewApp))\n\nfunc main() {\n\tif InitApp().P != 7 {\n\t\tpanic("wrong result")\n\t}\n}\n',
    'LOCAL_SET': 'package main\n\nimport "github.com/mazrean/kessoku"\n\ntype DB struct{ S string }\ntype App struct{ D *DB }\n\nfunc NewDB() *DB        { return &DB{"db"} }\nfunc NewApp(d *DB) *App { return &App{d} }\n\nfunc wiring() {\n\ts := kessoku.Set(kessoku.Provide(NewDB))\n\t_ = kessoku.Inject[*App]("InitApp", s, kessoku.Provide(NewApp))\n}\n\nfunc main() {\n\tvar f func() *App = InitApp\n\tif f().D.S != "db" {\n\t\tpanic("wrong result")\n\t}\n}\n',
    'SHARED_SET_DOT_LIB': 'package lib\n\nfunc NewName() string { return "x" }\n',
    'SHARED_SET_DOT': 'package main\n\nimport (\n\t. "vscratch/shared_set_dot/lib"\n\n\t"github.com/mazrean/kessoku"\n)\n\ntype Repo struct{}\ntype App struct{ name string }\n\nfunc NewRepo() *Repo                { return &Repo{} }\nfunc NewApp(n string, _ *Repo) *App { return &App{n} }\n\nvar Set = kessoku.Set(\n\tkessoku.Provide(NewName),\n\tkessoku.Provide(NewRepo),\n\tkessoku.Provide(NewApp),\n)\n\nvar _ = kessoku.Inject[*Repo]("InitRepo", Set)\nvar _ = kessoku.Inject[*App]("InitApp", Set)\n\nfunc main() {\n\tif InitRepo() == nil || InitApp().name != "x" {\n\t\tpanic("wrong result")\n\t}\n}\n',
    'NAME_TAKEN_A': 'package main\n\nimport "github.com/mazrean/kessoku"\n\ntype Repo struct{}\ntype App struct{ r *Repo }\n\nfunc NewRepo() *Repo      { return &Repo{} }\nfunc NewApp(r *Repo) *App { return &App{r} }\n\nvar _ = kessoku.Inject[*App]("NewApp", kessoku.Provide(NewRepo), kessoku.Provide(NewApp))\n\nfunc main() {}\n',
    'NAME_TAKEN_B': 'package main\n\nimport "github.com/mazrean/kessoku"\n\ntype Repo struct{}\ntype App struct{ r *Repo }\n\nfunc NewRepo() *Repo      { return &Repo{} }\nfunc NewApp(r *Repo) *App { return &App{r} }\n\nvar _ = kessoku.Inject[*Repo]("Initialize", kessoku.Provide(NewRepo))\nvar _ = kessoku.Inject[*App]("Initialize", kessoku.Provide(NewRepo), kessoku.Provide(NewApp))\n\nfunc main() {}\n',
    'NAME_TAKEN_C1': 'package main\n\nimport "github.com/mazrean/kessoku"\n\ntype Repo struct{}\n\nfunc NewRepo() *Repo { return &Repo{} }\n\nvar _ = kessoku.Inject[*Repo]("Initialize", kessoku.Provide(NewRepo))\n\nfunc main() {}\n',
    'NAME_TAKEN_C2': 'package main\n\nimport "github.com/mazrean/kessoku"\n\ntype App struct{ r *Repo }\n\nfunc NewApp(r *Repo) *App { return &App{r} }\n\nvar _ = kessoku.Inject[*App]("Initialize", kessoku.Provide(NewRepo), kessoku.Provide(NewApp))\n',
    'BUILD_TAG_FREE': '//go:build !pro\n\npackage main\n\nimport "github.com/mazrean/kessoku"\n\nfunc NewFree() *App { return &App{"free"} }\n\nvar _ = kessoku.Inject[*App]("InitApp", kessoku.Provide(NewFree))\n',
    'BUILD_TAG_PRO': '//go:build pro\n\npackage main\n\nimport "github.com/mazrean/kessoku"\n\nfunc NewPro() *App { return &App{"pro"} }\n\nvar _ = kessoku.Inject[*App]("InitApp", kessoku.Provide(NewPro))\n',
    'BUILD_TAG_MAIN': 'package main\n\ntype App struct{ edition string }\n\nfunc main() {\n\tif e := InitApp().edition; e != "free" && e != "pro" {\n\t\tpanic("wrong result")\n\t}\n}\n',
    'HANDWRITTEN_BAND_K': 'package main\n\nimport "github.com/mazrean/kessoku"\n\ntype App struct{ s string }\n\nfunc NewApp() *App { return &App{helper()} }\n\nvar _ = kessoku.Inject[*App]("InitApp", kessoku.Provide(NewApp))\n\nfunc main() {\n\tif InitApp().s != "h" {\n\t\tpanic("wrong result")\n\t}\n}\n',
    'HANDWRITTEN_BAND_B': 'package main\n\n// written by hand: a marching band, not kessoku output\nfunc helper() string { return "h" }\n',
    'CTX_KEPT': 'package main\n\nimport (\n\t"context"\n\n\t"github.com/mazrean/kessoku"\n)\n\ntype Server struct{ base context.Context }\ntype Cache struct{}\ntype Queue struct{}\ntype App struct {\n\ts *Server\n\tc *Cache\n\tq *Queue\n}\n\nfunc NewServer(ctx context.Context) *Server { return &Server{base: ctx} }\nfunc NewCache() *Cache                     { return &Cache{} }\nfunc NewQueue() *Queue                     { return &Queue{} }\nfunc NewApp(s *Server, c *Cache, q *Queue) *App { return &App{s, c, q} }\n\nvar _ = kessoku.Inject[*App]("InitApp", kessoku.Provide(NewServer), kessoku.Async(kessoku.Provide(NewCache)), kessoku.Async(kessoku.Provide(NewQueue)), kessoku.Provide(NewApp))\n\nfunc main() {\n\tctx, cancel := context.WithCancel(context.Background())\n\tdefer cancel()\n\ta := InitApp(ctx)\n\tif a.s.base.Err() != nil {\n\t\tpanic("wrong result: the provider was handed a context that is cancelled when the injector returns")\n\t}\n}\n',
    'INTERNAL_IMPL': 'package impl\n\ntype Client struct{ S string }\n',
    'INTERNAL_LIB': 'package lib\n\nimport "vscratch/known_KF_C04_26/lib/internal/impl"\n\ntype Cache struct{}\ntype App struct{ Name string }\n\nfunc NewClient() *impl.Client { return &impl.Client{S: "c"} }\nfunc NewCache() *Cache        { return &Cache{} }\nfunc NewApp(c *impl.Client, k *Cache) *App { return &App{Name: c.S} }\n',
    'INTERNAL_K': 'package main\n\nimport (\n\t"context"\n\n\t"github.com/mazrean/kessoku"\n\t"vscratch/known_KF_C04_26/lib"\n)\n\nvar _ = kessoku.Inject[*lib.App]("InitApp", kessoku.Async(kessoku.Provide(lib.NewClient)), kessoku.Async(kessoku.Provide(lib.NewCache)), kessoku.Provide(lib.NewApp))\n\nfunc main() { _ = InitApp(context.Background()) }\n',
    'GOOS_LINUX': 'package main\n\nimport "github.com/mazrean/kessoku"\n\nfunc NewLinux() *App { return &App{"linux"} }\n\nvar _ = kessoku.Inject[*App]("InitApp", kessoku.Provide(NewLinux))\n',
    'GOOS_WINDOWS': 'package main\n\nimport "github.com/mazrean/kessoku"\n\nfunc NewWindows() *App { return &App{"windows"} }\n\nvar _ = kessoku.Inject[*App]("InitApp", kessoku.Provide(NewWindows))\n',
    'GOOS_MAIN': 'package main\n\ntype App struct{ os string }\n\nfunc main() { _ = InitApp() }\n',
}


# a renamed import whose real name is used for a LOCAL variable inside a copied function literal (repaired: the import
# keeps the name the file gives it)
ALIAS_CAPTURE = {
    "k.go": 'package main\n\nimport (\n\tstr "strings"\n\n\t"github.com/mazrean/kessoku"\n)\n\ntype Name string\n\nvar _ = kessoku.Inject[Name]("InitName", kessoku.Provide(func() Name {\n\tstrings := []string{"a", "b"}\n\treturn Name(str.Join(strings, "-"))\n}))\n\nfunc main() {\n\tif InitName() != "a-b" {\n\t\tpanic("wrong result")\n\t}\n}\n',
}


# an alias of context.Context as a provider's parameter, together with Async providers: one context parameter, first (repaired)
CTX_ALIAS = {
    "k.go": 'package main\n\nimport (\n\t"context"\n\n\t"github.com/mazrean/kessoku"\n)\n\ntype Ctx = context.Context\n\ntype DB struct{}\ntype Cache struct{}\ntype App struct {\n\tdb *DB\n\tc  *Cache\n}\n\nfunc NewDB(ctx Ctx) (*DB, error)   { return &DB{}, nil }\nfunc NewCache() *Cache             { return &Cache{} }\nfunc NewApp(db *DB, c *Cache) *App { return &App{db, c} }\n\nvar _ = kessoku.Inject[*App]("InitApp",\n\tkessoku.Async(kessoku.Provide(NewDB)),\n\tkessoku.Async(kessoku.Provide(NewCache)),\n\tkessoku.Provide(NewApp),\n)\n\nfunc main() {\n\tif a, err := InitApp(context.Background()); err != nil || a == nil {\n\t\tpanic("wrong result")\n\t}\n}\n',
}


# the remaining hard-coded locals: the loop variable ch of a multi-channel wait hides a package named ch that the
# zero value of the requested type mentions (known finding KF-C04-3)
CH_PACKAGE = {
    "ch/c.go": 'package ch\n\ntype Client struct{ S string }\n',
    "k.go": 'package main\n\nimport (\n\t"context"\n\n\t"github.com/mazrean/kessoku"\n\t"vscratch/known_KF_C04_3/ch"\n)\n\ntype A struct{}\ntype B struct{}\ntype C struct{}\n\nfunc NewA() *A { return &A{} }\nfunc NewB() *B { return &B{} }\nfunc NewC() *C { return &C{} }\nfunc NewClient(a *A, b *B, c *C) (*ch.Client, error) { return &ch.Client{S: "c"}, nil }\n\nvar _ = kessoku.Inject[*ch.Client]("InitClient",\n\tkessoku.Async(kessoku.Provide(NewA)),\n\tkessoku.Async(kessoku.Provide(NewB)),\n\tkessoku.Async(kessoku.Provide(NewC)),\n\tkessoku.Provide(NewClient),\n)\n\nfunc main() { _, _ = InitClient(context.Background()) }\n',
}


# a Struct expansion whose source is a field of another expanded struct, declared in both orders: acceptance must not
# depend on the order of the declaration (repaired)
NESTED_STRUCT = {
    "k.go": 'package main\n\nimport "github.com/mazrean/kessoku"\n\ntype Port int\ntype DBConfig struct{ Port Port }\ntype Config struct{ DB *DBConfig }\ntype App struct{ P Port }\n\nfunc NewConfig() *Config { return &Config{DB: &DBConfig{Port: 5}} }\nfunc NewApp(p Port) *App { return &App{P: p} }\n\nvar _ = kessoku.Inject[*App]("InitA", kessoku.Provide(NewConfig), kessoku.Struct[*Config](), kessoku.Struct[*DBConfig](), kessoku.Provide(NewApp))\nvar _ = kessoku.Inject[*App]("InitB", kessoku.Provide(NewConfig), kessoku.Struct[*DBConfig](), kessoku.Struct[*Config](), kessoku.Provide(NewApp))\n\nfunc main() {\n\tif InitA().P != 5 || InitB().P != 5 {\n\t\tpanic("wrong result")\n\t}\n}\n',
}


# a Bind whose provider has no result implementing the interface (value returned, pointer-receiver methods) binds nothing:
# the declaration must not be turned into an injector that takes the interface as a parameter (repaired: now reported)
BIND_NOTHING = {
    "k.go": 'package main\n\nimport "github.com/mazrean/kessoku"\n\ntype Repo interface{ Get() string }\ntype repo struct{ s string }\n\nfunc (r *repo) Get() string { return r.s }\n\nfunc NewRepo() repo { return repo{s: "r"} }\n\ntype App struct{ R Repo }\n\nfunc NewApp(r Repo) *App { return &App{R: r} }\n\nvar _ = kessoku.Inject[*App]("InitApp", kessoku.Bind[Repo](kessoku.Provide(NewRepo)), kessoku.Provide(NewApp))\n\nfunc main() {}\n',
}


# the injector's own name is a package-level name of the generated file: an import the generator adds (for a type of a
# package the source does not import) and the variables it declares must not take it (repaired)
INJECTOR_NAMES = {
    "config/c.go": 'package config\n\ntype Settings struct{ N int }\ntype Other struct{ N int }\n',
    "svc/s.go": 'package svc\n\nimport "vscratch/injector_names/config"\n\ntype App struct{ N int }\n\nfunc NewSettings() *config.Settings { return &config.Settings{N: 3} }\nfunc NewOther() *config.Other       { return &config.Other{N: 0} }\nfunc NewApp(s *config.Settings, o *config.Other) (*App, error) { return &App{N: s.N + o.N}, nil }\n',
    "k.go": 'package main\n\nimport (\n\t"context"\n\n\t"github.com/mazrean/kessoku"\n\t"vscratch/injector_names/svc"\n)\n\nvar _ = kessoku.Inject[*svc.App]("config", kessoku.Async(kessoku.Provide(svc.NewSettings)), kessoku.Async(kessoku.Provide(svc.NewOther)), kessoku.Provide(svc.NewApp))\nvar _ = kessoku.Inject[*svc.App]("app", kessoku.Async(kessoku.Provide(svc.NewSettings)), kessoku.Async(kessoku.Provide(svc.NewOther)), kessoku.Provide(svc.NewApp))\n\nfunc main() {\n\ta, err := config(context.Background())\n\tb, err2 := app(context.Background())\n\tif err != nil || err2 != nil || a.N != 3 || b.N != 3 {\n\t\tpanic("wrong result")\n\t}\n}\n',
}


# a result of an UNEXPORTED type of another package (lib.NewClient() *client): the var block of an injector with goroutines
# has to write the type, which the user's package cannot name (known finding KF-C04-24; without Async `:=` needs no type)
UNEXPORTED_TYPE = {
    "lib/l.go": 'package lib\n\ntype client struct{ S string }\n\nfunc NewClient() *client { return &client{S: "c"} }\n\ntype Other struct{ S string }\n\nfunc NewOther() *Other { return &Other{S: "o"} }\n\ntype App struct{ S string }\n\nfunc NewApp(c *client, o *Other) *App { return &App{S: c.S + o.S} }\n',
    "k.go": 'package main\n\nimport (\n\t"context"\n\n\t"github.com/mazrean/kessoku"\n\t"vscratch/inaccessible_unexported/lib"\n)\n\nvar _ = kessoku.Inject[*lib.App]("InitApp", kessoku.Async(kessoku.Provide(lib.NewClient)), kessoku.Async(kessoku.Provide(lib.NewOther)), kessoku.Provide(lib.NewApp))\n\nfunc main() { _ = InitApp(context.Background()) }\n',
}


# two different types that print alike (struct{ x int } written in two packages): each keeps its own supplier (repaired)
PRINT_ALIKE = {
    "sub/sub.go": 'package sub\n\ntype R struct{ V int }\n\nfunc NewS() struct{ x int }     { return struct{ x int }{5} }\nfunc UseS(s struct{ x int }) *R { return &R{s.x} }\n',
    "k.go": 'package main\n\nimport (\n\t"fmt"\n\n\t"github.com/mazrean/kessoku"\n\t"vscratch/print_alike/sub"\n)\n\ntype Q struct{ v int }\ntype F struct{ s string }\n\nfunc UseT(t struct{ x int }) *Q { return &Q{t.x} }\nfunc NewF(q *Q, r *sub.R) *F    { return &F{fmt.Sprint(q.v, r.V)} }\n\nvar _ = kessoku.Inject[*F]("InitF", kessoku.Provide(sub.NewS), kessoku.Provide(sub.UseS), kessoku.Provide(UseT), kessoku.Provide(NewF))\n\nfunc main() {\n\tif f := InitF(struct{ x int }{7}); f.s != "7 5" {\n\t\tpanic("wrong result " + f.s)\n\t}\n}\n',
}
# the file being processed renames an import that another file of the package imports under its own name; a copied literal
# uses that own name for a local (repaired: the processed file's names come first)
ALIAS_CAPTURE2 = {
    "a.go": 'package main\n\nimport "strings"\n\nvar _ = strings.ToUpper\n',
    "k.go": ALIAS_CAPTURE["k.go"],
}


# a package-level variable ctx: the pool names the context parameter ctx0, and every wait of the injector - in its own
# flow and inside its goroutines - has to select on that parameter; called with a cancelled context it must report an error
PKG_LEVEL_CTX = {
    "k.go": 'package main\n\nimport (\n\t"context"\n\t"time"\n\n\t"github.com/mazrean/kessoku"\n)\n\nvar ctx = context.Background()\n\ntype A struct{}\ntype B struct{}\ntype C struct{}\ntype App struct{}\n\nfunc NewA() (*A, error) { time.Sleep(300 * time.Millisecond); return &A{}, nil }\nfunc NewB() *B          { return &B{} }\nfunc NewC(b *B) *C      { return &C{} }\nfunc NewApp(a *A, b *B, c *C) *App { return &App{} }\n\nvar _ = kessoku.Inject[*App]("InitApp", kessoku.Async(kessoku.Provide(NewA)), kessoku.Async(kessoku.Provide(NewB)), kessoku.Async(kessoku.Provide(NewC)), kessoku.Provide(NewApp))\n\nfunc main() {\n\t_ = ctx\n\tc, cancel := context.WithCancel(context.Background())\n\tcancel()\n\tdone := make(chan struct{})\n\tgo func() {\n\t\tdefer close(done)\n\t\tif v, err := InitApp(c); err == nil && v == nil {\n\t\t\tpanic("zero value without an error after cancellation")\n\t\t}\n\t}()\n\tselect {\n\tcase <-done:\n\tcase <-time.After(5 * time.Second):\n\t\tpanic("the injector did not return after cancellation")\n\t}\n}\n',
}


def write_pkg(mod, name, files):
    d = os.path.join(mod, name)
    os.makedirs(d, exist_ok=True)
    for fn, txt in files.items():
        os.makedirs(os.path.dirname(os.path.join(d, fn)), exist_ok=True)
        with open(os.path.join(d, fn), "w") as f:
            f.write(txt)
    return d


def wrap(body, extra_imports=()):
    src = HDR + "IMPORTS" + body
    imp = imports_for(body)
    return src.replace("IMPORTS", imp)


def stage(seed, tier):
    key = "N-%s-%s-%s" % (vlib.repo_hash() + vlib.tools_hash(), seed, tier)
    cpath = os.path.join(vlib.CACHE, "stage", key + ".json")
    if os.path.exists(cpath) and not os.environ.get("VERIF_NOCACHE"):
        return json.load(open(cpath))
    res = _stage(seed, tier, key)
    os.makedirs(os.path.dirname(cpath), exist_ok=True)
    json.dump(res, open(cpath, "w"))
    return res


def _stage(seed, tier, key="N-x"):
    kessoku = vlib.build_kessoku()
    rnd = random.Random(seed * 101 + 7)
    mod = vlib.new_scratch_module("n")
    pkgs = []       # (name, files, targets, expect: None | known-id, meta)
    for nm, body in NAMING.items():
        pkgs.append((nm, {"k.go": wrap(body)}, ["k.go"], None, dict(kind="naming")))
    # two files, one invocation, shared allocator: both async
    pkgs.append(("two_files", {"a.go": wrap(NAMING["suffix_types"]), "b.go": wrap(NAMING["keyword_like_types"])}, ["a.go", "b.go"], None, dict(kind="naming, two files per invocation")))
    body = FOREIGN_USER + FOREIGN_MAIN
    pkgs.append(("foreign_generated", {"k.go": HDR + 'import (\n\t"context"\n\n\t"github.com/mazrean/kessoku"\n)\n\n' + body, "pill_string.go": FOREIGN_GEN}, ["k.go"], None,
                 dict(kind="naming: package-level names declared in a file generated by another tool", run=True)))
    body2 = FOREIGN_USER.replace("func NewInfo() *BuildInfo { return &buildInfo }\n", "").replace("kessoku.Async(kessoku.Value(&buildInfo))", "kessoku.Value(buildInfo)").replace("b *BuildInfo", "b BuildInfo") + FOREIGN_MAIN
    pkgs.append(("foreign_generated_val", {"k.go": HDR + 'import (\n\t"context"\n\n\t"github.com/mazrean/kessoku"\n)\n\n' + body2, "pill_string.go": FOREIGN_GEN}, ["k.go"], None,
                 dict(kind="naming: a package-level variable of a generated file passed by value", run=True)))
    nt = 60 if tier == "quick" else 600
    for i in range(nt):
        body, types = type_package(rnd, i)
        pkgs.append(("ty%d" % i, {"k.go": wrap(body)}, ["k.go"], None, dict(kind="types", types=types)))
    for nm, body in REPAIRED.items():
        pkgs.append(("fx_" + nm, {"k.go": wrap(body)}, ["k.go"], None, dict(kind="reproducer of a repaired type-spelling defect")))
    pkgs.append(("value_qualifier", VALUE_QUALIFIER, ["k.go"], None, dict(kind="package qualifiers of copied provider expressions (two packages of one name, two files)", run=True)))
    pkgs.append(("fx_bind_unused_import", BIND_UNUSED_IMPORT, ["k.go"], None, dict(kind="reproducer of a repaired defect (imports of types that are not written)")))
    pkgs.append(("fx_unimported_clash", UNIMPORTED_CLASH, ["k.go"], None, dict(kind="reproducer of a repaired type-spelling defect (package name of an unimported package)")))
    big = NAMING["suffix_types"]
    small = "type Foo struct{ X int }\ntype Out struct{ N int }\nfunc NewFoo() (*Foo, error) { return &Foo{}, nil }\nfunc NewOut(a *Foo) (*Out, error) { return &Out{N: 1}, nil }\nvar _ = kessoku.Inject[*Out](\"InitOut\", kessoku.Provide(NewFoo), kessoku.Provide(NewOut))\n"
    pkgs.append(("regen_shrink", {"k.go": wrap(big)}, ["k.go"], None, dict(kind="regeneration over a longer previous output after the wiring shrank", then={"k.go": wrap(small)})))
    for o in (0, 1):
        files, targets, meta = multi_pkg(o)
        pkgs.append(("mp%d" % o, files, targets, None, meta))
    for i in range(16 if tier == "quick" else 120):
        files, targets, meta = clash_package(rnd, i)
        pkgs.append(("cl%d" % i, files, targets, None, meta))
    for i in range(8 if tier == "quick" else 40):
        files, targets, meta = third_pkg_clash(rnd, i)
        pkgs.append(("tp%d" % i, files, targets, None, meta))
    pkgs.append(("dot_import", DOT_IMPORT, ["k.go"], None, dict(kind="identifiers of a dot-imported package in provider expressions", run=True)))
    pkgs.append(("bad_names", BAD_NAMES, ["k.go"], None, dict(kind="declared injector names that are not identifiers", run=True)))
    pkgs.append(("alias_keys", ALIAS_KEYS, ["k.go"], None, dict(kind="alias-spelled requirements", run=True, expect_params={"k_band.go": {"InitB": ["Str", "any"]}})))
    pkgs.append(("alias_dup", ALIAS_DUP, ["k.go"], None, dict(kind="two suppliers of one type, one spelled through an alias", expect_refused="multiple providers")))
    pkgs.append(("unicode_types", UNICODE_TYPES, ["k.go"], None, dict(kind="naming: type names starting with a non-ASCII upper-case letter", run=True)))
    pkgs.append(("generic_alias", GENERIC_ALIAS, ["k.go"], None, dict(kind="types: instances of generic aliases, a qualified constant in the requested type", run=True)))
    pkgs.append(("alias_capture", ALIAS_CAPTURE, ["k.go"], None, dict(kind="naming: a renamed import and a local of a copied literal", run=True)))
    import stage_det
    pkgs.append(("suffix_sibling", dict(stage_det.SUFFIXNAME, **{"main.go": "package main\n\nfunc main() {}\n"}), ["k.go"], None,
                 dict(kind="a sibling source whose name ends in the target's name", expect_funcs={"k_band.go": ["InitApp"]})))
    pkgs.append(("ctx_alias", CTX_ALIAS, ["k.go"], None, dict(kind="an alias of context.Context among the requirements", run=True, expect_params={"k_band.go": {"InitApp": ["Ctx"]}})))
    pkgs.append(("nested_struct_order", NESTED_STRUCT, ["k.go"], None, dict(kind="nested Struct expansions in both declaration orders", run=True, expect_accept=True,
                                                                                 expect_funcs={"k_band.go": ["InitA", "InitB"]})))
    pkgs.append(("bind_nothing", BIND_NOTHING, ["k.go"], None, dict(kind="a Bind that binds nothing", expect_not_generated=["InitApp"])))
    pkgs.append(("injector_names", INJECTOR_NAMES, ["k.go"], None, dict(kind="naming: injector names against generated imports and variables", run=True)))
    pkgs.append(("print_alike", PRINT_ALIKE, ["k.go"], None, dict(kind="types that print alike", run=True, expect_params={"k_band.go": {"InitF": ["struct { x int }"]}})))
    pkgs.append(("alias_capture2", ALIAS_CAPTURE2, ["k.go"], None, dict(kind="naming: a renamed import, another file importing it plainly, and a local of a copied literal", run=True)))
    pkgs.append(("pkg_level_ctx", PKG_LEVEL_CTX, ["k.go"], None, dict(kind="naming: a package-level ctx next to an async injector, cancelled call", run=True)))
    pkgs.append(("basic_spellings", BASIC_SPELLINGS, ["k.go"], None, dict(kind="byte/uint8 and rune/int32: one type, two spellings", run=True, value_check=True, expect_params={"k_band.go": {"InitCodec": []}})))
    pkgs.append(("unused_result_pkg", UNUSED_RESULT_PKG, ["k.go"], None, dict(kind="imports: an unneeded result whose type comes from an otherwise unmentioned package", run=True)))
    pkgs.append(("injector_names_2", INJECTOR_NAMES_2, ["a.go", "b.go"], None, dict(kind="naming: an injector declared in another file of the invocation", run=True)))
    pkgs.append(("injector_names_2r", INJECTOR_NAMES_2, ["b.go", "a.go"], None, dict(kind="naming: an injector declared in another file of the invocation (other order)", run=True)))
    R = ROUND10
    pkgs.append(("err_not_last", {"k.go": R["ERR_NOT_LAST"]}, ["k.go"], None, dict(kind="an error result that is not the last result", run=True, value_check=True)))
    pkgs.append(("bind_struct", {"k.go": R["BIND_STRUCT"]}, ["k.go"], None, dict(kind="Bind over a Struct expansion", run=True, value_check=True, expect_params={"k_band.go": {"InitApp": []}})))
    pkgs.append(("bind_struct_dup", {"k.go": R["BIND_STRUCT_DUP"]}, ["k.go"], None, dict(kind="an interface bound to a Struct expansion and to a provider", expect_refused="multiple providers")))
    pkgs.append(("builtin_close", {"k.go": R["BUILTIN_CLOSE"]}, ["k.go"], None, dict(kind="a package-level close hides the builtin the generated code calls", run=True, also=["C03"])))
    pkgs.append(("builtin_make", {"k.go": R["BUILTIN_MAKE"]}, ["k.go"], None, dict(kind="a package-level make hides the builtin the generated code calls", run=True)))
    pkgs.append(("func_type", {"k.go": R["FUNC_TYPE"]}, ["k.go"], None, dict(kind="providers of a defined / alias function type", run=True, expect_accept=True, expect_funcs={"k_band.go": ["InitApp"]})))
    pkgs.append(("struct_alias_ptr", {"k.go": R["STRUCT_ALIAS_PTR"]}, ["k.go"], None, dict(kind="Struct of an alias of a pointer type", run=True, expect_accept=True, expect_funcs={"k_band.go": ["InitApp"]})))
    pkgs.append(("dot_kessoku", {"k.go": R["DOT_KESSOKU"]}, ["k.go"], None, dict(kind="kessoku itself dot-imported", run=True, expect_accept=True, expect_funcs={"k_band.go": ["InitApp"]})))
    pkgs.append(("bind_struct2", {"k.go": R["BIND_STRUCT2"]}, ["k.go"], None, dict(kind="Bind over a Struct expansion whose struct is the SECOND result of its provider", run=True, value_check=True, expect_params={"k_band.go": {"InitApp": []}})))
    pkgs.append(("bind_struct_nofields", {"k.go": R["BIND_STRUCT_NOFIELDS"]}, ["k.go"], None, dict(kind="Bind over a Struct expansion without exported fields", run=True, value_check=True, expect_params={"k_band.go": {"InitApp": []}})))
    pkgs.append(("local_set2", {"k.go": R["LOCAL_SET2"]}, ["k.go"], None, dict(kind="two Sets held in one := statement", run=True, value_check=True, expect_params={"k_band.go": {"InitApp": []}})))
    pkgs.append(("local_set2_dup", {"k.go": R["LOCAL_SET2_DUP"]}, ["k.go"], None, dict(kind="a duplicate supplier inside a Set held in a multi-variable := statement", expect_refused="multiple providers")))
    pkgs.append(("self_field_dup", {"k.go": R["SELF_FIELD_DUP"]}, ["k.go"], None, dict(kind="an expanded struct with a field of its own pointer type: two suppliers of *Node", expect_refused="multiple providers")))
    pkgs.append(("name_taken_funcbody", {"k.go": R["NAME_TAKEN_FUNCBODY"]}, ["k.go"], None, dict(kind="an Inject inside a function body named like a function of the package", run=True)))
    pkgs.append(("builtin_error_async", {"k.go": R["BUILTIN_ERROR_ASYNC"]}, ["k.go"], None, dict(kind="a package-level type error, goroutines without fallible providers", run=True)))
    pkgs.append(("local_ref_shadow", {"k.go": R["LOCAL_REF_SHADOW"]}, ["k.go"], None, dict(kind="a provider expression naming a local of the enclosing function that hides a package-level variable", run=True, value_check=True)))
    pkgs.append(("local_ref_async", {"k.go": R["LOCAL_REF_ASYNC"]}, ["k.go"], None, dict(kind="a provider expression naming a local of the enclosing function, goroutines", run=True, value_check=True)))
    pkgs.append(("name_taken_import", {"k.go": R["NAME_TAKEN_IMPORT"], "server/s.go": R["NAME_TAKEN_IMPORT_LIB"]}, ["k.go"], None, dict(kind="an injector named like a package the file imports", run=True)))
    pkgs.append(("import_local_xfile", {"main.go": R["IMPORT_LOCAL_MAIN"], "sets.go": R["IMPORT_LOCAL_SETS"], "config/c.go": R["IMPORT_LOCAL_CONFIG"]}, ["main.go"], None, dict(kind="imports: a Set of another file whose literal has a parameter named like this file's import name", run=True)))
    pkgs.append(("dot_qualifier_param", {"k.go": R["DOT_QUALIFIER_PARAM"], "config/c.go": R["IMPORT_LOCAL_CONFIG"]}, ["k.go"], None, dict(kind="imports: the qualifier written for a dot import is a parameter of the copied literal", run=True)))
    pkgs.append(("dot_qualifier_local", {"k.go": R["DOT_QUALIFIER_LOCAL"], "config/c.go": R["DOT_QUALIFIER_LOCAL_LIB"]}, ["k.go"], None, dict(kind="imports: the qualifier written for a dot import is a local of the copied literal", run=True)))
    pkgs.append(("set_multi_value", {"k.go": R["SET_MULTI_VALUE"]}, ["k.go"], None, dict(kind="Set variables initialised from one multi-value call", crash_check=True)))
    pkgs.append(("local_ref_closure", {"k.go": R["LOCAL_REF_CLOSURE"]}, ["k.go"], None, dict(kind="a function literal that captures a local of the enclosing function", run=True, value_check=True, expect_refused="is local to the function")))
    pkgs.append(("local_ref_in_set", {"k.go": R["LOCAL_REF_IN_SET"]}, ["k.go"], None, dict(kind="a member of a := Set that names a local of the enclosing function", run=True, value_check=True, expect_refused="is local to the function")))
    pkgs.append(("local_set_same_name", {"k.go": R["LOCAL_SET_SAME_NAME"]}, ["k.go"], None, dict(kind="two functions of one file each holding a Set in a local of the same name", run=True, value_check=True, expect_params={"k_band.go": {"InitB": [], "InitD": []}})))
    pkgs.append(("local_set_same_name_cycle", {"k.go": R["LOCAL_SET_SAME_NAME_CYCLE"]}, ["k.go"], None, dict(kind="the same, a cycle planted in the second function's Set", expect_refused="circular dependency")))
    pkgs.append(("name_taken_dot", {"k.go": R["NAME_TAKEN_DOT"], "helpers.go": R["NAME_TAKEN_DOT_HELPERS"], "lib/l.go": R["NAME_TAKEN_DOT_LIB"]}, ["k.go"], None, dict(kind="an injector named like an identifier another file dot-imports", run=True)))
    pkgs.append(("inaccessible_sibling", {"apptool/k.go": R["SIBLING_K"], "app/a.go": R["SIBLING_APP"], "app/internal/conf/c.go": R["SIBLING_CONF"]}, ["apptool/k.go"], None, dict(kind="a type of an internal package of a SIBLING directory (apptool next to app)", vet_pkgs=["./apptool"], run=True, run_pkgs=["./apptool"])))
    pkgs.append(("bind_struct_nested", {"k.go": R["BIND_STRUCT_NESTED"]}, ["k.go"], None, dict(kind="Bind over a Struct expansion whose struct is a field of another expanded struct, both orders", run=True, value_check=True, expect_params={"k_band.go": {"InitNested": [], "InitNested2": []}})))
    pkgs.append(("name_init", {"k.go": R["NAME_INIT"]}, ["k.go"], None, dict(kind="an injector named init", run=True)))
    pkgs.append(("unexported_members", {"k.go": R["UNEXPORTED_MEMBERS"], "lib/l.go": R["UNEXPORTED_MEMBERS_LIB"]}, ["k.go"], None, dict(kind="an unnamed struct type with an unexported field of another package in the var block", run=True)))
    pkgs.append(("unexported_members_param", {"k.go": R["UNEXPORTED_MEMBERS_PARAM"], "lib/l.go": R["UNEXPORTED_MEMBERS_LIB"].replace("unexported_members", "unexported_members_param")}, ["k.go"], None, dict(kind="the same as an injector parameter", run=True)))
    pkgs.append(("test_file_names", {"k.go": R["TEST_FILE_NAMES"], "k_test.go": R["TEST_FILE_NAMES_TEST"]}, ["k.go"], None, dict(kind="naming: a package-level name declared in the package's own _test.go file", run=True)))
    pkgs.append(("all_files_tagged", {"x.go": R["TAGGED_X"], "y.go": R["TAGGED_Y"]}, ["x.go"], None, dict(kind="every file of the package is under a build tag that is off: the file is loaded on its own", vet_env={"GOFLAGS": "-mod=mod -tags=integration"})))
    pkgs.append(("plus_build_two_lines", {"app_x.go": R["PLUS_BUILD_TWO_LINES"], "main.go": "package main\n\nfunc main() {}\n"}, ["app_x.go"], None, dict(kind="two // +build lines (and-ed, each an or): the output must be excluded wherever the source is", vet_env={"GOARCH": "386"})))
    pkgs.append(("test_file_names_tagged", {"k.go": R["TEST_FILE_NAMES"], "k_test.go": R["TEST_FILE_NAMES_TAGGED_TEST"]}, ["k.go"], None, dict(kind="naming: a package-level name declared in a _test.go file that is under a build tag", run=True, vet_tags=["integration"])))
    pkgs.append(("platform_sibling", {"k.go": R["PLATFORM_SIBLING"], "service_windows.go": R["PLATFORM_SIBLING_WIN"]}, ["k.go"], None, dict(kind="a package with one source on this platform and a sibling for another platform", run=True, expect_accept=True, expect_funcs={"k_band.go": ["InitA"]})))
    pkgs.append(("dot_kessoku_set", {"k.go": R["DOT_KESSOKU_SET"]}, ["k.go"], None, dict(kind="kessoku dot-imported: a Set variable and an inline Set", run=True, expect_accept=True, expect_funcs={"k_band.go": ["InitApp", "InitDB"]})))
    pkgs.append(("embedded_sealed", {"k.go": R["EMBEDDED_SEALED"], "lib/l.go": R["EMBEDDED_SEALED_LIB"]}, ["k.go"], None, dict(kind="an unnamed interface that embeds an exported interface with an unexported method of another package", run=True)))
    pkgs.append(("local_set", {"k.go": R["LOCAL_SET"]}, ["k.go"], None, dict(kind="a Set held in a := variable", run=True, value_check=True, expect_params={"k_band.go": {"InitApp": []}})))
    pkgs.append(("shared_set_dot", {"k.go": R["SHARED_SET_DOT"], "lib/l.go": R["SHARED_SET_DOT_LIB"]}, ["k.go"], None, dict(kind="imports: a Set shared by two injectors, one provider dot-imported", run=True)))
    pkgs.append(("name_taken_a", {"k.go": R["NAME_TAKEN_A"]}, ["k.go"], None, dict(kind="an injector named like a function of the package", run=True)))
    pkgs.append(("name_taken_b", {"k.go": R["NAME_TAKEN_B"]}, ["k.go"], None, dict(kind="two injectors of one file with the same name", run=True)))
    pkgs.append(("name_taken_c", {"k.go": R["NAME_TAKEN_C1"], "k2.go": R["NAME_TAKEN_C2"]}, ["k.go", "k2.go"], None, dict(kind="two injectors of two files with the same name", run=True)))
    pkgs.append(("build_tags", {"app_free.go": R["BUILD_TAG_FREE"], "app_pro.go": R["BUILD_TAG_PRO"], "main.go": R["BUILD_TAG_MAIN"]}, ["app_free.go"], None,
                 dict(kind="sources under complementary build constraints", run=True, vet_tags=["pro"],
                      more_steps=[dict(targets=["app_pro.go"], goflags="-mod=mod -tags=pro")])))
    pkgs.append(("build_tags_plus", {"app_free.go": R["BUILD_TAG_FREE"].replace("//go:build !pro", "// +build !pro"), "app_pro.go": R["BUILD_TAG_PRO"].replace("//go:build pro", "// +build pro"), "main.go": R["BUILD_TAG_MAIN"]}, ["app_free.go"], None,
                 dict(kind="sources under complementary build constraints spelled // +build", run=True, vet_tags=["pro"],
                      more_steps=[dict(targets=["app_pro.go"], goflags="-mod=mod -tags=pro")])))
    pkgs.append(("build_tags_plus_one", {"app_free.go": R["BUILD_TAG_FREE"].replace("//go:build !pro", "// +build !pro"), "main.go": "package main\n\ntype App struct{ edition string }\n\nfunc main() {}\n"}, ["app_free.go"], None,
                 dict(kind="a source constrained by a // +build line only: its output must carry the constraint", vet_tags=["pro"])))
    pkgs.append(("handwritten_band", {"k.go": R["HANDWRITTEN_BAND_K"], "k_band.go": R["HANDWRITTEN_BAND_B"]}, ["k.go"], None, dict(kind="a hand-written file at the output's path", run=True)))
    pkgs.append(("known_KF_C02_1", {"k.go": R["CTX_KEPT"]}, ["k.go"], "KF-C02-1", dict(kind="known finding reproducer (a provider keeps the context it is given)", signature="no vet signature: the file compiles", run=True, run_signature="cancelled when the injector returns")))
    pkgs.append(("inaccessible_internal", {"k.go": R["INTERNAL_K"].replace("known_KF_C04_26", "inaccessible_internal"), "lib/l.go": R["INTERNAL_LIB"].replace("known_KF_C04_26", "inaccessible_internal"), "lib/internal/impl/i.go": R["INTERNAL_IMPL"]}, ["k.go"], None, dict(kind="a value of an internal package's type in an injector with goroutines (repaired: refused)", expect_refused="is not accessible from")))
    pkgs.append(("inaccessible_param", {"k.go": R["INACCESSIBLE_PARAM"], "lib/l.go": R["INACCESSIBLE_PARAM_LIB"]}, ["k.go"], None, dict(kind="an unsupplied dependency of an unexported type of another package (repaired: refused, it cannot be a parameter)", expect_refused="is not accessible from")))
    pkgs.append(("known_KF_C04_27", {"app_linux.go": R["GOOS_LINUX"], "app_windows.go": R["GOOS_WINDOWS"], "main.go": R["GOOS_MAIN"]}, ["app_linux.go"], "KF-C04-27", dict(kind="known finding reproducer (a source constrained by its file name)", signature=r"undefined: NewLinux", vet_env={"GOOS": "windows"})))
    pkgs.append(("xset", XSET, ["k.go"], None, dict(kind="a Set variable of another package (repaired: refused instead of left out)", expect_refused="cannot read the members of the Set")))
    pkgs.append(("set_multi_value_refused", {"k.go": R["SET_MULTI_VALUE"]}, ["k.go"], None, dict(kind="Set variables initialised from one multi-value call", expect_refused="cannot read the members of the Set")))
    pkgs.append(("inaccessible_unexported", UNEXPORTED_TYPE, ["k.go"], None, dict(kind="a value of an unexported type of another package in an injector with goroutines (repaired: refused)", expect_refused="is not accessible from")))
    pkgs.append(("known_KF_C04_3", CH_PACKAGE, ["k.go"], "KF-C04-3", dict(kind="known finding reproducer", signature=r"ch\.Client is not a type")))
    for kid, (body, sig) in KNOWN.items():
        pkgs.append(("known_" + kid.replace("-", "_"), {"k.go": wrap(body)}, ["k.go"], kid, dict(kind="known finding reproducer", signature=sig)))
    def one(p):
        name, files, targets, expect, meta = p
        d = write_pkg(mod, name, files)
        rc, o, e = vlib.run([kessoku] + targets, cwd=d, env=vlib.goenv(), timeout=120)
        for step in meta.get("more_steps", []) if rc == 0 else []:
            # a further invocation under another build configuration (its output joins the package)
            rc, o, e = vlib.run([kessoku] + step["targets"], cwd=d, env=dict(vlib.goenv(), GOFLAGS=step["goflags"]), timeout=120)
            if rc:
                break
        if rc == 0 and meta.get("then"):
            # the wiring shrinks and the file is regenerated in place, over the longer previous output
            for fn, txt in meta["then"].items():
                with open(os.path.join(d, fn), "w") as f:
                    f.write(txt)
            rc, o, e = vlib.run([kessoku] + targets, cwd=d, env=vlib.goenv(), timeout=120)
        rec = dict(name=name, expect=expect, meta=meta, gen_rc=rc, gen_err=e[-600:] if rc else "", vet_rc=None, vet="", run_rc=None, dir=name)
        if rc != 0:
            return rec
        rc2, o2, e2 = vlib.run(["go", "vet"] + meta.get("vet_pkgs", ["."]), cwd=d, env=dict(vlib.goenv(), **meta.get("vet_env", {})), timeout=600)
        rec["vet_rc"] = rc2
        rec["vet"] = (o2 + e2)[-1500:]
        for tag in meta.get("vet_tags", []) if rc2 == 0 else []:
            # the package must compile under the other build configuration too
            rc2, o2, e2 = vlib.run(["go", "vet", "-tags", tag] + meta.get("vet_pkgs", ["."]), cwd=d, env=vlib.goenv(), timeout=600)
            rec["vet_rc"] = rc2
            rec["vet"] = ("[-tags %s] " % tag) + (o2 + e2)[-1500:]
            if rc2:
                break
        if rc2 == 0 and (meta.get("run") or meta.get("run_pkgs")):
            for rp in meta.get("run_pkgs", ["."]):
                rc3, o3, e3 = vlib.run(["go", "run", rp], cwd=d, env=vlib.goenv(), timeout=300)
                rec["run_rc"] = rc3
                rec["run_err"] = (o3 + e3)[-600:]
                if rc3:
                    break
        band = {t[:-3] + "_band.go": open(os.path.join(d, t[:-3] + "_band.go"), errors="replace").read() for t in targets if os.path.exists(os.path.join(d, t[:-3] + "_band.go"))}
        rec["band"] = {k: v[:6000] for k, v in band.items()}
        return rec
    with ThreadPoolExecutor(max_workers=10) as ex:
        recs = list(ex.map(one, pkgs))
    keep = os.path.join(vlib.CACHE, "stage", key + "-src")
    shutil.rmtree(keep, ignore_errors=True)
    shutil.copytree(mod, keep)
    return dict(records=recs, srcdir=keep)


if __name__ == "__main__":
    r = stage(int(os.environ.get("VERIF_SEED", "1")), sys.argv[1] if len(sys.argv) > 1 else "quick")
    for x in r["records"]:
        if x["gen_rc"] != 0 or x["vet_rc"] != 0 or x.get("run_rc"):
            print(x["name"], x["expect"], "gen", x["gen_rc"], x["gen_err"][-300:], "vet", x["vet_rc"], x["vet"][-500:], x.get("run_err", ""))
            if x["meta"].get("types"):
                print("    types:", x["meta"]["types"])
