#!/bin/sh
# usage: try_mutant.sh <patch.diff> <prop>...   applies the patch to /repo, runs the quick checks, reverts.
patch=$1; shift
git -C /repo apply "$patch" || exit 2
for p in "$@"; do
  echo "== $p"; python3 /verif/tools/check.py $p ${TIER:-quick} 2>&1 | grep -a -E "VIOLATION|KNOWN|^#|rror" | cut -c1-400; 
done
git -C /repo checkout -- . ; git -C /repo status --short
