"""Dynamic correspondence D (DESIGN 4.2): the packages of stage S are compiled with -race together with a driver and run under
scripted scenarios (free runs, barrier, provider failures, cancellation points). Python monitors apply the property texts."""
import json, os, random, re, shutil, sys
from concurrent.futures import ThreadPoolExecutor
import vlib, declgen, stage_s
from declgen import CTX


def arg_literal(t):
    if t == CTX:
        return "ctx"
    if t.startswith("[]"):
        return '%s{{S: %s}}' % (t, json.dumps("A:" + t))
    if t.startswith("map[string]"):
        return '%s{"k": {S: %s}}' % (t, json.dumps("A:" + t))
    base = t.lstrip("*")
    fld = "s" if re.search(r"(St|OSt)$", base) else "S"
    lit = '%s{%s: %s}' % (base, fld, json.dumps("A:" + t))
    return ("&" if t.startswith("*") else "") + lit


def render_driver(injs):
    """injs: list of dict(name, params=[types], reterr)"""
    out = ['package main\n\nimport (\n\t"context"\n\t"encoding/json"\n\t"fmt"\n\t"os"\n\n\t"vscratch/verifrt"\n)\n\n']
    out.append("type injT struct {\n\tcall func(ctx context.Context) (any, error)\n\treterr bool\n}\n\n")
    out.append("var injectors = map[string]injT{\n")
    for i in injs:
        args = ", ".join(arg_literal(t) for t in i["params"])
        if i["reterr"]:
            out.append('\t%s: {call: func(ctx context.Context) (any, error) { v, err := %s(%s); return v, err }, reterr: true},\n' % (json.dumps(i["name"]), i["name"], args))
        else:
            out.append('\t%s: {call: func(ctx context.Context) (any, error) { v := %s(%s); return v, nil }, reterr: false},\n' % (json.dumps(i["name"]), i["name"], args))
    out.append("}\n\n")
    out.append('''func main() {
	var scs []verifrt.Scenario
	f, err := os.Open(os.Args[1])
	if err != nil {
		panic(err)
	}
	if err := json.NewDecoder(f).Decode(&scs); err != nil {
		panic(err)
	}
	enc := json.NewEncoder(os.Stdout)
	for i := range scs {
		in, ok := injectors[scs[i].Inj]
		if !ok {
			fmt.Fprintln(os.Stderr, "unknown injector", scs[i].Inj)
			continue
		}
		res := verifrt.Execute(&scs[i], in.call, in.reterr)
		_ = enc.Encode(res)
	}
}
''')
    return "".join(out)


# ------------------------------------------------------------------ scenarios

def decl_facts(d):
    """needed providers, dependency closure etc. from the declaration alone (reference semantics)"""
    ref = declgen.eval_ref(d)
    needed, _ = declgen.needed_set(d)
    m, _ = declgen.supplier_map(d)
    fns = {}
    for key in needed:
        if isinstance(key, tuple):
            continue
        p = d["provs"][key]
        if p["kind"] == "fn":
            fns[p["fn"]] = key
    def producers_of(key):
        out = set()
        for t in declgen.requires_of(d, key):
            if t in m:
                s = m[t][0]
                while isinstance(s, tuple):
                    st = d["provs"][s[1]]["type"]
                    s = m[st][0]
                if d["provs"][s]["kind"] == "fn":
                    out.add(d["provs"][s]["fn"])
                # values have no function
        return out
    direct = {fn: producers_of(k) for fn, k in fns.items()}
    trans = {}
    def clos(fn):
        if fn in trans:
            return trans[fn]
        s = set(direct[fn])
        for g in list(direct[fn]):
            s |= clos(g)
        trans[fn] = s
        return s
    for fn in fns:
        clos(fn)
    fallible = [fn for fn, k in fns.items() if d["provs"][k]["fallible"]]
    inputfree_async = [fn for fn, k in fns.items() if d["provs"][k]["async"] and not d["provs"][k]["requires"]]
    return dict(ref=ref, fns=fns, direct=direct, trans=trans, fallible=sorted(fallible), inputfree_async=sorted(inputfree_async),
                any_async=any(d["provs"][k]["async"] for k in fns.values()))


def scenarios_for(rnd, d, ob, facts, tier):
    name = d["name"]
    out = []
    n = 0
    def sc(kind, **kw):
        nonlocal n
        n += 1
        s = dict(id="%s/%d" % (name, n), inj=name, kind=kind, seed=rnd.randrange(1 << 30), max_delay_us=kw.pop("delay", 60), gate_ms=400)
        s.update(kw)
        out.append(s)
    if d.get("kf"):
        # forced scenario realising the model witness of the recorded finding
        P = d["prefix"]
        kf = d["kf"]
        if kf == "KF-C06-1":
            sc("fail", fail=["New%sT2" % P], delay=0)
        elif kf == "KF-C07-1":
            sc("cancel", cancel_on=dict(kind="before", fn=""), delay=0, gates={"New%sT1" % P: [dict(kind="never", fn="")]}, gate_ms=300)
        elif kf == "KF-C07-2":
            sc("cancel", cancel_on=dict(kind="before", fn=""), delay=0, gates={"New%sT3" % P: [dict(kind="never", fn="")]}, gate_ms=300)
        elif kf == "KF-C08-1":
            sc("fail", fail=["New%sT3" % P], delay=0)
        sc("free", delay=0)
        return out
    has_gos = bool(ob["gos"])
    reps = 3 if tier == "quick" else 8
    if has_gos:
        for r in range(reps):
            sc("free", delay=rnd.choice([0, 10, 60, 300]), procs=rnd.choice([1, 2, 4, 16]))
    else:
        sc("free", delay=0)
    if len(facts["inputfree_async"]) >= 2:
        sc("barrier", barrier=facts["inputfree_async"], delay=0, gate_ms=1500)
    fl = list(facts["fallible"])
    rnd.shuffle(fl)
    for fn in fl[: (3 if tier == "quick" else 8)]:
        sc("fail", fail=[fn], delay=rnd.choice([0, 60]))
    if tier != "quick" and len(fl) >= 2:
        pairs = [(a, b) for i, a in enumerate(fl) for b in fl[i + 1:]]
        rnd.shuffle(pairs)
        for a, b in pairs[:10]:
            sc("fail", fail=[a, b], delay=rnd.choice([0, 60]))
    if CTX in ob["params"]:
        sc("cancel", cancel_on=dict(kind="before", fn=""), delay=0)
        fns = sorted(facts["fns"])
        rnd.shuffle(fns)
        for fn in fns[: (2 if tier == "quick" else 6)]:
            sc("cancel", cancel_on=dict(kind=rnd.choice(["enter", "exit"]), fn=fn), delay=rnd.choice([0, 60]))
    return out


# ------------------------------------------------------------------ monitors (oracle = the property texts)

def monitor(d, ob, facts, sc, res):
    """Returns list of (property, verdict, detail) with verdict 'violation' | 'known:<id>'"""
    out = []
    ref = facts["ref"]
    ev = res["events"]
    kind = sc["kind"]
    cancelled = any(e["kind"] == "cancel" for e in ev)
    failed = [e["fn"] for e in ev if e["kind"] == "fail"]
    ctxfailed = [e["fn"] for e in ev if e["kind"] == "ctxfail"]     # context-taking providers that returned ctx.Err()
    enters = [e for e in ev if e["kind"] == "enter"]
    exits = {}
    for e in ev:
        if e["kind"] == "exit":
            exits.setdefault(e["fn"], e["seq"])
    main_fns = set(d["provs"][it["pi"]]["fn"] for it in ob["main"] if it["pi"] < len(d["provs"]) and d["provs"][it["pi"]]["kind"] == "fn")
    # C01: entry only after producers returned, with exactly their values; each provider at most once
    seen = {}
    for e in enters:
        fn = e["fn"]
        seen[fn] = seen.get(fn, 0) + 1
        if fn not in ref["calls"]:
            out.append(("C02", "violation", "provider %s invoked although it is not needed" % fn))
            continue
        if (e.get("args") or []) != ref["calls"][fn]:
            out.append(("C01", "violation", "provider %s received %s, producers returned %s" % (fn, e.get("args"), ref["calls"][fn])))
        for pr in facts["direct"][fn]:
            if pr not in exits or exits[pr] > e["seq"]:
                out.append(("C01", "violation", "provider %s entered before its producer %s returned" % (fn, pr)))
    for fn, c in seen.items():
        if c > 1:
            out.append(("C02", "violation", "provider %s invoked %d times" % (fn, c)))
    if res.get("panic"):
        out.append(("C03", "violation", "panic: %s" % res["panic"]))
    fault_free = not cancelled and not failed and not ctxfailed
    if fault_free:
        if not res["returned"]:
            out.append(("C03", "violation", "injector did not return in a fault-free run"))
        else:
            if res["err"]:
                out.append(("C03", "violation", "fault-free run returned error %s" % res["err"]))
            if res["value"] != ref["result"]:
                out.append(("C02", "violation", "result %s, sequential evaluation gives %s" % (res["value"], ref["result"])))
            missing = [fn for fn in ref["calls"] if fn not in seen]
            if missing:
                out.append(("C02", "violation", "needed providers never invoked: %s" % missing))
            if res["leaked"]:
                out.append(("C03", "violation", "%d goroutine(s) still inside the injector after a successful return: %s" % (res["leaked"], res.get("leak_info", ""))))
    if kind == "barrier":
        to = [e["fn"] for e in ev if e["kind"] == "gate-timeout"]
        if to:
            out.append(("C05", "violation", "input-free async providers never overlapped: %s timed out at the barrier" % to))
    if failed and not cancelled:
        for f in failed:
            for e in enters:
                if f in facts["trans"].get(e["fn"], ()):
                    # invoked although a (transitive) dependency failed
                    out.append(("C06", "violation", "provider %s invoked although %s failed" % (e["fn"], f)))
        if not res["returned"]:
            out.append(("C06", "violation", "injector did not terminate after provider failure %s" % failed))
        elif not res["err"]:
            out.append(("C06", "violation", "provider %s failed but the injector returned no error" % failed))
        elif res["err"].startswith("prov:"):
            if res["err"][5:] not in failed:
                out.append(("C06", "violation", "returned error %s is not one of the failed providers %s" % (res["err"], failed)))
        elif res["err"] == "canceled" and ctxfailed:
            pass    # a context-taking provider reported the (internal) cancellation itself: an error returned by an invoked provider
        elif res["err"] == "canceled":
            out.append(("C06", "known:KF-C06-1", "injector returned its internal context's cancellation instead of the error of %s" % failed))
        else:
            out.append(("C06", "violation", "returned substitute error %s after failure of %s" % (res["err"], failed)))
    if cancelled:
        if not res["returned"]:
            if not ob["reterr"]:
                out.append(("C07", "known:KF-C07-1", "injector without error result blocked forever after cancellation"))
            else:
                out.append(("C07", "violation", "injector with error result did not return after cancellation"))
        elif not res["err"] and res["value"] != ref["result"]:
            if not ob["reterr"]:
                out.append(("C07", "known:KF-C07-2", "injector without error result returned %s silently after cancellation" % res["value"]))
            else:
                out.append(("C07", "violation", "returned partial value %s with nil error after cancellation" % res["value"]))
    if res["returned"] and res["leaked"]:
        early_main = (res["err"] == "canceled") or (res["err"].startswith("prov:") and res["err"][5:] in main_fns)
        waits = [w for w in res.get("leak_wait") or [] if w.startswith("goroutine:")]
        in_select = bool(waits) and all(w == "goroutine:select" for w in waits)
        if res["err"] and early_main and in_select:
            out.append(("C08", "known:KF-C08-1", "goroutine left blocked after the main thread's early error return (%s)" % res["err"]))
        elif not fault_free:
            out.append(("C08", "violation", "%d goroutine(s) blocked after return (err=%r) in %s: %s" % (res["leaked"], res["err"], waits, res.get("leak_info", ""))))
    return out


# ------------------------------------------------------------------ replay of real event logs through Sem2 (validation of the semantics)

def trace_labels(d, ob, res):
    """event log of one real execution -> label sequence of Sem2 on the observed program; None when the log cannot be
    expressed (context-reactive provider failures are outside the model's error vocabulary)"""
    if any(e["kind"] in ("ctxfail", "gate-timeout") for e in res["events"]):
        return None
    threads = [ob["main"]] + ob["gos"]
    nprov = len(d["provs"])
    def silent(it):
        return it["pi"] >= nprov or d["provs"][it["pi"]]["kind"] == "value"
    where = {}
    for t, th in enumerate(threads):
        for j, it in enumerate(th):
            if not silent(it):
                where[d["provs"][it["pi"]]["fn"]] = (t, j)
    pos = [0] * len(threads)
    dead = [False] * len(threads)
    labels = []
    def run_silent(t, upto):
        while pos[t] < upto and pos[t] < len(threads[t]) and silent(threads[t][pos[t]]):
            it = threads[t][pos[t]]
            labels.extend(["LWaitPass %d" % t] * len(it["waits"]) + ["LEnter %d" % t, "LExitOk %d" % t] + ["LClose %d" % t] * len(it["closes"]) + ["LNext %d" % t])
            pos[t] += 1
    for t in range(len(threads)):
        run_silent(t, len(threads[t]))          # leading Value providers run as soon as the thread starts, without events
    for e in res["events"]:
        k = e["kind"]
        if k == "cancel":
            labels.append("LCancel")
        elif k in ("enter", "exit", "fail"):
            if e["fn"] not in where:
                return None
            t, j = where[e["fn"]]
            it = threads[t][j]
            if k == "enter":
                run_silent(t, j)
                labels.extend(["LWaitPass %d" % t] * len(it["waits"]) + ["LEnter %d" % t])
            elif k == "exit":
                labels.extend(["LExitOk %d" % t] + ["LClose %d" % t] * len(it["closes"]) + ["LNext %d" % t])
                pos[t] = j + 1
                run_silent(t, len(threads[t]))      # field reads and Value providers run right after, without events
            else:
                labels.append("LExitErr %d" % t)
                dead[t] = True
    for t in range(len(threads)):
        if not dead[t]:
            run_silent(t, len(threads[t]))
    if not res["returned"]:
        expect = 3
    elif not res["err"]:
        expect = 0
    elif res["err"].startswith("prov:"):
        fn = res["err"][5:]
        if fn not in where:
            return None
        t, j = where[fn]
        expect = 100 + threads[t][j]["pi"]
    elif res["err"] == "canceled":
        expect = 2
    else:
        return None
    return labels, expect, res["leaked"] > 0


def validate_traces(items, workdir):
    """items: list of (tag, prog term, labels, expect, leak). Returns (n, failures [(tag, code)], log)"""
    if not items:
        return 0, [], ""
    fails = []
    log = ""
    shards = [items[i:i + 150] for i in range(0, len(items), 150)]
    def one(ix):
        path = os.path.join(workdir, "traces_%d.v" % ix)
        with open(path, "w") as f:
            f.write("From Coq Require Import List Arith. Import ListNotations.\nRequire Import Sem2 Check.\n")
            f.write("Definition cases : list (nat * (prog * list label * nat * bool)) := [\n" + ";\n".join(
                "(%d, (%s, [%s], %d, %s))" % (i, it[1], "; ".join(it[2]), it[3], str(it[4]).lower()) for i, it in enumerate(shards[ix])) + "].\n")
            f.write("Definition TR := Eval vm_compute in flat_map (fun c => let '(p, ls, ex, lk) := snd c in match trace_code p ls ex lk with 0 => [] | k => [(fst c, k)] end) cases.\nPrint TR.\n")
        rc, out = vlib.coqc_file(path, timeout=900)
        return ix, rc, out
    with ThreadPoolExecutor(max_workers=8) as ex:
        for ix, rc, out in ex.map(one, range(len(shards))):
            m = re.search(r"TR\s*=\s*\[(.*?)\]\s*:\s*list \(nat \* nat\)", out, re.S)
            if rc != 0 or not m:
                log += out[-1500:]
                fails.append(("shard-%d" % ix, -1))
                continue
            for a, b in re.findall(r"\((\d+),\s*(\d+)\)", m.group(1)):
                fails.append((shards[ix][int(a)][0], int(b)))
    return len(items), fails, log


# ------------------------------------------------------------------ the stage

def stage(seed, tier):
    key = "D-%s-%s-%s" % (vlib.repo_hash() + vlib.tools_hash(), seed, tier)
    cpath = os.path.join(vlib.CACHE, "stage", key + ".json")
    if os.path.exists(cpath) and not os.environ.get("VERIF_NOCACHE"):
        return json.load(open(cpath))
    res = _stage(seed, tier)
    os.makedirs(os.path.dirname(cpath), exist_ok=True)
    with open(cpath, "w") as f:
        json.dump(res, f)
    return res


def _stage(seed, tier):
    S = stage_s.stage(seed, tier)
    rnd = random.Random(seed * 7919 + 13)
    mod = os.path.join(vlib.scratch(), "d")
    shutil.copytree(S["srcdir"], mod)
    bypkg = {}
    suspicious = []
    for r in S["records"]:
        if r["kind"] == "valid" and r["id"] and r["rc"] == 0 and (r["obs"] is not None or r.get("sig")):
            bypkg.setdefault(r["pkg"], []).append(r)
            if (r.get("model_mismatch") or r["problems"]) and r["pkg"] not in suspicious:
                suspicious.append(r["pkg"])      # search for a failing execution where model and code disagree
    # isolation: each suspicious declaration also alone in its own package
    susp_recs = [r for r in S["records"] if r["kind"] == "valid" and r["id"] and r["decl"] and (r.get("model_mismatch") or r["problems"] or r.get("checker_code"))]
    # declarations with goroutines first (their locals are declared ahead, so a mis-ordered call still compiles and shows
    # at run time as a wrong value), then the others; a compile failure of one kind must not use up all the slots
    def _has_async(r):
        return any(p.get("async") for p in r["decl"].get("provs", [])) if isinstance(r["decl"], dict) else False
    with_go = [r for r in susp_recs if _has_async(r)]
    without = [r for r in susp_recs if not _has_async(r)]
    susp_recs = with_go[:8] + without[:8] if len(susp_recs) > 10 else susp_recs
    for i, r in enumerate(susp_recs[:16]):
        iso = stage_s.isolate(mod, "iso%d" % i, r["decl"])
        if iso["rc"] == 0 and (iso["obs"] is not None or iso["sig"]):
            iso["model_mismatch"] = True
            bypkg["iso%d" % i] = [iso]
            suspicious.insert(0, "iso%d" % i)
    maxp = 4 if tier == "quick" else 24
    rest = [p for p in sorted(bypkg) if p not in suspicious]
    pk_names = suspicious[:40] + [p for p in rest if p.startswith("kf")] + [p for p in rest if p.startswith("p")][:maxp] + [p for p in rest if p.startswith("y")]
    plans = {}
    for pk in pk_names:
        injs = []
        scs = []
        info = {}
        for r in bypkg[pk]:
            d, ob = r["decl"], r["obs"]
            if ob is None:
                sg = r["sig"]
                ob = dict(params=sg["params"], results=sg["results"], reterr=(len(sg["results"]) == 2 and sg["results"][1] == "error"),
                          main=[], gos=[[]], unparsed=True)
            facts = decl_facts(d)
            injs.append(dict(name=d["name"], params=ob["params"], reterr=ob["reterr"]))
            # where model and code disagree the failing-input search uses the deep scenario set (failure pairs, more cancel points)
            deep = bool(r.get("model_mismatch") or r["problems"] or r.get("checker_code"))
            ss = scenarios_for(rnd, d, ob, facts, "thorough" if deep else tier)
            scs += ss
            info[d["name"]] = (d, ob, facts)
        with open(os.path.join(mod, pk, "zz_driver.go"), "w") as f:
            f.write(render_driver(injs))
        with open(os.path.join(mod, pk, "scenarios.json"), "w") as f:
            json.dump(scs, f)
        plans[pk] = (scs, info)
    def build_and_run(pk):
        d = os.path.join(mod, pk)
        rc, o, e = vlib.run(["go", "vet", "."], cwd=d, env=vlib.goenv(), timeout=600)
        vet = (rc, (o + e)[-3000:])
        rc, o, e = vlib.run(["go", "build", "-race", "-o", "drv", "."], cwd=d, env=vlib.goenv(), timeout=900)
        if rc != 0:
            return pk, dict(build_rc=rc, build_err=(o + e)[-3000:], vet=vet, results=[], stderr="", run_rc=None)
        env = vlib.goenv({"GORACE": "halt_on_error=0"})
        todo = json.load(open(os.path.join(d, "scenarios.json")))
        results = []
        crashes = []
        stderr_all = ""
        rc = 0
        for attempt in range(8):
            if not todo:
                break
            with open(os.path.join(d, "todo.json"), "w") as f:
                json.dump(todo, f)
            rc, o, e = vlib.run(["./drv", "todo.json"], cwd=d, env=env, timeout=900)
            got = []
            for line in o.splitlines():
                try:
                    got.append(json.loads(line))
                except ValueError:
                    pass
            results += got
            stderr_all += e[-6000:]
            if len(got) >= len(todo):
                break
            # the process died inside scenario number len(got): record it and go on with the rest
            crashes.append(dict(scenario=todo[len(got)], rc=rc, stderr=e[-2500:]))
            todo = todo[len(got) + 1:]
        return pk, dict(build_rc=0, build_err="", vet=vet, results=results, stderr=stderr_all[-8000:], run_rc=rc, crashes=crashes)
    outs = {}
    with ThreadPoolExecutor(max_workers=8) as ex:
        for pk, r in ex.map(build_and_run, pk_names):
            outs[pk] = r
    findings = []
    nscen = 0
    kinds = {}
    samples = []
    titems = []
    for pk in pk_names:
        scs, info = plans[pk]
        r = outs[pk]
        if r["build_rc"] != 0:
            findings.append(dict(prop="C04", verdict="violation", pkg=pk, inj="<package>", detail="generated package does not build: " + r["build_err"][-1500:], scenario=None))
            continue
        byid = {x["id"]: x for x in r["results"]}
        races = r["stderr"].count("WARNING: DATA RACE")
        if races:
            findings.append(dict(prop="C01", verdict="violation", pkg=pk, inj="<package>", detail="race detector: %d report(s): %s" % (races, r["stderr"][:2500]), scenario=None))
        crashed = {c["scenario"]["id"]: c for c in r.get("crashes", [])}
        for sc in scs:
            res = byid.get(sc["id"])
            d, ob, facts = info[sc["inj"]]
            if res is None:
                c = crashed.get(sc["id"])
                if c:
                    m = re.search(r"(panic: .*|fatal error: .*)", c["stderr"])
                    inband = "_band.go" in c["stderr"]
                    for prop in ("C01", "C02", "C03"):
                        findings.append(dict(prop=prop, verdict="violation", pkg=pk, inj=sc["inj"], scenario=sc,
                                             detail="the process crashed while the injector ran%s: %s" % (" (inside the generated file)" if inband else "", (m.group(1) if m else c["stderr"][-300:]))))
                continue
            nscen += 1
            kinds[sc["kind"]] = kinds.get(sc["kind"], 0) + 1
            if len(samples) < 3 and sc["kind"] != "free":
                samples.append(dict(scenario=sc, returned=res["returned"], value=res["value"], err=res["err"], events=[(e["kind"], e.get("fn", "")) for e in res["events"]][:12]))
            if not ob.get("unparsed"):
                try:
                    tl = trace_labels(d, ob, res)
                    if tl:
                        titems.append((sc["id"] + "@" + pk, stage_s.obs_prog(d, ob)[0], tl[0], tl[1], tl[2]))
                except Exception:
                    pass
            for prop, verdict, detail in monitor(d, ob, facts, sc, res):
                findings.append(dict(prop=prop, verdict=verdict, pkg=pk, inj=sc["inj"], detail=detail, scenario=sc,
                                     events=[(e["kind"], e.get("fn", ""), e.get("args")) for e in res["events"]]))
    ntr, tfails, tlog = validate_traces(titems, vlib.scratch())
    return dict(traces_replayed=ntr, trace_failures=tfails[:50], trace_log=tlog[-1500:], seed=seed, tier=tier, packages=len(pk_names), injectors=sum(len(plans[p][1]) for p in pk_names), scenarios=nscen,
                kinds=kinds, findings=findings, samples=samples, srcdir=S["srcdir"],
                vet={pk: outs[pk]["vet"] for pk in pk_names})


if __name__ == "__main__":
    seed = int(os.environ.get("VERIF_SEED", "1"))
    r = stage(seed, sys.argv[1] if len(sys.argv) > 1 else "quick")
    print("packages", r["packages"], "injectors", r["injectors"], "scenarios", r["scenarios"], r["kinds"])
    print("traces replayed", r["traces_replayed"], "failures", r["trace_failures"][:10], r["trace_log"][-500:])
    agg = {}
    for f in r["findings"]:
        agg.setdefault((f["prop"], f["verdict"]), []).append(f)
    for k, v in sorted(agg.items()):
        print(k, len(v))
        for f in v[:2]:
            print("    ", f["pkg"], f["inj"], f["detail"][:700])
    for pk, v in r["vet"].items():
        if v[0] != 0:
            print("VET", pk, v[1][:1500])
