"""Migration correspondence (C13, C14): random google/wire configurations -> real `wire` generates wire_gen.go; real
`kessoku migrate` + `kessoku` generate the other injector; both packages are compiled and run on the same arguments
under the instrumented runtime; results, provider call logs, signatures and errors are compared. The migrated file is
also checked for gofmt stability, compilation, determinism; invalid inputs must fail without writing a file."""
import hashlib, json, os, random, re, shutil, sys
from concurrent.futures import ThreadPoolExecutor
import vlib

# ------------------------------------------------------------------ configuration generator

def gen_cfg(rnd, k, opts=None):
    """A wire configuration inside the fragment migrate supports. Nodes form a DAG rooted at node 0."""
    opts = opts or {}
    P = "W%d" % k
    n = opts.get("n") or rnd.choice([1, 2, 3, 3, 4, 5, 6, 7, 8])
    deps = {}
    for i in range(n):
        cands = list(range(i + 1, n))
        rnd.shuffle(cands)
        deps[i] = sorted(cands[: rnd.choice([0, 1, 1, 2, 2, 3])]) if cands else []
    for j in range(1, n):            # wire refuses unused providers: every node must be reachable
        if not any(j in deps[i] for i in range(j)):
            i = rnd.randrange(0, j)
            deps[i] = sorted(set(deps[i] + [j]))
    kinds = {}
    for i in range(n):
        r = rnd.random()
        if not deps[i] and i > 0 and r < 0.2:
            kinds[i] = "value"
        elif not deps[i] and i > 0 and r < 0.3:
            kinds[i] = "ivalue"
        elif deps[i] and i > 0 and r < 0.18 and opts.get("structs", True):
            kinds[i] = "struct"
        elif i > 0 and r < 0.32 and opts.get("fieldsof", True):
            kinds[i] = "fields"        # a function provider of *S whose consumers take its fields
        else:
            kinds[i] = "fn"
    binds = {i for i in range(1, n) if kinds[i] == "fn" and rnd.random() < 0.3}
    fall = {i: kinds[i] in ("fn", "fields") and rnd.random() < 0.35 for i in range(n)}
    nargs = rnd.choice([0, 0, 1, 2])
    argdeps = {i: ([a for a in range(nargs) if rnd.random() < 0.4] if kinds[i] in ("fn", "fields") else []) for i in range(n)}
    used_args = sorted({a for i in range(n) for a in argdeps[i]})
    # how consumer i sees producer j
    view = {}
    nfields = {j: rnd.choice([1, 2]) for j in range(n) if kinds[j] == "fields"}
    for i in range(n):
        for j in deps[i]:
            if kinds[j] == "ivalue":
                view[(i, j)] = ["%sIF%d" % (P, j)]
            elif kinds[j] == "fields":
                fs = [f for f in range(nfields[j]) if rnd.random() < 0.7] or [0]
                view[(i, j)] = ["*%sF%d_%d" % (P, j, f) for f in fs]
            elif j in binds and rnd.random() < 0.6:
                view[(i, j)] = ["%sIF%d" % (P, j)]
            else:
                view[(i, j)] = ["*%sT%d" % (P, j)]
    sfields = {}
    cfg = dict(name="Init" + P, prefix=P, n=n, deps=deps, kinds=kinds, binds=sorted(binds), fall=fall, args=used_args, argdeps=argdeps, sfields=sfields,
               view={"%d,%d" % k_: v for k_, v in view.items()}, nfields=nfields,
               reterr=any(fall.values()) or rnd.random() < 0.2)
    # only bindings / fields that somebody consumes may be listed (wire refuses unused ones)
    cfg["used_iface"] = sorted({j for (i, j), v in view.items() if v[0].startswith(P + "IF")})
    cfg["used_fields"] = {j: sorted({int(t.rsplit("_", 1)[1]) for (i, jj), v in view.items() if jj == j for t in v}) for j in nfields}
    cfg["ext"] = {}
    cfg["gamma_iface"] = []
    if opts.get("ext"):
        hosts = [i for i in range(n) if kinds[i] in ("fn", "fields", "struct")]
        for q, pkgname in enumerate(["alpha", "alpha", "beta", "beta"]):
            j = cfg["n"]
            cfg["n"] += 1
            kinds[j] = "fn"
            deps[j] = []
            fall[j] = rnd.random() < 0.3
            argdeps[j] = []
            h = rnd.choice(hosts)
            deps[h] = deps[h] + [j]
            cfg["view"]["%d,%d" % (h, j)] = ["*%sconfig.%sT%d" % (pkgname[0], P, j)]
            cfg["ext"][j] = pkgname
        # a provider that exists under the same name in BOTH config packages and returns a type of a third package:
        # only beta's is listed in the wire set (a wrong package alias would still type-check)
        j = cfg["n"]
        cfg["n"] += 1
        kinds[j] = "fn"
        deps[j] = []
        fall[j] = False
        argdeps[j] = []
        h = rnd.choice(hosts)
        deps[h] = deps[h] + [j]
        cfg["view"]["%d,%d" % (h, j)] = ["*sink.%sLabel" % P]
        cfg["ext"][j] = "beta"
        cfg["label"] = j
        cfg["reterr"] = cfg["reterr"] or any(fall.values())
        # interfaces that live in a third package and are mentioned only in type positions
        cfg["gamma_iface"] = [j for j in cfg["used_iface"] if kinds[j] == "fn" and rnd.random() < 0.7]
        for key, v in list(cfg["view"].items()):
            j = int(key.split(",")[1])
            if j in cfg["gamma_iface"] and v[0].startswith(P + "IF"):
                cfg["view"][key] = ["sink." + v[0]]
    # wire.Struct with "*" or with an explicit list of ALL its fields, in an order of its own (computed last: the external
    # providers added above may have become further fields of a struct)
    for i in range(n):
        if kinds[i] == "struct" and rnd.random() < 0.6:
            perm = list(range(sum(len(cfg["view"]["%d,%d" % (i, j)]) for j in deps[i])))
            rnd.shuffle(perm)
            sfields[i] = perm
    cfg["layout"] = make_sets(rnd, cfg)
    return cfg


def elements(cfg):
    """wire elements in a canonical order: one or more per node"""
    P = cfg["prefix"]
    out = []
    for i in range(cfg["n"]):
        k = cfg["kinds"][i]
        if k == "fn" and (i in cfg.get("ext", {}) or str(i) in cfg.get("ext", {})):
            continue          # lives in an external package: listed in that package's set file
        if k == "fn":
            out.append(("prov", i, "New%sT%d" % (P, i)))
            if i in cfg["binds"] and i in cfg["used_iface"]:
                ifn = ("sink." if i in cfg.get("gamma_iface", []) else "") + "%sIF%d" % (P, i)
                out.append(("bind", i, "wire.Bind(new(%s), new(*%sT%d))" % (ifn, P, i)))
        elif k == "fields":
            out.append(("prov", i, "New%sT%d" % (P, i)))
            fs = cfg["used_fields"].get(i) or cfg["used_fields"].get(str(i)) or []
            out.append(("fieldsof", i, "wire.FieldsOf(new(*%sT%d), %s)" % (P, i, ", ".join('"Fld%d"' % f for f in fs))))
        elif k == "value":
            out.append(("value", i, "wire.Value(%sV%d)" % (P, i)))
        elif k == "ivalue":
            out.append(("ivalue", i, "wire.InterfaceValue(new(%sIF%d), %sV%d)" % (P, i, P, i)))
        elif k == "struct":
            sf = cfg.get("sfields", {})
            perm = sf.get(i) if i in sf else sf.get(str(i))
            out.append(("struct", i, 'wire.Struct(new(%sT%d), %s)' % (P, i, ", ".join('"F%d"' % q for q in perm) if perm else '"*"')))
    return out


def make_sets(rnd, cfg):
    """partition the elements into nested sets; a binding stays next to its provider"""
    els = elements(cfg)
    groups = []
    cur = []
    for e in els:
        if e[0] in ("bind", "fieldsof") and cur:
            cur.append(e[2])
        else:
            if cur:
                groups.append(cur)
            cur = [e[2]]
    if cur:
        groups.append(cur)
    rnd.shuffle(groups)
    # top level: a mix of direct groups and named sets (possibly nested one level)
    top = []
    sets = []
    i = 0
    while i < len(groups):
        if rnd.random() < 0.5 and len(groups) - i >= 1:
            ln = rnd.randint(1, min(3, len(groups) - i))
            members = [x for g in groups[i:i + ln] for x in g]
            name = "%sSet%d" % (cfg["prefix"], len(sets))
            if sets and rnd.random() < 0.3:
                members.append(sets[-1][0])          # set reference (nesting)
                top = [t for t in top if t != sets[-1][0]]
            sets.append((name, members))
            top.append(name)
            i += ln
        else:
            top += groups[i]
            i += 1
    extsets = {}
    for j, pk in sorted((int(a), b) for a, b in cfg.get("ext", {}).items()):
        extsets.setdefault(pk, []).append("config.New%sLabel" % cfg["prefix"] if cfg.get("label") == j else "config.New%sT%d" % (cfg["prefix"], j))
    if len(extsets.get("alpha", [])) >= 2 and rnd.random() < 0.6:
        # one alpha provider is listed directly in the injector file, which imports alpha/config under a name of its own
        # (sets_alpha.go imports the same path unaliased): two wire files, one path, two names
        m = extsets["alpha"].pop(0)
        top.append("acfg." + m.split(".", 1)[1])
    for pk, members in extsets.items():
        top.append("%sSet%s" % (cfg["prefix"], pk.capitalize()))
    return dict(sets=sets, top=top, extsets=extsets)


# ------------------------------------------------------------------ reference semantics of the configuration

def ref_eval(cfg):
    P = cfg["prefix"]
    memo = {}
    calls = {}
    def view_terms(i, j):
        v = cfg["view"]["%d,%d" % (i, j)]
        t = term(j)
        out = []
        for ty in v:
            if "F%d_" % j in ty:
                out.append(t + ".Fld" + ty.rsplit("_", 1)[1])
            else:
                out.append(t)
        return out
    def term(i):
        if i in memo:
            return memo[i]
        k = cfg["kinds"][i]
        if k in ("value", "ivalue"):
            memo[i] = "V:%sV%d" % (P, i)
            return memo[i]
        args = []
        for j in cfg["deps"][i]:
            args += view_terms(i, j)
        args += ["A:%sA%d" % (P, a) for a in cfg["argdeps"][i]]
        if k == "struct":
            memo[i] = "%sT%d{%s}" % (P, i, ",".join(args))
        else:
            fn = "New%sT%d" % (P, i)
            if cfg.get("label") == i:
                fn = "beta.New%sLabel" % P
            calls[fn] = args
            memo[i] = fn + "(" + ",".join(args) + ")#0"
        return memo[i]
    res = term(0)
    return dict(result=res, calls=calls)


# ------------------------------------------------------------------ rendering

def render_types(cfg):
    P = cfg["prefix"]
    out = []
    for a in cfg["args"]:
        out.append("type %sA%d struct{ S string }\nfunc (x %sA%d) Term() string { return x.S }\n" % (P, a, P, a))
    ext = {int(a): b for a, b in cfg.get("ext", {}).items()}
    for i in range(cfg["n"]):
        k = cfg["kinds"][i]
        if i in ext:
            continue
        params = []
        for j in cfg["deps"][i]:
            for ty in cfg["view"]["%d,%d" % (i, j)]:
                params.append(ty)
        params += ["%sA%d" % (P, a) for a in cfg["argdeps"][i]]
        if k == "struct":
            flds = "; ".join("F%d %s" % (q, t) for q, t in enumerate(params))
            out.append("type %sT%d struct { %s }\n" % (P, i, flds))
            out.append("func (x *%sT%d) Term() string { if x == nil { return \"<nil>\" }; return \"%sT%d{\" + %s + \"}\" }\n" % (
                P, i, P, i, ' + "," + '.join("x.F%d.Term()" % q for q in range(len(params))) or '""'))
            continue
        if k == "fields":
            nf = cfg["nfields"][i] if i in cfg["nfields"] else cfg["nfields"][str(i)]
            for f in range(nf):
                out.append("type %sF%d_%d struct{ S string }\nfunc (x *%sF%d_%d) Term() string { if x == nil { return \"<nil>\" }; return x.S }\n" % (P, i, f, P, i, f))
            out.append("type %sT%d struct { %s; s string }\n" % (P, i, "; ".join("Fld%d *%sF%d_%d" % (f, P, i, f) for f in range(nf))))
            out.append("func (x *%sT%d) Term() string { if x == nil { return \"<nil>\" }; return x.s }\n" % (P, i))
        else:
            out.append("type %sT%d struct{ S string }\nfunc (x *%sT%d) Term() string { if x == nil { return \"<nil>\" }; return x.S }\n" % (P, i, P, i))
        if i in cfg.get("gamma_iface", []):
            out.append("func (x *%sT%d) Is%sIF%d() {}\n" % (P, i, P, i))
        elif i in cfg["binds"] or k == "ivalue":
            out.append("type %sIF%d interface { Term() string; Is%sIF%d() }\nfunc (x *%sT%d) Is%sIF%d() {}\n" % (P, i, P, i, P, i, P, i))
        if k in ("value", "ivalue"):
            out.append("var %sV%d = &%sT%d{S: \"V:%sV%d\"}\n" % (P, i, P, i, P, i))
            continue
        plist = ", ".join("p%d %s" % (q, t) for q, t in enumerate(params))
        args = ", ".join("p%d.Term()" % q for q in range(len(params)))
        rets = "*%sT%d" % (P, i) + (", error" if cfg["fall"][i] else "")
        body = "\th := verifrt.Enter(\"New%sT%d\", []string{%s})\n" % (P, i, args)
        if cfg["fall"][i]:
            body += "\tif err := h.Exit(true); err != nil { return nil, err }\n"
        else:
            body += "\t_ = h.Exit(false)\n"
        if k == "fields":
            nf = cfg["nfields"][i] if i in cfg["nfields"] else cfg["nfields"][str(i)]
            val = "&%sT%d{%s, s: h.Term(0)}" % (P, i, ", ".join("Fld%d: &%sF%d_%d{S: h.Term(0) + \".Fld%d\"}" % (f, P, i, f, f) for f in range(nf)))
        else:
            val = "&%sT%d{S: h.Term(0)}" % (P, i)
        body += "\treturn %s%s\n" % (val, ", nil" if cfg["fall"][i] else "")
        out.append("func New%sT%d(%s) (%s) {\n%s}\n" % (P, i, plist, rets, body))
    return "".join(out)


def render_wire(cfg):
    P = cfg["prefix"]
    lay = cfg["layout"]
    sets = "".join("var %s = wire.NewSet(\n%s)\n\n" % (name, "".join("\t%s,\n" % m for m in members)) for name, members in lay["sets"])
    params = ", ".join("a%d %sA%d" % (a, P, a) for a in cfg["args"])
    rets = "(*%sT0, error)" % P if cfg["reterr"] else "*%sT0" % P
    if sum(map(ord, cfg["name"])) % 3 == 0:
        # the other common spelling of an injector body
        inj = "func %s(%s) %s {\n\tpanic(wire.Build(\n%s\t))\n}\n" % (cfg["name"], params, rets, "".join("\t\t%s,\n" % t for t in lay["top"]))
        return sets, inj
    inj = "func %s(%s) %s {\n\twire.Build(\n%s\t)\n\treturn %s\n}\n" % (cfg["name"], params, rets, "".join("\t\t%s,\n" % t for t in lay["top"]),
                                                                     "nil, nil" if cfg["reterr"] else "nil")
    return sets, inj


def render_ext_pkg(cfgs, pk, name):
    """source of <case>/<pk>/config/config.go (package config): external provider functions and their types"""
    out = ['package config\n\nimport (\n\t"vscratch/%s/gamma/sink"\n\t"vscratch/verifrt"\n)\n\nvar _ = verifrt.Enter\nvar _ sink.Unused\nvar Keep = 0\n\n' % name]
    for c in cfgs:
        P = c["prefix"]
        if c.get("label") is not None:
            out.append("func New%sLabel() *sink.%sLabel {\n\th := verifrt.Enter(\"%s.New%sLabel\", []string{})\n\t_ = h.Exit(false)\n\treturn &sink.%sLabel{S: h.Term(0)}\n}\n" % (P, P, pk, P, P))
        for j, where in sorted((int(a), b) for a, b in c.get("ext", {}).items()):
            if where != pk or c.get("label") == j:
                continue
            out.append("type %sT%d struct{ S string }\nfunc (x *%sT%d) Term() string { if x == nil { return \"<nil>\" }; return x.S }\n" % (P, j, P, j))
            fl = c["fall"][j] if j in c["fall"] else c["fall"][str(j)]
            body = "\th := verifrt.Enter(\"New%sT%d\", []string{})\n" % (P, j)
            body += ("\tif err := h.Exit(true); err != nil { return nil, err }\n" if fl else "\t_ = h.Exit(false)\n")
            body += "\treturn &%sT%d{S: h.Term(0)}%s\n" % (P, j, ", nil" if fl else "")
            out.append("func New%sT%d() (*%sT%d%s) {\n%s}\n" % (P, j, P, j, ", error" if fl else "", body))
    return "".join(out)


def write_case(mod, name, cfgs):
    """package <name>: types.go, sets.go (no build tag), wire.go (wireinject); optional external packages
    <name>/alpha/config and <name>/beta/config (both named config) with their own set files, <name>/gamma/sink (interfaces)"""
    d = os.path.join(mod, name)
    os.makedirs(d, exist_ok=True)
    has_ext = any(c.get("ext") for c in cfgs)
    has_gamma = any(c.get("gamma_iface") for c in cfgs) or has_ext
    imps = ['"vscratch/verifrt"']
    if has_ext:
        imps += ['aconfig "vscratch/%s/alpha/config"' % name, 'bconfig "vscratch/%s/beta/config"' % name]
    if has_gamma:
        imps += ['"vscratch/%s/gamma/sink"' % name]
    types = "package main\n\nimport (\n%s)\n\nvar _ = verifrt.Enter\n%s\n" % ("".join("\t%s\n" % i for i in imps), "var _ sink.Unused\nvar _ = aconfig.Keep\nvar _ = bconfig.Keep\n" if has_ext else ("var _ sink.Unused\n" if has_gamma else "")) + "\n".join(render_types(c) for c in cfgs)
    sets = ""
    injs = ""
    for c in cfgs:
        s, i = render_wire(c)
        sets += s
        injs += i + "\n"
    def hdr(body, tag):
        sink = '\t"vscratch/%s/gamma/sink"\n' % name if "sink." in body else ""
        if "acfg." in body:
            sink += '\tacfg "vscratch/%s/alpha/config"\n' % name
        return tag + "package main\n\nimport (\n\t\"github.com/google/wire\"\n%s)\n\nvar _ = wire.NewSet()\n\n" % sink + body
    open(os.path.join(d, "types.go"), "w").write(types)
    open(os.path.join(d, "sets.go"), "w").write(hdr(sets, ""))
    open(os.path.join(d, "wire.go"), "w").write(hdr(injs, "//go:build wireinject\n\n").replace("var _ = wire.NewSet()\n\n", ""))
    if has_ext:
        for pk in ("alpha", "beta"):
            os.makedirs(os.path.join(d, pk, "config"), exist_ok=True)
            open(os.path.join(d, pk, "config", "config.go"), "w").write(render_ext_pkg(cfgs, pk, name))
            body = 'package main\n\nimport (\n\t"github.com/google/wire"\n\n\t"vscratch/%s/%s/config"\n)\n\n' % (name, pk)
            for c in cfgs:
                members = c["layout"].get("extsets", {}).get(pk)
                if members:
                    body += "var %sSet%s = wire.NewSet(\n%s)\n\n" % (c["prefix"], pk.capitalize(), "".join("\t%s,\n" % m for m in members))
            open(os.path.join(d, "sets_%s.go" % pk), "w").write(body)
    if has_gamma:
        os.makedirs(os.path.join(d, "gamma", "sink"), exist_ok=True)
        g = "package sink\n\ntype Unused struct{}\n\n"
        for c in cfgs:
            if c.get("label") is not None:
                g += "type %sLabel struct{ S string }\nfunc (x *%sLabel) Term() string { if x == nil { return \"<nil>\" }; return x.S }\n" % (c["prefix"], c["prefix"])
        for c in cfgs:
            for j in c.get("gamma_iface", []):
                g += "type %sIF%d interface { Term() string; Is%sIF%d() }\n" % (c["prefix"], j, c["prefix"], j)
        open(os.path.join(d, "gamma", "sink", "sink.go"), "w").write(g)
    return d


DRIVER = '''package main

import (
	"context"
	"encoding/json"
	"os"

	"vscratch/verifrt"
)

type injT struct {
	call   func(ctx context.Context) (any, error)
	reterr bool
}

var injectors = map[string]injT{
%s}

func main() {
	var scs []verifrt.Scenario
	f, err := os.Open(os.Args[1])
	if err != nil {
		panic(err)
	}
	if err := json.NewDecoder(f).Decode(&scs); err != nil {
		panic(err)
	}
	enc := json.NewEncoder(os.Stdout)
	for i := range scs {
		in, ok := injectors[scs[i].Inj]
		if !ok {
			continue
		}
		res := verifrt.Execute(&scs[i], in.call, in.reterr)
		_ = enc.Encode(res)
	}
}
'''


def driver_for(sigs):
    """sigs: {name: dict(params=[types], reterr)}"""
    rows = ""
    for name, sg in sigs.items():
        args = []
        for t in sg["params"]:
            if t == "context.Context":
                args.append("ctx")
            else:
                args.append('%s{S: "A:%s"}' % (t, t))
        if sg["reterr"]:
            rows += '\t%s: {call: func(ctx context.Context) (any, error) { v, err := %s(%s); return v, err }, reterr: true},\n' % (json.dumps(name), name, ", ".join(args))
        else:
            rows += '\t%s: {call: func(ctx context.Context) (any, error) { v := %s(%s); return v, nil }, reterr: false},\n' % (json.dumps(name), name, ", ".join(args))
    return DRIVER % rows


FUNC_SIG = re.compile(r"^func (\w+)\((.*?)\) (\(?[^{]*?\)?) \{$", re.M)


def signatures(path):
    """top-level function signatures of a generated file (gofmt-ed text): name -> params types, reterr"""
    out = {}
    if not os.path.exists(path):
        return out
    for m in FUNC_SIG.finditer(open(path).read()):
        name, plist, res = m.group(1), m.group(2).strip(), m.group(3).strip()
        params = []
        if plist:
            pending = []
            for part in plist.split(", "):
                bits = part.split(" ", 1)
                if len(bits) == 1:
                    pending.append(bits[0])
                else:
                    for _ in pending:
                        params.append(bits[1])
                    pending = []
                    params.append(bits[1])
        out[name] = dict(params=params, reterr=res.startswith("(") and res.rstrip(")").endswith("error"), result=res)
    return out


def new_module(name):
    d = vlib.new_scratch_module(name)
    with open(os.path.join(d, "go.mod"), "w") as f:
        f.write("module vscratch\n\ngo 1.24.0\n\nrequire (\n\tgithub.com/google/wire v0.7.0\n\tgithub.com/mazrean/kessoku v0.0.0\n\tgolang.org/x/sync v0.19.0\n\tgolang.org/x/tools v0.42.0\n)\n\nreplace github.com/mazrean/kessoku => %s\n" % vlib.REPO)
    return d


def run_case(mod, name, cfgs, wire, kessoku):
    """Generate both injectors, build and run. Returns a record."""
    rec = dict(name=name, cfgs=cfgs, problems=[], stage="", per_injector={})
    base = write_case(mod, name, cfgs)
    env = vlib.goenv()
    # --- wire side
    wdir = os.path.join(mod, name + "_w")
    shutil.copytree(base, wdir)
    rc, o, e = vlib.run([wire, "gen", "."], cwd=wdir, env=env, timeout=300)
    rec["wire_rc"] = rc
    if rc != 0:
        rec["stage"] = "wire rejected the configuration"
        rec["wire_err"] = (o + e)[-800:]
        return rec
    # --- kessoku side
    kdir = os.path.join(mod, name + "_k")
    shutil.copytree(base, kdir)
    rc, o, e = vlib.run([kessoku, "migrate", "-o", "kessoku.go", "./"], cwd=kdir, env=env, timeout=300)
    rec["migrate_rc"] = rc
    rec["migrate_err"] = e[-800:]
    out = os.path.join(kdir, "kessoku.go")
    if rc != 0 or not os.path.exists(out):
        rec["stage"] = "migrate failed"
        rec["problems"].append("wire accepts the configuration but migrate failed (rc=%d): %s" % (rc, e[-300:]))
        return rec
    text1 = open(out).read()
    rec["kessoku_go"] = text1[:6000]
    # C14: deterministic (a second pristine copy), gofmt-stable
    kdir2 = os.path.join(mod, name + "_k2")
    shutil.copytree(base, kdir2)
    rc, o, e = vlib.run([kessoku, "migrate", "-o", "kessoku.go", "./"], cwd=kdir2, env=dict(env, GOMAXPROCS="1"), timeout=300)
    if rc != 0 or not os.path.exists(os.path.join(kdir2, "kessoku.go")) or open(os.path.join(kdir2, "kessoku.go")).read() != text1:
        rec["problems"].append("C14: migrate output differs between two runs")
    shutil.rmtree(kdir2, ignore_errors=True)
    # the wire files are set aside on the kessoku side
    for f in ("sets.go", "wire.go", "sets_alpha.go", "sets_beta.go"):
        if os.path.exists(os.path.join(kdir, f)):
            os.remove(os.path.join(kdir, f))
    rc, o, e = vlib.run(["gofmt", "-l", "kessoku.go"], cwd=kdir, env=env, timeout=60)
    if rc != 0 or o.strip():
        rec["problems"].append("C14: migrated file is not gofmt-stable: %s%s" % (o, e[-200:]))
    for c in cfgs:
        for sname, _ in c["layout"]["sets"]:
            cnt = len(re.findall(r"^var %s = kessoku\.Set\(" % re.escape(sname), text1, re.M))
            if cnt != 1:
                rec["problems"].append("C14: set %s declared %d times in the migrated file" % (sname, cnt))
    rc, o, e = vlib.run([kessoku, "kessoku.go"], cwd=kdir, env=env, timeout=300)
    rec["generate_rc"] = rc
    if rc != 0:
        rec["stage"] = "kessoku refused the migrated file"
        rec["problems"].append("kessoku refuses the migrated declarations: %s" % e[-400:])
        rec["generate_err"] = e[-800:]
        return rec
    wsig = signatures(os.path.join(wdir, "wire_gen.go"))
    ksig = signatures(os.path.join(kdir, "kessoku_band.go"))
    rec["wire_sig"], rec["kessoku_sig"] = wsig, ksig
    scen = []
    for c in cfgs:
        nm = c["name"]
        fall = ["New%sT%d" % (c["prefix"], i) for i in range(c["n"]) if c["fall"][i]]
        scen.append(dict(id=nm + "/ok", inj=nm, kind="free", seed=1, max_delay_us=0, gate_ms=200))
        for fn in fall:
            scen.append(dict(id=nm + "/fail:" + fn, inj=nm, kind="fail", fail=[fn], seed=1, max_delay_us=0, gate_ms=200))
    results = {}
    for side, d, sig in (("wire", wdir, wsig), ("kessoku", kdir, ksig)):
        open(os.path.join(d, "zz_driver.go"), "w").write(driver_for({c["name"]: sig[c["name"]] for c in cfgs if c["name"] in sig}))
        json.dump(scen, open(os.path.join(d, "scen.json"), "w"))
        rc, o, e = vlib.run(["go", "vet", "."], cwd=d, env=env, timeout=600)
        if rc != 0:
            rec["problems"].append("%s side does not compile: %s" % (side, (o + e)[-500:]))
            rec["stage"] = side + " side does not compile"
            return rec
        rc, o, e = vlib.run(["go", "build", "-o", "drv", "."], cwd=d, env=env, timeout=600)
        if rc != 0:
            rec["problems"].append("%s side does not build: %s" % (side, (o + e)[-500:]))
            return rec
        rc, o, e = vlib.run(["./drv", "scen.json"], cwd=d, env=env, timeout=300)
        results[side] = {}
        for line in o.splitlines():
            try:
                r = json.loads(line)
                results[side][r["id"]] = r
            except ValueError:
                pass
    rec["stage"] = "ran"
    for c in cfgs:
        nm = c["name"]
        pi = dict(problems=[])
        rec["per_injector"][nm] = pi
        if nm not in wsig:
            pi["problems"].append("wire generated no injector %s" % nm)
            continue
        if nm not in ksig:
            pi["problems"].append("kessoku generated no injector %s" % nm)
            continue
        if sorted(wsig[nm]["params"]) != sorted(ksig[nm]["params"]):
            pi["problems"].append("argument types differ: wire %s, kessoku %s" % (wsig[nm]["params"], ksig[nm]["params"]))
        ref = ref_eval(c)
        for s in scen:
            if s["inj"] != nm:
                continue
            w, kk = results["wire"].get(s["id"]), results["kessoku"].get(s["id"])
            if not w or not kk:
                pi["problems"].append("scenario %s did not run on both sides" % s["id"])
                continue
            def calls(r):
                return sorted((e["fn"], tuple(e.get("args") or [])) for e in r["events"] if e["kind"] == "enter")
            if s["kind"] == "free":
                rec.setdefault("values", {})[nm] = [w["value"] if not w["err"] else None, kk["value"] if not kk["err"] else None]
                if w["value"] != ref["result"]:
                    pi["problems"].append("HARNESS: wire's result %s differs from the reference %s" % (w["value"], ref["result"]))
                if kk["value"] != w["value"] or kk["err"] != w["err"]:
                    pi["problems"].append("results differ: wire (%s, %s) kessoku (%s, %s)" % (w["value"], w["err"], kk["value"], kk["err"]))
                if calls(kk) != calls(w):
                    pi["problems"].append("providers invoked differ: wire %s kessoku %s" % (calls(w)[:6], calls(kk)[:6]))
            else:
                if w["err"] and kk["err"] != w["err"]:
                    pi["problems"].append("wire's injector reports %s, kessoku's reports %r when %s fails" % (w["err"], kk["err"], s["fail"]))
        pi["scenarios"] = len([s for s in scen if s["inj"] == nm])
    return rec


def invalid_inputs(mod, kessoku):
    """C14 failure half: each invalid input kind must fail with a non-zero exit and write no output file."""
    env = vlib.goenv()
    cases = {
        "syntax_error": {"wire.go": '//go:build wireinject\n\npackage main\n\nimport "github.com/google/wire"\n\nfunc Init() *T { wire.Build(NewT) return nil }\n', "t.go": "package main\n\ntype T struct{}\n\nfunc NewT() *T { return &T{} }\n"},
        "type_error": {"wire.go": '//go:build wireinject\n\npackage main\n\nimport "github.com/google/wire"\n\nfunc Init() *T { wire.Build(NewMissing); return nil }\n', "t.go": "package main\n\ntype T struct{}\n"},
        "duplicate_set": {"a.go": 'package main\n\nimport "github.com/google/wire"\n\ntype T struct{}\n\nfunc NewT() *T { return &T{} }\n\nvar S = wire.NewSet(NewT)\n',
                          "b.go": '//go:build wireinject\n\npackage main\n\nimport "github.com/google/wire"\n\nvar S = wire.NewSet(NewT)\n'},
        "missing_constructor": {"a.go": 'package main\n\nimport "github.com/google/wire"\n\ntype I interface{ M() }\ntype Impl struct{}\n\nfunc (*Impl) M() {}\n\nfunc MakeImpl() *Impl { return &Impl{} }\n\nvar S = wire.NewSet(MakeImpl, wire.Bind(new(I), new(*Impl)))\n'},
    }
    recs = []
    for nm, files in cases.items():
        d = os.path.join(mod, "bad_" + nm)
        os.makedirs(d)
        for fn, txt in files.items():
            open(os.path.join(d, fn), "w").write(txt)
        rc, o, e = vlib.run([kessoku, "migrate", "-o", "kessoku.go", "./"], cwd=d, env=env, timeout=300)
        recs.append(dict(kind=nm, rc=rc, wrote=os.path.exists(os.path.join(d, "kessoku.go")), stderr=e[-300:]))
    # packages mixed
    d = os.path.join(mod, "bad_mixed")
    os.makedirs(os.path.join(d, "p1"))
    os.makedirs(os.path.join(d, "p2"))
    for p in ("p1", "p2"):
        open(os.path.join(d, p, "a.go"), "w").write('package %s\n\nimport "github.com/google/wire"\n\ntype T struct{}\n\nfunc NewT() *T { return &T{} }\n\nvar S%s = wire.NewSet(NewT)\n' % (p, p))
    rc, o, e = vlib.run([kessoku, "migrate", "-o", "kessoku.go", "./p1", "./p2"], cwd=d, env=env, timeout=300)
    recs.append(dict(kind="packages_mixed", rc=rc, wrote=os.path.exists(os.path.join(d, "kessoku.go")), stderr=e[-300:]))
    # a pattern spanning two packages: the wire package is fine, the OTHER matched package has a type error
    d = os.path.join(mod, "bad_other_pkg")
    os.makedirs(os.path.join(d, "aaa"))
    os.makedirs(os.path.join(d, "w"))
    open(os.path.join(d, "aaa", "a.go"), "w").write("package aaa\n\nfunc Broken() int { return undefinedName }\n")
    open(os.path.join(d, "w", "w.go"), "w").write('//go:build wireinject\n\npackage main\n\nimport "github.com/google/wire"\n\ntype T struct{}\n\nfunc NewT() *T { return &T{} }\n\nfunc Init() *T {\n\twire.Build(NewT)\n\treturn nil\n}\n')
    rc, o, e = vlib.run([kessoku, "migrate", "-o", "w/kessoku.go", "./..."], cwd=d, env=env, timeout=300)
    recs.append(dict(kind="type_error_in_another_matched_package", rc=rc, wrote=os.path.exists(os.path.join(d, "w", "kessoku.go")), stderr=e[-300:]))
    # a syntax error inside the import block of the only wire file (the file's imports cannot even be listed)
    d = os.path.join(mod, "bad_import_block")
    os.makedirs(d)
    open(os.path.join(d, "t.go"), "w").write("package main\n\ntype T struct{}\n\nfunc NewT() *T { return &T{} }\n")
    open(os.path.join(d, "wire.go"), "w").write('//go:build wireinject\n\npackage main\n\nimport (\n\t"github.com/google/wire"\n\t"fmt\n)\n\nfunc Init() *T {\n\twire.Build(NewT)\n\treturn nil\n}\n')
    rc, o, e = vlib.run([kessoku, "migrate", "-o", "kessoku.go", "./"], cwd=d, env=env, timeout=300)
    recs.append(dict(kind="syntax_error_in_import_block", rc=rc, wrote=os.path.exists(os.path.join(d, "kessoku.go")), stderr=e[-300:]))
    # packages mixed, both called main (two commands below ./cmd)
    d = os.path.join(mod, "bad_mixed_main")
    for p in ("a", "b"):
        os.makedirs(os.path.join(d, "cmd", p))
        open(os.path.join(d, "cmd", p, "w.go"), "w").write('//go:build wireinject\n\npackage main\n\nimport "github.com/google/wire"\n\ntype T%s struct{}\n\nfunc NewT%s() *T%s { return &T%s{} }\n\nfunc Init%s() *T%s {\n\twire.Build(NewT%s)\n\treturn nil\n}\n' % ((p,) * 7))
    rc, o, e = vlib.run([kessoku, "migrate", "-o", "kessoku.go", "./cmd/..."], cwd=d, env=env, timeout=300)
    recs.append(dict(kind="packages_mixed_same_name", rc=rc, wrote=os.path.exists(os.path.join(d, "kessoku.go")), stderr=e[-300:]))
    return recs


def stage(seed, tier):
    key = "W-%s-%s-%s" % (vlib.repo_hash() + vlib.tools_hash(), seed, tier)
    cpath = os.path.join(vlib.CACHE, "stage", key + ".json")
    if os.path.exists(cpath) and not os.environ.get("VERIF_NOCACHE"):
        return json.load(open(cpath))
    kessoku = vlib.build_kessoku()
    wire = os.path.join(vlib.BUILD, "wire")
    if not os.path.exists(wire):
        vlib.run(["go", "build", "-o", wire, "github.com/google/wire/cmd/wire"], cwd=os.path.join(vlib.VERIF, "harness", "wirebuild"), env=vlib.goenv(), timeout=900, check=True)
    rnd = random.Random(seed * 977 + 3)
    mod = new_module("w")
    npk = 10 if tier == "quick" else 80
    cases = []
    k = 0
    for i in range(npk):
        cfgs = []
        for _ in range(rnd.choice([1, 2, 3])):
            cfgs.append(gen_cfg(rnd, k, dict(ext=(i % 2 == 1))))
            k += 1
        cases.append(("c%d" % i, cfgs))
    with ThreadPoolExecutor(max_workers=8) as ex:
        recs = list(ex.map(lambda c: run_case(mod, c[0], c[1], wire, kessoku), cases))
    bad = invalid_inputs(mod, kessoku)
    directed = directed_runs(key)
    keep = os.path.join(vlib.CACHE, "stage", key + "-src")
    shutil.rmtree(keep, ignore_errors=True)
    shutil.copytree(mod, keep, ignore=shutil.ignore_patterns("drv"))
    res = dict(records=recs, invalid=bad, srcdir=keep, directed=directed)
    os.makedirs(os.path.dirname(cpath), exist_ok=True)
    json.dump(res, open(cpath, "w"))
    return res


if __name__ == "__main__":
    r = stage(int(os.environ.get("VERIF_SEED", "1")), sys.argv[1] if len(sys.argv) > 1 else "quick")
    for x in r["records"]:
        pr = x["problems"] + [p for v in x["per_injector"].values() for p in v["problems"]]
        print(x["name"], x["stage"], len(x["cfgs"]), "cfgs", [c["kinds"] for c in x["cfgs"]][:1], pr[:3], x.get("wire_err", "")[-300:])
    for b in r["invalid"]:
        print(b)


# ------------------------------------------------------------------ reproducers of the recorded migration findings

KNOWN_CASES = {
    "KF-C13-12": dict(files={
        "t.go": 'package main\n\ntype Repo interface{ Get() string }\ntype PgRepo struct{ S string }\n\nfunc (p *PgRepo) Get() string { return p.S }\nfunc MakeRepo() *PgRepo { return &PgRepo{S: "make"} }\nfunc NewPgRepo() *PgRepo { return &PgRepo{S: "new"} }\n\ntype App struct{ R Repo }\n\nfunc NewApp(r Repo) *App { return &App{R: r} }\n',
        "main.go": 'package main\n\nfunc main() { println(InitApp().R.Get()) }\n',
        "wire.go": '//go:build wireinject\n\npackage main\n\nimport "github.com/google/wire"\n\nfunc InitApp() *App {\n\twire.Build(MakeRepo, wire.Bind(new(Repo), new(*PgRepo)), NewApp)\n\treturn nil\n}\n'},
        what="run"),
    "KF-C13-13": dict(files={
        "t.go": 'package main\n\ntype Config struct{ Host string }\ntype App struct{ H string }\n\nfunc NewConfig() Config { return Config{Host: "h"} }\nfunc NewApp(h string) *App { return &App{H: h} }\n',
        "main.go": 'package main\n\nfunc main() { println(InitApp().H) }\n',
        "wire.go": '//go:build wireinject\n\npackage main\n\nimport "github.com/google/wire"\n\nfunc InitApp() *App {\n\twire.Build(NewConfig, wire.FieldsOf(new(Config), "Host"), NewApp)\n\treturn nil\n}\n'},
        what="sig"),
    "KF-C13-16": dict(files={
        "t.go": 'package main\n\ntype Tag string\ntype Svc struct{ T Tag }\ntype App struct{ S Svc }\n\nfunc NewTag() Tag { return "t" }\nfunc NewApp(s Svc) *App { return &App{S: s} }\n',
        "main.go": 'package main\n\nfunc main() { println(string(InitApp().S.T)) }\n',
        "wire.go": '//go:build wireinject\n\npackage main\n\nimport "github.com/google/wire"\n\nfunc InitApp() *App {\n\twire.Build(NewTag, wire.Struct(new(Svc), "*"), NewApp)\n\treturn nil\n}\n'},
        what="sig"),
    "KF-C14-17": dict(files={
        "t.go": 'package main\n\ntype Hub struct {\n\tOut interface {\n\t\tWrite(p []byte) (int, error)\n\t}\n}\ntype B struct{}\n\nfunc (B) Write(p []byte) (int, error) { return len(p), nil }\nfunc NewOut() interface {\n\tWrite(p []byte) (int, error)\n} {\n\treturn B{}\n}\n',
        "main.go": 'package main\n\nfunc main() { println(InitApp() != nil) }\n',
        "wire.go": '//go:build wireinject\n\npackage main\n\nimport "github.com/google/wire"\n\nfunc InitApp() *Hub {\n\twire.Build(NewOut, wire.Struct(new(Hub), "*"))\n\treturn nil\n}\n'},
        what="vet"),
    "KF-C13-30": dict(files={
        "t.go": 'package main\n\ntype Limit int\ntype App struct{ L Limit }\n\nvar DefaultLimit = Limit(5)\n\nfunc NewApp(l Limit) *App { return &App{L: l} }\n',
        "main.go": 'package main\n\nfunc main() {\n\tDefaultLimit = 9\n\tprintln(int(InitApp().L))\n}\n',
        "wire.go": '//go:build wireinject\n\npackage main\n\nimport "github.com/google/wire"\n\nfunc InitApp() *App {\n\twire.Build(wire.Value(DefaultLimit), NewApp)\n\treturn nil\n}\n'},
        what="run"),
    "KF-C13-31": dict(files={
        "t.go": 'package main\n\ntype Host string\ntype Config struct{ Host Host }\ntype App struct{ H *Host }\n\nfunc NewConfig() *Config { return &Config{Host: "h"} }\nfunc NewApp(h *Host) *App { return &App{H: h} }\n',
        "main.go": 'package main\n\nfunc main() { println(string(*InitApp().H)) }\n',
        "wire.go": '//go:build wireinject\n\npackage main\n\nimport "github.com/google/wire"\n\nfunc InitApp() *App {\n\twire.Build(NewConfig, wire.FieldsOf(new(*Config), "Host"), NewApp)\n\treturn nil\n}\n'},
        what="sig"),
    "KF-C13-33": dict(files={
        "t.go": 'package main\n\nimport "fmt"\n\ntype Src struct{ S string }\n\nfunc (s *Src) String() string { return s.S }\n\nvar Std = &Src{S: "std"}\n\ntype App struct{ S string }\n\nfunc NewApp(w fmt.Stringer, data *Src) *App { return &App{S: w.String() + "/" + data.S} }\n',
        "main.go": 'package main\n\nfunc main() { println(InitApp(&Src{S: "data"}).S) }\n',
        "wire.go": '//go:build wireinject\n\npackage main\n\nimport (\n\t"fmt"\n\n\t"github.com/google/wire"\n)\n\nfunc InitApp(data *Src) *App {\n\twire.Build(wire.InterfaceValue(new(fmt.Stringer), Std), NewApp)\n\treturn nil\n}\n'},
        what="sig"),
    "KF-C14-32": dict(files={
        "t.go": 'package main\n\ntype A struct{ S string }\n\nfunc NewA() *A { return &A{S: "a"} }\n',
        "main.go": 'package main\n\nfunc main() { println(InitA().S) }\n',
        "wire.go": '//go:build wireinject\n\npackage main\n\nimport "github.com/google/wire"\n\nvar ASet = wire.NewSet(NewA)\n\nfunc InitA() *A {\n\twire.Build(ASet)\n\treturn nil\n}\n'},
        what="rerun"),
    # package variables that hold a wire.Value / wire.Bind: transformed, then dropped by the writer; their uses stay
    "KF-C14-34": dict(files={
        "t.go": 'package main\n\ntype Greeter interface{ Greet() string }\ntype English struct{ tag string }\n\nfunc (e *English) Greet() string  { return "hello " + e.tag }\nfunc NewEnglish(tag string) *English { return &English{tag} }\n',
        "main.go": 'package main\n\nfunc main() { println(InitGreeter().Greet()) }\n',
        "wire.go": '//go:build wireinject\n\npackage main\n\nimport "github.com/google/wire"\n\nvar TagValue = wire.Value("tagged")\nvar GreeterBinding = wire.Bind(new(Greeter), new(*English))\nvar GreeterSet = wire.NewSet(NewEnglish, GreeterBinding, TagValue)\n\nfunc InitGreeter() Greeter {\n\twire.Build(GreeterSet)\n\treturn nil\n}\n'},
        what="vet"),
    # the provider lives in one set, the binding in the set that includes it: the migrated Bind provides the implementation
    # a second time and the generator refuses the migrated declarations
    "KF-C13-34": dict(files={
        "t.go": 'package main\n\ntype Greeter interface{ Greet() string }\ntype English struct{}\n\nfunc (e *English) Greet() string { return "hello" }\nfunc NewEnglish() *English         { return &English{} }\n\ntype Svc struct{ G Greeter }\n\nfunc NewSvc(g Greeter) *Svc { return &Svc{g} }\n',
        "main.go": 'package main\n\nfunc main() { println(InitSvc().G.Greet()) }\n',
        "wire.go": '//go:build wireinject\n\npackage main\n\nimport "github.com/google/wire"\n\nvar ImplSet = wire.NewSet(NewEnglish)\nvar GreeterSet = wire.NewSet(ImplSet, wire.Bind(new(Greeter), new(*English)))\n\nfunc InitSvc() *Svc {\n\twire.Build(GreeterSet, NewSvc)\n\treturn nil\n}\n'},
        what="vet"),
    "KF-C14-15": dict(files={
        "lib/v2/conf.go": 'package lib\n\ntype Conf struct{ S string }\n\nfunc NewConf() *Conf { return &Conf{S: "c"} }\n',
        "t.go": 'package main\n\nimport v2 "vscratch/NAME/lib/v2"\n\ntype App struct{ C *v2.Conf }\n\nfunc NewApp(c *v2.Conf) *App { return &App{C: c} }\n',
        "main.go": 'package main\n\nfunc main() { println(InitApp().C.S) }\n',
        "wire.go": '//go:build wireinject\n\npackage main\n\nimport (\n\t"github.com/google/wire"\n\n\tv2 "vscratch/NAME/lib/v2"\n)\n\nfunc InitApp() *App {\n\twire.Build(v2.NewConf, NewApp)\n\treturn nil\n}\n'},
        what="vet"),
}


def known_runs():
    """Returns {id: dict(reproduced: bool, detail)}"""
    kessoku = vlib.build_kessoku()
    wire = os.path.join(vlib.BUILD, "wire")
    mod = new_module("wk")
    env = vlib.goenv()
    out = {}
    for kid, case in KNOWN_CASES.items():
        name = "k" + kid.replace("-", "").lower()
        for side in ("w", "k"):
            d = os.path.join(mod, name if side == "w" else name + "_k")
            for fn, txt in case["files"].items():
                p = os.path.join(d, fn)
                os.makedirs(os.path.dirname(p), exist_ok=True)
                open(p, "w").write(txt.replace("NAME", name))
        wdir, kdir = os.path.join(mod, name), os.path.join(mod, name + "_k")
        rc, o, e = vlib.run([wire, "gen", "."], cwd=wdir, env=env, timeout=300)
        if rc != 0:
            out[kid] = dict(reproduced=False, detail="wire rejects the reproducer: " + (o + e)[-200:])
            continue
        rcw, ow, ew = vlib.run(["go", "run", "."], cwd=wdir, env=env, timeout=300)
        rc, o, e = vlib.run([kessoku, "migrate", "-o", "kessoku.go", "./"], cwd=kdir, env=env, timeout=300)
        if rc != 0:
            out[kid] = dict(reproduced=False, detail="migrate fails: " + e[-200:])
            continue
        if case["what"] == "rerun":
            # the same command again in the same directory: the previous output is now part of the package migrate loads
            first = open(os.path.join(kdir, "kessoku.go")).read()
            rc, o, e = vlib.run([kessoku, "migrate", "-o", "kessoku.go", "./"], cwd=kdir, env=env, timeout=300)
            same = os.path.exists(os.path.join(kdir, "kessoku.go")) and open(os.path.join(kdir, "kessoku.go")).read() == first
            out[kid] = dict(reproduced=(rc != 0), detail="second run of `kessoku migrate -o kessoku.go ./` in the same directory: exit %d (%s); output file %s" % (
                rc, (e.strip().splitlines() or [""])[-1][-120:], "unchanged" if same else "changed"), output_changed=not same)
            continue
        os.remove(os.path.join(kdir, "wire.go"))
        rc, o, e = vlib.run([kessoku, "kessoku.go"], cwd=kdir, env=env, timeout=300)
        gen_rc, gen_err = rc, e
        if case["what"] == "vet":
            rc, o, e = vlib.run(["go", "vet", "."], cwd=kdir, env=env, timeout=300)
            out[kid] = dict(reproduced=(gen_rc != 0 or rc != 0), detail=((gen_err if gen_rc else o + e).strip().splitlines() or [""])[-1][-160:])
        elif case["what"] == "sig":
            ws, ks = signatures(os.path.join(wdir, "wire_gen.go")), signatures(os.path.join(kdir, "kessoku_band.go"))
            wp, kp = ws.get("InitApp", {}).get("params"), ks.get("InitApp", {}).get("params")
            out[kid] = dict(reproduced=(wp != kp), detail="wire's injector takes %s, the migrated injector takes %s" % (wp, kp))
        else:
            rck, ok, ek = vlib.run(["go", "run", "."], cwd=kdir, env=env, timeout=300)
            out[kid] = dict(reproduced=(ew.strip() != ek.strip()), detail="wire's injector yields %r, the migrated injector yields %r" % (ew.strip()[-40:], ek.strip()[-40:]))
    return out


# ------------------------------------------------------------------ directed valid configurations (hand-written shapes the
# random generator does not produce); wire's injector and the migrated injector must agree on signature and output

DIRECTED = {
    # FieldsOf on two structs with the SAME type name from different packages, in one Build list
    "fieldsof_same_type_name": {
        "store/store.go": 'package store\n\ntype Timeout int\ntype DSN string\ntype Config struct {\n\tDSN     DSN\n\tTimeout Timeout\n}\n\nfunc NewConfig() *Config { return &Config{DSN: "pg", Timeout: 1} }\n',
        "web/web.go": 'package web\n\ntype Timeout int\ntype Addr string\ntype Config struct {\n\tAddr    Addr\n\tTimeout Timeout\n}\n\nfunc NewConfig() *Config { return &Config{Addr: ":80", Timeout: 30} }\n',
        "t.go": 'package main\n\nimport (\n\t"fmt"\n\n\t"vscratch/NAME/store"\n\t"vscratch/NAME/web"\n)\n\ntype Server struct{ S string }\n\nfunc NewServer(d store.DSN, st store.Timeout, a web.Addr, wt web.Timeout) *Server {\n\treturn &Server{S: fmt.Sprint(d, st, a, wt)}\n}\n',
        "main.go": 'package main\n\nfunc main() { println(InitServer().S) }\n',
        "wire.go": '//go:build wireinject\n\npackage main\n\nimport (\n\t"github.com/google/wire"\n\n\t"vscratch/NAME/store"\n\t"vscratch/NAME/web"\n)\n\nfunc InitServer() *Server {\n\twire.Build(store.NewConfig, web.NewConfig,\n\t\twire.FieldsOf(new(*store.Config), "DSN", "Timeout"),\n\t\twire.FieldsOf(new(*web.Config), "Addr", "Timeout"),\n\t\tNewServer)\n\treturn nil\n}\n'},
    # the same with equal field types behind distinct field names is a wire error; equal field NAMES selecting different values:
    "fieldsof_same_field_name": {
        "store/store.go": 'package store\n\ntype Limit int\ntype Config struct{ Max Limit }\n\nfunc NewConfig() *Config { return &Config{Max: 1} }\n',
        "web/web.go": 'package web\n\ntype Limit int\ntype Config struct{ Max Limit }\n\nfunc NewConfig() *Config { return &Config{Max: 30} }\n',
        "t.go": 'package main\n\nimport (\n\t"fmt"\n\n\t"vscratch/NAME/store"\n\t"vscratch/NAME/web"\n)\n\ntype Server struct{ S string }\n\nfunc NewServer(a store.Limit, b web.Limit) *Server { return &Server{S: fmt.Sprint(a, b)} }\n',
        "main.go": 'package main\n\nfunc main() { println(InitServer().S) }\n',
        "wire.go": '//go:build wireinject\n\npackage main\n\nimport (\n\t"github.com/google/wire"\n\n\t"vscratch/NAME/store"\n\t"vscratch/NAME/web"\n)\n\nvar StoreSet = wire.NewSet(store.NewConfig, wire.FieldsOf(new(*store.Config), "Max"))\n\nfunc InitServer() *Server {\n\twire.Build(StoreSet, web.NewConfig, wire.FieldsOf(new(*web.Config), "Max"), NewServer)\n\treturn nil\n}\n'},
    # a value expression that selects THROUGH a variable of another package, which is referenced nowhere else
    "value_nested_selector": {
        "defaults/defaults.go": 'package defaults\n\ntype Name string\n\nvar Server = struct {\n\tName Name\n\tPort int\n}{Name: "srv", Port: 8080}\n',
        "t.go": 'package main\n\nimport "vscratch/NAME/defaults"\n\ntype App struct{ S string }\n\nfunc NewApp(n defaults.Name) *App { return &App{S: string(n)} }\n',
        "main.go": 'package main\n\nfunc main() { println(InitApp().S) }\n',
        "wire.go": '//go:build wireinject\n\npackage main\n\nimport (\n\t"github.com/google/wire"\n\n\t"vscratch/NAME/defaults"\n)\n\nfunc InitApp() *App {\n\twire.Build(wire.Value(defaults.Server.Name), NewApp)\n\treturn nil\n}\n'},
    # a channel whose element type lives in another package, as a struct field filled by wire.Struct and as an injector result
    "chan_of_external_type": {
        "sig/sig.go": 'package sig\n\ntype Event struct{ N int }\n\nfunc NewEvents() chan Event { return make(chan Event, 3) }\nfunc NewDone() <-chan *Event { return make(chan *Event, 2) }\nfunc NewSubs() chan (<-chan Event) { return make(chan (<-chan Event), 4) }\n',
        "t.go": 'package main\n\nimport "vscratch/NAME/sig"\n\ntype Hub struct {\n\tEvents chan sig.Event\n\tDone   <-chan *sig.Event\n\tSubs   chan (<-chan sig.Event)\n}\n',
        "main.go": 'package main\n\nfunc main() { h := InitHub(); println(cap(h.Events), cap(h.Done), cap(h.Subs), cap(InitEvents())) }\n',
        "wire.go": '//go:build wireinject\n\npackage main\n\nimport (\n\t"github.com/google/wire"\n\n\t"vscratch/NAME/sig"\n)\n\nfunc InitHub() *Hub {\n\twire.Build(sig.NewEvents, sig.NewDone, sig.NewSubs, wire.Struct(new(Hub), "*"))\n\treturn nil\n}\n\nfunc InitEvents() chan sig.Event {\n\twire.Build(sig.NewEvents)\n\treturn nil\n}\n'},
    # unexported fields of structs of the migrated package itself: wire.Struct("*") fills them, wire.FieldsOf exposes them
    "unexported_fields_same_package": {
        "t.go": 'package main\n\ntype Port int\ntype Seed int\ntype Tick int\n\ntype Clock struct{ t Tick }\n\nfunc NewClock(t Tick) *Clock { return &Clock{t: t} }\n\ntype Conf struct {\n\tport Port\n\tName string\n}\n\nfunc NewConf(s Seed) *Conf { return &Conf{port: Port(s) + 1000, Name: "n"} }\n\ntype Store struct{ P Port }\n\nfunc NewStore(p Port) *Store { return &Store{P: p} }\n\ntype Svc struct {\n\tclock *Clock\n\tstore *Store\n}\n',
        "main.go": 'package main\n\nimport "reflect"\n\n// arguments are matched by type: the property fixes the set of argument types, not their order\nfunc call(f any, args ...any) []reflect.Value {\n\tfv := reflect.ValueOf(f)\n\tin := make([]reflect.Value, fv.Type().NumIn())\n\tfor i := range in {\n\t\tfor _, a := range args {\n\t\t\tif reflect.TypeOf(a) == fv.Type().In(i) {\n\t\t\t\tin[i] = reflect.ValueOf(a)\n\t\t\t}\n\t\t}\n\t}\n\treturn fv.Call(in)\n}\n\nfunc main() {\n\ts := call(InitApp, Seed(3), Tick(7))[0].Interface().(*Svc)\n\tprintln(int(s.clock.t), int(s.store.P))\n}\n',
        "wire.go": '//go:build wireinject\n\npackage main\n\nimport "github.com/google/wire"\n\nfunc InitApp(s Seed, t Tick) *Svc {\n\twire.Build(NewClock, NewConf, wire.FieldsOf(new(*Conf), "port"), NewStore, wire.Struct(new(Svc), "*"))\n\treturn nil\n}\n'},
    # field types that migrate has to spell in the constructor it writes for wire.Struct (repaired: function types, generic
    # instances, aliases and struct types with parts from another package)
    "struct_field_func_type": {
        "sig/sig.go": 'package sig\n\ntype Event struct{ N int }\ntype Alias = Event\n',
        "t.go": 'package main\n\nimport "vscratch/NAME/sig"\n\ntype Hub struct {\n\tF func(sig.Event, ...int) error\n\tG func()\n}\n\nfunc NewF() func(sig.Event, ...int) error { return nil }\nfunc NewG() func() { return nil }\n',
        "main.go": 'package main\n\nfunc main() { h := InitHub(); println(h != nil) }\n',
        "wire.go": '//go:build wireinject\n\npackage main\n\nimport "github.com/google/wire"\n\nfunc InitHub() *Hub {\n\twire.Build(NewF, NewG, wire.Struct(new(Hub), "*"))\n\treturn nil\n}\n'},
    "struct_field_generic_instance": {
        "sig/sig.go": 'package sig\n\ntype Event struct{ N int }\ntype Alias = Event\n',
        "t.go": 'package main\n\nimport "vscratch/NAME/sig"\n\ntype Box[T any] struct{ V T }\ntype Hub struct{ B Box[sig.Event] }\n\nfunc NewB() Box[sig.Event] { return Box[sig.Event]{} }\n',
        "main.go": 'package main\n\nfunc main() { h := InitHub(); println(h != nil) }\n',
        "wire.go": '//go:build wireinject\n\npackage main\n\nimport "github.com/google/wire"\n\nfunc InitHub() *Hub {\n\twire.Build(NewB, wire.Struct(new(Hub), "*"))\n\treturn nil\n}\n'},
    "struct_field_alias": {
        "sig/sig.go": 'package sig\n\ntype Event struct{ N int }\ntype Alias = Event\n',
        "t.go": 'package main\n\nimport "vscratch/NAME/sig"\n\ntype Hub struct{ A sig.Alias }\n\nfunc NewA() sig.Alias { return sig.Alias{} }\n',
        "main.go": 'package main\n\nfunc main() { h := InitHub(); println(h != nil) }\n',
        "wire.go": '//go:build wireinject\n\npackage main\n\nimport "github.com/google/wire"\n\nfunc InitHub() *Hub {\n\twire.Build(NewA, wire.Struct(new(Hub), "*"))\n\treturn nil\n}\n'},
    "struct_field_struct_type": {
        "sig/sig.go": 'package sig\n\ntype Event struct{ N int }\ntype Alias = Event\n',
        "t.go": 'package main\n\nimport "vscratch/NAME/sig"\n\ntype Hub struct {\n\tS struct {\n\t\tsig.Event\n\t\tN int `json:"n"`\n\t}\n}\n\nfunc NewS() struct {\n\tsig.Event\n\tN int `json:"n"`\n} {\n\treturn struct {\n\t\tsig.Event\n\t\tN int `json:"n"`\n\t}{}\n}\n',
        "main.go": 'package main\n\nfunc main() { h := InitHub(); println(h != nil) }\n',
        "wire.go": '//go:build wireinject\n\npackage main\n\nimport "github.com/google/wire"\n\nfunc InitHub() *Hub {\n\twire.Build(NewS, wire.Struct(new(Hub), "*"))\n\treturn nil\n}\n'},
    # two injectors in one file: the first binds an interface to *Impl, the second needs the concrete *Impl from the same
    # provider without any binding (state must not leak from one Build list to the next)
    "bind_then_concrete": {
        "t.go": 'package main\n\ntype Store interface{ Get() string }\ntype Impl struct{ S string }\n\nfunc (i *Impl) Get() string { return i.S }\nfunc NewImpl() *Impl { return &Impl{S: "impl"} }\n\ntype App struct{ S Store }\n\nfunc NewApp(s Store) *App { return &App{S: s} }\n\ntype Report struct{ I *Impl }\n\nfunc NewReport(i *Impl) *Report { return &Report{I: i} }\n',
        "main.go": 'package main\n\nfunc main() { println(InitApp().S.Get(), InitReport().I.S) }\n',
        "wire.go": '//go:build wireinject\n\npackage main\n\nimport "github.com/google/wire"\n\nvar StoreSet = wire.NewSet(NewImpl, wire.Bind(new(Store), new(*Impl)))\n\nfunc InitApp() *App {\n\twire.Build(StoreSet, NewApp)\n\treturn nil\n}\n\nfunc InitReport() *Report {\n\twire.Build(NewImpl, NewReport)\n\treturn nil\n}\n'},
    # wire.Struct("*") leaves fields tagged `wire:"-"` alone (repaired)
    "struct_wire_dash_tag": {
        "t.go": 'package main\n\ntype Host string\ntype Port int\ntype Secret string\n\ntype Config struct {\n\tHost   Host\n\tSecret Secret `wire:"-"`\n\tPort   Port\n}\n\nfunc ProvideHost() Host     { return "h" }\nfunc ProvidePort() Port     { return 80 }\nfunc ProvideSecret() Secret { return "s3" }\n\ntype App struct {\n\tC *Config\n\tS Secret\n}\n\nfunc NewApp(c *Config, s Secret) *App { return &App{c, s} }\n',
        "main.go": 'package main\n\nfunc main() { a := InitApp(); println(string(a.C.Host), int(a.C.Port), "[" + string(a.C.Secret) + "]", string(a.S)) }\n',
        "wire.go": '//go:build wireinject\n\npackage main\n\nimport "github.com/google/wire"\n\nfunc InitApp() *App {\n\twire.Build(ProvideHost, ProvidePort, ProvideSecret, wire.Struct(new(Config), "*"), NewApp)\n\treturn nil\n}\n'},
    # fields that are NOT filled (tagged `wire:"-"`, or not listed) have types of packages nothing else in the output
    # mentions: their imports must not reach the migrated file
    "struct_skipped_field_imports": {
        "t.go": 'package main\n\nimport (\n\t"sync"\n\t"time"\n)\n\ntype Addr string\ntype Base string\n\ntype Server struct {\n\tAddr Addr\n\tmu   sync.Mutex `wire:"-"`\n\tMu2  sync.Mutex `wire:"-"`\n}\n\ntype Client struct {\n\tBase    Base\n\tTimeout time.Duration\n}\n\nfunc NewAddr() Addr { return ":80" }\nfunc NewBase() Base { return "b" }\nfunc (s *Server) Lock() { s.mu.Lock(); s.Mu2.Lock() }\n',
        "main.go": 'package main\n\nfunc main() { println(string(InitServer().Addr), string(InitClient().Base), int(InitClient().Timeout)) }\n',
        "wire.go": '//go:build wireinject\n\npackage main\n\nimport "github.com/google/wire"\n\nfunc InitServer() *Server {\n\twire.Build(NewAddr, wire.Struct(new(Server), "*"))\n\treturn nil\n}\n\nfunc InitClient() *Client {\n\twire.Build(NewBase, wire.Struct(new(Client), "Base"))\n\treturn nil\n}\n'},
    # a package that imports nothing but wire (small token positions), a wire.Value of a composite literal written over
    # several lines: the layout of the output must not depend on the positions of the SOURCE file set (24 more runs)
    "value_layout": {
        "__reruns__": 24,
        "t.go": 'package main\n\ntype Config struct {\n\tHost  string\n\tPort  int\n\tTags  []string\n\tExtra map[string]int\n}\n\ntype Server struct{ C Config }\n\nfunc NewServer(c Config) *Server { return &Server{C: c} }\n',
        "main.go": 'package main\n\nfunc main() { s := InitServer(); println(s.C.Host, s.C.Port, len(s.C.Tags), s.C.Extra["y"]) }\n',
        "filler1.go": 'package main\n\n// Filler1_1 pads file 1.\nvar Filler1_1 = 7\n\n// Filler1_2 pads file 1.\nvar Filler1_2 = 14\n\n// Filler1_3 pads file 1.\nvar Filler1_3 = 21\n',
        "filler2.go": 'package main\n\n// Filler2_1 pads file 2.\nvar Filler2_1 = 14\n\n// Filler2_2 pads file 2.\nvar Filler2_2 = 28\n\n// Filler2_3 pads file 2.\nvar Filler2_3 = 42\n\n// Filler2_4 pads file 2.\nvar Filler2_4 = 56\n\n// Filler2_5 pads file 2.\nvar Filler2_5 = 70\n\n// Filler2_6 pads file 2.\nvar Filler2_6 = 84\n',
        "filler3.go": 'package main\n\n// Filler3_1 pads file 3.\nvar Filler3_1 = 21\n\n// Filler3_2 pads file 3.\nvar Filler3_2 = 42\n\n// Filler3_3 pads file 3.\nvar Filler3_3 = 63\n\n// Filler3_4 pads file 3.\nvar Filler3_4 = 84\n\n// Filler3_5 pads file 3.\nvar Filler3_5 = 105\n\n// Filler3_6 pads file 3.\nvar Filler3_6 = 126\n\n// Filler3_7 pads file 3.\nvar Filler3_7 = 147\n\n// Filler3_8 pads file 3.\nvar Filler3_8 = 168\n\n// Filler3_9 pads file 3.\nvar Filler3_9 = 189\n',
        "filler4.go": 'package main\n\n// Filler4_1 pads file 4.\nvar Filler4_1 = 28\n\n// Filler4_2 pads file 4.\nvar Filler4_2 = 56\n\n// Filler4_3 pads file 4.\nvar Filler4_3 = 84\n\n// Filler4_4 pads file 4.\nvar Filler4_4 = 112\n\n// Filler4_5 pads file 4.\nvar Filler4_5 = 140\n\n// Filler4_6 pads file 4.\nvar Filler4_6 = 168\n\n// Filler4_7 pads file 4.\nvar Filler4_7 = 196\n\n// Filler4_8 pads file 4.\nvar Filler4_8 = 224\n\n// Filler4_9 pads file 4.\nvar Filler4_9 = 252\n\n// Filler4_10 pads file 4.\nvar Filler4_10 = 280\n\n// Filler4_11 pads file 4.\nvar Filler4_11 = 308\n\n// Filler4_12 pads file 4.\nvar Filler4_12 = 336\n',
        "filler5.go": 'package main\n\n// Filler5_1 pads file 5.\nvar Filler5_1 = 35\n\n// Filler5_2 pads file 5.\nvar Filler5_2 = 70\n\n// Filler5_3 pads file 5.\nvar Filler5_3 = 105\n\n// Filler5_4 pads file 5.\nvar Filler5_4 = 140\n\n// Filler5_5 pads file 5.\nvar Filler5_5 = 175\n\n// Filler5_6 pads file 5.\nvar Filler5_6 = 210\n\n// Filler5_7 pads file 5.\nvar Filler5_7 = 245\n\n// Filler5_8 pads file 5.\nvar Filler5_8 = 280\n\n// Filler5_9 pads file 5.\nvar Filler5_9 = 315\n\n// Filler5_10 pads file 5.\nvar Filler5_10 = 350\n\n// Filler5_11 pads file 5.\nvar Filler5_11 = 385\n\n// Filler5_12 pads file 5.\nvar Filler5_12 = 420\n\n// Filler5_13 pads file 5.\nvar Filler5_13 = 455\n\n// Filler5_14 pads file 5.\nvar Filler5_14 = 490\n\n// Filler5_15 pads file 5.\nvar Filler5_15 = 525\n',
        "filler6.go": 'package main\n\n// Filler6_1 pads file 6.\nvar Filler6_1 = 42\n\n// Filler6_2 pads file 6.\nvar Filler6_2 = 84\n\n// Filler6_3 pads file 6.\nvar Filler6_3 = 126\n\n// Filler6_4 pads file 6.\nvar Filler6_4 = 168\n\n// Filler6_5 pads file 6.\nvar Filler6_5 = 210\n\n// Filler6_6 pads file 6.\nvar Filler6_6 = 252\n\n// Filler6_7 pads file 6.\nvar Filler6_7 = 294\n\n// Filler6_8 pads file 6.\nvar Filler6_8 = 336\n\n// Filler6_9 pads file 6.\nvar Filler6_9 = 378\n\n// Filler6_10 pads file 6.\nvar Filler6_10 = 420\n\n// Filler6_11 pads file 6.\nvar Filler6_11 = 462\n\n// Filler6_12 pads file 6.\nvar Filler6_12 = 504\n\n// Filler6_13 pads file 6.\nvar Filler6_13 = 546\n\n// Filler6_14 pads file 6.\nvar Filler6_14 = 588\n\n// Filler6_15 pads file 6.\nvar Filler6_15 = 630\n\n// Filler6_16 pads file 6.\nvar Filler6_16 = 672\n\n// Filler6_17 pads file 6.\nvar Filler6_17 = 714\n\n// Filler6_18 pads file 6.\nvar Filler6_18 = 756\n',
        "filler7.go": 'package main\n\n// Filler7_1 pads file 7.\nvar Filler7_1 = 49\n\n// Filler7_2 pads file 7.\nvar Filler7_2 = 98\n\n// Filler7_3 pads file 7.\nvar Filler7_3 = 147\n\n// Filler7_4 pads file 7.\nvar Filler7_4 = 196\n\n// Filler7_5 pads file 7.\nvar Filler7_5 = 245\n\n// Filler7_6 pads file 7.\nvar Filler7_6 = 294\n\n// Filler7_7 pads file 7.\nvar Filler7_7 = 343\n\n// Filler7_8 pads file 7.\nvar Filler7_8 = 392\n\n// Filler7_9 pads file 7.\nvar Filler7_9 = 441\n\n// Filler7_10 pads file 7.\nvar Filler7_10 = 490\n\n// Filler7_11 pads file 7.\nvar Filler7_11 = 539\n\n// Filler7_12 pads file 7.\nvar Filler7_12 = 588\n\n// Filler7_13 pads file 7.\nvar Filler7_13 = 637\n\n// Filler7_14 pads file 7.\nvar Filler7_14 = 686\n\n// Filler7_15 pads file 7.\nvar Filler7_15 = 735\n\n// Filler7_16 pads file 7.\nvar Filler7_16 = 784\n\n// Filler7_17 pads file 7.\nvar Filler7_17 = 833\n\n// Filler7_18 pads file 7.\nvar Filler7_18 = 882\n\n// Filler7_19 pads file 7.\nvar Filler7_19 = 931\n\n// Filler7_20 pads file 7.\nvar Filler7_20 = 980\n\n// Filler7_21 pads file 7.\nvar Filler7_21 = 1029\n',
        "filler8.go": 'package main\n\n// Filler8_1 pads file 8.\nvar Filler8_1 = 56\n\n// Filler8_2 pads file 8.\nvar Filler8_2 = 112\n\n// Filler8_3 pads file 8.\nvar Filler8_3 = 168\n\n// Filler8_4 pads file 8.\nvar Filler8_4 = 224\n\n// Filler8_5 pads file 8.\nvar Filler8_5 = 280\n\n// Filler8_6 pads file 8.\nvar Filler8_6 = 336\n\n// Filler8_7 pads file 8.\nvar Filler8_7 = 392\n\n// Filler8_8 pads file 8.\nvar Filler8_8 = 448\n\n// Filler8_9 pads file 8.\nvar Filler8_9 = 504\n\n// Filler8_10 pads file 8.\nvar Filler8_10 = 560\n\n// Filler8_11 pads file 8.\nvar Filler8_11 = 616\n\n// Filler8_12 pads file 8.\nvar Filler8_12 = 672\n\n// Filler8_13 pads file 8.\nvar Filler8_13 = 728\n\n// Filler8_14 pads file 8.\nvar Filler8_14 = 784\n\n// Filler8_15 pads file 8.\nvar Filler8_15 = 840\n\n// Filler8_16 pads file 8.\nvar Filler8_16 = 896\n\n// Filler8_17 pads file 8.\nvar Filler8_17 = 952\n\n// Filler8_18 pads file 8.\nvar Filler8_18 = 1008\n\n// Filler8_19 pads file 8.\nvar Filler8_19 = 1064\n\n// Filler8_20 pads file 8.\nvar Filler8_20 = 1120\n\n// Filler8_21 pads file 8.\nvar Filler8_21 = 1176\n\n// Filler8_22 pads file 8.\nvar Filler8_22 = 1232\n\n// Filler8_23 pads file 8.\nvar Filler8_23 = 1288\n\n// Filler8_24 pads file 8.\nvar Filler8_24 = 1344\n',
        "filler9.go": 'package main\n\n// Filler9_1 pads file 9.\nvar Filler9_1 = 63\n\n// Filler9_2 pads file 9.\nvar Filler9_2 = 126\n\n// Filler9_3 pads file 9.\nvar Filler9_3 = 189\n\n// Filler9_4 pads file 9.\nvar Filler9_4 = 252\n\n// Filler9_5 pads file 9.\nvar Filler9_5 = 315\n\n// Filler9_6 pads file 9.\nvar Filler9_6 = 378\n\n// Filler9_7 pads file 9.\nvar Filler9_7 = 441\n\n// Filler9_8 pads file 9.\nvar Filler9_8 = 504\n\n// Filler9_9 pads file 9.\nvar Filler9_9 = 567\n\n// Filler9_10 pads file 9.\nvar Filler9_10 = 630\n\n// Filler9_11 pads file 9.\nvar Filler9_11 = 693\n\n// Filler9_12 pads file 9.\nvar Filler9_12 = 756\n\n// Filler9_13 pads file 9.\nvar Filler9_13 = 819\n\n// Filler9_14 pads file 9.\nvar Filler9_14 = 882\n\n// Filler9_15 pads file 9.\nvar Filler9_15 = 945\n\n// Filler9_16 pads file 9.\nvar Filler9_16 = 1008\n\n// Filler9_17 pads file 9.\nvar Filler9_17 = 1071\n\n// Filler9_18 pads file 9.\nvar Filler9_18 = 1134\n\n// Filler9_19 pads file 9.\nvar Filler9_19 = 1197\n\n// Filler9_20 pads file 9.\nvar Filler9_20 = 1260\n\n// Filler9_21 pads file 9.\nvar Filler9_21 = 1323\n\n// Filler9_22 pads file 9.\nvar Filler9_22 = 1386\n\n// Filler9_23 pads file 9.\nvar Filler9_23 = 1449\n\n// Filler9_24 pads file 9.\nvar Filler9_24 = 1512\n\n// Filler9_25 pads file 9.\nvar Filler9_25 = 1575\n\n// Filler9_26 pads file 9.\nvar Filler9_26 = 1638\n\n// Filler9_27 pads file 9.\nvar Filler9_27 = 1701\n',
        "wire.go": '//go:build wireinject\n\npackage main\n\nimport "github.com/google/wire"\n\nfunc InitServer() *Server {\n\twire.Build(\n\t\twire.Value(Config{\n\t\t\tHost: "localhost",\n\t\t\tPort: 8080,\n\t\t\tTags: []string{\n\t\t\t\t"a",\n\t\t\t\t"b",\n\t\t\t},\n\t\t\tExtra: map[string]int{"x": 1,\n\t\t\t\t"y": 2},\n\t\t}),\n\t\tNewServer,\n\t)\n\treturn nil\n}\n'},
    # the same with a bare identifier as the value
    "value_ident_layout": {
        "__reruns__": 24,
        "t.go": 'package main\n\ntype Config struct {\n\tHost  string\n\tPort  int\n\tTags  []string\n\tExtra map[string]int\n}\n\ntype Server struct{ C Config }\n\nfunc NewServer(c Config) *Server { return &Server{C: c} }\n\nvar defaultConfig = Config{Host: "localhost", Port: 8080, Tags: []string{"a", "b"}, Extra: map[string]int{"y": 2}}\n',
        "main.go": 'package main\n\nfunc main() { s := InitServer(); println(s.C.Host, s.C.Port, len(s.C.Tags), s.C.Extra["y"]) }\n',
        "filler1.go": 'package main\n\n// Filler1_1 pads file 1.\nvar Filler1_1 = 7\n\n// Filler1_2 pads file 1.\nvar Filler1_2 = 14\n\n// Filler1_3 pads file 1.\nvar Filler1_3 = 21\n',
        "filler2.go": 'package main\n\n// Filler2_1 pads file 2.\nvar Filler2_1 = 14\n\n// Filler2_2 pads file 2.\nvar Filler2_2 = 28\n\n// Filler2_3 pads file 2.\nvar Filler2_3 = 42\n\n// Filler2_4 pads file 2.\nvar Filler2_4 = 56\n\n// Filler2_5 pads file 2.\nvar Filler2_5 = 70\n\n// Filler2_6 pads file 2.\nvar Filler2_6 = 84\n',
        "filler3.go": 'package main\n\n// Filler3_1 pads file 3.\nvar Filler3_1 = 21\n\n// Filler3_2 pads file 3.\nvar Filler3_2 = 42\n\n// Filler3_3 pads file 3.\nvar Filler3_3 = 63\n\n// Filler3_4 pads file 3.\nvar Filler3_4 = 84\n\n// Filler3_5 pads file 3.\nvar Filler3_5 = 105\n\n// Filler3_6 pads file 3.\nvar Filler3_6 = 126\n\n// Filler3_7 pads file 3.\nvar Filler3_7 = 147\n\n// Filler3_8 pads file 3.\nvar Filler3_8 = 168\n\n// Filler3_9 pads file 3.\nvar Filler3_9 = 189\n',
        "filler4.go": 'package main\n\n// Filler4_1 pads file 4.\nvar Filler4_1 = 28\n\n// Filler4_2 pads file 4.\nvar Filler4_2 = 56\n\n// Filler4_3 pads file 4.\nvar Filler4_3 = 84\n\n// Filler4_4 pads file 4.\nvar Filler4_4 = 112\n\n// Filler4_5 pads file 4.\nvar Filler4_5 = 140\n\n// Filler4_6 pads file 4.\nvar Filler4_6 = 168\n\n// Filler4_7 pads file 4.\nvar Filler4_7 = 196\n\n// Filler4_8 pads file 4.\nvar Filler4_8 = 224\n\n// Filler4_9 pads file 4.\nvar Filler4_9 = 252\n\n// Filler4_10 pads file 4.\nvar Filler4_10 = 280\n\n// Filler4_11 pads file 4.\nvar Filler4_11 = 308\n\n// Filler4_12 pads file 4.\nvar Filler4_12 = 336\n',
        "filler5.go": 'package main\n\n// Filler5_1 pads file 5.\nvar Filler5_1 = 35\n\n// Filler5_2 pads file 5.\nvar Filler5_2 = 70\n\n// Filler5_3 pads file 5.\nvar Filler5_3 = 105\n\n// Filler5_4 pads file 5.\nvar Filler5_4 = 140\n\n// Filler5_5 pads file 5.\nvar Filler5_5 = 175\n\n// Filler5_6 pads file 5.\nvar Filler5_6 = 210\n\n// Filler5_7 pads file 5.\nvar Filler5_7 = 245\n\n// Filler5_8 pads file 5.\nvar Filler5_8 = 280\n\n// Filler5_9 pads file 5.\nvar Filler5_9 = 315\n\n// Filler5_10 pads file 5.\nvar Filler5_10 = 350\n\n// Filler5_11 pads file 5.\nvar Filler5_11 = 385\n\n// Filler5_12 pads file 5.\nvar Filler5_12 = 420\n\n// Filler5_13 pads file 5.\nvar Filler5_13 = 455\n\n// Filler5_14 pads file 5.\nvar Filler5_14 = 490\n\n// Filler5_15 pads file 5.\nvar Filler5_15 = 525\n',
        "filler6.go": 'package main\n\n// Filler6_1 pads file 6.\nvar Filler6_1 = 42\n\n// Filler6_2 pads file 6.\nvar Filler6_2 = 84\n\n// Filler6_3 pads file 6.\nvar Filler6_3 = 126\n\n// Filler6_4 pads file 6.\nvar Filler6_4 = 168\n\n// Filler6_5 pads file 6.\nvar Filler6_5 = 210\n\n// Filler6_6 pads file 6.\nvar Filler6_6 = 252\n\n// Filler6_7 pads file 6.\nvar Filler6_7 = 294\n\n// Filler6_8 pads file 6.\nvar Filler6_8 = 336\n\n// Filler6_9 pads file 6.\nvar Filler6_9 = 378\n\n// Filler6_10 pads file 6.\nvar Filler6_10 = 420\n\n// Filler6_11 pads file 6.\nvar Filler6_11 = 462\n\n// Filler6_12 pads file 6.\nvar Filler6_12 = 504\n\n// Filler6_13 pads file 6.\nvar Filler6_13 = 546\n\n// Filler6_14 pads file 6.\nvar Filler6_14 = 588\n\n// Filler6_15 pads file 6.\nvar Filler6_15 = 630\n\n// Filler6_16 pads file 6.\nvar Filler6_16 = 672\n\n// Filler6_17 pads file 6.\nvar Filler6_17 = 714\n\n// Filler6_18 pads file 6.\nvar Filler6_18 = 756\n',
        "filler7.go": 'package main\n\n// Filler7_1 pads file 7.\nvar Filler7_1 = 49\n\n// Filler7_2 pads file 7.\nvar Filler7_2 = 98\n\n// Filler7_3 pads file 7.\nvar Filler7_3 = 147\n\n// Filler7_4 pads file 7.\nvar Filler7_4 = 196\n\n// Filler7_5 pads file 7.\nvar Filler7_5 = 245\n\n// Filler7_6 pads file 7.\nvar Filler7_6 = 294\n\n// Filler7_7 pads file 7.\nvar Filler7_7 = 343\n\n// Filler7_8 pads file 7.\nvar Filler7_8 = 392\n\n// Filler7_9 pads file 7.\nvar Filler7_9 = 441\n\n// Filler7_10 pads file 7.\nvar Filler7_10 = 490\n\n// Filler7_11 pads file 7.\nvar Filler7_11 = 539\n\n// Filler7_12 pads file 7.\nvar Filler7_12 = 588\n\n// Filler7_13 pads file 7.\nvar Filler7_13 = 637\n\n// Filler7_14 pads file 7.\nvar Filler7_14 = 686\n\n// Filler7_15 pads file 7.\nvar Filler7_15 = 735\n\n// Filler7_16 pads file 7.\nvar Filler7_16 = 784\n\n// Filler7_17 pads file 7.\nvar Filler7_17 = 833\n\n// Filler7_18 pads file 7.\nvar Filler7_18 = 882\n\n// Filler7_19 pads file 7.\nvar Filler7_19 = 931\n\n// Filler7_20 pads file 7.\nvar Filler7_20 = 980\n\n// Filler7_21 pads file 7.\nvar Filler7_21 = 1029\n',
        "filler8.go": 'package main\n\n// Filler8_1 pads file 8.\nvar Filler8_1 = 56\n\n// Filler8_2 pads file 8.\nvar Filler8_2 = 112\n\n// Filler8_3 pads file 8.\nvar Filler8_3 = 168\n\n// Filler8_4 pads file 8.\nvar Filler8_4 = 224\n\n// Filler8_5 pads file 8.\nvar Filler8_5 = 280\n\n// Filler8_6 pads file 8.\nvar Filler8_6 = 336\n\n// Filler8_7 pads file 8.\nvar Filler8_7 = 392\n\n// Filler8_8 pads file 8.\nvar Filler8_8 = 448\n\n// Filler8_9 pads file 8.\nvar Filler8_9 = 504\n\n// Filler8_10 pads file 8.\nvar Filler8_10 = 560\n\n// Filler8_11 pads file 8.\nvar Filler8_11 = 616\n\n// Filler8_12 pads file 8.\nvar Filler8_12 = 672\n\n// Filler8_13 pads file 8.\nvar Filler8_13 = 728\n\n// Filler8_14 pads file 8.\nvar Filler8_14 = 784\n\n// Filler8_15 pads file 8.\nvar Filler8_15 = 840\n\n// Filler8_16 pads file 8.\nvar Filler8_16 = 896\n\n// Filler8_17 pads file 8.\nvar Filler8_17 = 952\n\n// Filler8_18 pads file 8.\nvar Filler8_18 = 1008\n\n// Filler8_19 pads file 8.\nvar Filler8_19 = 1064\n\n// Filler8_20 pads file 8.\nvar Filler8_20 = 1120\n\n// Filler8_21 pads file 8.\nvar Filler8_21 = 1176\n\n// Filler8_22 pads file 8.\nvar Filler8_22 = 1232\n\n// Filler8_23 pads file 8.\nvar Filler8_23 = 1288\n\n// Filler8_24 pads file 8.\nvar Filler8_24 = 1344\n',
        "filler9.go": 'package main\n\n// Filler9_1 pads file 9.\nvar Filler9_1 = 63\n\n// Filler9_2 pads file 9.\nvar Filler9_2 = 126\n\n// Filler9_3 pads file 9.\nvar Filler9_3 = 189\n\n// Filler9_4 pads file 9.\nvar Filler9_4 = 252\n\n// Filler9_5 pads file 9.\nvar Filler9_5 = 315\n\n// Filler9_6 pads file 9.\nvar Filler9_6 = 378\n\n// Filler9_7 pads file 9.\nvar Filler9_7 = 441\n\n// Filler9_8 pads file 9.\nvar Filler9_8 = 504\n\n// Filler9_9 pads file 9.\nvar Filler9_9 = 567\n\n// Filler9_10 pads file 9.\nvar Filler9_10 = 630\n\n// Filler9_11 pads file 9.\nvar Filler9_11 = 693\n\n// Filler9_12 pads file 9.\nvar Filler9_12 = 756\n\n// Filler9_13 pads file 9.\nvar Filler9_13 = 819\n\n// Filler9_14 pads file 9.\nvar Filler9_14 = 882\n\n// Filler9_15 pads file 9.\nvar Filler9_15 = 945\n\n// Filler9_16 pads file 9.\nvar Filler9_16 = 1008\n\n// Filler9_17 pads file 9.\nvar Filler9_17 = 1071\n\n// Filler9_18 pads file 9.\nvar Filler9_18 = 1134\n\n// Filler9_19 pads file 9.\nvar Filler9_19 = 1197\n\n// Filler9_20 pads file 9.\nvar Filler9_20 = 1260\n\n// Filler9_21 pads file 9.\nvar Filler9_21 = 1323\n\n// Filler9_22 pads file 9.\nvar Filler9_22 = 1386\n\n// Filler9_23 pads file 9.\nvar Filler9_23 = 1449\n\n// Filler9_24 pads file 9.\nvar Filler9_24 = 1512\n\n// Filler9_25 pads file 9.\nvar Filler9_25 = 1575\n\n// Filler9_26 pads file 9.\nvar Filler9_26 = 1638\n\n// Filler9_27 pads file 9.\nvar Filler9_27 = 1701\n',
        "wire.go": '//go:build wireinject\n\npackage main\n\nimport "github.com/google/wire"\n\nfunc InitServer() *Server {\n\twire.Build(\n\t\twire.Value(defaultConfig),\n\t\tNewServer,\n\t)\n\treturn nil\n}\n'},
    # an unnamed import whose package name is not the last path element (repaired: its import was omitted)
    "import_name_not_last_element": {
        "go-conf/conf.go": 'package conf\n\ntype Conf struct{ S string }\n\nfunc NewConf() *Conf { return &Conf{S: "c"} }\n',
        "t.go": 'package main\n\nimport "vscratch/NAME/go-conf"\n\ntype App struct{ C *conf.Conf }\n\nfunc NewApp(c *conf.Conf) *App { return &App{C: c} }\n',
        "main.go": 'package main\n\nfunc main() { println(InitApp().C.S) }\n',
        "wire.go": '//go:build wireinject\n\npackage main\n\nimport (\n\t"github.com/google/wire"\n\n\t"vscratch/NAME/go-conf"\n)\n\nfunc InitApp() *App {\n\twire.Build(conf.NewConf, NewApp)\n\treturn nil\n}\n'},
    # an unnamed import ".../lib/v2" (package lib) next to a VARIABLE called v2: v2.Addr is the variable's field
    "variable_named_like_path_element": {
        "lib/v2/lib.go": 'package lib\n\ntype Client struct{ S string }\n\nfunc NewClient() *Client { return &Client{S: "c"} }\n',
        "t.go": 'package main\n\nimport "vscratch/NAME/lib/v2"\n\ntype Addr string\n\nvar v2 = struct{ Addr Addr }{Addr: "addr"}\n\ntype App struct {\n\tC *lib.Client\n\tA Addr\n}\n\nfunc NewApp(c *lib.Client, a Addr) *App { return &App{c, a} }\n',
        "main.go": 'package main\n\nfunc main() { a := InitApp(); println(a.C.S, string(a.A)) }\n',
        "wire.go": '//go:build wireinject\n\npackage main\n\nimport (\n\t"github.com/google/wire"\n\n\t"vscratch/NAME/lib/v2"\n)\n\nfunc InitApp() *App {\n\twire.Build(lib.NewClient, wire.Value(v2.Addr), NewApp)\n\treturn nil\n}\n'},
    # the type argument of a wire call written (*T)(nil) / (**T)(nil) instead of new(T) (wire only asks for a pointer type)
    "typed_nil_arguments": {
        "t.go": 'package main\n\ntype Logger interface{ Name() string }\ntype stdLogger struct{}\n\nfunc (stdLogger) Name() string { return "std" }\n\nvar DefaultLogger = stdLogger{}\n\ntype DSN string\ntype Config struct {\n\tDSN  DSN\n\tPort int\n}\ntype App struct {\n\tL   Logger\n\tDSN DSN\n}\n\nfunc NewApp(l Logger, dsn DSN) *App { return &App{l, dsn} }\n',
        "main.go": 'package main\n\nfunc main() { a := InitApp(&Config{DSN: "db", Port: 1}); println(a.L.Name(), string(a.DSN)) }\n',
        "wire.go": '//go:build wireinject\n\npackage main\n\nimport "github.com/google/wire"\n\nfunc InitApp(cfg *Config) *App {\n\twire.Build(\n\t\twire.InterfaceValue((*Logger)(nil), DefaultLogger),\n\t\twire.FieldsOf((**Config)(nil), "DSN"),\n\t\tNewApp,\n\t)\n\treturn nil\n}\n'},
    # wire matches the field names of wire.Struct / wire.FieldsOf without regard to case
    "field_names_case": {
        "t.go": 'package main\n\ntype DSN string\ntype ID int\ntype Config struct {\n\tDSN DSN\n\tID  ID\n}\ntype Server struct {\n\tDSN DSN\n\tID  ID\n}\n',
        "main.go": 'package main\n\nfunc main() { s := InitServer(&Config{DSN: "postgres://db", ID: 7}); println(string(s.DSN), int(s.ID)) }\n',
        "wire.go": '//go:build wireinject\n\npackage main\n\nimport "github.com/google/wire"\n\nfunc InitServer(cfg *Config) *Server {\n\twire.Build(\n\t\twire.FieldsOf(new(*Config), "DSN", "id"),\n\t\twire.Struct(new(Server), "dsn", "ID"),\n\t)\n\treturn nil\n}\n'},
    # the wire file reaches providers, a set and a value through a dot import
    "dot_import_in_wire_file": {
        "providers/p.go": 'package providers\n\ntype Options struct{ Retries int }\ntype DB struct{ Retries int }\ntype Repo struct{ DB *DB }\n\nvar DefaultOptions = Options{Retries: 3}\n\nfunc NewDB(o Options) *DB  { return &DB{o.Retries} }\nfunc NewRepo(db *DB) *Repo { return &Repo{db} }\n',
        "t.go": 'package main\n\nimport "vscratch/NAME/providers"\n\ntype App struct{ Repo *providers.Repo }\n\nfunc NewApp(r *providers.Repo) *App { return &App{r} }\n',
        "main.go": 'package main\n\nfunc main() { println(InitApp().Repo.DB.Retries) }\n',
        "wire.go": '//go:build wireinject\n\npackage main\n\nimport (\n\t"github.com/google/wire"\n\n\t. "vscratch/NAME/providers"\n)\n\nvar repoSet = wire.NewSet(NewDB, NewRepo)\n\nfunc InitApp() *App {\n\twire.Build(repoSet, wire.Value(DefaultOptions), NewApp)\n\treturn nil\n}\n'},
    # wire.InterfaceValue(new(I), ident) in a package that imports nothing but wire: the identifier's source position must
    # not steer the layout (a 300 kB package, 60 more runs)
    "interface_value_ident_layout": {
        "__reruns__": 60, "__big_fillers__": 12,
        "t.go": 'package main\n\ntype Logger interface{ Log(string) string }\ntype ConsoleLogger struct{}\n\nfunc (*ConsoleLogger) Log(s string) string { return s }\n\nvar std = &ConsoleLogger{}\n\ntype App struct{ L Logger }\n\nfunc NewApp(l Logger, n int) *App { return &App{l} }\nfunc NewN() int                   { return 1 }\n',
        "main.go": 'package main\n\nfunc main() { println(InitIt().L.Log("x")) }\n',
        "g_wire.go": '//go:build wireinject\n\npackage main\n\nimport "github.com/google/wire"\n\nvar Set = wire.NewSet(NewN, wire.InterfaceValue(new(Logger), std), NewApp)\n\nfunc InitIt() *App {\n\twire.Build(Set)\n\treturn nil\n}\n'},
    # an unnamed import ".../store/v2" (package store) next to a package that IS called v2
    "import_named_like_path_element": {
        "store/v2/s.go": 'package store\n\ntype Store struct{}\n\nfunc New() *Store { return &Store{} }\n',
        "api/v2/a.go": 'package v2\n\nimport "vscratch/NAME/store/v2"\n\ntype API struct{ S *store.Store }\n\nfunc New(s *store.Store) *API { return &API{s} }\n',
        "t.go": 'package main\n\nimport "vscratch/NAME/api/v2"\n\ntype App struct{ A *v2.API }\n\nfunc NewApp(a *v2.API) *App { return &App{a} }\n',
        "main.go": 'package main\n\nfunc main() { println(InitIt().A.S != nil) }\n',
        "wire.go": '//go:build wireinject\n\npackage main\n\nimport (\n\t"github.com/google/wire"\n\n\t"vscratch/NAME/api/v2"\n\t"vscratch/NAME/store/v2"\n)\n\nvar Set = wire.NewSet(store.New, v2.New, NewApp)\n\nfunc InitIt() *App {\n\twire.Build(Set)\n\treturn nil\n}\n'},
    # a top-level value nobody uses: its imports must not reach the migrated file
    "unused_named_value_import": {
        "t.go": 'package main\n\ntype Foo struct{ N int }\ntype App struct{ F *Foo }\n\nfunc NewFoo() *Foo       { return &Foo{} }\nfunc NewApp(f *Foo) *App { return &App{f} }\n',
        "main.go": 'package main\n\nfunc main() { println(InitIt().F.N) }\n',
        "wire.go": '//go:build wireinject\n\npackage main\n\nimport (\n\t"io"\n\t"os"\n\n\t"github.com/google/wire"\n)\n\nvar DefaultOutput = wire.InterfaceValue(new(io.Writer), os.Stdout)\n\nvar Set = wire.NewSet(NewFoo, NewApp)\n\nfunc InitIt() *App {\n\twire.Build(Set)\n\treturn nil\n}\n'},
    # the source package declares the identifier kessoku
    "kessoku_identifier_taken": {
        "t.go": 'package main\n\ntype Guitar struct{}\ntype Band struct{ G *Guitar }\n\nconst kessoku = "kessoku band"\n\nfunc NewGuitar() *Guitar      { return &Guitar{} }\nfunc NewBand(g *Guitar) *Band { return &Band{g} }\n',
        "main.go": 'package main\n\nfunc main() { println(InitIt().G != nil, kessoku) }\n',
        "wire.go": '//go:build wireinject\n\npackage main\n\nimport "github.com/google/wire"\n\nvar Set = wire.NewSet(NewGuitar, NewBand)\n\nfunc InitIt() *Band {\n\twire.Build(Set)\n\treturn nil\n}\n'},
    # a dot import and an ordinary import of two packages with the SAME name in one wire file
    "dot_import_same_name_import": {
        "a/log/l.go": 'package log\n\ntype Logger struct{ S string }\n\nfunc New() *Logger { return &Logger{"a"} }\n\nvar Banner = "welcome (a)"\n',
        "b/log/l.go": 'package log\n\ntype Sink struct{ S string }\n\nfunc NewSink() *Sink { return &Sink{"b"} }\n\nvar Banner = "welcome (b)"\n',
        "t.go": 'package main\n\nimport (\n\talog "vscratch/NAME/a/log"\n\tblog "vscratch/NAME/b/log"\n)\n\ntype App struct {\n\tL *alog.Logger\n\tS *blog.Sink\n\tB string\n}\n\nfunc NewApp(l *alog.Logger, s *blog.Sink, b string) *App { return &App{l, s, b} }\n',
        "main.go": 'package main\n\nfunc main() { a := InitApp(); println(a.L.S, a.S.S, a.B) }\n',
        "wire.go": '//go:build wireinject\n\npackage main\n\nimport (\n\t"github.com/google/wire"\n\n\t. "vscratch/NAME/a/log"\n\t"vscratch/NAME/b/log"\n)\n\nvar Set = wire.NewSet(New, log.NewSink, wire.Value(Banner))\n\nfunc InitApp() *App {\n\twire.Build(Set, NewApp)\n\treturn nil\n}\n'},
    # an unreferenced top-level wire.Struct of a type of another package: transformed for nothing, its import must not stay
    "unused_named_struct_import": {
        "conf/c.go": 'package conf\n\ntype Options struct{ N int }\n',
        "t.go": 'package main\n\ntype Foo struct{ N int }\ntype App struct{ F *Foo }\n\nfunc NewFoo() *Foo       { return &Foo{} }\nfunc NewApp(f *Foo) *App { return &App{f} }\n',
        "main.go": 'package main\n\nfunc main() { println(InitApp().F.N) }\n',
        "wire.go": '//go:build wireinject\n\npackage main\n\nimport (\n\t"github.com/google/wire"\n\n\t"vscratch/NAME/conf"\n)\n\nvar optionsProvider = wire.Struct(new(conf.Options), "*")\n\nvar Set = wire.NewSet(NewFoo, NewApp)\n\nfunc InitApp() *App {\n\twire.Build(Set)\n\treturn nil\n}\n'},
    # two fields that differ in case only: wire fills the FIRST field that matches the given name without regard to case
    "field_names_case_two_matches": {
        "t.go": 'package main\n\ntype Addr string\ntype Port int\ntype Endpoint struct {\n\tAddr Addr\n\taddr Port\n}\ntype Server struct {\n\tE *Endpoint\n\tP Port\n}\n\nfunc NewAddr() Addr { return "localhost" }\nfunc NewPort() Port { return 8080 }\nfunc NewServer(e *Endpoint, p Port) *Server { return &Server{e, p} }\n',
        "main.go": 'package main\n\nfunc main() { s := InitServer(); println(string(s.E.Addr), int(s.E.addr), int(s.P)) }\n',
        "wire.go": '//go:build wireinject\n\npackage main\n\nimport "github.com/google/wire"\n\nfunc InitServer() *Server {\n\twire.Build(NewAddr, NewPort, NewServer, wire.Struct(new(Endpoint), "addr"))\n\treturn nil\n}\n'},
    # a struct provider written as a struct literal (the spelling wire had before wire.Struct, still accepted)
    "struct_literal_provider": {
        "t.go": 'package main\n\ntype Host string\ntype Port int\ntype Options struct {\n\tHost Host\n\tPort Port\n}\ntype Greeter struct{ O *Options }\n\nfunc NewHost() Host { return "h" }\nfunc NewPort() Port { return 80 }\nfunc NewGreeter(o *Options) *Greeter { return &Greeter{o} }\n',
        "main.go": 'package main\n\nfunc main() { g := InitGreeter(); println(string(g.O.Host), int(g.O.Port)) }\n',
        "wire.go": '//go:build wireinject\n\npackage main\n\nimport "github.com/google/wire"\n\nvar Set = wire.NewSet(Options{}, NewGreeter)\n\nfunc InitGreeter() *Greeter {\n\twire.Build(NewHost, NewPort, Set)\n\treturn nil\n}\n'},
    # wire.InterfaceValue of a bare identifier that a dot import brings in
    "interface_value_dot_import": {
        "defaults/d.go": 'package defaults\n\nimport "bytes"\n\nvar Out = bytes.NewBufferString("out")\n\nvar Name = "n"\n',
        "t.go": 'package main\n\nimport "fmt"\n\ntype App struct{ S string }\n\nfunc NewApp(w fmt.Stringer, n string) *App { return &App{w.String() + n} }\n',
        "main.go": 'package main\n\nfunc main() { println(InitApp().S) }\n',
        "wire.go": '//go:build wireinject\n\npackage main\n\nimport (\n\t"fmt"\n\n\t"github.com/google/wire"\n\n\t. "vscratch/NAME/defaults"\n)\n\nfunc InitApp() *App {\n\twire.Build(wire.InterfaceValue(new(fmt.Stringer), Out), wire.Value(Name), NewApp)\n\treturn nil\n}\n'},
    # the struct literal form fills EVERY field, also one tagged wire:"-" (wire's processStructLiteralProvider ignores the tag)
    "struct_literal_wire_dash": {
        "t.go": 'package main\n\ntype Addr string\ntype Logger struct{ S string }\ntype Server struct {\n\tAddr   Addr\n\tLogger *Logger `wire:"-"`\n}\n\nfunc NewAddr() Addr      { return ":80" }\nfunc NewLogger() *Logger { return &Logger{"log"} }\n',
        "main.go": 'package main\n\nfunc main() { s := InitServer(); println(string(s.Addr), s.Logger != nil) }\n',
        "wire.go": '//go:build wireinject\n\npackage main\n\nimport "github.com/google/wire"\n\nfunc InitServer() *Server {\n\twire.Build(NewAddr, NewLogger, Server{})\n\treturn nil\n}\n'},
    # a value expression that SELECTS through a dot-imported variable
    "dot_import_selector_value": {
        "conf/c.go": 'package conf\n\ntype Name string\ntype Thing struct{ N Name }\n\nvar Defaults = struct {\n\tName Name\n\tPort int\n}{Name: "n", Port: 80}\n\nfunc NewThing(n Name, p int) *Thing { return &Thing{n} }\n',
        "t.go": 'package main\n\nimport "vscratch/NAME/conf"\n\ntype App struct{ T *conf.Thing }\n\nfunc NewApp(t *conf.Thing) *App { return &App{t} }\n',
        "main.go": 'package main\n\nfunc main() { println(string(InitApp().T.N)) }\n',
        "wire.go": '//go:build wireinject\n\npackage main\n\nimport (\n\t"github.com/google/wire"\n\n\t. "vscratch/NAME/conf"\n)\n\nvar Set = wire.NewSet(NewThing, wire.Value(Defaults.Name), wire.Value(Defaults.Port))\n\nfunc InitApp() *App {\n\twire.Build(Set, NewApp)\n\treturn nil\n}\n'},
    # wire.Struct(new(T)) without field names fills no field (repaired: it was migrated as "*")
    "struct_no_field_names": {
        "t.go": 'package main\n\ntype Host string\n\ntype Config struct{ Host Host }\n\nfunc ProvideHost() Host { return "h" }\n\ntype App struct {\n\tC *Config\n\tH Host\n}\n\nfunc NewApp(c *Config, h Host) *App { return &App{c, h} }\n',
        "main.go": 'package main\n\nfunc main() { a := InitApp(); println("[" + string(a.C.Host) + "]", string(a.H)) }\n',
        "wire.go": '//go:build wireinject\n\npackage main\n\nimport "github.com/google/wire"\n\nfunc InitApp() *App {\n\twire.Build(ProvideHost, wire.Struct(new(Config)), NewApp)\n\treturn nil\n}\n'},
    # expressions the transformer writes itself (the constructor of a Bind, the constructor literal of a Struct) carry the
    # OUTPUT file's import names; two packages of one name, one of them imported under its own name (repaired)
    "bind_constructor_alias_clash": {
        "api1/a.go": 'package v1\n\ntype User struct{ N string }\n\nfunc NewUser() *User { return &User{N: "u"} }\n',
        "api2/a.go": 'package v1\n\ntype Impl struct{ S string }\n\nfunc (i *Impl) Do() string { return i.S }\nfunc NewImpl() *Impl     { return &Impl{S: "impl"} }\n',
        "t.go": 'package main\n\nimport v1 "vscratch/NAME/api1"\n\ntype Doer interface{ Do() string }\ntype App struct{ S string }\n\nfunc NewApp(u *v1.User, d Doer) *App { return &App{S: u.N + d.Do()} }\n',
        "main.go": 'package main\n\nfunc main() { println(InitApp().S) }\n',
        "wire.go": '//go:build wireinject\n\npackage main\n\nimport (\n\t"github.com/google/wire"\n\n\tv1 "vscratch/NAME/api1"\n\tsecond "vscratch/NAME/api2"\n)\n\nvar S = wire.NewSet(v1.NewUser, wire.Bind(new(Doer), new(*second.Impl)), second.NewImpl)\n\nfunc InitApp() *App {\n\twire.Build(S, NewApp)\n\treturn nil\n}\n'},
    "struct_constructor_alias_clash": {
        "api1/a.go": 'package v1\n\ntype User struct{ N string }\n\nfunc NewUser() *User { return &User{N: "u"} }\n',
        "api2/a.go": 'package v1\n\ntype Impl struct{ S string }\n\nfunc (i *Impl) Do() string { return i.S }\nfunc NewImpl() *Impl     { return &Impl{S: "impl"} }\n',
        "t.go": 'package main\n\nimport (\n\tv1 "vscratch/NAME/api1"\n\tsecond "vscratch/NAME/api2"\n)\n\ntype App struct {\n\tI *second.Impl\n\tU *v1.User\n}\n',
        "main.go": 'package main\n\nfunc main() { a := InitApp(); println(a.U.N + a.I.S) }\n',
        "wire.go": '//go:build wireinject\n\npackage main\n\nimport (\n\t"github.com/google/wire"\n\n\tv1 "vscratch/NAME/api1"\n\tsecond "vscratch/NAME/api2"\n)\n\nfunc InitApp() *App {\n\twire.Build(second.NewImpl, v1.NewUser, wire.Struct(new(App), "*"))\n\treturn nil\n}\n'},
    # struct fields whose lower-camel names are Go keywords (Type, Default, Range ...): the constructor migrate writes must
    # not use them as parameter names (repaired)
    "struct_field_keyword_names": {
        "t.go": 'package main\n\ntype Kind string\ntype Fallback int\ntype Span int\n\ntype Config struct {\n\tType    Kind\n\tDefault Fallback\n\tRange   Span\n}\n\nfunc ProvideKind() Kind         { return "k" }\nfunc ProvideFallback() Fallback { return 7 }\nfunc ProvideSpan() Span         { return 9 }\n',
        "main.go": 'package main\n\nfunc main() { c := InitConfig(); println(string(c.Type), int(c.Default), int(c.Range)) }\n',
        "wire.go": '//go:build wireinject\n\npackage main\n\nimport "github.com/google/wire"\n\nfunc InitConfig() *Config {\n\twire.Build(ProvideKind, ProvideFallback, ProvideSpan, wire.Struct(new(Config), "*"))\n\treturn nil\n}\n'},
    # a pattern spanning several packages (./...): the package that sorts first has no wire file; the output belongs to the
    # wire package and must spell its types relative to it (repaired: the converter was built for the first loaded package)
    "pattern_first_package_without_wire": {
        "__sub__": "w", "__args__": ["-o", "w/kessoku.go", "./..."],
        "aaa/a.go": 'package aaa\n\ntype Helper struct{ S string }\n\nfunc NewHelper() *Helper { return &Helper{S: "h"} }\n',
        "w/t.go": 'package main\n\nimport "vscratch/NAME/aaa"\n\ntype Local struct{ H *aaa.Helper }\n',
        "w/main.go": 'package main\n\nfunc main() { println(InitLocal().H.S) }\n',
        "w/wire.go": '//go:build wireinject\n\npackage main\n\nimport (\n\t"github.com/google/wire"\n\n\t"vscratch/NAME/aaa"\n)\n\nfunc InitLocal() *Local {\n\twire.Build(aaa.NewHelper, wire.Struct(new(Local), "*"))\n\treturn nil\n}\n'},
    # two wire files import DIFFERENT packages under the same name conf; the InterfaceValue expression of the second file
    # must end up referring to ITS package in the merged output (which knows one of the two under another name)
    "interface_value_same_named_packages": {
        "alpha/conf/c.go": 'package conf\n\ntype Src struct{ S string }\n\nfunc (s *Src) String() string { return s.S }\n\nvar Default = &Src{S: "alpha"}\n\ntype A struct{ S string }\n\nfunc NewA() *A { return &A{S: "alpha-a"} }\n',
        "beta/conf/c.go": 'package conf\n\ntype Src struct{ S string }\n\nfunc (s *Src) String() string { return s.S }\n\nvar Default = &Src{S: "beta"}\n\ntype A struct{ S string }\n\nfunc NewA() *A { return &A{S: "beta-a"} }\n',
        "t.go": 'package main\n\nimport (\n\t"fmt"\n\n\taconf "vscratch/NAME/alpha/conf"\n)\n\ntype App struct{ S string }\n\nfunc NewApp(a *aconf.A, s fmt.Stringer) *App { return &App{S: a.S + " " + s.String()} }\n',
        "main.go": 'package main\n\nfunc main() { println(InitApp().S) }\n',
        "sets_a.go": 'package main\n\nimport (\n\t"github.com/google/wire"\n\n\t"vscratch/NAME/alpha/conf"\n)\n\nvar ASet = wire.NewSet(conf.NewA)\n',
        "sets_b.go": 'package main\n\nimport (\n\t"fmt"\n\n\t"github.com/google/wire"\n\n\t"vscratch/NAME/beta/conf"\n)\n\nvar BSet = wire.NewSet(wire.InterfaceValue(new(fmt.Stringer), conf.Default))\n',
        "wire.go": '//go:build wireinject\n\npackage main\n\nimport "github.com/google/wire"\n\nfunc InitApp() *App {\n\twire.Build(ASet, BSet, NewApp)\n\treturn nil\n}\n'},
    # the constructor literal migrate writes for wire.Struct: a parameter named after a field must not hide the struct's
    # package qualifier, the struct's own type, or another parameter (repaired)
    "struct_param_hides_package": {
        "logger/logger.go": 'package logger\n\nimport "log/slog"\n\ntype Options struct {\n\tLogger *slog.Logger\n\tLevel  slog.Level\n}\n',
        "t.go": 'package main\n\nimport (\n\t"io"\n\t"log/slog"\n)\n\nfunc NewSlog() *slog.Logger { return slog.New(slog.NewTextHandler(io.Discard, nil)) }\nfunc NewLevel() slog.Level  { return slog.LevelWarn }\n',
        "main.go": 'package main\n\nfunc main() { o := InitOptions(); println(o.Logger != nil, int(o.Level)) }\n',
        "wire.go": '//go:build wireinject\n\npackage main\n\nimport (\n\t"github.com/google/wire"\n\n\t"vscratch/NAME/logger"\n)\n\nfunc InitOptions() *logger.Options {\n\twire.Build(NewSlog, NewLevel, wire.Struct(new(logger.Options), "*"))\n\treturn nil\n}\n'},
    "struct_param_hides_type": {
        "t.go": 'package main\n\ntype Addr string\ntype Limit int\n\ntype server struct {\n\tServer Limit\n\tAddr   Addr\n\taddr   int\n}\n\nfunc NewLimit() Limit { return 3 }\nfunc NewAddr() Addr   { return ":80" }\nfunc NewPort() int    { return 8 }\n',
        "main.go": 'package main\n\nfunc main() { s := InitServer(); println(int(s.Server), string(s.Addr), s.addr) }\n',
        "wire.go": '//go:build wireinject\n\npackage main\n\nimport "github.com/google/wire"\n\nfunc InitServer() *server {\n\twire.Build(NewLimit, NewAddr, NewPort, wire.Struct(new(server), "*"))\n\treturn nil\n}\n'},
    # an import migrate adds must not take a name the package already uses at package level, nor the name kessoku (repaired)
    "import_vs_package_identifier": {
        "config/config.go": 'package config\n\ntype Config struct{ Name string }\n\nfunc New() Config { return Config{Name: "c"} }\n',
        "t.go": 'package main\n\nimport cfgpkg "vscratch/NAME/config"\n\nvar config = cfgpkg.Config{Name: "fallback"}\n\ntype App struct{ Cfg cfgpkg.Config }\n',
        "main.go": 'package main\n\nfunc main() { println(InitApp().Cfg.Name, config.Name) }\n',
        "wire.go": '//go:build wireinject\n\npackage main\n\nimport (\n\t"github.com/google/wire"\n\n\tcfgpkg "vscratch/NAME/config"\n)\n\nfunc InitApp() *App {\n\twire.Build(cfgpkg.New, wire.Struct(new(App), "*"))\n\treturn nil\n}\n'},
    "package_named_kessoku": {
        "kessoku/k.go": 'package kessoku\n\ntype Band struct{ Name string }\n\nfunc NewBand() *Band { return &Band{Name: "kessoku"} }\n',
        "main.go": 'package main\n\nfunc main() { println(InitBand().Name) }\n',
        "wire.go": '//go:build wireinject\n\npackage main\n\nimport (\n\t"github.com/google/wire"\n\n\t"vscratch/NAME/kessoku"\n)\n\nfunc InitBand() *kessoku.Band {\n\twire.Build(kessoku.NewBand)\n\treturn nil\n}\n'},
    # a provider written in parentheses is a provider (repaired: it was dropped without a word)
    "parenthesised_provider": {
        "t.go": 'package main\n\ntype Config struct{ S string }\ntype App struct{ C *Config }\n\nfunc NewConfig() *Config    { return &Config{S: "c"} }\nfunc NewApp(c *Config) *App { return &App{C: c} }\n',
        "main.go": 'package main\n\nfunc main() { println(InitApp().C.S) }\n',
        "wire.go": '//go:build wireinject\n\npackage main\n\nimport "github.com/google/wire"\n\nfunc InitApp() *App {\n\twire.Build((NewConfig), NewApp)\n\treturn nil\n}\n'},
    "interface_value_nested_selector": {
        "streams/streams.go": 'package streams\n\nimport "bytes"\n\nvar Std = struct{ Out *bytes.Buffer }{Out: bytes.NewBufferString("buf")}\n',
        "t.go": 'package main\n\nimport "fmt"\n\ntype App struct{ S string }\n\nfunc NewApp(w fmt.Stringer) *App { return &App{S: w.String()} }\n',
        "main.go": 'package main\n\nfunc main() { println(InitApp().S) }\n',
        "wire.go": '//go:build wireinject\n\npackage main\n\nimport (\n\t"fmt"\n\n\t"github.com/google/wire"\n\n\t"vscratch/NAME/streams"\n)\n\nfunc InitApp() *App {\n\twire.Build(wire.InterfaceValue(new(fmt.Stringer), streams.Std.Out), NewApp)\n\treturn nil\n}\n'},
}


def directed_runs(key="WD-x"):
    """Each directed configuration through real wire and through migrate + generate; returns records with problems
    (prefixed "C14:" when they concern the migrated file itself: compilation, formatting, determinism)."""
    kessoku = vlib.build_kessoku()
    wire = os.path.join(vlib.BUILD, "wire")
    mod = new_module("wd")
    env = vlib.goenv()
    recs = []
    for cid, files in DIRECTED.items():
        name = "d" + cid
        rec = dict(name=cid, problems=[])
        recs.append(rec)
        sub = files.get("__sub__", "")
        margs = files.get("__args__", ["-o", "kessoku.go", "./"])
        reruns = files.get("__reruns__", 0)
        big = files.get("__big_fillers__", 0)
        files = {k: v for k, v in files.items() if not k.startswith("__")}
        for q in range(1, big + 1):
            # a large package (about 300 kB): the position the loader gives a file then varies by tens of kilobytes
            files["f%d.go" % q] = "package main\n\n" + "".join("func helper_%d_%d(x int) int { return x*%d + %d }\n" % (q, r, r, q) for r in range(1, 501))
        for side in ("", "_k", "_k2"):
            d = os.path.join(mod, name + side)
            for fn, txt in files.items():
                pth = os.path.join(d, fn)
                os.makedirs(os.path.dirname(pth), exist_ok=True)
                open(pth, "w").write(txt.replace("NAME", name + side))
        root, root2 = os.path.join(mod, name + "_k"), os.path.join(mod, name + "_k2")
        wdir, kdir, kdir2 = os.path.join(mod, name, sub), os.path.join(root, sub), os.path.join(root2, sub)
        rc, o, e = vlib.run([wire, "gen", "."], cwd=wdir, env=env, timeout=300)
        if rc != 0:
            rec["problems"].append("HARNESS: wire rejects the directed configuration: " + (o + e)[-300:])
            continue
        rcw, ow, ew = vlib.run(["go", "run", "."], cwd=wdir, env=env, timeout=300)
        if rcw != 0:
            rec["problems"].append("HARNESS: wire side does not run: " + ew[-300:])
            continue
        rc, o, e = vlib.run([kessoku, "migrate"] + margs, cwd=root, env=env, timeout=300)
        if rc != 0 or not os.path.exists(os.path.join(kdir, "kessoku.go")):
            rec["problems"].append("wire accepts the configuration but migrate failed (rc=%d): %s" % (rc, e[-300:]))
            continue
        text1 = open(os.path.join(kdir, "kessoku.go")).read()
        rec["kessoku_go"] = text1[:4000]
        rc, o, e = vlib.run([kessoku, "migrate"] + margs, cwd=root2, env=dict(env, GOMAXPROCS="1"), timeout=300)
        if rc != 0 or open(os.path.join(kdir2, "kessoku.go")).read().replace(name + "_k2", name + "_k") != text1:
            rec["problems"].append("C14: migrate output differs between two runs")
        for q in range(reruns):
            os.remove(os.path.join(kdir2, "kessoku.go"))
            rc, o, e = vlib.run([kessoku, "migrate"] + margs, cwd=root2, env=env, timeout=300)
            if rc != 0 or open(os.path.join(kdir2, "kessoku.go")).read().replace(name + "_k2", name + "_k") != text1:
                rec["problems"].append("C14: migrate output differs between repeated runs (run %d of %d)" % (q + 3, reruns + 2))
                break
        # the output path already holds a longer (valid, unrelated) file: it must be replaced, not overwritten in place
        stale = "package main\n\n" + "".join("var staleLeftover%d = %d\n" % (q, q) for q in range(len(text1) // 20 + 40))
        with open(os.path.join(kdir2, "kessoku.go"), "w") as f:
            f.write(stale)
        rc, o, e = vlib.run([kessoku, "migrate"] + margs, cwd=root2, env=env, timeout=300)
        if rc != 0 or open(os.path.join(kdir2, "kessoku.go")).read().replace(name + "_k2", name + "_k") != text1:
            rec["problems"].append("C14: migrate over a longer previous output file does not produce the same bytes as a fresh run")
        shutil.rmtree(root2, ignore_errors=True)
        for fn in sorted(os.listdir(kdir)):        # the wire files are set aside
            if fn.endswith(".go") and fn != "kessoku.go" and '"github.com/google/wire"' in open(os.path.join(kdir, fn)).read():
                os.remove(os.path.join(kdir, fn))
        rc, o, e = vlib.run(["gofmt", "-l", "kessoku.go"], cwd=kdir, env=env, timeout=60)
        if rc != 0 or o.strip():
            rec["problems"].append("C14: migrated file is not gofmt-stable: %s%s" % (o, e[-200:]))
        rc, o, e = vlib.run(["go", "vet", "."], cwd=kdir, env=env, timeout=300)
        if rc != 0 and not re.search(r"undefined: Init\w+", o + e):
            rec["problems"].append("C14: migrated file does not compile in the source package: %s" % (o + e)[-400:])
            continue
        rc, o, e = vlib.run([kessoku, "kessoku.go"], cwd=kdir, env=env, timeout=300)
        if rc != 0:
            rec["problems"].append("kessoku refuses the migrated declarations: %s" % e[-400:])
            continue
        ws, ks = signatures(os.path.join(wdir, "wire_gen.go")), signatures(os.path.join(kdir, "kessoku_band.go"))
        for inj in ws:
            if inj not in ks:
                rec["problems"].append("kessoku generated no injector %s" % inj)
            elif sorted(ws[inj]["params"]) != sorted(ks[inj]["params"]):
                rec["problems"].append("%s: argument types differ: wire %s, kessoku %s" % (inj, ws[inj]["params"], ks[inj]["params"]))
        if rec["problems"]:
            continue
        rc, o, e = vlib.run(["go", "vet", "."], cwd=kdir, env=env, timeout=300)
        if rc != 0:
            rec["problems"].append("C14: migrated package does not compile: %s" % (o + e)[-400:])
            continue
        rck, ok, ek = vlib.run(["go", "run", "."], cwd=kdir, env=env, timeout=300)
        if rck != 0 or ek.strip() != ew.strip():
            rec["problems"].append("results differ: wire's injector yields %r, the migrated injector yields %r" % (ew.strip()[-60:], ek.strip()[-60:]))
    keep = os.path.join(vlib.CACHE, "stage", key + "-dsrc")
    shutil.rmtree(keep, ignore_errors=True)
    shutil.copytree(mod, keep)
    return dict(records=recs, srcdir=keep)


# ------------------------------------------------------------------ Coq correspondence (coq/Wire.v)

class TermParse(Exception):
    pass


def parse_term(s, cfg, tid):
    """observed result string -> Coq term of Wire.v"""
    P = cfg["prefix"]
    pos = [0]
    def peek(k=1):
        return s[pos[0]:pos[0] + k]
    def ident():
        m = re.match(r"[A-Za-z0-9_.*:\[\]]+", s[pos[0]:])
        if not m:
            raise TermParse("identifier expected at %d in %s" % (pos[0], s))
        pos[0] += len(m.group(0))
        return m.group(0)
    def args(close):
        out = []
        if peek() == close:
            pos[0] += 1
            return out
        while True:
            out.append(term())
            c = peek()
            pos[0] += 1
            if c == close:
                return out
            if c != ",":
                raise TermParse("',' expected at %d in %s" % (pos[0], s))
    def term():
        name = ident()
        # an identifier may have swallowed ".FldK" suffixes of an A:/V: leaf - not produced by this generator
        if name.startswith("A:"):
            t = "TArg %d%%N" % tid(name[2:])
        elif name.startswith("V:"):
            t = "TVal %d" % int(name[2 + len(P) + 1:])
        elif peek() == "(":
            pos[0] += 1
            a = args(")")
            if peek(2) != "#0":
                raise TermParse("#0 expected in %s" % s)
            pos[0] += 2
            if name.endswith("Label"):
                node = cfg["label"]
            else:
                node = int(name.split("T")[-1])
            t = "TFn %d [%s]" % (node, "; ".join(a))
        elif peek() == "{":
            pos[0] += 1
            a = args("}")
            t = "TStruct %d%%N [%s]" % (tid("*" + name), "; ".join(a))
        else:
            raise TermParse("unexpected term %s in %s" % (name, s))
        while peek(4) == ".Fld":
            pos[0] += 4
            m = re.match(r"\d+", s[pos[0]:])
            pos[0] += len(m.group(0))
            t = "TField (%s) %s" % (t, m.group(0))
        return t
    r = term()
    if pos[0] != len(s):
        raise TermParse("trailing input in %s" % s)
    return r


def coq_cfg(cfg):
    """abstract configuration -> (welem list term, given list, requested type id, type-id function)"""
    P = cfg["prefix"]
    tt = {}
    def tid(t):
        t = re.sub(r"^\*?[ab]config\.", lambda m: m.group(0), t)
        if t not in tt:
            tt[t] = len(tt) + 1
        return tt[t]
    ext = {int(a): b for a, b in cfg.get("ext", {}).items()}
    def out_type(i):
        if cfg.get("label") == i:
            return "*sink.%sLabel" % P
        if i in ext:
            return "*%sconfig.%sT%d" % (ext[i][0], P, i)
        return "*%sT%d" % (P, i)
    def params(i):
        ps = []
        for j in cfg["deps"][i] if i in cfg["deps"] else cfg["deps"][str(i)]:
            ps += cfg["view"]["%d,%d" % (i, j)]
        ad = cfg["argdeps"][i] if i in cfg["argdeps"] else cfg["argdeps"][str(i)]
        ps += ["%sA%d" % (P, a) for a in ad]
        return ps
    els = []
    kinds = {int(k): v for k, v in cfg["kinds"].items()}
    for i in range(cfg["n"]):
        k = kinds[i]
        if k in ("fn", "fields"):
            els.append("WProv %d [%s] %d%%N" % (i, "; ".join("%d%%N" % tid(t) for t in params(i)), tid(out_type(i))))
            if k == "fn" and i in cfg["binds"] and i in cfg["used_iface"]:
                ifn = ("sink." if i in cfg.get("gamma_iface", []) else "") + "%sIF%d" % (P, i)
                els.append("WBind %d%%N %d%%N" % (tid(ifn), tid(out_type(i))))
            if k == "fields":
                uf = cfg["used_fields"].get(i) or cfg["used_fields"].get(str(i)) or []
                els.append("WFieldsOf %d%%N [%s]" % (tid(out_type(i)), "; ".join("(%d, %d%%N)" % (f, tid("*%sF%d_%d" % (P, i, f))) for f in uf)))
        elif k == "value":
            els.append("WValue %d %d%%N" % (i, tid(out_type(i))))
        elif k == "ivalue":
            els.append("WIValue %d %d%%N %d%%N" % (i, tid("%sIF%d" % (P, i)), tid(out_type(i))))
        elif k == "struct":
            els.append("WStruct %d%%N [%s]" % (tid(out_type(i)), "; ".join("%d%%N" % tid(t) for t in params(i))))
    given = [tid("%sA%d" % (P, a)) for a in cfg["args"]]
    return "[" + "; ".join(els) + "]", given, tid(out_type(0)), tid


def coq_cases(W):
    """Gallina cases for Wire.wire_mismatches from the records of a migration stage"""
    cases = []
    meta = []
    for r in W["records"]:
        if r["stage"] != "ran":
            continue
        for c in r["cfgs"]:
            vals = r.get("values", {}).get(c["name"])
            if not vals or not vals[0] or not vals[1]:
                continue
            try:
                cfg_s, given, req, tid = coq_cfg(c)
                tw = parse_term(vals[0], c, tid)
                tk = parse_term(vals[1], c, tid)
            except (TermParse, KeyError, ValueError) as ex:
                meta.append((None, r["name"], c["name"], "cannot express: %r" % ex))
                continue
            cases.append("(%d, (%s, [%s], %d%%N, %s, %s))" % (len(cases), cfg_s, "; ".join("%d%%N" % g for g in given), req, tw, tk))
            meta.append((len(cases) - 1, r["name"], c["name"], None))
    return cases, meta
