"""Declaration generator, Go renderer and independent reference evaluator (DESIGN 4.1 / 4.6).

An abstract declaration is a dict:
  name, prefix, ret (type string), provs (flattened, in Inject-argument order after Set flattening),
  layout (nested rendering structure), kind ('valid' | 'cycle' | 'dup' | 'orphan'), meta (shape information)
A provider is a dict with kind 'fn' | 'value' | 'struct'.
All random choices come from one random.Random(seed) owned by the caller.
"""
import json

CTX = "context.Context"


def gen_decl(rnd, k, opts=None):
    """One random structured, mostly valid declaration with prefix I<k>."""
    opts = opts or {}
    P = "I%d" % k
    n = opts.get("n") or rnd.choice([1, 2, 2, 3, 3, 4, 4, 5, 5, 6, 7, 8, 9, 10, 12])
    # DAG over 0..n-1, edges i -> j (i requires j) with j > i; node 0 produces the requested type
    deps = {}
    for i in range(n):
        cands = list(range(i + 1, n))
        rnd.shuffle(cands)
        m = rnd.choice([0, 1, 1, 2, 2, 3]) if cands else 0
        deps[i] = sorted(cands[:m])
    for j in range(1, n):                      # keep most nodes reachable
        if not any(j in deps[i] for i in range(j)) and rnd.random() < 0.85:
            i = rnd.randrange(0, j)
            deps[i] = sorted(set(deps[i] + [j]))
    p_async = opts.get("p_async", rnd.choice([0.0, 0.3, 0.5, 0.5, 0.7, 1.0]))
    p_fall = opts.get("p_fall", rnd.choice([0.0, 0.2, 0.3, 0.5]))
    asyncs = {i: rnd.random() < p_async for i in range(n)}
    fall = {i: rnd.random() < p_fall for i in range(n)}
    structnode = rnd.choice([None, None, None] + list(range(1, n))) if n > 2 and opts.get("structs", True) else None
    if n > 1 and opts.get("structs", True) and not opts.get("ret_is_arg") and rnd.random() < 0.06:
        structnode = 0          # the requested type is supplied only by a field of an expanded struct
    # (a requested field type is a struct value: with goroutines and an error result the injector has to return the zero
    # value of a type that has no nil - the repaired KF-C04-2)
    nf = rnd.choice([1, 2, 3]) if structnode is not None else 0
    # a second expansion whose struct is a FIELD of the first one (NewGraph's second pass has to put it back when it is
    # listed first); its own field G0 is what consumers ask for
    nested = structnode is not None and opts.get("nested", rnd.random() < 0.3)
    struct_bind = structnode is not None and structnode != 0 and rnd.random() < 0.3
    nargs = rnd.choice([0, 0, 1, 2, 3])
    # multi-value: node i also returns X_i, consumed by an earlier node (or by nobody)
    second = {}
    for i in range(1, n):
        if i != structnode and rnd.random() < 0.25:
            second[i] = rnd.choice([None] + list(range(0, i)))
    # interface binding: node j's result also available as interface IF_j
    binds = {j for j in range(1, n) if j != structnode and rnd.random() < 0.2}
    binds2 = {j for j in binds if rnd.random() < 0.35}      # bound to a second interface as well: Bind[I2](Bind[I1](...))
    if opts.get("bindmv") and n > 1:
        # directed shape: a Bind-wrapped provider with two results whose bound value is the FIRST one
        j = rnd.choice([x for x in range(1, n) if x != structnode])
        binds.add(j)
        second.setdefault(j, rnd.choice([None] + list(range(0, j))))
    # further results of a multi-value node (three- and four-valued providers); mostly requested by nobody, so that a call
    # has several blank results
    extra = {}
    for i in sorted(second):
        if rnd.random() < 0.4:
            extra[i] = [("Y", rnd.choice([None, None] + list(range(0, i))))]
            if rnd.random() < 0.5:
                extra[i].append(("Z", rnd.choice([None, None] + list(range(0, i)))))
    # values: leaves rendered as kessoku.Value(var)
    values = {j for j in range(1, n) if not deps[j] and j != structnode and j not in second and rnd.random() < 0.2}
    argdeps = {i: [a for a in range(nargs) if rnd.random() < 0.3] for i in range(n)}
    argshape = {a: rnd.choice(["%s", "%s", "*%s", "[]%s", "map[string]%s"]) for a in range(nargs)}
    def A(a): return argshape[a] % ("%sA%d" % (P, a))
    ctxpos = {}

    types_src = []
    # the requested type is occasionally a named function or channel type (not nil-able by composite literal, still nil-able)
    rkind = rnd.choice([None] * 8 + ["fn", "ch"]) if structnode != 0 and not opts.get("ret_is_arg") else None
    def T(j):
        if j == 0 and rkind:
            return "%sR%s" % (P, rkind)
        return "*%sT%d" % (P, j)
    for i in range(n):
        types_src.append(("T", i))

    def dep_types(i, j):
        """types through which consumer i requires producer j"""
        if structnode is not None and j == structnode:
            ch = [f for f in range(nf) if rnd.random() < 0.6] or [0]
            out = ["%sF%d" % (P, f) for f in ch]
            if rnd.random() < 0.2:
                out.append("*%sSt" % P)
            if struct_bind and rnd.random() < 0.6:
                out.append("%sIFs" % P)
            if nested and rnd.random() < 0.6:
                out.append("%sG0" % P)
                if rnd.random() < 0.3:
                    out.append("*%sSt2" % P)
            return out
        if j in binds2 and rnd.random() < 0.4:
            return ["%sIF%db" % (P, j)]
        if j in binds and rnd.random() < 0.6:
            return ["%sIF%d" % (P, j)]
        return [T(j)]

    provs = {}
    for i in range(n):
        req = []
        for j in deps[i]:
            req += dep_types(i, j)
        req += ["*%sX%d" % (P, j) for j, c in second.items() if c == i]
        req += ["*%s%s%d" % (P, sfx, j) for j, l in sorted(extra.items()) for sfx, c in l if c == i]
        req += [A(a) for a in argdeps[i]]
        if i in values:
            req = []
        if req and rnd.random() < 0.08:          # same type required twice
            req.append(rnd.choice(req))
        if rnd.random() < 0.12 and i not in values:
            req.insert(rnd.randrange(len(req) + 1), CTX)
        if rnd.random() < 0.3:
            rnd.shuffle(req)
        if structnode is not None and i == structnode:
            prv = [["*%sSt" % P]]
        else:
            prv = [[T(i)]]
        if i in binds:
            prv[0].append("%sIF%d" % (P, i))
        if i in binds2:
            prv[0].append("%sIF%db" % (P, i))
        if i in second:
            prv.append(["*%sX%d" % (P, i)])
            for sfx, _c in extra.get(i, []):
                prv.append(["*%s%s%d" % (P, sfx, i)])
        if i in values:
            provs[i] = dict(kind="value", var="%sV%d" % (P, i), fn=None, requires=[], provides=prv, fallible=False, node=i,
                            bind=(["%sIF%d" % (P, i)] if i in binds else []) + (["%sIF%db" % (P, i)] if i in binds2 else []), **{"async": False})
        else:
            provs[i] = dict(kind="fn", fn="New%sT%d" % (P, i), requires=req, provides=prv, fallible=fall[i], node=i,
                            variadic=bool(req and req[-1].startswith("[]") and rnd.random() < 0.6),     # func(..., xs ...Elem), fed by a []Elem
                            errtype=("%sErr" % P if rnd.random() < 0.25 else "error"),
                            errpos=rnd.choice([None, None, None, 0, 1]),      # where the error stands among the results (None: last)
                            nest=rnd.choice(["async_outer", "bind_outer"]), lit=(rnd.random() < 0.15),
                            bind=(["%sIF%d" % (P, i)] if i in binds else []) + (["%sIF%db" % (P, i)] if i in binds2 else []), **{"async": asyncs[i]})
    order = list(range(n))
    rnd.shuffle(order)
    flat = [provs[i] for i in order]
    if structnode is not None:
        fields = sorted([["Fld%s" % chr(ord('C') - f), "%sF%d" % (P, f)] for f in range(nf)])
        sp = dict(kind="struct", type="*%sSt" % P, fields=fields, requires=["*%sSt" % P], provides=[["*%sSt" % P]],
                  fallible=False, fn=None, node=None, wrap=rnd.choice(["plain", "plain", "async"]), **{"async": False})
        if sp["wrap"] == "async":
            sp["async"] = True
        if struct_bind:
            # kessoku.Bind[IFs](kessoku.Struct[*St]()): the interface is supplied by the struct's source
            sp["bind"] = ["%sIFs" % P]
            sp["nest"] = rnd.choice(["async_outer", "bind_outer"])
        flat.insert(rnd.randrange(len(flat) + 1), sp)
        if nested:
            sp["fields"] = sorted(sp["fields"] + [["FldN", "*%sSt2" % P]])
            sp2 = dict(kind="struct", type="*%sSt2" % P, fields=[["FldQ", "%sG0" % P]], requires=["*%sSt2" % P], provides=[["*%sSt2" % P]],
                       fallible=False, fn=None, node=None, wrap=rnd.choice(["plain", "plain", "async"]), **{"async": False})
            sp2["async"] = sp2["wrap"] == "async"
            flat.insert(rnd.randrange(len(flat) + 1), sp2)
    ret = T(0) if structnode != 0 else "%sF0" % P
    if opts.get("ret_is_arg") or (n == 1 and rnd.random() < 0.05):
        ret = "%sA9" % P        # nobody supplies it: the injector just returns its argument (fix F5)
    layout = make_layout(rnd, len(flat), P)
    d = dict(name="Init" + P, prefix=P, ret=ret, provs=flat, layout=layout, kind="valid",
             meta=dict(n=n, nargs=nargs, nf=nf, structnode=structnode, nested=bool(nested), struct_bind=bool(struct_bind), second=sorted(second), binds=sorted(binds), values=sorted(values)))
    return d


def twin_decl(rnd, d, tag="B"):
    """A second injector over the SAME provider functions, types and values (rendered once, by the original declaration):
    other Async marks, possibly another requested type, another order and Set grouping.  One generator invocation then
    sees the same provider function under different wrappers (C02: marks never change the value; C10: ctx exactly when
    a NEEDED provider is Async)."""
    import copy
    t = copy.deepcopy(d)
    t["name"] = d["name"] + tag
    t["shared"] = True
    for p in t["provs"]:
        if p["kind"] == "fn" and rnd.random() < 0.5:
            p["async"] = not p["async"]
    if rnd.random() < 0.4:
        cands = [p["provides"][0][0] for p in t["provs"] if p["kind"] == "fn"]
        if cands:
            t["ret"] = rnd.choice(cands)
    def inline(layout):
        return [it if isinstance(it, int) else ("set", inline(it[1])) for it in layout]
    t["layout"] = inline(t["layout"])
    rnd.shuffle(t["layout"])
    # provider indexes follow the order in which the argument list is WRITTEN (the order the generator sees): renumber
    order = []
    def walk(layout):
        for it in layout:
            if isinstance(it, int):
                order.append(it)
            else:
                walk(it[1])
    walk(t["layout"])
    t["provs"] = [t["provs"][i] for i in order]
    counter = iter(range(len(order)))
    def renum(layout):
        return [next(counter) if isinstance(it, int) else (it[0], renum(it[1])) for it in layout]
    t["layout"] = renum(t["layout"])
    t["meta"] = dict(t["meta"], twin_of=d["name"])
    return t


def systematic_leaves(k0):
    """C05 stream: a root consuming k parameterless providers (every async mask x every order in which the root
    requires them, i.e. every BFS discovery order), plus an injector argument consumed by the root. Returns a generator of decls."""
    import itertools
    k = k0
    for n in (2, 3):
        for mask in itertools.product([False, True], repeat=n):
            for perm in itertools.permutations(range(n)):
                P = "Y%d" % k
                k += 1
                # the root is fallible so that `ctx` is used in every injector (keeps known finding KF-C04-7 out of this stream)
                provs = [dict(kind="fn", fn="New%sT0" % P, requires=["*%sT%d" % (P, j + 1) for j in perm] + ["%sA0" % P], provides=[["*%sT0" % P]],
                              fallible=True, node=0, bind=[], **{"async": False})]
                for j in range(n):
                    provs.append(dict(kind="fn", fn="New%sT%d" % (P, j + 1), requires=[], provides=[["*%sT%d" % (P, j + 1)]], fallible=False,
                                      node=j + 1, bind=[], **{"async": mask[j]}))
                yield dict(name="Init" + P, prefix=P, ret="*%sT0" % P, provs=provs, layout=list(range(len(provs))), kind="valid",
                           meta=dict(n=n + 1, nargs=1, nf=0, structnode=None, second=[], binds=[], values=[]))
    # no slack in the pool count: no injector argument, no synchronous input-free provider; optionally one leaf is the source
    # of a Struct expansion whose fields the root consumes (the accessor nodes enter the antichain computation)
    for n in (2, 3):
        for with_struct in (False, True):
            for perm in (list(itertools.permutations(range(n)))[0], list(itertools.permutations(range(n)))[-1]):
                P = "Y%d" % k
                k += 1
                def leaf_type(j):
                    return ("%sF0" % P) if (with_struct and j == 0) else "*%sT%d" % (P, j + 1)
                provs = [dict(kind="fn", fn="New%sT0" % P, requires=[leaf_type(j) for j in perm], provides=[["*%sT0" % P]],
                              fallible=True, node=0, bind=[], **{"async": False})]
                for j in range(n):
                    prv = [["*%sSt" % P]] if (with_struct and j == 0) else [["*%sT%d" % (P, j + 1)]]
                    provs.append(dict(kind="fn", fn="New%sT%d" % (P, j + 1), requires=[], provides=prv, fallible=False, node=j + 1, bind=[], **{"async": True}))
                if with_struct:
                    provs.append(dict(kind="struct", type="*%sSt" % P, fields=[["FldC", "%sF0" % P]], requires=["*%sSt" % P], provides=[["*%sSt" % P]],
                                      fallible=False, fn=None, node=None, wrap="plain", **{"async": False}))
                yield dict(name="Init" + P, prefix=P, ret="*%sT0" % P, provs=provs, layout=list(range(len(provs))), kind="valid",
                           meta=dict(n=n + 1, nargs=0, nf=1 if with_struct else 0, structnode=1 if with_struct else None, second=[], binds=[], values=[]))
    # the same shape with interface bindings on the leaves, in the nesting Bind[I](Async(Provide(f))): all leaves Async
    for n in (2, 3):
        perms = list(itertools.permutations(range(n)))
        perms = perms if n == 2 else [perms[0], perms[-1]]
        for bmask in itertools.product([False, True], repeat=n):
            if not any(bmask):
                continue
            for perm in perms:
                P = "Y%d" % k
                k += 1
                provs = [dict(kind="fn", fn="New%sT0" % P, requires=[("%sIF%d" % (P, j + 1) if bmask[j] else "*%sT%d" % (P, j + 1)) for j in perm] + ["%sA0" % P],
                              provides=[["*%sT0" % P]], fallible=True, node=0, bind=[], **{"async": False})]
                for j in range(n):
                    b = ["%sIF%d" % (P, j + 1)] if bmask[j] else []
                    provs.append(dict(kind="fn", fn="New%sT%d" % (P, j + 1), requires=[], provides=[["*%sT%d" % (P, j + 1)] + b], fallible=False,
                                      node=j + 1, bind=b, nest="bind_outer", **{"async": True}))
                yield dict(name="Init" + P, prefix=P, ret="*%sT0" % P, provs=provs, layout=list(range(len(provs))), kind="valid",
                           meta=dict(n=n + 1, nargs=1, nf=0, structnode=None, second=[], binds=[j + 1 for j in range(n) if bmask[j]], values=[]))


def sync_fanin_leaves(k0):
    """C05: input-free Async leaves next to a SYNCHRONOUS provider that takes sync input-free values and the value of ONE of
    the Async leaves (so it has to wait for another goroutine), but not the others': wherever that provider and its wait are
    emitted, the other Async leaves must already have been started."""
    import itertools
    out = []
    k = k0
    for nasync in (2, 3):
        for rootperm in (0, 1):
            for extra_val in (False, True):
                P = "Z%d" % k
                k += 1
                A = ["*%sT%d" % (P, j + 1) for j in range(nasync)]          # async input-free leaves
                V = "*%sT%d" % (P, nasync + 1)                               # sync input-free
                W = "*%sT%d" % (P, nasync + 2)                               # sync input-free (optional)
                D = "*%sT%d" % (P, nasync + 3)                               # sync fan-in: V (, W), A[-1]
                dreq = [V] + ([W] if extra_val else []) + [A[-1]]
                rootreq = ([D] + A[:-1]) if rootperm == 0 else (A[:-1] + [D])
                provs = [dict(kind="fn", fn="New%sT0" % P, requires=rootreq, provides=[["*%sT0" % P]], fallible=True, node=0, bind=[], **{"async": False})]
                for j in range(nasync):
                    provs.append(dict(kind="fn", fn="New%sT%d" % (P, j + 1), requires=[], provides=[[A[j]]], fallible=False, node=j + 1, bind=[], **{"async": True}))
                provs.append(dict(kind="fn", fn="New%sT%d" % (P, nasync + 1), requires=[], provides=[[V]], fallible=False, node=nasync + 1, bind=[], **{"async": False}))
                if extra_val:
                    provs.append(dict(kind="fn", fn="New%sT%d" % (P, nasync + 2), requires=[], provides=[[W]], fallible=False, node=nasync + 2, bind=[], **{"async": False}))
                provs.append(dict(kind="fn", fn="New%sT%d" % (P, nasync + 3), requires=dreq, provides=[[D]], fallible=False, node=nasync + 3, bind=[], **{"async": False}))
                for order in (0, 1):
                    pl = provs if order == 0 else [provs[0]] + provs[1:][::-1]
                    PP = P if order == 0 else P + "r"
                    if order == 1:
                        import json as _j
                        pl = _j.loads(_j.dumps(pl).replace(P, PP))
                    out.append(dict(name="Init" + PP, prefix=PP, ret="*%sT0" % PP, provs=pl, layout=list(range(len(pl))), kind="valid",
                                    meta=dict(n=len(pl), nargs=0, nf=0, structnode=None, second=[], binds=[], values=[])))
    return out


def multi_edge_decls(k0):
    """C01/C02: a consumer that takes TWO values of one multi-value provider and, besides, a value whose producer has a
    dependency of its own (so it is not a root), next to Async leaves (the locals are then declared ahead of the calls: a
    consumer emitted too early compiles and reads a zero value).  Counting an edge once where the other side counts it per
    argument (or the reverse) shows here and nowhere in the simple shapes."""
    out = []
    k = k0
    for mv_async in (False, True):
        for depth in (1, 2):
            for perm in range(4):
                P = "W%d" % k
                k += 1
                T = lambda j: "*%sT%d" % (P, j)
                X1 = "*%sX1" % P
                last = T(2 + depth)
                C, Q = T(3 + depth), T(4 + depth)
                rootreq = [[T(1), X1, last, C, Q], [last, T(1), X1, C, Q], [T(1), last, X1, C, Q], [C, T(1), Q, X1, last]][perm]
                provs = [dict(kind="fn", fn="New%sT0" % P, requires=rootreq, provides=[[T(0)]], fallible=False, node=0, bind=[], **{"async": False}),
                         dict(kind="fn", fn="New%sT1" % P, requires=[], provides=[[T(1)], [X1]], fallible=False, node=1, bind=[], **{"async": mv_async}),
                         dict(kind="fn", fn="New%sT2" % P, requires=[], provides=[[T(2)]], fallible=False, node=2, bind=[], **{"async": False})]
                for j in range(depth):
                    provs.append(dict(kind="fn", fn="New%sT%d" % (P, 3 + j), requires=[T(2 + j)], provides=[[T(3 + j)]], fallible=False, node=3 + j, bind=[], **{"async": False}))
                provs.append(dict(kind="fn", fn="New%sT%d" % (P, 3 + depth), requires=[], provides=[[C]], fallible=False, node=3 + depth, bind=[], **{"async": True}))
                provs.append(dict(kind="fn", fn="New%sT%d" % (P, 4 + depth), requires=[], provides=[[Q]], fallible=False, node=4 + depth, bind=[], **{"async": True}))
                out.append(dict(name="Init" + P, prefix=P, ret=T(0), provs=provs, layout=list(range(len(provs))), kind="valid",
                                meta=dict(n=len(provs), nargs=0, nf=0, structnode=None, second=[1], binds=[], values=[])))
    return out


def ctx_mid_decls(k0):
    """context.Context is an ordinary unsupplied dependency discovered between other injector arguments, and a needed
    provider is Async: ctx must be moved to the front without disturbing the other parameters (C10)."""
    out = []
    k = k0
    for shape in range(4):
        P = "X%d" % k
        k += 1
        root_req = {0: ["%sA0" % P, "*%sT1" % P, "%sA1" % P], 1: ["*%sT1" % P, "%sA0" % P], 2: ["%sA0" % P, "%sA1" % P, "*%sT1" % P], 3: ["%sA0" % P, "*%sT1" % P]}[shape]
        t1_req = {0: [CTX, "%sA2" % P], 1: ["%sA1" % P, CTX, "%sA2" % P], 2: ["%sA2" % P, CTX], 3: ["%sA1" % P, CTX, "%sA2" % P, "%sA3" % P]}[shape]
        provs = [dict(kind="fn", fn="New%sT0" % P, requires=root_req, provides=[["*%sT0" % P]], fallible=True, node=0, bind=[], **{"async": False}),
                 dict(kind="fn", fn="New%sT1" % P, requires=t1_req, provides=[["*%sT1" % P]], fallible=False, node=1, bind=[], **{"async": True}),
                 dict(kind="fn", fn="New%sT2" % P, requires=[], provides=[["*%sT2" % P]], fallible=False, node=2, bind=[], **{"async": True})]
        provs[0]["requires"] = provs[0]["requires"] + ["*%sT2" % P]
        out.append(dict(name="Init" + P, prefix=P, ret="*%sT0" % P, provs=provs, layout=[0, 1, 2], kind="valid",
                        meta=dict(n=3, nargs=4, nf=0, structnode=None, second=[], binds=[], values=[])))
    return out


def decl_from_spec(k, n, deps, args=None, asyncs=(), fall=(), prefix="S"):
    """A plain declaration from an explicit DAG: node i requires the first result of each node in deps[i] (in that order)
    and the injector arguments args[i]; node 0 provides the requested type."""
    P = "%s%d" % (prefix, k)
    args = args or {}
    provs = []
    for i in range(n):
        req = ["*%sT%d" % (P, j) for j in deps.get(i, [])] + ["%sA%d" % (P, a) for a in args.get(i, [])]
        provs.append(dict(kind="fn", fn="New%sT%d" % (P, i), requires=req, provides=[["*%sT%d" % (P, i)]], fallible=(i in fall), node=i, bind=[],
                          **{"async": (i in asyncs)}))
    return dict(name="Init" + P, prefix=P, ret="*%sT0" % P, provs=provs, layout=list(range(n)), kind="valid",
                meta=dict(n=n, nargs=len({a for v in args.values() for a in v}), nf=0, structnode=None, second=[], binds=[], values=[]))


def shape_decls(k0):
    """A small library of canonical graph shapes, each under several Async masks: independent fan-outs (one fed by an
    injector argument), chains, diamonds, a W, a wide join - shapes that random DAGs of the quick tier hit only by luck."""
    shapes = [
        # two fan-outs joined by the root; the second one hangs on an injector argument
        (7, {0: [1, 2, 4, 5], 1: [3], 2: [3], 4: [6], 5: [6]}, {6: [0]}),
        (7, {0: [4, 5, 1, 2], 1: [3], 2: [3], 4: [6], 5: [6]}, {6: [0]}),
        (7, {0: [1, 2, 4, 5], 1: [3], 2: [3], 4: [6], 5: [6]}, {3: [0], 6: [1]}),
        # diamond over a chain
        (6, {0: [1, 2], 1: [3], 2: [3], 3: [4], 4: [5]}, {5: [0]}),
        # W: two consumers sharing the middle producer
        (6, {0: [1, 2], 1: [3, 4], 2: [4, 5]}, {}),
        # wide join of independent chains
        (7, {0: [1, 3, 5], 1: [2], 3: [4], 5: [6]}, {2: [0], 6: [0]}),
        # a producer consumed at three depths
        (5, {0: [1, 4], 1: [2, 4], 2: [3, 4]}, {}),
    ]
    out = []
    k = k0
    for n, deps, args in shapes:
        masks = [set(range(1, n)), set(range(0, n)), {i for i in range(1, n) if i % 2 == 1}, {i for i in range(1, n) if not deps.get(i)}]
        for m in masks:
            out.append(decl_from_spec(k, n, deps, args, asyncs=m, fall={0}))
            k += 1
    return out


def known_finding_decls():
    """Directed reproducers of the four open concurrency findings (one declaration each, package `kf`)."""
    def fn(P, i, req, fall, asy):
        return dict(kind="fn", fn="New%sT%d" % (P, i), requires=req, provides=[["*%sT%d" % (P, i)]], fallible=fall, node=i, bind=[], **{"async": asy})
    out = []
    # KF-C06-1: A, B async fallible; C(a, b) on the main thread; B fails while main waits for it
    P = "K0"
    out.append(dict(name="Init" + P, prefix=P, ret="*K0T0", kind="valid", layout=[0, 1, 2], meta=dict(n=3, nargs=0, nf=0, structnode=None, second=[], binds=[], values=[]),
                    provs=[fn(P, 0, ["*K0T1", "*K0T2"], False, False), fn(P, 1, [], True, True), fn(P, 2, [], True, True)], kf="KF-C06-1"))
    # KF-C07-1: no error result; R(s, x, z) and S sync, X async on the main thread; goroutine [Y(s), Z(y)] waits for main's S with a
    # ctx-aware select; main then waits plainly for z
    P = "K1"
    out.append(dict(name="Init" + P, prefix=P, ret="*K1T0", kind="valid", layout=[0, 1, 2, 3, 4], meta=dict(n=5, nargs=0, nf=0, structnode=None, second=[], binds=[], values=[]),
                    provs=[fn(P, 0, ["*K1T1", "*K1T2", "*K1T4"], False, False), fn(P, 1, [], False, False), fn(P, 2, [], False, True),
                           fn(P, 3, ["*K1T1"], False, True), fn(P, 4, ["*K1T3"], False, True)], kf="KF-C07-1"))
    # KF-C07-2: no error result; A sync; X(a), Y(a) async; R(x, y) lands in the goroutine with Y: the requested value is produced by a
    # goroutine that leaves through its ctx branch
    P = "K2"
    out.append(dict(name="Init" + P, prefix=P, ret="*K2T0", kind="valid", layout=[0, 1, 2, 3], meta=dict(n=4, nargs=0, nf=0, structnode=None, second=[], binds=[], values=[]),
                    provs=[fn(P, 0, ["*K2T1", "*K2T2"], False, False), fn(P, 1, ["*K2T3"], False, True), fn(P, 2, ["*K2T3"], False, True), fn(P, 3, [], False, False)], kf="KF-C07-2"))
    # KF-C08-1: X sync fallible on the main thread; Y(x), A(x) async; Z(a, y); X fails
    P = "K3"
    out.append(dict(name="Init" + P, prefix=P, ret="*K3T0", kind="valid", layout=[0, 1, 2, 3], meta=dict(n=4, nargs=0, nf=0, structnode=None, second=[], binds=[], values=[]),
                    provs=[fn(P, 0, ["*K3T1", "*K3T2"], False, False), fn(P, 1, ["*K3T3"], False, True), fn(P, 2, ["*K3T3"], False, True), fn(P, 3, [], True, False)], kf="KF-C08-1"))
    return out


def make_layout(rnd, m, P):
    """Random Set nesting over provider indexes 0..m-1, order preserving."""
    idx = list(range(m))
    def split(lst, depth):
        out = []
        i = 0
        while i < len(lst):
            if depth < 2 and len(lst) - i >= 1 and rnd.random() < 0.18:
                ln = rnd.randint(1, min(4, len(lst) - i))
                sub = split(lst[i:i + ln], depth + 1)
                if rnd.random() < 0.5:
                    out.append(("set", sub))
                else:
                    out.append(("setvar", sub))
                i += ln
            else:
                out.append(lst[i])
                i += 1
        return out
    return split(idx, 0)


def mutate_malformed(rnd, d, kind):
    """Plant a defect in a valid declaration. Returns a new decl with d['kind']=kind and d['expect'] describing the refusal."""
    d = json.loads(json.dumps(d))
    P = d["prefix"]
    needed, order = needed_set(d)
    if needed is None:
        return None
    fnidx = [i for i in sorted(x for x in needed if isinstance(x, int)) if d["provs"][i]["kind"] == "fn"]
    if kind == "cycle":
        # back edge: a needed provider a (reachable) additionally requires something that transitively needs a's output
        if not fnidx:
            return None
        a = rnd.choice(fnidx)
        # find descendants-or-self reachable "above" a : providers that (transitively) depend on a, including a itself (self loop)
        up = ancestors(d, a) | {a}
        up = [u for u in up if d["provs"][u]["kind"] == "fn" and u in needed]
        b = rnd.choice(up)
        # a requires (one result type of) b
        t = rnd.choice(d["provs"][b]["provides"])[0] if rnd.random() < 0.7 else rnd.choice(rnd.choice(d["provs"][b]["provides"]))
        d["provs"][a]["requires"] = d["provs"][a]["requires"] + [t]
        d["kind"] = "cycle"
        # the diagnostic identifies every provider on the cycle by its first provided type: any type of b's first group counts
        d["expect"] = dict(err="cycle", types=[], types_any=sorted({x for g in d["provs"][b]["provides"] for x in g} | {t}))
        return d
    if kind == "cycle_self_bind":
        # a cycle of length one through an interface: Bind[I](Provide(f)) where f itself requires I (a decorator bound to
        # the interface it wraps)
        cands = [i for i in fnidx if d["provs"][i].get("node") is not None and d["provs"][i]["provides"][0][0].startswith("*" + P + "T")]
        if not cands:
            return None
        withb = [i for i in cands if d["provs"][i].get("bind")]
        a = rnd.choice(withb or cands)
        pa = d["provs"][a]
        if not pa.get("bind"):
            iface = "%sIF%d" % (P, pa["node"])
            pa["bind"] = [iface]
            pa["provides"][0] = pa["provides"][0] + [iface]
        iface = rnd.choice(pa["bind"])
        pa["requires"] = pa["requires"] + [iface]
        pa["variadic"] = False
        d["kind"] = "cycle"
        d["expect"] = dict(err="cycle", types=[], types_any=sorted({x for g in pa["provides"] for x in g}))
        return d
    if kind in ("cycle_mv", "dup_mv"):
        # the defect goes through the SECOND result of a Bind-wrapped two-result provider (gen_decl option bindmv)
        bm = [i for i in fnidx if d["provs"][i].get("bind") and len(d["provs"][i]["provides"]) > 1]
        if not bm:
            return None
        b = rnd.choice(bm)
        t = d["provs"][b]["provides"][1][0]
        if kind == "cycle_mv":
            below = [a for a in fnidx if a == b or b in ancestors(d, a)]
            a = rnd.choice(below)
            d["provs"][a]["requires"] = d["provs"][a]["requires"] + [t]
            d["kind"] = "cycle"
            d["expect"] = dict(err="cycle", types=[], types_any=sorted({x for g in d["provs"][b]["provides"] for x in g}))
            return d
        q = dict(kind="fn", fn="New%sDup" % P, requires=[], provides=[[t]], fallible=False, node=None, bind=[], dup=True, **{"async": rnd.random() < 0.3})
        d["provs"].insert(rnd.randrange(len(d["provs"]) + 1), q)
        d["layout"] = list(range(len(d["provs"])))
        d["kind"] = "dup"
        d["expect"] = dict(err="dup", types=[t])
        return d
    if kind == "dup":
        # a second provider supplying a type already supplied (function result, bound interface, or struct field)
        supplied = []
        for i, p in enumerate(d["provs"]):
            if p["kind"] == "struct":
                supplied += [(f[1], "field") for f in p["fields"]]
            else:
                for g in p["provides"]:
                    supplied += [(t, "res") for t in g]
        if not supplied:
            return None
        t, how = rnd.choice(supplied)
        if t == CTX:
            return None
        q = dict(kind="fn", fn="New%sDup" % P, requires=[], provides=[[t]], fallible=False, node=None, bind=[], dup=True, **{"async": rnd.random() < 0.3})
        pos = rnd.randrange(len(d["provs"]) + 1)
        d["provs"].insert(pos, q)
        d["layout"] = list(range(len(d["provs"])))
        d["kind"] = "dup"
        d["expect"] = dict(err="dup", types=[t])
        return d
    if kind == "dup_sets":
        # a duplicate that exists only after Sets are flattened: the two suppliers sit in different Sets of one Inject call
        # and are spelled alike (the very same Provide(f); two Value(&T{...}) literals with different contents; two function
        # literals with different bodies)
        how = rnd.choice(["same_provide", "value_lits", "closures"])
        if how == "same_provide":
            if not fnidx:
                return None
            o = rnd.choice(fnidx)
            q = dict(d["provs"][o], copy_of=d["provs"][o]["fn"], dup=True, lit=False)
            d["provs"][o]["lit"] = False
            t = d["provs"][o]["provides"][0][0]
            d["provs"].append(q)
        else:
            t = "*%sDV" % P
            if how == "value_lits":
                q1 = dict(kind="value", var="%sDVa" % P, inline="a", fn=None, requires=[], provides=[[t]], fallible=False, node=None, bind=[], dup=True, **{"async": False})
                q2 = dict(kind="value", var="%sDVb" % P, inline="b", fn=None, requires=[], provides=[[t]], fallible=False, node=None, bind=[], dup=True, **{"async": False})
            else:
                q1 = dict(kind="fn", fn="New%sDup" % P, requires=[], provides=[[t]], fallible=False, node=None, bind=[], dup=True, lit=True, **{"async": False})
                q2 = dict(kind="fn", fn="New%sDup2" % P, requires=[], provides=[[t]], fallible=False, node=None, bind=[], dup=True, lit=True, **{"async": False})
            o = rnd.randrange(len(d["provs"]) + 1)
            d["provs"].insert(o, q1)
            d["provs"].append(q2)
            if rnd.random() < 0.6 and fnidx:
                tgt = rnd.choice([p_ for p_ in d["provs"] if p_["kind"] == "fn" and p_.get("node") is not None])
                tgt["requires"] = tgt["requires"] + [t]
        m = len(d["provs"])
        cut = rnd.randint(o + 1, m - 1)
        second = ("set", list(range(cut, m)))
        if rnd.random() < 0.3:
            second = ("setvar", [second])
        d["layout"] = [("setvar", list(range(0, cut))), (rnd.choice(["set", "setvar"]), second[1]) if second[0] == "set" else second]
        d["kind"] = "dup"
        d["expect"] = dict(err="dup", types=[t])
        d["meta"] = dict(d.get("meta", {}), dup_sets=how)
        return d
    if kind == "dupfield":
        # one Struct expansion whose struct has two exported fields of the same type
        st = "*%sDSt" % P
        q = dict(kind="fn", fn="New%sDSt" % P, requires=[], provides=[[st]], fallible=False, node=None, bind=[], **{"async": False})
        sp = dict(kind="struct", type=st, fields=[["FldA", "%sDF" % P], ["FldB", "%sDF" % P]], requires=[st], provides=[[st]],
                  fallible=False, fn=None, node=None, wrap="plain", **{"async": False})
        d["provs"].insert(rnd.randrange(len(d["provs"]) + 1), q)
        d["provs"].insert(rnd.randrange(len(d["provs"]) + 1), sp)
        if rnd.random() < 0.5 and fnidx:
            # and somebody needs the ambiguous type
            tgt = rnd.choice([p_ for p_ in d["provs"] if p_["kind"] == "fn" and p_.get("node") is not None])
            tgt["requires"] = tgt["requires"] + ["%sDF" % P]
        d["layout"] = list(range(len(d["provs"])))
        d["kind"] = "dup"
        d["expect"] = dict(err="dup", types=["%sDF" % P])
        return d
    if kind == "orphan_self":
        # an orphan Struct expansion whose struct has an exported field of its own pointer type: its own accessor must not
        # count as the source of the struct
        st = "*%sRSt" % P
        sp = dict(kind="struct", type=st, fields=[["FldA", "%sRF0" % P], ["FldB", st]], requires=[st], provides=[[st]],
                  fallible=False, fn=None, node=None, wrap="plain", orphan=True, selfref=True, **{"async": False})
        d["provs"].insert(rnd.randrange(len(d["provs"]) + 1), sp)
        d["layout"] = list(range(len(d["provs"])))
        d["kind"] = "orphan"
        d["expect"] = dict(err="orphan", types=[st])
        return d
    if kind == "orphan":
        # a Struct expansion whose struct type nobody supplies
        fields = [["FldA", "%sOF0" % P]]
        sp = dict(kind="struct", type="*%sOSt" % P, fields=fields, requires=["*%sOSt" % P], provides=[["*%sOSt" % P]],
                  fallible=False, fn=None, node=None, wrap="plain", orphan=True, **{"async": False})
        d["provs"].insert(rnd.randrange(len(d["provs"]) + 1), sp)
        d["layout"] = list(range(len(d["provs"])))
        d["kind"] = "orphan"
        d["expect"] = dict(err="orphan", types=["*%sOSt" % P])
        return d
    raise ValueError(kind)


# ---------------------------------------------------------------- reference semantics (independent of the Coq model)

def supplier_map(d):
    """type -> (provider index, result group) as the declaration defines it; fields are suppliers too.
    Returns (map, error) where error is None | ('dup', t) | ('orphan', t)."""
    m = {}
    fieldprovs = []
    for i, p in enumerate(d["provs"]):
        if p["kind"] == "struct":
            continue
        for gi, g in enumerate(p["provides"]):
            for t in g:
                if t in m:
                    if m[t][0] != i:
                        return None, ("dup", t)
                    continue
                m[t] = (i, gi)
    order, err = struct_expansion(d, m)
    if err:
        return None, err
    return m, None


def struct_expansion(d, m):
    """Second pass of NewGraph on the map m of the first pass (extended in place): Struct expansions in declaration order,
    an expansion whose source is a field of a struct still waiting being put back behind the others (at most once per
    waiting struct between two successes). Returns (indexes of the struct providers in expansion order, error)."""
    pending = [i for i, p in enumerate(d["provs"]) if p["kind"] == "struct"]
    order = []
    deferred = 0
    while pending:
        i = pending.pop(0)
        p = d["provs"][i]
        if p["type"] not in m:
            if any(ft == p["type"] for j in pending for (_fn, ft) in d["provs"][j]["fields"]) and deferred <= len(pending):
                deferred += 1
                pending.append(i)
                continue
            return None, ("orphan", p["type"])
        deferred = 0
        for iface in p.get("bind", []):
            if iface in m and m[iface] != m[p["type"]]:
                return None, ("dup", iface)
            m[iface] = m[p["type"]]
        for (fname, ftype) in p["fields"]:
            if ftype in m:
                return None, ("dup", ftype)
            m[ftype] = (("field", i, fname), 0)
        order.append(i)
    return order, None


def field_index(d):
    """(struct provider index, field name) -> index of the synthetic field provider, numbered as NewGraph numbers them:
    behind the declared providers, struct by struct in EXPANSION order, field by field. None for refused declarations."""
    m = {}
    for i, p in enumerate(d["provs"]):
        if p["kind"] != "struct":
            for g in p["provides"]:
                for t in g:
                    m.setdefault(t, (i, 0))
    order, err = struct_expansion(d, m)
    if err:
        return None
    fidx = {}
    n = len(d["provs"])
    for i in order:
        for (fname, ftype) in d["provs"][i]["fields"]:
            fidx[(i, fname)] = n
            n += 1
    return fidx


def requires_of(d, key):
    if isinstance(key, tuple):
        return [d["provs"][key[1]]["type"]]
    return d["provs"][key]["requires"]


def needed_set(d):
    """(set of needed supplier keys, DFS post-order) or (None, reason)"""
    m, err = supplier_map(d)
    if err:
        return None, err
    seen = set()
    order = []
    onstack = set()
    cyc = []
    def visit(key):
        if key in seen:
            return
        if key in onstack:
            cyc.append(key)
            return
        onstack.add(key)
        for t in requires_of(d, key):
            if t in m:
                visit(m[t][0])
        onstack.discard(key)
        seen.add(key)
        order.append(key)
    if d["ret"] in m:
        visit(m[d["ret"]][0])
    if cyc:
        return None, ("cycle", cyc)
    return seen, order


def ancestors(d, a):
    """provider indexes that transitively require an output of provider a"""
    m, err = supplier_map(d)
    out = set()
    changed = True
    while changed:
        changed = False
        for i, p in enumerate(d["provs"]):
            if p["kind"] == "struct" or i in out:
                continue
            for t in p["requires"]:
                if t in m:
                    s = m[t][0]
                    while isinstance(s, tuple):
                        # field of struct provided by ... (possibly itself a field of another expanded struct)
                        st = d["provs"][s[1]]["type"]
                        s = m[st][0] if st in m else None
                    if s == a or s in out:
                        out.add(i)
                        changed = True
                        break
    return out


def eval_tree(d):
    """The declared value of the requested type as a tree: ('arg', t) | ('field', (_, structIndex, fname), subtree) |
    ('app', providerIndex, gi, [subtrees]).  tree_str renders it exactly as eval_ref's result string (and as the runtime's
    value string); tree_sval renders it as a Spec.sval for the Coq specification spec_eval."""
    m, err = supplier_map(d)
    if err:
        return None
    def term(t, depth=0):
        if depth > 300:
            raise RecursionError("cyclic declaration")
        if t not in m:
            return ("arg", t)
        key, gi = m[t]
        if isinstance(key, tuple):
            return ("field", key, term(d["provs"][key[1]]["type"], depth + 1))
        return ("app", key, gi, [term(r, depth + 1) for r in d["provs"][key]["requires"]])
    return term(d["ret"])


def tree_str(d, tr):
    if tr[0] == "arg":
        return "ctx" if tr[1] == CTX else "A:" + tr[1]
    if tr[0] == "field":
        return tree_str(d, tr[2]) + "." + tr[1][2]
    p = d["provs"][tr[1]]
    if p["kind"] == "value":
        return "V:" + p["var"]
    return p["fn"] + "(" + ",".join(tree_str(d, a) for a in tr[3]) + ")" + "#%d" % tr[2]


def tree_sval(d, tr, tt):
    """Gallina term of type Spec.sval; field providers are numbered as Gen.pass2 numbers them: after the declared
    providers, struct by struct in declaration order, field by field."""
    fidx = field_index(d)
    def go(tr):
        if tr[0] == "arg":
            return "SArgT %d%%N" % tt[tr[1]]
        if tr[0] == "field":
            return "SApp %d 0 [%s]" % (fidx[(tr[1][1], tr[1][2])], go(tr[2]))
        return "SApp %d %d [%s]" % (tr[1], tr[2], "; ".join(go(a) for a in tr[3]))
    return go(tr)


def eval_ref(d):
    """Reference evaluation: (term of the requested type, call log {provider name: [arg terms]}, unsupplied types in first-use order)
    Terms: A<type> for arguments, "<fn>.<gi>(args)" for provider results, "<term>.Fld" for fields, "V:<var>" for values."""
    m, err = supplier_map(d)
    if err:
        return None
    memo = {}
    calls = {}
    unsupplied = []
    def term(t):
        if t not in m:
            if t not in unsupplied:
                unsupplied.append(t)
            return "ctx" if t == CTX else "A:" + t
        key, gi = m[t]
        if isinstance(key, tuple):
            st = d["provs"][key[1]]["type"]
            return term(st) + "." + key[2]
        p = d["provs"][key]
        if key not in memo:
            if p["kind"] == "value":
                memo[key] = "V:" + p["var"]
            else:
                args = [term(r) for r in p["requires"]]
                calls[p["fn"]] = args
                memo[key] = p["fn"] + "(" + ",".join(args) + ")"
        if p["kind"] == "value":
            return memo[key]
        return memo[key] + "#%d" % gi
    res = term(d["ret"])
    assert res == tree_str(d, eval_tree(d))     # one reference value, two renderings (runtime string, Spec.sval)
    return dict(result=res, calls=calls, unsupplied=unsupplied)


def expected_signature(d):
    """Signature as C10 states it, computed from the needed set only (not from any BFS order):
    returns dict(name, params=set of types (each once), ctx_first=bool, has_ctx=bool, results=[ret, 'error'?])"""
    needed, _ = needed_set(d)
    m, _ = supplier_map(d)
    uns = []
    if d["ret"] not in m:
        uns.append(d["ret"])
    async_needed = False
    fall_needed = False
    for key in needed:
        if isinstance(key, tuple):
            continue
        p = d["provs"][key]
        async_needed |= p["async"]
        fall_needed |= p["fallible"]
        for t in p["requires"]:
            if t not in m and t not in uns:
                uns.append(t)
    params = set(uns)
    if async_needed:
        params.add(CTX)
    return dict(name=d["name"], params=sorted(params), ctx_first=async_needed, results=[d["ret"]] + (["error"] if fall_needed else []),
                async_needed=async_needed, fall_needed=fall_needed)


# ---------------------------------------------------------------- rendering

def base_of(t):
    for pre in ("*", "[]", "map[string]"):
        if t.startswith(pre):
            return base_of(t[len(pre):])
    return t


def go_type_decls(d):
    """type declarations needed by d"""
    P = d["prefix"]
    seen = {}
    def note(t):
        if t == CTX:
            return
        base = base_of(t)
        if t.startswith("*") or base not in seen:
            seen[base] = t
    for p in d["provs"]:
        for t in p["requires"]:
            note(t)
        for g in p["provides"]:
            for t in g:
                note(t)
        if p["kind"] == "struct":
            for f in p["fields"]:
                note(f[1])
            for iface in p.get("bind", []):
                note(iface)
    note(d["ret"])
    out = []
    if any(p.get("errtype", "error") != "error" for p in d["provs"]):
        out.append("type %sErr = error\n" % P)
    structs = {p["type"].lstrip("*"): p for p in d["provs"] if p["kind"] == "struct"}
    for base in sorted(seen):
        if base in structs:
            sp = structs[base]
            flds = "; ".join("%s %s" % (f[0], f[1]) for f in reversed(sp["fields"]))   # declared in reverse-sorted order
            out.append("type %s struct { %s; s string; hidden int }\n" % (base, flds))
            out.append("func (x *%s) Term() string { if x == nil { return \"<nil>\" }; return x.s }\n" % base)
        elif base == P + "Rfn":
            out.append("type %s func() string\n" % base)
            out.append("func (x %s) Term() string { if x == nil { return \"<nil>\" }; return x() }\n" % base)
        elif base == P + "Rch":
            out.append("type %s chan string\n" % base)
            out.append("func (x %s) Term() string { if x == nil { return \"<nil>\" }; s := <-x; x <- s; return s }\n" % base)
        elif base.startswith(P + "IF"):
            out.append("type %s interface { Term() string; Is%s() }\n" % (base, base))
        else:
            out.append("type %s struct { S string }\n" % base)
            if seen[base].startswith("*") or any(base == ("%sT%s" % (P, b[len(P) + 2:])) for b in seen if b.startswith(P + "IF")):
                out.append("func (x *%s) Term() string { if x == nil { return \"<nil>\" }; return x.S }\n" % base)
            else:
                out.append("func (x %s) Term() string { return x.S }\n" % base)
    # interface marker methods on the bound concrete types
    for p in d["provs"]:
        for iface in p.get("bind", []):
            conc = (p["type"] if p["kind"] == "struct" else p["provides"][0][0]).lstrip("*")
            out.append("func (x *%s) Is%s() {}\n" % (conc, iface))
    return out


def term_expr(t, name):
    if t == CTX:
        return '"ctx"'
    if t.startswith("[]"):
        return "%s[0].S" % name
    if t.startswith("map[string]"):
        return '%s["k"].S' % name
    return "%s.Term()" % name


def param_list(p):
    """parameter list of a provider function; the last parameter of a variadic provider is written ...Elem"""
    n = len(p["requires"])
    return ", ".join("p%d %s" % (q, ("..." + t[2:]) if (is_variadic(p) and q == n - 1) else t) for q, t in enumerate(p["requires"]))


def is_variadic(p):
    """the flag is set when the provider is generated; a later mutation may have appended another requirement"""
    return bool(p.get("variadic") and p["requires"] and p["requires"][-1].startswith("[]"))


def struct_literal(d, sp, term):
    """&St{...}: the value of an expanded struct whose own term is the Go expression term; a field's term is <term>.<Field>,
    a field that is itself an expanded struct is built the same way"""
    parts = []
    for (fname, ftype) in sp["fields"]:
        fterm = "%s + \".%s\"" % (term, fname)
        inner = [q for q in d["provs"] if q["kind"] == "struct" and q["type"] == ftype]
        if inner:
            parts.append("%s: %s" % (fname, struct_literal(d, inner[0], fterm)))
        else:
            parts.append("%s: %s{S: %s}" % (fname, ftype, fterm))
    return "&%s{%s, s: %s}" % (sp["type"].lstrip("*"), ", ".join(parts), term)


def render_provider(d, i, p):
    """Go source of an instrumented provider function"""
    P = d["prefix"]
    if p["kind"] == "struct":
        return ""
    if p.get("copy_of"):
        return ""           # the same provider function listed a second time
    if p["kind"] == "value":
        t = p["provides"][0][0]
        if p.get("inline"):
            return ""       # written as a composite literal inside kessoku.Value(...)
        return "var %s = &%s{S: \"V:%s\"}\n" % (p["var"], t.lstrip("*"), p["var"])
    params = param_list(p)
    errty = p.get("errtype", "error")
    def with_err(items, e):
        """the result list with the error at the provider's error position"""
        if not p["fallible"]:
            return list(items)
        k = p.get("errpos")
        k = len(items) if k is None else min(k, len(items))
        return list(items[:k]) + [e] + list(items[k:])
    rets = with_err([g[0] for g in p["provides"]], errty)
    args = ", ".join(term_expr(t, "p%d" % q) for q, t in enumerate(p["requires"]))
    body = ["\th := verifrt.Enter(%s, []string{%s})\n" % (json.dumps(p["fn"]), args)]
    zero = []
    for g in p["provides"]:
        zero.append("nil" if (g[0].startswith("*") or g[0].endswith(("Rfn", "Rch"))) else g[0] + "{}")
    if p["fallible"]:
        ctxs = [q for q, t in enumerate(p["requires"]) if t == CTX]
        call = "h.ExitCtx(p%d, true)" % ctxs[0] if ctxs else "h.Exit(true)"
        body.append("\tif err := %s; err != nil { return %s }\n" % (call, ", ".join(with_err(zero, "err"))))
    else:
        body.append("\t_ = h.Exit(false)\n")
    vals = []
    for gi, g in enumerate(p["provides"]):
        t = g[0]
        base = t.lstrip("*")
        sp = [q for q in d["provs"] if q["kind"] == "struct" and q["type"] == t]
        if base == P + "Rfn":
            vals.append("func() %s { t0 := h.Term(%d); return func() string { return t0 } }()" % (base, gi))
        elif base == P + "Rch":
            vals.append("func() %s { c := make(%s, 1); c <- h.Term(%d); return c }()" % (base, base, gi))
        elif sp:
            vals.append(struct_literal(d, sp[0], "h.Term(%d)" % gi))
        elif base.startswith(P + "St") or base.startswith(P + "OSt"):
            vals.append("&%s{s: h.Term(%d)}" % (base, gi))
        else:
            vals.append(("&" if t.startswith("*") else "") + "%s{S: h.Term(%d)}" % (base, gi))
    body.append("\treturn %s\n" % ", ".join(with_err(vals, "nil")))
    return "func %s(%s) (%s) {\n%s}\n" % (p["fn"], params, ", ".join(rets), "".join(body))


def provider_expr(d, p):
    if p["kind"] == "struct":
        e = "kessoku.Struct[%s]()" % p["type"]
        if p.get("wrap") == "async" and p.get("nest") == "bind_outer":
            e = "kessoku.Async(%s)" % e
        for iface in p.get("bind", []):
            e = "kessoku.Bind[%s](%s)" % (iface, e)
        if p.get("wrap") == "async" and p.get("nest") != "bind_outer":
            e = "kessoku.Async(%s)" % e
        return e
    if p["kind"] == "value":
        e = "kessoku.Value(%s)" % p["var"]
        if p.get("inline"):
            e = "kessoku.Value(&%s{S: \"V:%s\"})" % (p["provides"][0][0].lstrip("*"), p["var"])
        for iface in p.get("bind", []):
            e = "kessoku.Bind[%s](%s)" % (iface, e)
        return e
    e = "kessoku.Provide(%s)" % p["fn"]
    if p.get("lit"):
        # a function literal as provider (it forwards to the instrumented function)
        params = param_list(p)
        rets = [g[0] for g in p["provides"]]
        if p["fallible"]:
            k = p.get("errpos")
            k = len(rets) if k is None else min(k, len(rets))
            rets = rets[:k] + [p.get("errtype", "error")] + rets[k:]
        nreq = len(p["requires"])
        e = "kessoku.Provide(func(%s) (%s) { return %s(%s) })" % (params, ", ".join(rets), p["fn"],
                                                                  ", ".join("p%d%s" % (q, "..." if (is_variadic(p) and q == nreq - 1) else "") for q in range(nreq)))
    if p["async"] and p.get("nest") == "bind_outer":
        e = "kessoku.Async(%s)" % e          # Bind[I](Async(Provide(f))): the other legal nesting
        for iface in p.get("bind", []):
            e = "kessoku.Bind[%s](%s)" % (iface, e)
        return e
    for iface in p.get("bind", []):
        e = "kessoku.Bind[%s](%s)" % (iface, e)
    if p["async"]:
        e = "kessoku.Async(%s)" % e
    return e


def render_layout(d, layout, setvars, depth=1):
    parts = []
    for it in layout:
        if isinstance(it, int):
            parts.append(provider_expr(d, d["provs"][it]))
        else:
            kind, sub = it[0], it[1]
            inner = render_layout(d, sub, setvars, depth + 1)
            e = "kessoku.Set(\n" + "".join("\t" * (depth + 1) + x + ",\n" for x in inner) + "\t" * depth + ")"
            if kind == "setvar":
                name = "%sSet%d" % (d["prefix"], len(setvars))
                setvars.append("var %s = %s\n" % (name, e.replace("\n" + "\t" * depth, "\n" + "\t" * (depth - 1)) if False else e))
                # every fourth reference to a Set variable is parenthesised: the same declaration, another spelling
                parts.append("(%s)" % name if sum(map(ord, name)) % 4 == 0 else name)
            else:
                parts.append(e)
    return parts


def render_decl(d):
    """Go source for one declaration (types, providers, Set vars, the Inject call)."""
    out = []
    if not d.get("shared"):
        out += go_type_decls(d)
        for i, p in enumerate(d["provs"]):
            out.append(render_provider(d, i, p))
    setvars = []
    parts = render_layout(d, d["layout"], setvars)
    out += setvars
    out.append("var _ = kessoku.Inject[%s](%s,\n%s)\n" % (d["ret"], json.dumps(d["name"]), "".join("\t" + x + ",\n" for x in parts)))
    return "".join(out)


FILE_HEADER = '''package main

import (
	"context"

	"github.com/mazrean/kessoku"
	"vscratch/verifrt"
)

var _ context.Context
var _ = verifrt.Enter

'''


def render_file(decls):
    return FILE_HEADER + "\n".join(render_decl(d) for d in decls)
