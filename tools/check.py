#!/usr/bin/env python3
"""Entry point of every check:  python3 tools/check.py <Cnn> quick|thorough   (or --replay <path>).

Protocol (DESIGN section 5): rebuild from /repo's working tree, re-check the property's theorems, run the
correspondence stages the property is tied to, decide: exit 0 | KNOWN-FINDING lines + exit 0 | VIOLATION lines + exit 1."""
import json, os, re, sys, time, traceback
sys.path.insert(0, os.path.dirname(os.path.abspath(__file__)))
import vlib
from vlib import Report

TRUSTED = [
    "Coq 8.16.1 kernel (coqc, vm_compute; no native_compute); no axioms: every property theorem prints 'Closed under the global context'",
    "hand-written Gallina model of the generator/semantics, tied to /repo by the correspondence stages run in this check",
    "harness: declaration renderer, bandparse (go/ast), event-log monitors, Gallina printer",
    "modelled, not verified: Go channels/select/close, errgroup, context, go/types, go/format, packages.Load",
]


# ------------------------------------------------------------------ proofs

def prove(pid, rep, extra_files=()):
    """(Re)check Properties/<pid>.v. Returns coverage dict fragment. A failure is a VIOLATION (no-failing-input-found unless a
    later stage exhibits one)."""
    pf = os.path.join(vlib.COQ, "Properties", pid + ".v")
    cov = dict(obligations=0, discharged=0, checker_cmd="make -C coq -j16 Properties/%s.vo  (coq_makefile, full .vo build)" % pid,
               theorems=[], assumptions_report=[])
    if not os.path.exists(pf):
        rep.violation("proof-missing", dict(theorem_file="coq/Properties/%s.v" % pid), "property theorem file missing", True)
        return cov
    src = open(pf).read()
    body = re.sub(r"\(\*.*?\*\)", "", src, flags=re.S)
    thms = re.findall(r"^\s*(?:Theorem|Corollary)\s+(\w+)", body, flags=re.M)
    cov["theorems"] = thms
    cov["obligations"] = len(thms)
    allv = [os.path.join(vlib.COQ, f) for f in os.listdir(vlib.COQ) if f.endswith(".v")] + \
           [os.path.join(vlib.COQ, "Properties", f) for f in os.listdir(os.path.join(vlib.COQ, "Properties")) if f.endswith(".v")]
    bad = vlib.proof_hygiene(allv)
    if bad:
        rep.violation("proof-hygiene", dict(problems=bad), "forbidden construct in the Coq development: %s" % bad[:3], True)
        return cov
    vo = pf[:-2] + ".vo"
    if os.path.exists(vo):
        os.remove(vo)
    ok, log = vlib.coq_make(["Properties/%s.vo" % pid], timeout=1500)
    if not ok:
        m = re.search(r'File "([^"]+)", line (\d+)', log)
        where = "%s:%s" % (m.group(1), m.group(2)) if m else "?"
        rep.violation("proof-broken", dict(theorem_file="coq/Properties/%s.v" % pid, where=where, log=log[-3000:]),
                      "proof obligation no longer checks (%s)" % where, True)
        return cov
    closed = log.count("Closed under the global context")
    axioms = re.findall(r"^Axioms:\n((?:.+\n)+)", log, flags=re.M)
    cov["assumptions_report"] = ["%d x 'Closed under the global context'" % closed] + [a.strip() for a in axioms]
    npa = len(re.findall(r"^\s*Print Assumptions", body, flags=re.M))
    if axioms or closed < npa or npa < len(thms):
        rep.violation("proof-assumptions", dict(theorem_file="coq/Properties/%s.v" % pid, closed=closed, print_assumptions=npa, theorems=len(thms), axioms=axioms),
                      "Print Assumptions is not 'Closed under the global context' for every theorem", True)
        return cov
    cov["discharged"] = len(thms)
    if CUR_TIER == "thorough":
        # independent re-check of the compiled property file and everything it depends on, with the axiom report
        rc, o, e = vlib.run(["coqchk", "-silent", "-o", "-R", vlib.COQ, "Kessoku", "Kessoku.Properties.%s" % pid], timeout=3000)
        txt = o + e
        m = re.search(r"\* Axioms:\s*(.*?)\n\s*\n", txt, re.S)
        axioms_chk = m.group(1).strip() if m else "?"
        cov["coqchk"] = dict(exit=rc, axioms=axioms_chk, nothing_relies_on_type_in_type="<none>" in (re.search(r"type-in-type:\s*(.*)", txt) or [None, ""])[1],
                             cmd="coqchk -silent -o -R coq Kessoku Kessoku.Properties.%s" % pid)
        cov["assumptions_report"].append("coqchk: Axioms: %s" % axioms_chk)
        if rc != 0 or axioms_chk != "<none>":
            rep.violation("coqchk", dict(theorem_file="coq/Properties/%s.v" % pid, exit=rc, report=txt[-2500:]),
                          "coqchk does not accept the compiled development without axioms (exit %d, axioms: %s)" % (rc, axioms_chk[:120]), True)
    return cov


CUR_TIER = "quick"
# ------------------------------------------------------------------ per-property deciders

def static_part(pid, rep, S, components, cov):
    """Correspondence S: model vs implementation on this run's declarations."""
    recs = [r for r in S["records"] if r["id"]]
    bad = []
    if not S["coq_ok"]:
        rep.violation("corrS-coq", dict(log=S["coq_log"][-3000:]), "the correspondence cases do not evaluate in Coq", True)
    for r in S["records"]:
        why = []
        if r.get("model_mismatch") and any(c in components for c in r.get("mismatch_kinds", ["verdict", "sig", "items"])):
            why.append("model and implementation differ (%s)" % ",".join(r.get("mismatch_kinds", ["?"])))
        for p in r["problems"]:
            if ("unparsed" in p or "never assigned" in p or p.startswith("harness:")) and "items" in components:
                why.append(p)
            if p.startswith("surface:") and "surface" in components:
                why.append(p)
        if why:
            bad.append((r, why))
    cov["programs"] = len(recs)
    cov["disagreements_checked"] = len(recs)
    cov["correspondence_disagreements"] = len(bad)
    return bad


def shape_stats(S):
    st = dict(decls=0, with_goroutines=0, cross_thread_waits=0, structs=0, nested_structs=0, nested_inner_listed_first=0, nested_field_read=0, multi_value=0, binds=0, values=0, rejected=0, nodes_hist={})
    for r in S["records"]:
        if not r["id"] or not r.get("decl"):
            continue
        st["decls"] += 1
        m = r["decl"]["meta"]
        st["nodes_hist"][str(m["n"])] = st["nodes_hist"].get(str(m["n"]), 0) + 1
        st["structs"] += m["structnode"] is not None
        st["struct_binds"] = st.get("struct_binds", 0) + bool(m.get("struct_bind"))
        if m.get("nested"):
            st["nested_structs"] += 1
            sts = [p["type"] for p in r["decl"]["provs"] if p["kind"] == "struct"]
            st["nested_inner_listed_first"] += bool(sts and sts[0].endswith("St2"))
            ob_ = r.get("obs")
            if ob_:
                nd = len(r["decl"]["provs"])
                st["nested_field_read"] += any(it["pi"] >= nd and any(a[0] == "var" and a[1] >= nd for a in it["args"]) for th in [ob_["main"]] + ob_["gos"] for it in th)
        st["multi_value"] += bool(m["second"])
        st["binds"] += bool(m["binds"])
        st["values"] += bool(m["values"])
        if r["kind"] != "valid":
            st["rejected"] += 1
        ob = r.get("obs")
        if ob:
            st["with_goroutines"] += bool(ob["gos"])
            st["cross_thread_waits"] += any(it["waits"] for th in [ob["main"]] + ob["gos"] for it in th)
    return st


def check_layer_ab(pid, tier, seed, rep):
    """C01 C02 C03 C05 C06 C07 C08: theorems (Layer A o B) + static correspondence on thread programs + dynamic monitors."""
    import stage_s, stage_d
    cov = prove(pid, rep)
    S = stage_s.stage(seed, tier)
    bad = static_part(pid, rep, S, {"items", "surface"} if pid in ("C06", "C07", "C08") else {"items", "value"} if pid == "C02" else {"items"}, cov)
    D = stage_d.stage(seed, tier)
    mine = [f for f in D["findings"] if f["prop"] == pid]
    viol = [f for f in mine if f["verdict"] == "violation"]
    known = [f for f in mine if f["verdict"].startswith("known:")]
    open_ids = {k["id"] for k in vlib.known_findings() if k["status"] == "open" and k["property"] == pid}
    for f in known:
        kid = f["verdict"][6:]
        if kid in open_ids:
            rep.known_finding(kid, f["detail"].split(" of [")[0][:160])
        else:
            viol.append(f)
    seen = set()
    for i, f in enumerate(viol):
        key = (f["inj"], f["detail"][:60])
        if key in seen:
            continue
        seen.add(key)
        if len(seen) > 5:
            break
        rep.violation("dyn-%s-%d" % (f["inj"].replace("<", "").replace(">", ""), len(seen)),
                      dict(package_dir=os.path.join(D["srcdir"], f["pkg"]), injector=f["inj"], scenario=f.get("scenario"), detail=f["detail"],
                           events=f.get("events"), how="rerun: python3 tools/check.py %s --replay <this file>" % pid),
                      "%s %s: %s" % (f["pkg"], f["inj"], f["detail"][:300]))
    if pid == "C02":
        # hand-written programs of the naming stream check their injector's value themselves (panic "wrong result"): a
        # generated local that shadows a package-level variable compiles and silently changes the value
        import stage_n
        N = stage_n.stage(seed, tier)
        for r in N["records"]:
            if r["meta"].get("value_check") and r["gen_rc"] == 0 and r["vet_rc"] not in (0, None):
                # the program pins the injector's signature (var f func() T = Init): a declared supplier that is not found
                # turns into a parameter, the value then depends on the caller
                rep.violation("run-%s" % r["name"], dict(package_dir=os.path.join(N["srcdir"], r["dir"]), meta=r["meta"], vet=r["vet"], generated=r.get("band"),
                                                         how="cd <package_dir> && kessoku <targets> && go vet ."),
                              "%s: the injector does not have the signature the declaration determines, a declared supplier is not used: %s" % (r["name"], r["vet"].strip()[-250:]))
            if r["expect"] and r["meta"].get("run_signature") and r["gen_rc"] == 0 and r["vet_rc"] == 0 and r.get("run_rc"):
                # a recorded finding that shows at run time
                if r["expect"] in open_ids and re.search(r["meta"]["run_signature"], r.get("run_err", "")):
                    rep.known_finding(r["expect"], "reproducer %s: %s" % (r["name"], re.search(r["meta"]["run_signature"], r["run_err"]).group(0)[:120]))
                else:
                    rep.violation("run-%s" % r["name"], dict(package_dir=os.path.join(N["srcdir"], r["dir"]), meta=r["meta"], output=r.get("run_err"), generated=r.get("band")),
                                  "%s: fails at run time outside its recorded signature: %s" % (r["name"], r.get("run_err", "")[-200:]))
            if not r["expect"] and r["gen_rc"] == 0 and r["vet_rc"] == 0 and r.get("run_rc"):
                viol.append(dict(pkg=r["name"], inj="<main>", detail="the injector's value differs from the sequential value the program expects: " + r.get("run_err", "")[-300:], scenario=None))
                rep.violation("run-%s" % r["name"], dict(package_dir=os.path.join(N["srcdir"], r["dir"]), meta=r["meta"], output=r.get("run_err"), generated=r.get("band"),
                                                         how="cd <package_dir> && kessoku <targets> && go run <package>"),
                              "%s: the generated injector returns a wrong value (%s)" % (r["name"], r.get("run_err", "").strip().splitlines()[-1][-200:] if r.get("run_err", "").strip() else "non-zero exit"))
    if pid != "C02":
        # hand-written programs of the naming stream that belong to this property too (meta "also")
        import stage_n
        N = stage_n.stage(seed, tier)
        for r in N["records"]:
            if pid in r["meta"].get("also", []) and not r["expect"] and r["gen_rc"] == 0 and r["vet_rc"] == 0 and r.get("run_rc"):
                rep.violation("run-%s" % r["name"], dict(package_dir=os.path.join(N["srcdir"], r["dir"]), meta=r["meta"], output=r.get("run_err"), generated=r.get("band"),
                                                         how="cd <package_dir> && kessoku <targets> && go run ."),
                              "%s (%s): the generated injector does not return in a fault-free run: %s" % (r["name"], r["meta"]["kind"], (r.get("run_err", "").strip().splitlines() or ["non-zero exit"])[0][-200:]))
    # model-level search on the observed programs (verified checker + greedy explorer of coq/Check.v)
    expl = {"C01": 1, "C03": 2}.get(pid)
    nmodel = 0
    for r in S["records"]:
        if expl and r.get("explore_code") == expl and nmodel < 3:
            nmodel += 1
            what = ("a fault-free execution of the emitted program reaches a provider call that reads a variable nobody has written"
                    if expl == 1 else "a fault-free execution of the emitted program deadlocks: a thread waits for a completion signal that is never sent")
            rep.violation("model-run-%d" % r["id"], dict(package_dir=os.path.join(S["srcdir"], r["pkg"]), file=r["file"], injector=r["name"],
                                                         observed_program=r.get("obs_prog"), declaration=S["case_text"].get(str(r["id"]), [None])[0],
                                                         how="coq/Check.v: explore_code <observed_program> evaluates to %d; the greedy schedule is the replay" % expl,
                                                         problems=r["problems"]),
                          "%s %s: %s" % (r["pkg"], r["name"], what))
    if pid == "C05":
        for r in S["records"]:
            if r.get("c05_shape_fails") and nmodel < 3:
                nmodel += 1
                rep.violation("shape-%d" % r["id"], dict(package_dir=os.path.join(S["srcdir"], r["pkg"]), file=r["file"], injector=r["name"], observed_program=r.get("obs_prog"),
                                                     positions=r.get("c05_F"), declaration=S["case_text"].get(str(r["id"]), [None])[0],
                                                     how="coq/Overlap.v: c05b <observed_program> <positions> = false: an input-free Async provider is preceded in its thread by a wait, or two of them share a thread"),
                              "%s %s: input-free Async providers cannot all be inside at once (a wait or another such provider precedes one of them in its thread)" % (r["pkg"], r["name"]))
    viol = viol or [1] * nmodel
    unchecked = [r for r in S["records"] if r.get("checker_code")]
    if D.get("trace_failures") and not viol:
        tag, code = D["trace_failures"][0]
        what = {1: "the event log is not a run of the semantics", 2: "the injector's outcome differs from the semantics' outcome", 3: "the leaked-goroutine verdict differs", -1: "cases do not evaluate in Coq"}.get(code, "?")
        rep.violation("sem-%s" % re.sub(r"[^A-Za-z0-9]", "_", tag), dict(correspondence="dynamic correspondence D: real event logs replayed through Sem2.step (coq/Check.v: trace_code)", scenario=tag, code=code,
                                                                          failures=D["trace_failures"][:10], log=D.get("trace_log", "")),
                      "semantics and real execution disagree on %d of %d executions (%s), e.g. %s" % (len(D["trace_failures"]), D["traces_replayed"], what, tag), True)
        viol = [1]
    if (bad or unchecked) and not viol:
        if not bad:
            bad = [(unchecked[0], ["observed program fails the verified checker (code %d): Layer A's hypotheses are not established" % unchecked[0]["checker_code"]])]
        r, why = bad[0]
        rep.violation("corrS-%d" % r["id"], dict(correspondence="static correspondence S (coq/CorrS.v: xmismatches) no longer agrees with the generator",
                                                   theorem="Layer B (generator model) of Properties/%s.v no longer describes the code" % pid,
                                                   first_case=dict(pkg=r["pkg"], file=r["file"], injector=r["name"], why=why, model_input=S["case_text"].get(str(r["id"]))),
                                                   disagreeing_cases=len(bad), observed_programs_failing_verified_checker=[(x["pkg"], x["name"], x["checker_code"]) for x in unchecked][:10],
                                                   dynamic_search="%d scenarios on %d injectors found no failing execution" % (D["scenarios"], D["injectors"]),
                                                   packages_that_do_not_build=[dict(pkg=f["pkg"], error=f["detail"][-600:]) for f in D["findings"] if f["prop"] == "C04" and "does not build" in f["detail"]][:6]),
                      "model/implementation disagreement on %d declaration(s), e.g. %s %s: %s" % (len(bad), r["pkg"], r["name"], why[0][:200]), True)
    cov.update(traces_validated_against_impl=D.get("traces_replayed", 0), executions=D["scenarios"], scenario_kinds=D["kinds"], injectors_run=D["injectors"],
               input_distribution=shape_stats(S), trusted_base=TRUSTED,
               samples=[dict(decl=S["case_text"][k][0][:400], observed=S["case_text"][k][1][:400]) for k in list(S["case_text"])[:2]] + D["samples"][:2],
               known_findings_reproduced=sorted({f["verdict"][6:] for f in known}))
    return cov


def check_c09(pid, tier, seed, rep):
    """Refusal/acceptance through the real CLI on planted defects and on valid declarations; model verdicts compared in Coq."""
    import stage_s
    cov = prove(pid, rep)
    S = stage_s.stage(seed, tier)
    bad = static_part(pid, rep, S, {"verdict"}, cov)
    nviol = 0
    kinds = {}
    samples = []
    for r in S["records"]:
        if not r["id"]:
            if r["problems"]:
                nviol += 1
                rep.violation("file-%s-%s" % (r["pkg"], r["file"]), dict(package_dir=os.path.join(S["srcdir"], r["pkg"]), problems=r["problems"]),
                              "%s/%s: %s" % (r["pkg"], r["file"], r["problems"][0]))
            continue
        kinds[r["kind"]] = kinds.get(r["kind"], 0) + 1
        probs = []
        if r["kind"] == "valid":
            probs = [p for p in r["problems"] if "unparsed" not in p]
        elif r["kind"] == "companion":
            if r["rc"] == 0:
                probs.append("a file containing a refused declaration was processed with exit 0")
            if not r.get("untouched", True):
                probs.append("output file was created or modified although a declaration of the same file must be refused")
        else:
            if r["rc"] == 0:
                probs.append("declaration with a planted %s was accepted (exit 0)" % r["kind"])
            else:
                if r["err_class"] != r["kind"]:
                    probs.append("planted %s refused with an unrelated diagnostic: %s" % (r["kind"], r["stderr"][-300:]))
                elif not r["err_names_types"]:
                    probs.append("diagnostic does not name the types involved (%s): %s" % (r["decl"]["expect"].get("types") or r["decl"]["expect"].get("types_any"), r["stderr"][-300:]))
            if not r.get("untouched", True):
                probs.append("output file was created or modified although the declaration must be refused")
            if len(samples) < 3:
                samples.append(dict(kind=r["kind"], expect=r["decl"].get("expect"), exit=r["rc"], stderr=r["stderr"][-200:]))
        if probs and nviol < 5:
            nviol += 1
            rep.violation("decl-%d" % r["id"], dict(package_dir=os.path.join(S["srcdir"], r["pkg"]), file=r["file"], injector=r["name"], kind=r["kind"],
                                                    problems=probs, declaration=S["case_text"].get(str(r["id"]), [None])[0],
                                                    how="cd <package_dir> && kessoku %s" % r["file"]),
                          "%s %s (%s): %s" % (r["pkg"], r["name"], r["kind"], probs[0][:300]))
    if bad and not nviol:
        r, why = bad[0]
        rep.violation("corrS-%d" % r["id"], dict(correspondence="accept/reject verdict of coq/CorrS.v:umodel differs from the generator",
                                                   first_case=dict(pkg=r["pkg"], injector=r["name"], why=why, model_input=S["case_text"].get(str(r["id"])))),
                      "model verdict differs from the generator on %d declaration(s)" % len(bad), True)
    # directed packages of the naming stage that must be refused (duplicates the type strings do not show: aliases)
    import stage_n
    N = stage_n.stage(seed, tier)
    ndir = 0
    for r in N["records"]:
        if r["gen_rc"] not in (0, 1) or "panic:" in (r.get("gen_err") or "") or "goroutine 1 [running]" in (r.get("gen_err") or ""):
            # neither accepted nor refused with a diagnostic: the generator crashed
            nviol += 1
            rep.violation("crash-%s" % r["name"], dict(package_dir=os.path.join(N["srcdir"], r["dir"]), kind=r["meta"]["kind"], exit=r["gen_rc"], stderr=r["gen_err"], how="cd <package_dir> && kessoku <targets>"),
                          "%s (%s): the generator crashed (exit %s): %s" % (r["name"], r["meta"]["kind"], r["gen_rc"], (r.get("gen_err") or "").strip()[:160]))
            continue
        if r["meta"].get("expect_accept"):
            ndir += 1
            if r["gen_rc"] == 0:
                # accepted means: exit 0 AND exactly one function per declaration (a declaration dropped with a warning
                # also exits 0)
                for band, names in (r["meta"].get("expect_funcs") or {}).items():
                    txt = (r.get("band") or {}).get(band)
                    got = re.findall(r"^func (\w+)\(", txt or "", re.M)
                    if got != names:
                        nviol += 1
                        rep.violation("directed-%s" % r["name"], dict(package_dir=os.path.join(N["srcdir"], r["dir"]), kind=r["meta"]["kind"], declared=names, generated=got, output_written=txt is not None,
                                                                       how="cd <package_dir> && kessoku k.go"),
                                      "%s (%s): exit 0, but the output %s; declared: %s" % (r["name"], r["meta"]["kind"], ("declares " + str(got)) if txt is not None else "was not written", names))
            if r["gen_rc"] != 0:
                nviol += 1
                rep.violation("directed-%s" % r["name"], dict(package_dir=os.path.join(N["srcdir"], r["dir"]), kind=r["meta"]["kind"], exit=r["gen_rc"], stderr=r["gen_err"], how="cd <package_dir> && kessoku k.go"),
                              "%s (%s): a valid declaration was refused (exit %s): %s" % (r["name"], r["meta"]["kind"], r["gen_rc"], r["gen_err"].strip().splitlines()[-1][-200:] if r["gen_err"].strip() else ""))
            continue
        want = r["meta"].get("expect_refused")
        if not want:
            continue
        ndir += 1
        probs = []
        if r["gen_rc"] != 1:
            probs.append("exit status %s, expected a refusal (1)" % r["gen_rc"])
        elif want not in r["gen_err"]:
            probs.append("refused without the expected diagnostic %r: %s" % (want, r["gen_err"][-200:]))
        if os.path.exists(os.path.join(N["srcdir"], r["dir"], "k_band.go")):
            probs.append("output file was created although the declaration must be refused")
        if probs:
            nviol += 1
            rep.violation("directed-%s" % r["name"], dict(package_dir=os.path.join(N["srcdir"], r["dir"]), kind=r["meta"]["kind"], problems=probs, how="cd <package_dir> && kessoku k.go"),
                          "%s (%s): %s" % (r["name"], r["meta"]["kind"], probs[0][:300]))
    cov["directed_refusals"] = ndir
    cov.update(input_distribution=dict(kinds=kinds, **shape_stats(S)), samples=samples or [dict(note="no malformed sample")], trusted_base=TRUSTED)
    return cov


def check_c10(pid, tier, seed, rep):
    """Signature of every generated function vs the property's own definition (needed set) and vs the model signature."""
    import stage_s, declgen
    cov = prove(pid, rep)
    S = stage_s.stage(seed, tier)
    bad = static_part(pid, rep, S, {"sig"}, cov)
    nviol = 0
    samples = []
    st = dict(with_ctx=0, ctx_from_provider_param=0, with_error=0, ret_is_arg=0, composite_args=0)
    for r in S["records"]:
        # the signature is read from the generated file on its own: it does not depend on the body being expressible in the model
        sg = r.get("sig")
        if not r["id"] or r["kind"] != "valid" or not sg:
            continue
        ob = dict(name=r["name"], params=sg["params"], results=sg["results"], reterr=(len(sg["results"]) == 2 and sg["results"][1] == "error"))
        d = r["decl"]
        exp = declgen.expected_signature(d)
        probs = []
        if ob["name"] != exp["name"]:
            probs.append("function name %s, declared %s" % (ob["name"], exp["name"]))
        if sorted(ob["params"]) != exp["params"]:
            probs.append("parameters %s, expected exactly the unsupplied needed types %s" % (ob["params"], exp["params"]))
        if len(set(ob["params"])) != len(ob["params"]):
            probs.append("a parameter type occurs twice: %s" % ob["params"])
        if exp["ctx_first"] and (not ob["params"] or ob["params"][0] != declgen.CTX):
            probs.append("a needed provider is Async but context.Context is not the first parameter: %s" % ob["params"])
        if ob["results"] != exp["results"]:
            probs.append("results %s, expected %s" % (ob["results"], exp["results"]))
        st["with_ctx"] += declgen.CTX in ob["params"]
        st["with_error"] += ob["reterr"]
        st["ret_is_arg"] += d["ret"] in ob["params"]
        st["composite_args"] += any(t[0] in "*[m" and "St" not in t for t in ob["params"])
        if len(samples) < 3 and len(ob["params"]) > 1:
            samples.append(dict(injector=ob["name"], params=ob["params"], results=ob["results"]))
        if probs and nviol < 5:
            nviol += 1
            rep.violation("sig-%d" % r["id"], dict(package_dir=os.path.join(S["srcdir"], r["pkg"]), file=r["file"], injector=r["name"], problems=probs,
                                                   observed=dict(params=ob["params"], results=ob["results"]), expected=exp,
                                                   declaration=S["case_text"].get(str(r["id"]), [None])[0]),
                          "%s %s: %s" % (r["pkg"], r["name"], probs[0][:300]))
    # declared names in invocations over several packages (both declare an injector of the same name)
    import stage_n
    N = stage_n.stage(seed, tier)
    for r in N["records"]:
        for band, names in (r["meta"].get("expect_funcs") or {}).items():
            txt = (r.get("band") or {}).get(band)
            if r["gen_rc"] != 0 or txt is None:
                continue
            got = re.findall(r"^func (\w+)\(", txt, re.M)
            if got != names:
                nviol += 1
                rep.violation("name-%s-%s" % (r["name"], band.replace("/", "_")), dict(package_dir=os.path.join(N["srcdir"], r["dir"]), file=band, declared=names, generated=got,
                                                                                   how="cd <package_dir> && kessoku <both files in one invocation>"),
                              "%s %s: generated functions %s, declared injectors %s" % (r["name"], band, got, names))
    # declarations that supply nothing for a type they claim to bind must not become injectors that take it as a parameter
    for r in N["records"]:
        for fn in r["meta"].get("expect_not_generated") or []:
            txt = "".join((r.get("band") or {}).values())
            m = re.search(r"^func %s\((.*?)\)" % re.escape(fn), txt, re.M | re.S)
            if m:
                nviol += 1
                rep.violation("bindnothing-%s-%s" % (r["name"], fn), dict(package_dir=os.path.join(N["srcdir"], r["dir"]), function=fn, generated=txt[:2000]),
                              "%s %s: generated as func %s(%s) although its Bind supplies nothing: the provider is never called and the interface became a parameter" % (r["name"], fn, fn, m.group(1)))
    # directed packages with a prescribed parameter list (Sets of other packages: known finding KF-C10-1)
    open_ids = {k["id"] for k in vlib.known_findings() if k["status"] == "open" and k["property"] == pid}
    for r in N["records"]:
        for band, funcs in (r["meta"].get("expect_params") or {}).items():
            txt = (r.get("band") or {}).get(band)
            if r["gen_rc"] != 0 or txt is None:
                if r["gen_rc"] not in (0, 1):
                    nviol += 1
                    rep.violation("params-%s" % r["name"], dict(package_dir=os.path.join(N["srcdir"], r["dir"]), exit=r["gen_rc"], stderr=r["gen_err"]),
                                  "%s: the generator neither accepted nor refused the declaration (exit %s)" % (r["name"], r["gen_rc"]))
                continue
            for fn, want in funcs.items():
                m = re.search(r"^func %s\((.*?)\) [^\n]*\{$" % re.escape(fn), txt, re.M | re.S)
                got = [re.sub(r"\s+", " ", x).split(" ", 1)[1] for x in m.group(1).split(", ")] if m and m.group(1) else []
                if m and got == want:
                    continue
                known = (r["meta"].get("known_params") or {}).get(band, {}).get(fn)
                if m and known is not None and got == known and r["expect"] in open_ids:
                    rep.known_finding(r["expect"], "%s %s: parameters %s, the declaration prescribes %s (the Set of another package is dropped with a warning)" % (r["name"], fn, got, want))
                else:
                    nviol += 1
                    rep.violation("params-%s-%s" % (r["name"], fn), dict(package_dir=os.path.join(N["srcdir"], r["dir"]), file=band, function=fn, parameters=got, prescribed=want, generated=txt[:3000]),
                                  "%s %s: parameters %s, expected exactly the unsupplied needed types %s" % (r["name"], fn, got if m else "(no such function)", want))
    if bad and not nviol:
        r, why = bad[0]
        rep.violation("corrS-%d" % r["id"], dict(correspondence="signature of coq/CorrS.v:usig differs from the generated function",
                                                   first_case=dict(pkg=r["pkg"], injector=r["name"], why=why, model_input=S["case_text"].get(str(r["id"])))),
                      "model signature differs from the generator on %d declaration(s)" % len(bad), True)
    cov.update(input_distribution=dict(signature_shapes=st, **shape_stats(S)), samples=samples or [dict(note="none")], trusted_base=TRUSTED)
    return cov


GO_KEYWORDS = "break case chan const continue default defer else fallthrough for func go goto if import interface map package range return select struct switch type var".split()
GO_PREDECLARED = ("any bool byte comparable complex64 complex128 error float32 float64 int int8 int16 int32 int64 rune string uint uint8 uint16 uint32 uint64 uintptr "
                  "true false iota nil append cap clear close complex copy delete imag len make max min new panic print println real recover").split()


def regen_table(which, outname):
    gt = vlib.build_tool("gentables")
    rc, out, err = vlib.run([gt, which, vlib.REPO], timeout=60)
    if rc != 0:
        raise vlib.BuildError("gentables %s failed: %s" % (which, err[-500:]))
    path = os.path.join(vlib.COQ, outname)
    old = open(path).read() if os.path.exists(path) else None
    if old != out:
        with open(path, "w") as f:
            f.write(out)
    return out


def build_overlay_tool(name, src):
    """go build -overlay: a main package that exists only in the overlay, inside /repo's module (no change to /repo)."""
    import json as _j
    d = os.path.join(vlib.scratch(), "ov-" + name)
    os.makedirs(d, exist_ok=True)
    ov = os.path.join(d, "overlay.json")
    with open(ov, "w") as f:
        _j.dump({"Replace": {os.path.join(vlib.REPO, "cmd", name, "main.go"): os.path.join(vlib.VERIF, "harness", "overlay", src)}}, f)
    out = os.path.join(d, name)
    rc, o, e = vlib.run(["go", "build", "-overlay", ov, "-o", out, "./cmd/" + name], cwd=vlib.REPO, env=vlib.goenv(), timeout=600)
    if rc != 0:
        raise vlib.BuildError("overlay tool %s does not build: %s" % (name, e[-1500:]))
    return out


def check_c12(pid, tier, seed, rep):
    """Allocator: theorems over all histories (tables regenerated from const.go) + real VarPool vs model on adversarial histories."""
    import random
    table = regen_table("reserved", "Reserved_gen.v")
    cov = prove(pid, rep)
    rnd = random.Random(seed * 31 + 5)
    drv = build_overlay_tool("verifvarpool", "varpool_main.go")
    stems = ["foo", "fooBar", "err", "ctx", "eg", "ch", "zero", "num", "str", "val", "x", "errgroup", "context", "kessoku"]
    sufs = ["", "", "0", "1", "00", "01", "Ch", "Ch0", "Ch1", "0Ch"]
    tynames = ["Foo", "Foo0", "Foo1", "FooCh", "FooCh0", "FooBar", "HTTPServer", "Err", "Err0", "Err1", "Ctx", "Eg", "Ch", "Zero", "X", "DB", "Func", "Type", "Len", "Nil", "Int", "String0"]
    reserved_sample = GO_KEYWORDS + GO_PREDECLARED
    def rname():
        r = rnd.random()
        if r < 0.12:
            return rnd.choice(reserved_sample) + rnd.choice(["", "", "0", "1"])
        return rnd.choice(stems) + rnd.choice(sufs)
    n = 150 if tier == "quick" else 3000
    hs = []
    for i in range(n):
        pre = [rname() for _ in range(rnd.choice([0, 0, 1, 2, 4, 8]))]
        reqs = []
        for _ in range(rnd.randint(1, 30 if tier == "quick" else 60)):
            k = rnd.random()
            if k < 0.5:
                reqs.append(["name", rname()])
            elif k < 0.8:
                reqs.append(["get", rnd.choice(tynames)])
            else:
                reqs.append(["chan", rnd.choice(tynames)])
        hs.append(dict(pre=pre, reqs=reqs))
    # corpus first: the history of the repaired defect
    hs.insert(0, dict(pre=[], reqs=[["name", "foo"], ["name", "foo"], ["name", "foo0"]]))
    hs.insert(1, dict(pre=["fooCh"], reqs=[["chan", "Foo"], ["chan", "Foo"], ["get", "FooCh0"], ["chan", "Foo"]]))
    rc, out, err = vlib.run([drv], input=json.dumps(hs), timeout=300)
    if rc != 0:
        raise RuntimeError("varpool driver failed: " + err[-800:])
    outs = json.loads(out)
    def violates(h, o):
        bad = []
        if len(set(o)) != len(o):
            dup = sorted({x for x in o if o.count(x) > 1})
            bad.append("identifier(s) %s handed out twice" % dup)
        for x in o:
            if x in GO_KEYWORDS:
                bad.append("keyword %s handed out" % x)
            if x in GO_PREDECLARED:
                bad.append("predeclared identifier %s handed out" % x)
            if x in h["pre"]:
                bad.append("pre-registered (package-level) name %s handed out" % x)
        return bad
    nviol = 0
    for i, (h, o) in enumerate(zip(hs, outs)):
        bad = violates(h, o)
        if bad and nviol < 3:
            # shrink: drop requests / pre names while the failure persists
            cur = json.loads(json.dumps(h))
            changed = True
            while changed:
                changed = False
                for part in ("reqs", "pre"):
                    j = 0
                    while j < len(cur[part]):
                        cand = dict(cur)
                        cand[part] = cur[part][:j] + cur[part][j + 1:]
                        rc2, out2, _ = vlib.run([drv], input=json.dumps([cand]), timeout=60)
                        if rc2 == 0 and violates(cand, json.loads(out2)[0]):
                            cur = cand
                            changed = True
                        else:
                            j += 1
            rc2, out2, _ = vlib.run([drv], input=json.dumps([cur]), timeout=60)
            o2 = json.loads(out2)[0]
            nviol += 1
            rep.violation("history-%d" % i, dict(history=cur, outputs=o2, problems=violates(cur, o2), original_history=h,
                                                how="feed the history to the real VarPool (harness/overlay/varpool_main.go built with go build -overlay)"),
                          "request history %s yields %s: %s" % (cur["reqs"][:6], o2[:6], violates(cur, o2)[0]))
    # model vs implementation inside Coq
    def cs(x):
        return '"' + x.replace('"', '""') + '"'
    def creq(r):
        return {"name": "RName", "get": "RGet", "chan": "RChan"}[r[0]] + " " + cs(r[1])
    mism = []
    coq_ok = True
    shards = [list(range(i, min(i + 100, len(hs)))) for i in range(0, len(hs), 100)]
    from concurrent.futures import ThreadPoolExecutor
    def one(ix):
        path = os.path.join(vlib.scratch(), "cases_vp_%d.v" % ix)
        with open(path, "w") as f:
            f.write("From Coq Require Import String List. Import ListNotations. Open Scope string_scope.\nRequire Import VarPool VarPoolRun Reserved_gen.\n")
            f.write("Definition cases : list (nat * (list string * list req * list string)) := [\n" + ";\n".join(
                "(%d, ([%s], [%s], [%s]))" % (i, "; ".join(cs(x) for x in hs[i]["pre"]), "; ".join(creq(r) for r in hs[i]["reqs"]), "; ".join(cs(x) for x in outs[i]))
                for i in shards[ix]) + "].\n")
            f.write("Definition M := Eval vm_compute in vp_mismatches (code_predeclared ++ code_keywords) cases.\nPrint M.\n")
        return vlib.coqc_file(path, timeout=900)
    with ThreadPoolExecutor(max_workers=8) as ex:
        for rc3, o3 in ex.map(one, range(len(shards))):
            m = re.search(r"M\s*=\s*\[(.*?)\]\s*:\s*list nat", o3, re.S)
            if rc3 != 0 or not m:
                coq_ok = False
                rep.violation("corr-coq", dict(log=o3[-2000:]), "allocator correspondence cases do not evaluate in Coq", True)
                break
            mism += [int(x) for x in re.split(r"[;\s]+", m.group(1).strip()) if x]
    if mism and not nviol:
        i = mism[0]
        rep.violation("corr-%d" % i, dict(correspondence="coq/VarPoolRun.v: serve differs from the real VarPool", history=hs[i], implementation=outs[i],
                                         theorem="Properties/C12.v: C12_fresh is about a model that no longer matches var_pool.go", disagreeing=len(mism)),
                      "allocator model and implementation differ on %d histories, e.g. %s -> %s" % (len(mism), hs[i]["reqs"][:5], outs[i][:5]), True)
    # end to end: identifiers declared in generated functions vs the user's package-level names (go/ast scopes)
    import stage_n, stage_s
    bandparse = vlib.build_tool("bandparse")
    e2e = dict(packages=0, functions=0, identifiers=0)
    dirs = []
    N = stage_n.stage(seed, tier)
    for r in N["records"]:
        if not r["expect"] and r["gen_rc"] == 0:
            dirs += [os.path.normpath(os.path.join(N["srcdir"], r["dir"], sub)) for sub in r["meta"].get("vet_pkgs", ["."])]
    S = stage_s.stage(seed, tier)
    dirs += sorted({os.path.join(S["srcdir"], r["pkg"]) for r in S["records"] if r["kind"] == "valid" and r["id"] and r["rc"] == 0})
    for d in dirs:
        gofiles = sorted(f for f in os.listdir(d) if f.endswith(".go") and not f.startswith("zz_"))
        rc, out, err = vlib.run([bandparse] + [os.path.join(d, f) for f in gofiles], timeout=120)
        if rc != 0:
            continue
        parsed = json.loads(out)
        user = set()
        for f, rec in parsed.items():
            if not f.endswith("_band.go"):
                user |= set(rec.get("top_names") or [])
            else:
                user |= {fn["name"] for fn in rec["funcs"]}      # the generated functions are package-level names too
        e2e["packages"] += 1
        for f, rec in parsed.items():
            if not f.endswith("_band.go"):
                continue
            aliases = [im["name"] for im in rec["imports"] if im["name"]]
            # identifiers the import declarations put into the file scope: the explicit name, else the package's own name
            def pkg_name_of(path):
                for root in (N["srcdir"], S["srcdir"]):
                    pd = os.path.join(root, path[len("vscratch/"):]) if path.startswith("vscratch/") else None
                    if pd and os.path.isdir(pd):
                        for gf in sorted(os.listdir(pd)):
                            if gf.endswith(".go"):
                                m = re.search(r"^package\s+(\w+)", open(os.path.join(pd, gf)).read(), re.M)
                                if m:
                                    return m.group(1)
                return path.rsplit("/", 1)[-1]
            scope_names = [im["name"] or pkg_name_of(im["path"]) for im in rec["imports"] if im["name"] not in ("_", ".")]
            twice = sorted({x for x in scope_names if scope_names.count(x) > 1})
            if twice and nviol < 4:
                nviol += 1
                rep.violation("e2e-%s-imports" % os.path.basename(d), dict(package_dir=d, file=f, imports=rec["imports"], problems=["import name(s) %s declared twice in the file scope" % twice],
                                                                          how="cd <package_dir> && kessoku k.go; read the import block of the generated file"),
                              "%s %s: two imports share the name %s" % (os.path.basename(d), os.path.basename(f), twice[0]))
            for fn in rec["funcs"]:
                names = [p["name"] for p in fn["params"]] + [v["name"] for v in fn["vars"]]
                # the errgroup local, and the context local when it is a variable of its own
                names += [fn["eg_name"]] if fn.get("eg_name") else []
                names += [fn["ctx_name"]] if fn.get("ctx_fresh") and fn.get("ctx_name") else []
                for th in fn["threads"]:
                    for op in th:
                        if op["op"] in ("call", "field") and (op.get("define") or not fn["has_var"]):
                            names += [x for x in op.get("lhs", []) if x != "_" and x != op.get("err")]
                        if op["op"] == "vardecl":
                            names.append(op["name"])
                names = [x for x in names if x != "_"]
                e2e["functions"] += 1
                e2e["identifiers"] += len(names)
                probs = []
                dup = sorted({x for x in names if names.count(x) > 1})
                if dup:
                    probs.append("identifier(s) %s declared twice in %s" % (dup, fn["name"]))
                for x in names + aliases:
                    if x in GO_KEYWORDS or x in GO_PREDECLARED:
                        probs.append("generated identifier %s is a keyword/predeclared identifier" % x)
                    if x in user:
                        probs.append("generated identifier %s is already declared at package level in the user's package" % x)
                if probs and nviol < 4:
                    nviol += 1
                    rep.violation("e2e-%s-%s" % (os.path.basename(d), fn["name"]), dict(package_dir=d, function=fn["name"], declared=names, import_aliases=aliases, problems=probs,
                                                                                       how="cd <package_dir> && kessoku <file>.go; inspect the identifiers declared in the generated function"),
                                  "%s %s: %s" % (os.path.basename(d), fn["name"], probs[0]))
    lens = [len(h["reqs"]) for h in hs]
    cov.update(end_to_end=e2e, programs=len(hs), disagreements_checked=len(hs), correspondence_disagreements=len(mism), trusted_base=TRUSTED + ["translator gentables (go/ast) for the reserved-word lists"],
               input_distribution=dict(histories=len(hs), requests=sum(lens), max_len=max(lens), with_pre=sum(1 for h in hs if h["pre"]),
                                       kinds={k: sum(1 for h in hs for r in h["reqs"] if r[0] == k) for k in ("name", "get", "chan")},
                                       suffixed_outputs=sum(1 for o in outs for x in o if x[-1:].isdigit())),
               samples=[dict(history=hs[i], outputs=outs[i]) for i in (0, 1, 2)], reserved_table_lines=table.count("\n"))
    return cov


def check_c15(pid, tier, seed, rep):
    """Installer atomicity: theorems over all crash points / single faults + strace fault and kill injection on the real CLI."""
    import stage_fs
    cov = prove(pid, rep)
    tree, recs = stage_fs.c15_runs(tier)
    recs += stage_fs.natural_faults(tier)
    recs += stage_fs.symlinked_dir_faults(tier)
    hits = [r for r in recs if r["hit"]]
    points = {}
    nviol = 0
    cases = []
    for r in hits:
        key = "%s/file%d/%s" % (r["mode"], r["hit"]["file_index"], r["hit"]["step"])
        points[key] = points.get(key, 0) + 1
        probs = stage_fs.c15_oracle(tree, r)
        if probs and nviol < 4:
            nviol += 1
            rep.violation("run-%s" % r["k"], dict(prior_state=r["prior"], mode=r["mode"], injection="%s when=%s" % (r["syscall"], r["when"]), point=r["hit"],
                                                  exit=r["rc"], stderr=r["stderr"], problems=probs, before=r["before"], after=r["after"],
                                                  how="strace -f -e inject=%s:%s:when=%s kessoku llm-setup claude-code --path <dir prepared as prior_state>" % (
                                                      r["syscall"], "error=EIO" if r["mode"] == "error" else "signal=KILL", r["when"])),
                          "%s of %s (file %d) on a %s destination: %s" % ("failing" if r["mode"] == "error" else "death at", r["hit"]["step"], r["hit"]["file_index"], r["prior"], probs[0][:250]))
        c = stage_fs.c15_coq_case(tree, r, len(cases) + 1) if not r.get("natural") else None
        if c:
            cases.append((c, r))
    mism = []
    if cases:
        path = os.path.join(vlib.scratch(), "cases_fs.v")
        with open(path, "w") as f:
            f.write("From Coq Require Import List Arith. Import ListNotations.\nRequire Import Install.\n")
            f.write("Definition cases : list (nat * (fs * list (path * option (content * mode)))) := [\n" + ";\n".join(c for c, _ in cases) + "].\n")
            f.write("Definition M := Eval vm_compute in fs_mismatches cases.\nPrint M.\n")
        rc, out = vlib.coqc_file(path, timeout=600)
        m = re.search(r"M\s*=\s*\[(.*?)\]\s*:\s*list nat", out, re.S)
        if rc != 0 or not m:
            rep.violation("corr-coq", dict(log=out[-2000:]), "installer correspondence cases do not evaluate in Coq", True)
        else:
            mism = [int(x) for x in re.split(r"[;\s]+", m.group(1).strip()) if x]
    if mism and not nviol:
        c, r = cases[mism[0] - 1]
        rep.violation("corr-%s" % r["k"], dict(correspondence="coq/Install.v (fail/crash) predicts a different file system than the real installer produced",
                                              case=c, run=dict(prior=r["prior"], mode=r["mode"], point=r["hit"], after=r["after"]), disagreeing=len(mism)),
                      "installer model and implementation differ at %d injection point(s), e.g. %s of %s file %d" % (len(mism), r["mode"], r["hit"]["step"], r["hit"]["file_index"]), True)
    need = {"%s/file%d/%s" % (m, i, sc) for m in ("error", "kill") for i in range(len(tree)) for sc in ("write", "fsync", "fchmodat", "renameat")}
    missing = sorted(need - set(points))
    cov.update(evaluations=len(recs), programs=len(hits), disagreements_checked=len(cases), correspondence_disagreements=len(mism),
               injection_points_hit=points, injection_points_missing=missing, files=len(tree), trusted_base=TRUSTED + ["strace syscall fault/kill injection (ptrace)"],
               samples=[dict(prior=r["prior"], mode=r["mode"], point=r["hit"]["line"], exit=r["rc"]) for r in hits[:3]],
               input_distribution=dict(runs=len(recs), hits=len(hits), priors=sorted({r["prior"] for r in recs}), natural_faults=sum(1 for r in recs if r.get("natural"))))
    return cov


def check_c16(pid, tier, seed, rep):
    """Agents x options x prior states through the real CLI; registry/kong/README tables translated and re-proved."""
    import stage_fs
    regen_table("agents", "Agents_gen.v")
    cov = prove(pid, rep)
    tree, agents, readme_names, recs, helpout = stage_fs.c16_runs(tier)
    nviol = 0
    for r in recs:
        probs = stage_fs.c16_oracle(tree, r)
        if probs and nviol < 4:
            nviol += 1
            rep.violation("run-%d" % r["k"], dict(agent=r["agent"], options=r["opt"], prior_state=r["prior"], exit=r["rc"], stdout=r["stdout"], stderr=r["stderr"],
                                                  expected_dir=r["expected_dir"], problems=probs,
                                                  changed={p: [r["before"].get(p), r["after"].get(p)] for p in set(r["before"]) | set(r["after"]) if r["before"].get(p) != r["after"].get(p)},
                                                  how="HOME=<home> kessoku llm-setup %s %s in <cwd> with the destination prepared as prior_state" % (r["agent"], r["opt"])),
                          "%s %s on %s destination: %s" % (r["agent"], r["opt"], r["prior"], probs[0][:250]))
    # the CLI offers exactly the documented subcommands, one per agent
    offered = re.findall(r"^\s+llm-setup ([a-z0-9-]+)\s", helpout, flags=re.M)
    reg = [a["name"] for a in agents]
    if sorted(offered) != sorted(readme_names) or sorted(offered) != sorted(reg) or len(set(offered)) != len(offered):
        nviol += 1
        rep.violation("subcommands", dict(offered=offered, documented=readme_names, registry=reg, help=helpout[-1500:]),
                      "CLI subcommands %s differ from documented agents %s / registry %s" % (sorted(offered), sorted(readme_names), sorted(reg)))
    # installation directory: model (coq/Agents.v: install_dir) vs what the CLI reported
    ok_runs = [r for r in recs if r["rc"] == 0 and r["reported"]]
    def cs(x):
        return '"' + x.replace('"', '""') + '"'
    path = os.path.join(vlib.scratch(), "cases_dir.v")
    with open(path, "w") as f:
        f.write("From Coq Require Import String List. Import ListNotations. Open Scope string_scope.\nRequire Import Agents_gen Agents.\n")
        def links_term(r):
            return "[" + "; ".join("(%s, %s)" % (cs(k), cs(v)) for k, v in sorted(r.get("links", {}).items())) + "]"
        # model directory and reported directory are compared in Coq after both are resolved the way the operating system
        # resolves them (coq/Agents.v: physical, over the symbolic links of the run's scratch tree; ".." after links)
        f.write("Definition cases : list (nat * (string * string * bool * string * string * string * list (string * string))) := [\n" + ";\n".join(
            "(%d, (%s, %s, %s, %s, %s, %s, %s))" % (i, cs(r["agent"]), cs(r["custom"]), str(r["user"]).lower(), cs(r["home"]), cs(r["cwd"]), cs(r["reported"]), links_term(r)) for i, r in enumerate(ok_runs)) + "].\n")
        f.write("Definition M := Eval vm_compute in dir_mismatches_phys cases.\nPrint M.\n")
    rc, out = vlib.coqc_file(path, timeout=600)
    m = re.search(r"M\s*=\s*\[(.*?)\]\s*:\s*list nat", out, re.S)
    mism = []
    if rc != 0 or not m:
        rep.violation("corr-coq", dict(log=out[-2000:]), "installation-directory cases do not evaluate in Coq", True)
    else:
        mism = [int(x) for x in re.split(r"[;\s]+", m.group(1).strip()) if x]
    if mism and not nviol:
        r = ok_runs[mism[0]]
        rep.violation("corr-dir-%d" % r["k"], dict(correspondence="coq/Agents.v: install_dir differs from the directory the CLI reports", agent=r["agent"], options=r["opt"], reported=r["reported"], disagreeing=len(mism)),
                      "installation-directory model and CLI differ on %d runs, e.g. %s %s -> %s" % (len(mism), r["agent"], r["opt"], r["reported"]), True)
    kinds = {}
    for r in recs:
        kinds["%s/%s" % (r["opt"], r["prior"])] = kinds.get("%s/%s" % (r["opt"], r["prior"]), 0) + 1
    cov.update(evaluations=len(recs), programs=len(recs), disagreements_checked=len(ok_runs), correspondence_disagreements=len(mism), exhaustive=True,
               input_distribution=dict(agents=len(agents), combinations=kinds, embedded_files=len(tree), subcommands_offered=offered),
               samples=[dict(agent=r["agent"], opt=r["opt"], prior=r["prior"], exit=r["rc"], reported=r["reported"]) for r in recs[:3]],
               trusted_base=TRUSTED + ["translator gentables (go/ast + README regexes) for registry, kong tags, documented agents and paths"])
    return cov


def check_c11(pid, tier, seed, rep):
    """Determinism: order-independence theorems + repeated/stale/truncated-output experiments + examples regenerated."""
    import stage_det, census
    # translator: every map iteration / ambient-data site of the generator's packages in the CURRENT source, joined with the
    # reviewed table, regenerated into coq/Census_gen.v before the theorems are re-checked
    sites, unrev = census.regenerate()
    gen_unrev = [s for s in unrev if s["group"] == "generator"]
    cov = prove(pid, rep)
    R = stage_det.stage(seed, "thorough" if gen_unrev else tier)      # an unreviewed site: search with the deep experiment set
    nviol = 0
    runs = 0
    for e in R["experiments"]:
        runs += e["runs"]
        if e["problems"] and nviol < 4:
            nviol += 1
            rep.violation("exp-%s" % e["name"], dict(package=e["name"], files=e["files"], problems=e["problems"][:6],
                                                    how="tools/stage_det.py: generate in a fresh directory, then again under the named condition; compare sha256"),
                          "%s: %s" % (e["name"], e["problems"][0][:400].replace("\n", " | ")))
    for p_ in R["example_problems"][:3]:
        nviol += 1
        rep.violation("example-%d" % nviol, dict(problem=p_), p_[:300].replace("\n", " | "))
    if R["goroutines"]:
        rep.violation("goroutines", dict(statements=R["goroutines"], theorem="Properties/C11.v assumes the generator is sequential (only map order varies)"),
                      "the generator now starts goroutines: %s" % R["goroutines"][:2], True)
    if gen_unrev:
        found = nviol > 0
        rep.violation("census", dict(correspondence="coq/Census_gen.v (tools/census.py): a site of the generator's packages where a run can depend on something other than its input is not in the reviewed table tools/census_reviewed.json",
                                     theorem="Properties/C11.v: C11_every_map_iteration_order_independent",
                                     sites=[dict(kind=s["kind"], file=s["file"], line=s["line"], func=s["func"], what=s["what"], source=s["source"][:1500], next=s["next"][:400]) for s in gen_unrev[:6]],
                                     failing_input=("see the exp-* replays of this run" if found else None)),
                      "unreviewed %s in %s:%d (%s): %s" % (gen_unrev[0]["kind"], gen_unrev[0]["file"], gen_unrev[0]["line"], gen_unrev[0]["func"], (gen_unrev[0]["header"] or gen_unrev[0]["what"])[:160]), not found)
    cov["census"] = dict(sites=[dict(kind=s["kind"], where="%s:%d %s" % (s["file"], s["line"], s["func"]), what=s["header"] or s["what"], cls=s["class"]) for s in sites if s["group"] == "generator"],
                         unreviewed=len(gen_unrev), how="go/types pass over . ./internal/... ./cmd/... (harness/overlay/census_main.go): map ranges, maps.Keys/Values/All, reflect and typeutil map iteration, go, select, clocks, random numbers, process/environment data, %p")
    cov.update(evaluations=runs, programs=len(R["experiments"]), disagreements_checked=runs, examples_regenerated=R["examples_checked"],
               samples=[dict(package=e["name"], files=e["files"], runs=e["runs"]) for e in R["experiments"][:4]],
               input_distribution=dict(conditions=["rerun over previous output x GOMAXPROCS 1,2,4,8,16", "fresh x GOMAXPROCS 1,16,3", "stale output of another revision", "empty file", "8 truncation points"],
                                       corpus=["twoimports (two packages named template)", "stalepkg (stale output imports a package whose name the locals need)"]),
               trusted_base=TRUSTED)
    return cov


KNOWN_VET = [
    ("KF-C04-7", r"declared and not used: ctx\b"),
]


def check_c04(pid, tier, seed, rep):
    """Compilability: freshness/import/definedness theorems + go vet on every generated package (naming and type streams, S packages)."""
    import stage_s, stage_n
    from concurrent.futures import ThreadPoolExecutor
    regen_table("reserved", "Reserved_gen.v")
    cov = prove(pid, rep)
    open_ids = {k["id"] for k in vlib.known_findings() if k["status"] == "open" and k["property"] == pid}
    N = stage_n.stage(seed, tier)
    nviol = 0
    kinds = {}
    for r in N["records"]:
        kinds[r["meta"]["kind"]] = kinds.get(r["meta"]["kind"], 0) + 1
        pdir = os.path.join(N["srcdir"], r["dir"])
        if r["expect"]:
            if r["gen_rc"] == 0 and r["vet_rc"] not in (0, None) and re.search(r["meta"]["signature"], r["vet"]) and r["expect"] in open_ids:
                rep.known_finding(r["expect"], "reproducer %s: %s" % (r["name"], (re.search(r["meta"]["signature"], r["vet"]).group(0))[:120]))
            elif r["gen_rc"] == 0 and r["vet_rc"] not in (0, None):
                nviol += 1
                rep.violation("known-%s" % r["name"], dict(package_dir=pdir, vet=r["vet"], expected_signature=r["meta"]["signature"]),
                              "%s fails to compile with an error outside its recorded signature: %s" % (r["name"], r["vet"][-250:]))
            continue
        if r["gen_rc"] != 0:
            continue      # a refused input is not a C04 matter
        bad = None
        if r["vet_rc"] != 0:
            bad = "user package + generated file do not type-check: %s" % r["vet"].strip()[-400:]
        elif r.get("run_rc"):
            bad = "generated injector misbehaves at run time (shadowed package-level name?): %s" % r.get("run_err", "")[-300:]
        if bad and nviol < 5:
            nviol += 1
            rep.violation("pkg-%s" % r["name"], dict(package_dir=pdir, meta=r["meta"], vet=r["vet"], generated=r.get("band"), how="cd <package_dir> && kessoku k.go && go vet ."),
                          "%s (%s): %s" % (r["name"], r["meta"]["kind"], bad))
    # every package of the static stage must type-check too
    S = stage_s.stage(seed, tier)
    pk = sorted({r["pkg"] for r in S["records"] if r["kind"] == "valid" and r["id"] and r["rc"] == 0})
    def vet(name):
        d = os.path.join(S["srcdir"], name)
        rc, o, e = vlib.run(["go", "vet", "."], cwd=d, env=vlib.goenv(), timeout=600)
        return name, rc, (o + e)
    vetted = 0
    with ThreadPoolExecutor(max_workers=8) as ex:
        for name, rc, out in ex.map(vet, pk):
            vetted += 1
            if rc == 0:
                continue
            lines = [l for l in out.splitlines() if re.search(r"\.go:\d+:\d+:", l)]
            unknown = []
            for l in lines:
                hit = [kid for kid, pat in KNOWN_VET if re.search(pat, l) and kid in open_ids]
                if hit:
                    rep.known_finding(hit[0], "%s: %s" % (name, l.strip()[-120:]))
                else:
                    unknown.append(l)
            if (unknown or not lines) and nviol < 5:
                nviol += 1
                rep.violation("spkg-%s" % name, dict(package_dir=os.path.join(S["srcdir"], name), vet=out[-2000:]),
                              "package %s of the declaration stream does not type-check: %s" % (name, (unknown or [out[-300:]])[0][-300:]))
    # surface disagreements on := / = (model of buildAssignmentStatement)
    surf = [(r, [p for p in r["problems"] if p.startswith("surface:") and "assigned with" in p]) for r in S["records"]]
    surf = [(r, w) for r, w in surf if w]
    if surf and not nviol:
        r, why = surf[0]
        rep.violation("corrS-%d" % r["id"], dict(correspondence="assignment forms differ from the model", first_case=dict(pkg=r["pkg"], injector=r["name"], why=why)),
                      "emitted assignment forms differ from the model on %d declarations" % len(surf), True)
    # type spelling: the real createASTTypeExpr vs TypeRender.render, and the type its output denotes vs the input type
    import stage_t
    T = stage_t.stage(seed, tier)
    if not T["coq_ok"]:
        rep.violation("corrT-coq", dict(log=T["log"][-2500:]), "the type-spelling correspondence cases do not evaluate in Coq", True)
    wrong = [m for m in T["mismatches"] if m["code"] == 42]
    differ = [m for m in T["mismatches"] if m["code"] == 41]
    for m in wrong[:3]:
        nviol += 1
        rep.violation("type-%d" % nviol, dict(type=m["type"], spelled_as=m["observed"], imports=m["imports"],
                                              how="createASTTypeExpr(example.com/p, <type>) in a package declaring Local1, Local2, Box[T], Pair[K,V]; the spelling denotes another type (coq/TypeRender.v: denote)"),
                      "type %s is spelled as an expression that denotes a different type (or none)" % m["type"])
    if differ and not wrong:
        m = differ[0]
        rep.violation("corrT-spelling", dict(correspondence="coq/TypeRender.v: render differs from createASTTypeExpr", type=m["type"], observed=m["observed"], disagreeing=len(differ),
                                             theorem="Properties/C04.v: C04_type_spelled_as_denoted is about a model that no longer matches graph.go",
                                             search="the observed spelling still denotes the input type on all %d cases; go vet on the type stream found nothing" % T["n"]),
                      "type spelling differs from the model on %d types (each still denotes its type), e.g. %s" % (len(differ), m["type"]), True)
    if T["errors"] and not wrong:
        e = T["errors"][0]
        rep.violation("corrT-uncovered", dict(cases=T["errors"][:5]), "type-spelling correspondence: %s (%s)" % (e["what"], e.get("type", "")[:120]), True)
    cov["type_spelling_cases"] = T["n"]
    cov["type_spelling_cases_meeting_theorem_hypothesis"] = T.get("well_formed")
    cov["type_spelling_kinds"] = T["kinds"]
    cov.update(programs=len(N["records"]) + vetted + T["n"], disagreements_checked=len(N["records"]) + vetted + T["n"], evaluations=len(N["records"]) + vetted + T["n"],
               correspondence_disagreements=len(T["mismatches"]),
               input_distribution=dict(naming_type_stream=kinds, declaration_stream_packages=vetted, type_spelling_root_kinds=T["kinds"]),
               samples=[dict(package=r["name"], types=r["meta"].get("types"), vet_rc=r["vet_rc"]) for r in N["records"] if r["meta"]["kind"] == "types"][:3],
               trusted_base=TRUSTED + ["go vet (go/types) decides whether a package compiles"])
    return cov


def migrate_known(pid, rep):
    import stage_w
    open_ids = {k["id"] for k in vlib.known_findings() if k["status"] == "open" and k["property"] == pid}
    for kid, r in stage_w.known_runs().items():
        if kid in open_ids and r["reproduced"]:
            rep.known_finding(kid, r["detail"])


def check_c13(pid, tier, seed, rep):
    """wire's injector vs the injector kessoku generates from the migrated file, on the same package and arguments."""
    import stage_w
    cov = prove(pid, rep)
    W = stage_w.stage(seed, tier)
    nviol = 0
    ninj = 0
    nscen = 0
    rejected = 0
    shapes = {}
    for r in W["records"]:
        for c in r["cfgs"]:
            for k in c["kinds"].values():
                shapes[k] = shapes.get(k, 0) + 1
            shapes["external_packages"] = shapes.get("external_packages", 0) + bool(c.get("ext"))
            shapes["bindings"] = shapes.get("bindings", 0) + len(c.get("used_iface", []))
        if r["stage"] == "wire rejected the configuration":
            rejected += 1
            continue
        probs = [p for p in r["problems"] if not p.startswith("C14:")]
        for nm, pi in r["per_injector"].items():
            ninj += 1
            nscen += pi.get("scenarios", 0)
            probs += ["%s: %s" % (nm, p) for p in pi["problems"]]
        if probs and nviol < 4:
            nviol += 1
            rep.violation("case-%s" % r["name"], dict(package_dir=os.path.join(W["srcdir"], r["name"]), stage=r["stage"], problems=probs[:8], migrated=r.get("kessoku_go"),
                                                       wire_signature=r.get("wire_sig"), kessoku_signature=r.get("kessoku_sig"),
                                                       how="<package_dir>_w: wire gen; <package_dir>_k: kessoku migrate && kessoku kessoku.go; run both drivers on scen.json"),
                          "%s: %s" % (r["name"], probs[0][:300]))
    for r in W.get("directed", {}).get("records", []):
        probs = [p for p in r["problems"] if not p.startswith("C14:")]
        if probs:
            nviol += 1
            rep.violation("directed-%s" % r["name"], dict(package_dir=os.path.join(W["directed"]["srcdir"], "d" + r["name"]), problems=probs, migrated=r.get("kessoku_go"),
                                                           how="<package_dir>: wire gen && go run .; <package_dir>_k: kessoku migrate -o kessoku.go ./ && rm wire.go && kessoku kessoku.go && go run ."),
                          "directed configuration %s: %s" % (r["name"], probs[0][:300]), probs[0].startswith("HARNESS"))
    # model (coq/Wire.v) vs the terms both real injectors returned
    cases, meta = stage_w.coq_cases(W)
    mism = []
    if cases:
        path = os.path.join(vlib.scratch(), "cases_wire.v")
        with open(path, "w") as f:
            f.write("From Coq Require Import List NArith. Import ListNotations.\nRequire Import Wire.\n")
            f.write("Definition cases : list (nat * (wcfg * list N * N * term * term)) := [\n" + ";\n".join(cases) + "].\n")
            f.write("Definition M := Eval vm_compute in wire_mismatches cases.\nPrint M.\n")
        rc, out = vlib.coqc_file(path, timeout=900)
        m = re.search(r"M\s*=\s*\[(.*?)\]\s*:\s*list \(nat \* nat\)", out, re.S)
        if rc != 0 or not m:
            rep.violation("corr-coq", dict(log=out[-2500:]), "migration correspondence cases do not evaluate in Coq", True)
        else:
            mism = [(int(a), int(b)) for a, b in re.findall(r"\((\d+),\s*(\d+)\)", m.group(1))]
    unexpr = [x for x in meta if x[3]]
    if (mism or unexpr) and not nviol:
        if mism:
            i, side = mism[0]
            mm = [x for x in meta if x[0] == i][0]
            what = "model of %s differs from the real injector's result" % ("wire's resolution" if side == 1 else "kessoku's resolution of the migrated declarations")
            rep.violation("corr-%s-%s" % (mm[1], mm[2]), dict(correspondence="coq/Wire.v: wire_mismatches", case=cases[i][:3000], side=side, disagreeing=len(mism)),
                          "%s on %d case(s), e.g. %s %s" % (what, len(mism), mm[1], mm[2]), True)
        else:
            rep.violation("corr-unexpressible", dict(cases=unexpr[:5]), "observed results cannot be expressed in the model: %s" % (unexpr[0][3],), True)
    cov["model_cases"] = len(cases)
    cov["correspondence_disagreements"] = len(mism)
    migrate_known(pid, rep)
    if rejected > len(W["records"]) // 2:
        rep.violation("harness", dict(rejected=rejected), "wire rejects most generated configurations: the harness no longer exercises the property", True)
    cov.update(programs=ninj, disagreements_checked=nscen, evaluations=nscen, wire_rejected=rejected, input_distribution=shapes,
               samples=[dict(case=r["name"], injectors=list(r["per_injector"]), migrated_head=(r.get("kessoku_go") or "")[:300]) for r in W["records"][:2]],
               trusted_base=TRUSTED + ["google/wire v0.7.0 (built from the module cache) is the reference; its injectors are also compared with the configuration's reference evaluation"])
    return cov


def check_c14(pid, tier, seed, rep):
    """Migrated file: alias allocator theorems + gofmt/vet/determinism of every migrated package + invalid inputs write nothing."""
    import stage_w, random, census
    sites, unrev = census.regenerate()
    mig_unrev = [s for s in unrev if s["group"] == "migrate"]
    cov = prove(pid, rep)
    cov["census"] = dict(sites=[dict(kind=s["kind"], where="%s:%d %s" % (s["file"], s["line"], s["func"]), what=s["header"] or s["what"], cls=s["class"]) for s in sites if s["group"] == "migrate"],
                         unreviewed=len(mig_unrev))
    W = stage_w.stage(seed, "thorough" if mig_unrev else tier)
    nviol = 0
    nfiles = 0
    for r in W["records"]:
        if r["stage"] == "wire rejected the configuration":
            continue
        nfiles += 1
        probs = [p for p in r["problems"] if p.startswith("C14:") or "does not compile" in p or "does not build" in p or "refuses the migrated" in p]
        if probs and nviol < 4:
            nviol += 1
            rep.violation("case-%s" % r["name"], dict(package_dir=os.path.join(W["srcdir"], r["name"]), problems=probs[:6], migrated=r.get("kessoku_go"),
                                                       how="cd <package_dir>_k && kessoku migrate -o kessoku.go ./ && gofmt -l kessoku.go && (wire files set aside) go vet ."),
                          "%s: %s" % (r["name"], probs[0][:300]))
    for r in W.get("directed", {}).get("records", []):
        probs = [p for p in r["problems"] if p.startswith("C14:") or "refuses the migrated" in p or "migrate failed" in p]
        if probs:
            nviol += 1
            rep.violation("directed-%s" % r["name"], dict(package_dir=os.path.join(W["directed"]["srcdir"], "d" + r["name"] + "_k"), problems=probs, migrated=r.get("kessoku_go"),
                                                           how="cd <package_dir> && kessoku migrate -o kessoku.go ./ && rm wire.go && gofmt -l kessoku.go && go vet ."),
                          "directed configuration %s: %s" % (r["name"], probs[0][:300]))
    if mig_unrev:
        rep.violation("census", dict(correspondence="coq/Census_gen.v (tools/census.py): a site of internal/migrate where a run can depend on something other than its input is not in the reviewed table tools/census_reviewed.json",
                                     theorem="Properties/C14.v: C14_every_map_iteration_order_independent",
                                     sites=[dict(kind=s["kind"], file=s["file"], line=s["line"], func=s["func"], what=s["what"], source=s["source"][:1500], next=s["next"][:400]) for s in mig_unrev[:6]]),
                      "unreviewed %s in %s:%d (%s): %s" % (mig_unrev[0]["kind"], mig_unrev[0]["file"], mig_unrev[0]["line"], mig_unrev[0]["func"], (mig_unrev[0]["header"] or mig_unrev[0]["what"])[:160]), nviol == 0)
    # migrate's own type spelling (TypeConverter.TypeToExpr): the expression it produces for a random type must denote that type
    import stage_t
    T = stage_t.stage(seed, tier, "migrate")
    if not T["coq_ok"]:
        rep.violation("corrT-coq", dict(log=T["log"][-2500:]), "the type-spelling cases do not evaluate in Coq", True)
    for m in T["mismatches"][:3]:
        nviol += 1
        rep.violation("type-%d" % nviol, dict(type=m["type"], spelled_as=m["observed"], imports=m["imports"],
                                              how="migrate.NewTypeConverter(p).TypeToExpr(<type>) in a package declaring Local1, Local2, Box[T], Pair[K,V]; coq/TypeRender.v: denote"),
                      "migrate spells type %s as an expression that denotes a different type (or none)" % m["type"])
    if T["errors"] and not T["mismatches"]:
        e0 = T["errors"][0]
        rep.violation("corrT-uncovered", dict(cases=T["errors"][:5]), "type-spelling correspondence: %s (%s)" % (e0["what"], e0.get("type", "")[:120]), True)
    cov["type_spelling_cases"] = T["n"]
    migrate_known(pid, rep)
    for b in W["invalid"]:
        if b["rc"] == 0 or b["wrote"]:
            nviol += 1
            rep.violation("invalid-%s" % b["kind"], dict(case=b), "invalid input (%s): exit %d, output file %s" % (b["kind"], b["rc"], "written" if b["wrote"] else "not written"))
    # alias allocator: real TypeConverter vs model
    rnd = random.Random(seed * 17 + 1)
    drv = build_overlay_tool("veriftypeconv", "typeconv_main.go")
    names = ["config", "config_1", "config_2", "config_1_1", "v1", "v2", "sink", "log", "io", "kessoku"]
    paths = ["a/config", "b/config", "c/config", "x/config_1", "y/config_1", "k8s/v1", "api/v1", "m/v2", "io", "log", "z/log", "g/sink", "h/sink", "q/config_2", "w/kessoku"]
    hs = []
    reserved = []
    for i in range(120 if tier == "quick" else 2000):
        h = []
        for _ in range(rnd.randint(1, 14)):
            p_ = rnd.choice(paths)
            h.append([p_, p_.split("/")[-1] if rnd.random() < 0.7 else rnd.choice(names)])
        hs.append(h)
        # names the source package declares at package level (reserved by NewTypeConverter, like "kessoku")
        reserved.append(sorted(rnd.sample(names[:9], rnd.choice([0, 0, 1, 2, 3]))))
    rc, out, err = vlib.run([drv], input=json.dumps([dict(reserved=r_, reqs=h) for r_, h in zip(reserved, hs)]), timeout=300)
    if rc != 0:
        raise RuntimeError("typeconv driver failed: " + err[-500:])
    outs = json.loads(out)
    for h, o, r_ in zip(hs, outs, reserved):
        for a in o:
            if a in r_ or (a == "kessoku"):
                nviol += 1
                rep.violation("alias-reserved", dict(history=h, reserved=r_, aliases=o), "an import was given the reserved name %s (package-level identifiers %s, kessoku)" % (a, r_))
                break
        amap = {}
        for (p_, d_), a in zip(h, o):
            if amap.setdefault(p_, a) != a:
                nviol += 1
                rep.violation("alias-unstable", dict(history=h, aliases=o), "path %s changed its alias within one migration: %s" % (p_, o))
                break
        inv = {}
        for p_, a in amap.items():
            if inv.setdefault(a, p_) != p_:
                nviol += 1
                rep.violation("alias-shared", dict(history=h, aliases=o), "packages %s and %s share the alias %s" % (inv[a], p_, a))
                break
    def cs(x):
        return '"' + x + '"'
    path = os.path.join(vlib.scratch(), "cases_tc.v")
    with open(path, "w") as f:
        f.write("From Coq Require Import String List. Import ListNotations. Open Scope string_scope.\nRequire Import TypeConv.\n")
        f.write("Definition cases : list (nat * (list string * list (string * string) * list string)) := [\n" + ";\n".join(
            "(%d, ([%s], [%s], [%s]))" % (i, "; ".join(cs(x) for x in r_ + ["kessoku"]), "; ".join("(%s, %s)" % (cs(a), cs(b)) for a, b in h), "; ".join(cs(x) for x in o))
            for i, (h, o, r_) in enumerate(zip(hs, outs, reserved))) + "].\n")
        f.write("Definition M := Eval vm_compute in tcv_mismatches_reserved cases.\nPrint M.\n")
    rc, o2 = vlib.coqc_file(path, timeout=900)
    m = re.search(r"M\s*=\s*\[(.*?)\]\s*:\s*list nat", o2, re.S)
    mism = []
    if rc != 0 or not m:
        rep.violation("corr-coq", dict(log=o2[-2000:]), "alias cases do not evaluate in Coq", True)
    else:
        mism = [int(x) for x in re.split(r"[;\s]+", m.group(1).strip()) if x]
    if mism and not nviol:
        i = mism[0]
        rep.violation("corr-alias-%d" % i, dict(correspondence="coq/TypeConv.v: add_all differs from TypeConverter.AddImport", history=hs[i], implementation=outs[i], disagreeing=len(mism)),
                      "alias model and implementation differ on %d histories, e.g. %s -> %s" % (len(mism), hs[i][:4], outs[i][:4]), True)
    cov.update(programs=nfiles + len(hs), disagreements_checked=len(hs) + nfiles, evaluations=nfiles + len(hs) + len(W["invalid"]), correspondence_disagreements=len(mism),
               input_distribution=dict(migrated_packages=nfiles, alias_histories=len(hs), invalid_input_kinds=[b["kind"] for b in W["invalid"]]),
               samples=[dict(history=hs[0], aliases=outs[0]), dict(invalid=W["invalid"][0])], trusted_base=TRUSTED + ["gofmt and go vet decide formatting and compilation of the migrated file"])
    return cov


CHECKS = {"C13": check_c13, "C14": check_c14, "C04": check_c04, "C11": check_c11, "C09": check_c09, "C10": check_c10, "C12": check_c12, "C15": check_c15, "C16": check_c16}
for _p in ("C01", "C02", "C03", "C05", "C06", "C07", "C08"):
    CHECKS[_p] = check_layer_ab


def main():
    if len(sys.argv) < 3:
        print("usage: check.py <property> quick|thorough | --replay <path>")
        return 2
    pid, tier = sys.argv[1], sys.argv[2]
    seed = int(os.environ.get("VERIF_SEED", "1"))
    rep = Report(pid)
    if tier == "--replay":
        path = sys.argv[3]
        print(open(path).read())
        return 0
    os.environ.setdefault("VERIF_TIER", tier)
    # one check at a time: the checks share the Coq build directory, the generated tables and the stage caches; two
    # invocations started side by side take turns instead of writing over each other
    import fcntl
    os.makedirs(vlib.CACHE, exist_ok=True)
    lock = open(os.path.join(vlib.CACHE, "check.lock"), "w")
    fcntl.flock(lock, fcntl.LOCK_EX)
    global CUR_TIER
    CUR_TIER = tier
    cov = {}
    try:
        if pid not in CHECKS:
            print("no check registered for", pid)
            return 2
        cov = CHECKS[pid](pid, tier, seed, rep) or {}
    except vlib.BuildError as ex:
        rep.violation("build", dict(error=str(ex)), "cannot build from /repo: %s" % str(ex)[:200], True)
    except Exception as ex:
        traceback.print_exc()
        rep.violation("check-crashed", dict(error=repr(ex), trace=traceback.format_exc()[-3000:]), "check machinery failed: %r" % ex, True)
    cov.setdefault("obligations", 0)
    cov.setdefault("discharged", 0)
    cov.setdefault("checker_cmd", "make -C coq")
    cov.setdefault("trusted_base", TRUSTED)
    rc = rep.finish()
    vlib.trim_caches()
    vlib.write_evidence(pid, tier, seed, cov, TRUSTED, len(rep.violations))
    return rc


if __name__ == "__main__":
    sys.exit(main())
