#!/usr/bin/env python3
"""Entry point of every check:  python3 tools/check.py <Cnn> quick|thorough   (or --replay <path>).

Protocol (DESIGN section 5): rebuild from /repo's working tree, re-check the property's theorems, run the
correspondence stages the property is tied to, decide: exit 0 | KNOWN-FINDING lines + exit 0 | VIOLATION lines + exit 1."""
import json, os, re, sys, time, traceback
sys.path.insert(0, os.path.dirname(os.path.abspath(__file__)))
import vlib
from vlib import Report

TRUSTED = [
    "Coq 8.16.1 kernel (coqc, vm_compute; no native_compute); no axioms: every property theorem prints 'Closed under the global context'",
    "hand-written Gallina model of the generator/semantics, tied to /repo by the correspondence stages run in this check",
    "harness: declaration renderer, bandparse (go/ast), event-log monitors, Gallina printer",
    "modelled, not verified: Go channels/select/close, errgroup, context, go/types, go/format, packages.Load",
]


# ------------------------------------------------------------------ proofs

def prove(pid, rep, extra_files=()):
    """(Re)check Properties/<pid>.v. Returns coverage dict fragment. A failure is a VIOLATION (no-failing-input-found unless a
    later stage exhibits one)."""
    pf = os.path.join(vlib.COQ, "Properties", pid + ".v")
    cov = dict(obligations=0, discharged=0, checker_cmd="make -C coq -j16 Properties/%s.vo  (coq_makefile, full .vo build)" % pid,
               theorems=[], assumptions_report=[])
    if not os.path.exists(pf):
        rep.violation("proof-missing", dict(theorem_file="coq/Properties/%s.v" % pid), "property theorem file missing", True)
        return cov
    src = open(pf).read()
    body = re.sub(r"\(\*.*?\*\)", "", src, flags=re.S)
    thms = re.findall(r"^\s*(?:Theorem|Corollary)\s+(\w+)", body, flags=re.M)
    cov["theorems"] = thms
    cov["obligations"] = len(thms)
    allv = [os.path.join(vlib.COQ, f) for f in os.listdir(vlib.COQ) if f.endswith(".v")] + \
           [os.path.join(vlib.COQ, "Properties", f) for f in os.listdir(os.path.join(vlib.COQ, "Properties")) if f.endswith(".v")]
    bad = vlib.proof_hygiene(allv)
    if bad:
        rep.violation("proof-hygiene", dict(problems=bad), "forbidden construct in the Coq development: %s" % bad[:3], True)
        return cov
    vo = pf[:-2] + ".vo"
    if os.path.exists(vo):
        os.remove(vo)
    ok, log = vlib.coq_make(["Properties/%s.vo" % pid], timeout=1500)
    if not ok:
        m = re.search(r'File "([^"]+)", line (\d+)', log)
        where = "%s:%s" % (m.group(1), m.group(2)) if m else "?"
        rep.violation("proof-broken", dict(theorem_file="coq/Properties/%s.v" % pid, where=where, log=log[-3000:]),
                      "proof obligation no longer checks (%s)" % where, True)
        return cov
    closed = log.count("Closed under the global context")
    axioms = re.findall(r"^Axioms:\n((?:.+\n)+)", log, flags=re.M)
    cov["assumptions_report"] = ["%d x 'Closed under the global context'" % closed] + [a.strip() for a in axioms]
    npa = len(re.findall(r"^\s*Print Assumptions", body, flags=re.M))
    if axioms or closed < npa or npa < len(thms):
        rep.violation("proof-assumptions", dict(theorem_file="coq/Properties/%s.v" % pid, closed=closed, print_assumptions=npa, theorems=len(thms), axioms=axioms),
                      "Print Assumptions is not 'Closed under the global context' for every theorem", True)
        return cov
    cov["discharged"] = len(thms)
    return cov


# ------------------------------------------------------------------ per-property deciders

def static_part(pid, rep, S, components, cov):
    """Correspondence S: model vs implementation on this run's declarations."""
    recs = [r for r in S["records"] if r["id"]]
    bad = []
    if not S["coq_ok"]:
        rep.violation("corrS-coq", dict(log=S["coq_log"][-3000:]), "the correspondence cases do not evaluate in Coq", True)
    for r in S["records"]:
        why = []
        if r.get("model_mismatch") and any(c in components for c in r.get("mismatch_kinds", ["verdict", "sig", "items"])):
            why.append("model and implementation differ (%s)" % ",".join(r.get("mismatch_kinds", ["?"])))
        for p in r["problems"]:
            if "unparsed" in p and "items" in components:
                why.append(p)
        if why:
            bad.append((r, why))
    cov["programs"] = len(recs)
    cov["disagreements_checked"] = len(recs)
    cov["correspondence_disagreements"] = len(bad)
    return bad


def shape_stats(S):
    st = dict(decls=0, with_goroutines=0, cross_thread_waits=0, structs=0, multi_value=0, binds=0, values=0, rejected=0, nodes_hist={})
    for r in S["records"]:
        if not r["id"] or not r.get("decl"):
            continue
        st["decls"] += 1
        m = r["decl"]["meta"]
        st["nodes_hist"][str(m["n"])] = st["nodes_hist"].get(str(m["n"]), 0) + 1
        st["structs"] += m["structnode"] is not None
        st["multi_value"] += bool(m["second"])
        st["binds"] += bool(m["binds"])
        st["values"] += bool(m["values"])
        if r["kind"] != "valid":
            st["rejected"] += 1
        ob = r.get("obs")
        if ob:
            st["with_goroutines"] += bool(ob["gos"])
            st["cross_thread_waits"] += any(it["waits"] for th in [ob["main"]] + ob["gos"] for it in th)
    return st


def check_layer_ab(pid, tier, seed, rep):
    """C01 C02 C03 C05 C06 C07 C08: theorems (Layer A o B) + static correspondence on thread programs + dynamic monitors."""
    import stage_s, stage_d
    cov = prove(pid, rep)
    S = stage_s.stage(seed, tier)
    bad = static_part(pid, rep, S, {"items"}, cov)
    D = stage_d.stage(seed, tier)
    mine = [f for f in D["findings"] if f["prop"] == pid]
    viol = [f for f in mine if f["verdict"] == "violation"]
    known = [f for f in mine if f["verdict"].startswith("known:")]
    open_ids = {k["id"] for k in vlib.known_findings() if k["status"] == "open" and k["property"] == pid}
    for f in known:
        kid = f["verdict"][6:]
        if kid in open_ids:
            rep.known_finding(kid, f["detail"].split(" of [")[0][:160])
        else:
            viol.append(f)
    seen = set()
    for i, f in enumerate(viol):
        key = (f["inj"], f["detail"][:60])
        if key in seen:
            continue
        seen.add(key)
        if len(seen) > 5:
            break
        rep.violation("dyn-%s-%d" % (f["inj"].replace("<", "").replace(">", ""), len(seen)),
                      dict(package_dir=os.path.join(D["srcdir"], f["pkg"]), injector=f["inj"], scenario=f.get("scenario"), detail=f["detail"],
                           events=f.get("events"), how="rerun: python3 tools/check.py %s --replay <this file>" % pid),
                      "%s %s: %s" % (f["pkg"], f["inj"], f["detail"][:300]))
    # model-level search on the observed programs (verified checker + greedy explorer of coq/Check.v)
    expl = {"C01": 1, "C03": 2}.get(pid)
    nmodel = 0
    for r in S["records"]:
        if expl and r.get("explore_code") == expl and nmodel < 3:
            nmodel += 1
            what = ("a fault-free execution of the emitted program reaches a provider call that reads a variable nobody has written"
                    if expl == 1 else "a fault-free execution of the emitted program deadlocks: a thread waits for a completion signal that is never sent")
            rep.violation("model-run-%d" % r["id"], dict(package_dir=os.path.join(S["srcdir"], r["pkg"]), file=r["file"], injector=r["name"],
                                                         observed_program=r.get("obs_prog"), declaration=S["case_text"].get(str(r["id"]), [None])[0],
                                                         how="coq/Check.v: explore_code <observed_program> evaluates to %d; the greedy schedule is the replay" % expl,
                                                         problems=r["problems"]),
                          "%s %s: %s" % (r["pkg"], r["name"], what))
    viol = viol or [1] * nmodel
    unchecked = [r for r in S["records"] if r.get("checker_code")]
    if (bad or unchecked) and not viol:
        if not bad:
            bad = [(unchecked[0], ["observed program fails the verified checker (code %d): Layer A's hypotheses are not established" % unchecked[0]["checker_code"]])]
        r, why = bad[0]
        rep.violation("corrS-%d" % r["id"], dict(correspondence="static correspondence S (coq/CorrS.v: xmismatches) no longer agrees with the generator",
                                                   theorem="Layer B (generator model) of Properties/%s.v no longer describes the code" % pid,
                                                   first_case=dict(pkg=r["pkg"], file=r["file"], injector=r["name"], why=why, model_input=S["case_text"].get(str(r["id"]))),
                                                   disagreeing_cases=len(bad), observed_programs_failing_verified_checker=[(x["pkg"], x["name"], x["checker_code"]) for x in unchecked][:10],
                                                   dynamic_search="%d scenarios on %d injectors found no failing execution" % (D["scenarios"], D["injectors"])),
                      "model/implementation disagreement on %d declaration(s), e.g. %s %s: %s" % (len(bad), r["pkg"], r["name"], why[0][:200]), True)
    cov.update(traces_validated_against_impl=D["scenarios"], scenario_kinds=D["kinds"], injectors_run=D["injectors"],
               input_distribution=shape_stats(S), trusted_base=TRUSTED,
               samples=[dict(decl=S["case_text"][k][0][:400], observed=S["case_text"][k][1][:400]) for k in list(S["case_text"])[:2]] + D["samples"][:2],
               known_findings_reproduced=sorted({f["verdict"][6:] for f in known}))
    return cov


def check_c09(pid, tier, seed, rep):
    """Refusal/acceptance through the real CLI on planted defects and on valid declarations; model verdicts compared in Coq."""
    import stage_s
    cov = prove(pid, rep)
    S = stage_s.stage(seed, tier)
    bad = static_part(pid, rep, S, {"verdict"}, cov)
    nviol = 0
    kinds = {}
    samples = []
    for r in S["records"]:
        if not r["id"]:
            if r["problems"]:
                nviol += 1
                rep.violation("file-%s-%s" % (r["pkg"], r["file"]), dict(package_dir=os.path.join(S["srcdir"], r["pkg"]), problems=r["problems"]),
                              "%s/%s: %s" % (r["pkg"], r["file"], r["problems"][0]))
            continue
        kinds[r["kind"]] = kinds.get(r["kind"], 0) + 1
        probs = []
        if r["kind"] == "valid":
            probs = [p for p in r["problems"] if "unparsed" not in p]
        else:
            if r["rc"] == 0:
                probs.append("declaration with a planted %s was accepted (exit 0)" % r["kind"])
            else:
                if r["err_class"] != r["kind"]:
                    probs.append("planted %s refused with an unrelated diagnostic: %s" % (r["kind"], r["stderr"][-300:]))
                elif not r["err_names_types"]:
                    probs.append("diagnostic does not name the types involved (%s): %s" % (r["decl"]["expect"]["types"], r["stderr"][-300:]))
            if not r.get("untouched", True):
                probs.append("output file was created or modified although the declaration must be refused")
            if len(samples) < 3:
                samples.append(dict(kind=r["kind"], expect=r["decl"].get("expect"), exit=r["rc"], stderr=r["stderr"][-200:]))
        if probs and nviol < 5:
            nviol += 1
            rep.violation("decl-%d" % r["id"], dict(package_dir=os.path.join(S["srcdir"], r["pkg"]), file=r["file"], injector=r["name"], kind=r["kind"],
                                                    problems=probs, declaration=S["case_text"].get(str(r["id"]), [None])[0],
                                                    how="cd <package_dir> && kessoku %s" % r["file"]),
                          "%s %s (%s): %s" % (r["pkg"], r["name"], r["kind"], probs[0][:300]))
    if bad and not nviol:
        r, why = bad[0]
        rep.violation("corrS-%d" % r["id"], dict(correspondence="accept/reject verdict of coq/CorrS.v:umodel differs from the generator",
                                                   first_case=dict(pkg=r["pkg"], injector=r["name"], why=why, model_input=S["case_text"].get(str(r["id"])))),
                      "model verdict differs from the generator on %d declaration(s)" % len(bad), True)
    cov.update(input_distribution=dict(kinds=kinds, **shape_stats(S)), samples=samples or [dict(note="no malformed sample")], trusted_base=TRUSTED)
    return cov


def check_c10(pid, tier, seed, rep):
    """Signature of every generated function vs the property's own definition (needed set) and vs the model signature."""
    import stage_s, declgen
    cov = prove(pid, rep)
    S = stage_s.stage(seed, tier)
    bad = static_part(pid, rep, S, {"sig"}, cov)
    nviol = 0
    samples = []
    st = dict(with_ctx=0, ctx_from_provider_param=0, with_error=0, ret_is_arg=0, composite_args=0)
    for r in S["records"]:
        ob = r.get("obs")
        if not r["id"] or r["kind"] != "valid" or not ob:
            continue
        d = r["decl"]
        exp = declgen.expected_signature(d)
        probs = []
        if ob["name"] != exp["name"]:
            probs.append("function name %s, declared %s" % (ob["name"], exp["name"]))
        if sorted(ob["params"]) != exp["params"]:
            probs.append("parameters %s, expected exactly the unsupplied needed types %s" % (ob["params"], exp["params"]))
        if len(set(ob["params"])) != len(ob["params"]):
            probs.append("a parameter type occurs twice: %s" % ob["params"])
        if exp["ctx_first"] and (not ob["params"] or ob["params"][0] != declgen.CTX):
            probs.append("a needed provider is Async but context.Context is not the first parameter: %s" % ob["params"])
        if ob["results"] != exp["results"]:
            probs.append("results %s, expected %s" % (ob["results"], exp["results"]))
        st["with_ctx"] += declgen.CTX in ob["params"]
        st["with_error"] += ob["reterr"]
        st["ret_is_arg"] += d["ret"] in ob["params"]
        st["composite_args"] += any(t[0] in "*[m" and "St" not in t for t in ob["params"])
        if len(samples) < 3 and len(ob["params"]) > 1:
            samples.append(dict(injector=ob["name"], params=ob["params"], results=ob["results"]))
        if probs and nviol < 5:
            nviol += 1
            rep.violation("sig-%d" % r["id"], dict(package_dir=os.path.join(S["srcdir"], r["pkg"]), file=r["file"], injector=r["name"], problems=probs,
                                                   observed=dict(params=ob["params"], results=ob["results"]), expected=exp,
                                                   declaration=S["case_text"].get(str(r["id"]), [None])[0]),
                          "%s %s: %s" % (r["pkg"], r["name"], probs[0][:300]))
    if bad and not nviol:
        r, why = bad[0]
        rep.violation("corrS-%d" % r["id"], dict(correspondence="signature of coq/CorrS.v:usig differs from the generated function",
                                                   first_case=dict(pkg=r["pkg"], injector=r["name"], why=why, model_input=S["case_text"].get(str(r["id"])))),
                      "model signature differs from the generator on %d declaration(s)" % len(bad), True)
    cov.update(input_distribution=dict(signature_shapes=st, **shape_stats(S)), samples=samples or [dict(note="none")], trusted_base=TRUSTED)
    return cov


CHECKS = {"C09": check_c09, "C10": check_c10}
for _p in ("C01", "C02", "C03", "C05", "C06", "C07", "C08"):
    CHECKS[_p] = check_layer_ab


def main():
    if len(sys.argv) < 3:
        print("usage: check.py <property> quick|thorough | --replay <path>")
        return 2
    pid, tier = sys.argv[1], sys.argv[2]
    seed = int(os.environ.get("VERIF_SEED", "1"))
    rep = Report(pid)
    if tier == "--replay":
        path = sys.argv[3]
        print(open(path).read())
        return 0
    os.environ.setdefault("VERIF_TIER", tier)
    cov = {}
    try:
        if pid not in CHECKS:
            print("no check registered for", pid)
            return 2
        cov = CHECKS[pid](pid, tier, seed, rep) or {}
    except vlib.BuildError as ex:
        rep.violation("build", dict(error=str(ex)), "cannot build from /repo: %s" % str(ex)[:200], True)
    except Exception as ex:
        traceback.print_exc()
        rep.violation("check-crashed", dict(error=repr(ex), trace=traceback.format_exc()[-3000:]), "check machinery failed: %r" % ex, True)
    cov.setdefault("obligations", 0)
    cov.setdefault("discharged", 0)
    cov.setdefault("checker_cmd", "make -C coq")
    cov.setdefault("trusted_base", TRUSTED)
    rc = rep.finish()
    vlib.write_evidence(pid, tier, seed, cov, TRUSTED, len(rep.violations))
    return rc


if __name__ == "__main__":
    sys.exit(main())
