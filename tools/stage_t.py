"""Type-spelling correspondence (C04): the real createASTTypeExpr (reached through a go build -overlay shim, /repo unchanged)
is run on the types of random source snippets; type and spelling are compared, in Coq, with TypeRender.render and with
the type the spelling denotes (TypeRender.denote)."""
import json, os, random, re, sys
import vlib, stage_n


def build_driver():
    d = os.path.join(vlib.scratch(), "ov-typerender")
    os.makedirs(d, exist_ok=True)
    ov = os.path.join(d, "overlay.json")
    with open(ov, "w") as f:
        json.dump({"Replace": {os.path.join(vlib.REPO, "cmd", "veriftyperender", "main.go"): os.path.join(vlib.VERIF, "harness", "overlay", "typerender_main.go"),
                               os.path.join(vlib.REPO, "internal", "kessoku", "zz_verif_export.go"): os.path.join(vlib.VERIF, "harness", "overlay", "typerender_export.go")}}, f)
    out = os.path.join(d, "veriftyperender")
    rc, o, e = vlib.run(["go", "build", "-overlay", ov, "-o", out, "./cmd/veriftyperender"], cwd=vlib.REPO, env=vlib.goenv(), timeout=600)
    if rc != 0:
        raise vlib.BuildError("type-render driver does not build: %s" % e[-1500:])
    return out


IMPORT_LINES = {"time": '"time"', "netip": '"net/netip"', "template": '"text/template"', "htemplate": 'htemplate "html/template"', "io": '"io"', "unsafe": '"unsafe"'}
PRELUDE = "type Local1 struct{ X int }\ntype Local2 string\ntype Box[T any] struct{ V T }\ntype Pair[K comparable, V any] struct {\n\tK K\n\tV V\n}\ntype List[T any] = []T\ntype BoxA[T any] = Box[T]\n"


def snippet(rnd, nvars, no_iface=False):
    types = []
    tries = 0
    while len(types) < nvars and tries < 400:
        tries += 1
        t = stage_n.gen_type(rnd, rnd.choice([0, 1, 2, 2, 3, 3]))
        if no_iface and re.search(r"interface\{ *[A-Za-z]", t):
            continue          # migrate spells a non-empty anonymous interface as `any`: recorded finding KF-C14-17
        if t not in types:
            types.append(t)
    body = PRELUDE + "".join("var V%03d %s\n" % (i, t) for i, t in enumerate(types))
    used = [k for k in IMPORT_LINES if re.search(r"\b%s\." % k, body)]
    src = "package p\n\n" + ("import (\n" + "".join("\t%s\n" % IMPORT_LINES[k] for k in used) + ")\n\n" if used else "") + body
    return src, types


def cstr(s):
    return '"' + s.replace('"', '""') + '"'


def coq_ty(t):
    k = t[0]
    if k == "basic":
        return "TBasic %s" % cstr(t[1])
    if k == "named":
        return "TNamed %s %s [%s]" % (cstr(t[1]), cstr(t[2]), "; ".join(coq_ty(a) for a in t[3]))
    if k == "ptr":
        return "TPtr (%s)" % coq_ty(t[1])
    if k == "slice":
        return "TSlice (%s)" % coq_ty(t[1])
    if k == "array":
        return "TArray %d%%N (%s)" % (t[1], coq_ty(t[2]))
    if k == "map":
        return "TMap (%s) (%s)" % (coq_ty(t[1]), coq_ty(t[2]))
    if k == "chan":
        return "TChan %s (%s)" % ({"both": "CBoth", "send": "CSend", "recv": "CRecv"}[t[1]], coq_ty(t[2]))
    if k == "func":
        return "TFunc [%s] %s [%s]" % ("; ".join(coq_ty(a) for a in t[1]), str(bool(t[2])).lower(), "; ".join(coq_ty(a) for a in t[3]))
    if k == "struct":
        return "TStruct [%s]" % "; ".join("(%s, %s, %s, %s)" % (cstr(f[0]), str(bool(f[1])).lower(), cstr(f[2]), coq_ty(f[3])) for f in t[1])
    if k == "iface":
        return "TIface [%s]" % "; ".join("(%s, %s)" % (cstr(m[0]), coq_ty(m[1])) for m in t[1])
    raise ValueError("type outside the model: %r" % (t,))


def coq_fields(fs, named):
    out = []
    for names, tag, e in fs:
        if named:
            if len(names) > 1:
                raise ValueError("field list outside the model: %r" % (names,))
            out.append("(%s, %s)" % (cstr(names[0] if names else ""), coq_ex(e)))
        else:
            if len(names) > 1:
                raise ValueError("field list outside the model: %r" % (names,))
            out.append("(%s, %s, %s)" % ("Some " + cstr(names[0]) if names else "None", cstr(tag), coq_ex(e)))
    return "[%s]" % "; ".join(out)


def coq_ex(e):
    k = e[0]
    if k == "id":
        return "EId %s" % cstr(e[1])
    if k == "sel":
        return "ESel %s %s" % (cstr(e[1]), cstr(e[2]))
    if k == "star":
        return "EStar (%s)" % coq_ex(e[1])
    if k == "arr":
        return "EArr %s (%s)" % ("None" if e[1] is None else "(Some %d%%N)" % e[1], coq_ex(e[2]))
    if k == "map":
        return "EMap (%s) (%s)" % (coq_ex(e[1]), coq_ex(e[2]))
    if k == "chan":
        return "EChan %s (%s)" % ({"both": "CBoth", "send": "CSend", "recv": "CRecv"}[e[1]], coq_ex(e[2]))
    if k == "ellipsis":
        return "EEllipsis (%s)" % coq_ex(e[1])
    if k == "func":
        return "EFunc %s %s" % (coq_fields(e[1], True), coq_fields(e[2], True))
    if k == "struct":
        return "EStruct %s" % coq_fields(e[1], False)
    if k == "iface":
        return "EIface %s" % coq_fields(e[1], True)
    if k == "index":
        return "EIndex (%s) [%s]" % (coq_ex(e[1]), "; ".join(coq_ex(a) for a in e[2]))
    raise ValueError("expression outside the model: %r" % (e,))


def stage(seed, tier, which="kessoku"):
    """which: "kessoku" (createASTTypeExpr: spelling and denotation compared) | "migrate" (TypeConverter.TypeToExpr: denotation only).
    Returns dict(n, mismatches=[(source type, code, observed)], errors=[...], coq_ok, log, kinds)"""
    key = "T%s-%s-%s-%s" % ("" if which == "kessoku" else "m", vlib.repo_hash() + vlib.tools_hash(), seed, tier)
    cpath = os.path.join(vlib.CACHE, "stage", key + ".json")
    if os.path.exists(cpath) and not os.environ.get("VERIF_NOCACHE"):
        return json.load(open(cpath))
    rnd = random.Random(seed * 7919 + (11 if which == "kessoku" else 13))
    drv = build_driver()
    nsn, nv = (12, 25) if tier == "quick" else (60, 40)
    snippets = [snippet(rnd, nv, no_iface=(which == "migrate")) for _ in range(nsn)]
    rc, out, err = vlib.run([drv] + (["migrate"] if which == "migrate" else []), input=json.dumps([s for s, _ in snippets]), timeout=900)
    if rc != 0:
        raise RuntimeError("type-render driver failed: " + err[-800:])
    res = json.loads(out)
    cases, meta, errors = [], [], []
    kinds = {}
    for (src, types), r in zip(snippets, res):
        if r.get("error"):
            errors.append(dict(what="snippet does not type-check (harness)", error=r["error"], source=src[:600]))
            continue
        for v in r["vars"] or []:
            i = int(v["name"][1:])
            tsrc = types[i]
            if v.get("error"):
                errors.append(dict(what="createASTTypeExpr returned an error", type=tsrc, error=v["error"]))
                continue
            try:
                case = "(%d, (%s, [%s], %s, %s))" % (len(cases), cstr("example.com/p"), "; ".join("(%s, %s)" % (cstr(p), cstr(n)) for p, n in sorted(v["imports"].items())),
                                                     coq_ty(v["type"]), coq_ex(v["expr"]))
            except ValueError as ex:
                errors.append(dict(what=str(ex), type=tsrc))
                continue
            cases.append(case)
            meta.append(dict(type=tsrc, observed=v["expr"], imports=v["imports"]))
            kinds[v["type"][0]] = kinds.get(v["type"][0], 0) + 1
    mism, ok, log = [], True, ""
    nwf = 0
    work = vlib.scratch()
    for sh in range(0, len(cases), 150):
        path = os.path.join(work, "cases_tr_%d.v" % sh)
        with open(path, "w") as f:
            f.write("From Coq Require Import List String NArith. Import ListNotations. Open Scope string_scope.\nRequire Import TypeRender.\n")
            f.write("Definition cases : list (nat * (string * list (string * string) * ty * ex)) := [\n" + ";\n".join(cases[sh:sh + 150]) + "].\n")
            f.write("Definition M := Eval vm_compute in %s cases.\nPrint M.\n" % ("render_mismatches" if which == "kessoku" else "denote_mismatches"))
            f.write("Definition Wc := Eval vm_compute in wf_count cases.\nPrint Wc.\n")
        rc, o = vlib.coqc_file(path, timeout=900)
        m = re.search(r"M\s*=\s*\[(.*?)\]\s*:\s*list \(nat \* nat\)", o, re.S)
        if rc != 0 or not m:
            ok = False
            log += o[-1500:]
            continue
        for a, b in re.findall(r"\((\d+),\s*(\d+)\)", m.group(1)):
            mism.append(dict(code=int(b), **meta[int(a)]))
        w = re.search(r"Wc\s*=\s*\((\d+),\s*(\d+)\)", o)
        if w:
            nwf += int(w.group(1))
    resd = dict(n=len(cases), well_formed=nwf, mismatches=mism, errors=errors, coq_ok=ok, log=log, kinds=kinds)
    os.makedirs(os.path.dirname(cpath), exist_ok=True)
    json.dump(resd, open(cpath, "w"))
    return resd


if __name__ == "__main__":
    r = stage(int(os.environ.get("VERIF_SEED", "1")), sys.argv[1] if len(sys.argv) > 1 else "quick", sys.argv[2] if len(sys.argv) > 2 else "kessoku")
    print("cases", r["n"], "well-formed (hypothesis of the round-trip theorem)", r.get("well_formed"), "kinds", r["kinds"], "coq_ok", r["coq_ok"], r["log"][-500:])
    for m in r["mismatches"][:10]:
        print("MISMATCH", m)
    for e in r["errors"][:10]:
        print("ERROR", e)
