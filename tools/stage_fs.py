"""Installer under fault and crash injection (C15) and the CLI/agent matrix (C16).
The real CLI runs under `strace -f -e inject=...`: a file-system syscall fails (error=EIO) or the process is killed on
entry to it (signal=KILL). strace counts `when=N` per thread and the Go runtime migrates the goroutine, so N is swept and
the injected point is identified afterwards from the trace (which file, which step)."""
import hashlib, json, os, re, shutil, stat, sys
from concurrent.futures import ThreadPoolExecutor
import vlib

STEPS = ["mkdirat", "openat", "write", "fsync", "close", "fchmodat", "renameat"]     # program order; index = model step number
SKILL_SRC = os.path.join(vlib.REPO, "internal/llmsetup/skills/kessoku-di")


def embedded_tree():
    """relative path -> bytes, in fs.WalkDir (lexical) order"""
    out = []
    for root, dirs, files in os.walk(SKILL_SRC):
        dirs.sort()
        for f in sorted(files):
            p = os.path.join(root, f)
            out.append((os.path.relpath(p, SKILL_SRC), open(p, "rb").read()))
    # WalkDir visits entries of a directory in lexical order, files and directories interleaved
    def key(item):
        return item[0].split(os.sep)
    return sorted(out, key=key)


def snapshot(root):
    """path (relative) -> (kind, sha, mode, size)"""
    snap = {}
    for d, dirs, files in os.walk(root):
        for n in dirs + files:
            p = os.path.join(d, n)
            st = os.lstat(p)
            rel = os.path.relpath(p, root)
            if stat.S_ISLNK(st.st_mode):
                snap[rel] = ("link", os.readlink(p), 0, 0)
            elif stat.S_ISDIR(st.st_mode):
                snap[rel] = ("dir", "", stat.S_IMODE(st.st_mode), 0)
            else:
                snap[rel] = ("file", hashlib.sha256(open(p, "rb").read()).hexdigest()[:16], stat.S_IMODE(st.st_mode), st.st_size)
    return snap


def prepare_prior(base, kind, tree):
    """base/kessoku-di in the given prior state; returns {relpath: (bytes, mode)} of previous destination files"""
    skill = os.path.join(base, "kessoku-di")
    prior = {}
    if kind == "fresh":
        return prior
    os.makedirs(skill, exist_ok=True)
    if kind in ("older", "older_modes"):
        for i, (rel, data) in enumerate(tree):
            p = os.path.join(skill, rel)
            os.makedirs(os.path.dirname(p), exist_ok=True)
            old = b"OLD CONTENT %d\n" % i * (3 + i)
            with open(p, "wb") as f:
                f.write(old)
            mode = 0o644 if kind == "older" else [0o600, 0o666, 0o400, 0o640][i % 4]
            os.chmod(p, mode)
            prior[rel] = (old, mode)
    if kind == "partial":
        # only the first two files exist (an interrupted earlier install), plus an unrelated file and a stale temp file
        for i, (rel, data) in enumerate(tree[:2]):
            p = os.path.join(skill, rel)
            os.makedirs(os.path.dirname(p), exist_ok=True)
            with open(p, "wb") as f:
                f.write(data)
            os.chmod(p, 0o644)
            prior[rel] = (data, 0o644)
        with open(os.path.join(skill, "NOTES.txt"), "w") as f:
            f.write("unrelated\n")
        with open(os.path.join(skill, ".tmp-stale"), "w") as f:
            f.write("left by a dead run\n")
    return prior


OPENAT = re.compile(r'^(\d+)\s+openat\(AT_FDCWD, "([^"]+)", [^)]*\)\s+= (\d+)')
CALL = re.compile(r'^(\d+)\s+(\w+)\((.*)$')


def parse_trace(text, outdir):
    """Identify the injected/killed syscall: dict(step, path, file_index, injected, killed) or None when the injection did not
    concern the installation directory (runtime start-up calls)."""
    fdp = {}
    renames_done = 0
    hit = None
    for ln in text.splitlines():
        m = OPENAT.match(ln)
        if m:
            fdp[m.group(3)] = m.group(2)
        mm = CALL.match(ln)
        if not mm:
            continue
        sc, rest = mm.group(2), mm.group(3)
        marked = "(INJECTED)" in ln or rest.rstrip().endswith("= ?")
        if marked and hit is None:
            path = None
            if sc in ("write", "fsync", "close"):
                fd = re.match(r'(\d+)', rest)
                path = fdp.get(fd.group(1)) if fd else None
            else:
                ps = re.findall(r'"([^"]+)"', rest)
                path = ps[0] if ps else None
            if sc in STEPS and path and path.startswith(outdir):
                hit = dict(step=sc, n=STEPS.index(sc), path=path, file_index=renames_done, injected="(INJECTED)" in ln, line=ln[:240])
        if sc == "renameat" and rest.rstrip().endswith("= 0"):
            renames_done += 1
    if hit:
        hit["killed"] = "+++ killed by SIGKILL" in text
    return hit


def run_cli(kessoku, work, args, inject=None):
    """Run `kessoku llm-setup <args>` (under strace when injecting). Returns (rc, stderr, trace text)."""
    trace = os.path.join(work, "trace.txt")
    cmd = []
    if inject:
        cmd = ["strace", "-f", "-o", trace, "-e", "trace=mkdirat,openat,write,fsync,close,fchmodat,renameat,unlinkat", "-e", "inject=" + inject]
    cmd += [kessoku, "llm-setup"] + args
    env = dict(os.environ, GOMAXPROCS="1", HOME=os.path.join(work, "home"))
    os.makedirs(env["HOME"], exist_ok=True)
    rc, out, err = vlib.run(cmd, cwd=work, env=env, timeout=60)
    t = open(trace).read() if inject and os.path.exists(trace) else ""
    return rc, err, t


PRIORS = ["fresh", "older", "older_modes", "partial"]
MAXN = dict(mkdirat=4, openat=34, write=7, fsync=5, close=30, fchmodat=5, renameat=5)


def c15_runs(tier):
    """Sweep injections. Returns list of run records."""
    kessoku = vlib.build_kessoku()
    tree = embedded_tree()
    root = os.path.join(vlib.scratch(), "fs")
    os.makedirs(root, exist_ok=True)
    jobs = []
    k = 0
    priors = PRIORS if tier != "quick" else ["fresh", "older_modes", "partial"]
    for prior in priors:
        for mode in ("error", "kill"):
            for sc in STEPS:
                ns = range(1, MAXN[sc] + 1)
                if tier == "quick" and sc in ("openat", "close"):
                    ns = range(12, MAXN[sc] + 1)          # start-up calls of the Go runtime come first
                for n in ns:
                    k += 1
                    jobs.append((k, prior, mode, sc, n))
    def one(job):
        k, prior, mode, sc, n = job
        work = os.path.join(root, "r%d" % k)
        base = os.path.join(work, "out")
        os.makedirs(work)
        pr = prepare_prior(base, prior, tree)
        before = snapshot(base) if os.path.exists(base) else {}
        inj = "%s:%s:when=%d" % (sc, "error=EIO" if mode == "error" else "signal=KILL", n)
        rc, err, trace = run_cli(kessoku, work, ["claude-code", "--path", base], inj)
        hit = parse_trace(trace, base)
        after = snapshot(base) if os.path.exists(base) else {}
        rec = dict(k=k, prior=prior, mode=mode, syscall=sc, when=n, rc=rc, stderr=err[-400:], hit=hit, before=before, after=after)
        if hit and mode == "kill":
            rc2, err2, _ = run_cli(kessoku, work, ["claude-code", "--path", base])
            rec["rerun_rc"] = rc2
            rec["rerun_stderr"] = err2[-300:]
            rec["after_rerun"] = snapshot(base)
        shutil.rmtree(work, ignore_errors=True)
        return rec
    with ThreadPoolExecutor(max_workers=14) as ex:
        recs = list(ex.map(one, jobs))
    return tree, recs


def natural_faults(tier):
    """Failures that need no injection: a destination name occupied by a directory makes Rename fail."""
    kessoku = vlib.build_kessoku()
    tree = embedded_tree()
    root = os.path.join(vlib.scratch(), "fsn")
    recs = []
    for idx in range(len(tree)):
        for prior in ("fresh", "older"):
            work = os.path.join(root, "n%d%s" % (idx, prior))
            base = os.path.join(work, "out")
            os.makedirs(work)
            prepare_prior(base, prior, tree)
            obst = os.path.join(base, "kessoku-di", tree[idx][0])
            if os.path.exists(obst):
                os.remove(obst)
            os.makedirs(os.path.join(obst, "sub"))
            before = snapshot(base)
            rc, err, _ = run_cli(kessoku, work, ["claude-code", "--path", base])
            after = snapshot(base)
            recs.append(dict(k="nat-%d-%s" % (idx, prior), prior=prior, mode="error", syscall="renameat(natural: destination is a directory)", when=0, rc=rc, stderr=err[-300:],
                             hit=dict(step="renameat", n=6, file_index=idx, injected=False, killed=False, path=obst, line="destination is a non-empty directory"),
                             before=before, after=after, natural=True))
            shutil.rmtree(work, ignore_errors=True)
    return recs


def snapshot_follow(root):
    """like snapshot, but directories reached through symlinks are entered (paths as the installer sees them)"""
    snap = {}
    for d, dirs, files in os.walk(root, followlinks=True):
        for n in dirs + files:
            p = os.path.join(d, n)
            rel = os.path.relpath(p, root)
            if os.path.isdir(p):
                snap[rel] = ("dir", "", stat.S_IMODE(os.stat(p).st_mode), 0)
            elif os.path.isfile(p):
                st = os.stat(p)
                snap[rel] = ("file", hashlib.sha256(open(p, "rb").read()).hexdigest()[:16], stat.S_IMODE(st.st_mode), st.st_size)
    return snap


def symlinked_dir_faults(tier):
    """A previously installed tree in the stow/dotfiles layout: kessoku-di/references is a RELATIVE symlink to a directory
    kept elsewhere. A step fails without a crash (the destination name of one file is occupied by a non-empty directory):
    the installer must report the error, leave every other previous file intact or completely new, and keep the link."""
    kessoku = vlib.build_kessoku()
    tree = embedded_tree()
    root = os.path.join(vlib.scratch(), "fsl")
    recs = []
    sub = [k for k, (rel, _) in enumerate(tree) if rel.startswith("references" + os.sep)]
    for idx in (sub[-1:] if tier == "quick" else sub):
        for linked in ("references", "kessoku-di"):
            work = os.path.join(root, "l%d%s" % (idx, linked[0]))
            base = os.path.join(work, "out")
            os.makedirs(work)
            prepare_prior(base, "older", tree)
            store = os.path.join(work, "store")
            os.makedirs(store)
            if linked == "references":
                shutil.move(os.path.join(base, "kessoku-di", "references"), os.path.join(store, "references"))
                os.symlink(os.path.join("..", "..", "store", "references"), os.path.join(base, "kessoku-di", "references"))
                link = os.path.join(base, "kessoku-di", "references")
            else:
                shutil.move(os.path.join(base, "kessoku-di"), os.path.join(store, "kessoku-di"))
                os.symlink(os.path.join("..", "store", "kessoku-di"), os.path.join(base, "kessoku-di"))
                link = os.path.join(base, "kessoku-di")
            obst = os.path.join(base, "kessoku-di", tree[idx][0])
            os.remove(obst)
            os.makedirs(os.path.join(obst, "sub"))
            before = snapshot_follow(base)
            rc, err, _ = run_cli(kessoku, work, ["claude-code", "--path", base])
            after = snapshot_follow(base)
            extra = [] if os.path.islink(link) else ["the symlinked directory %s was replaced (it is no longer a link)" % os.path.relpath(link, base)]
            recs.append(dict(k="lnk-%d-%s" % (idx, linked), prior="older, %s is a relative symlink to a directory" % linked, mode="error",
                             syscall="renameat(natural: destination is a directory)", when=0, rc=rc, stderr=err[-300:],
                             hit=dict(step="renameat", n=6, file_index=idx, injected=False, killed=False, path=obst, line="destination is a non-empty directory"),
                             before=before, after=after, natural=True, extra_problems=extra))
            shutil.rmtree(work, ignore_errors=True)
    return recs


def c15_oracle(tree, rec):
    """The property's text applied to one run. Returns list of problems."""
    probs = list(rec.get("extra_problems", []))
    hit = rec["hit"]
    i, n = hit["file_index"], hit["n"]
    pre = "kessoku-di" + os.sep
    def cell(snap, rel):
        return snap.get(pre + rel)
    newcell = lambda data: ("file", hashlib.sha256(data).hexdigest()[:16], 0o644, len(data))
    tmps_before = {p for p in rec["before"] if os.path.basename(p).startswith(".tmp-")}
    tmps_after = {p for p in rec["after"] if os.path.basename(p).startswith(".tmp-")} - tmps_before
    for k, (rel, data) in enumerate(tree):
        b, a = cell(rec["before"], rel), cell(rec["after"], rel)
        if rec.get("natural") and k == i:
            if a != b:
                probs.append("the obstructing directory at %s was modified" % rel)
            continue
        if a != b and a != newcell(data):
            probs.append("destination %s is neither its previous state %s nor the complete new file: %s" % (rel, b, a))
        if rec["mode"] == "error":
            if k == i and a != b:
                probs.append("failed step left the previous destination %s changed: %s -> %s" % (rel, b, a))
    if rec["mode"] == "error":
        if rec["rc"] == 0:
            probs.append("a file-system step failed (%s) but the installer exited 0" % hit["step"])
        elif "Error" not in rec["stderr"]:
            probs.append("installer failed without reporting an error")
        if tmps_after:
            probs.append("temporary file(s) left behind after a failed step: %s" % sorted(tmps_after))
    else:
        if rec.get("rerun_rc") != 0:
            probs.append("a later run did not succeed after the crash: rc=%s %s" % (rec.get("rerun_rc"), rec.get("rerun_stderr")))
        else:
            for rel, data in tree:
                if cell(rec["after_rerun"], rel) != newcell(data):
                    probs.append("after the later run %s is not the complete new file with mode 0644: %s" % (rel, cell(rec["after_rerun"], rel)))
    # unrelated paths untouched
    dsts = {pre + rel for rel, _ in tree}
    for pth, v in rec["before"].items():
        if pth not in dsts and v[0] != "dir" and rec["after"].get(pth) != v and not (rec.get("natural")):
            probs.append("unrelated path %s changed" % pth)
    return probs


def c15_coq_case(tree, rec, cid):
    """(id, model term, observed) for the Coq comparison of Install.fail / Install.crash with the real outcome."""
    hit = rec["hit"]
    i, n = hit["file_index"], hit["n"]
    pre = "kessoku-di" + os.sep
    newsha = [hashlib.sha256(d).hexdigest()[:16] for _, d in tree]
    def code(c, k):
        if c is None or c[0] != "file":
            return "None"
        cont = "[%d]" % (100 + k) if c[1] == newsha[k] else ("[]" if c[3] == 0 else "[%d]" % (50 + k))
        return "Some (%s, %d)" % (cont, c[2])
    jobs = "[" + "; ".join("{| dst := %d; cnt := [%d]; tmp := %d |}" % (k + 1, 100 + k, 20 + k) for k in range(len(tree))) + "]"
    prior = "(fun q => match q with " + " ".join("| %d => %s" % (k + 1, code(rec["before"].get(pre + rel), k)) for k, (rel, _) in enumerate(tree)) + " | _ => None end)"
    obs_dst = "[" + "; ".join("(%d, %s)" % (k + 1, code(rec["after"].get(pre + rel), k)) for k, (rel, _) in enumerate(tree)) + "]"
    tmps_before = {p for p in rec["before"] if os.path.basename(p).startswith(".tmp-")}
    tmps = [p for p in rec["after"] if os.path.basename(p).startswith(".tmp-") and p not in tmps_before]
    if len(tmps) > 1:
        return None
    tcell = code(rec["after"][tmps[0]], i) if tmps else "None"
    obs = "%s ++ [(%d, %s)]" % (obs_dst, 20 + i, tcell)
    fn = "fail" if rec["mode"] == "error" else "crash"
    return "(%d, (%s %s %d %d None %s, %s))" % (cid, fn, jobs, i, n, prior, obs)


# ------------------------------------------------------------------ C16: agents x options x prior states

def registry_from_table():
    """agent rows from coq/Agents_gen.v (regenerated from the source in this run)"""
    txt = open(os.path.join(vlib.COQ, "Agents_gen.v")).read()
    rows = re.findall(r'a_type := "([^"]*)"; a_name := "([^"]*)"; a_src := "([^"]*)"; a_skill := "([^"]*)"; a_proj := "([^"]*)"; a_user := "([^"]*)"', txt)
    readme = re.search(r"Definition readme_agents[^\[]*\[(.*?)\]\.", txt, re.S)
    names = re.findall(r'\("[^"]*", "([^"]*)"\)', readme.group(1)) if readme else []
    return [dict(type=r[0], name=r[1], src=r[2], skill=r[3], proj=r[4], user=r[5]) for r in rows], names


C16_PRIORS = ["absent", "older", "same_odd", "unrelated", "base_is_file", "base_is_symlink"]


def c16_runs(tier):
    kessoku = vlib.build_kessoku()
    tree = embedded_tree()
    agents, readme_names = registry_from_table()
    root = os.path.join(vlib.scratch(), "c16")
    jobs = []
    k = 0
    opts = ["default", "user", "path_rel", "path_abs", "path_user", "path_rel_user", "path_dotdot", "path_abs_dotdot"]
    for a in agents:
        for o in opts:
            for pr in C16_PRIORS:
                k += 1
                jobs.append((k, a, o, pr))
    def one(job):
        k, a, o, pr = job
        work = os.path.join(root, "w%d" % k)
        home = os.path.join(work, "home")
        cwd = os.path.join(work, "proj")
        other = os.path.join(work, "elsewhere")
        for d in (home, cwd, other):
            os.makedirs(d)
        with open(os.path.join(home, "keep.txt"), "w") as f:
            f.write("home file\n")
        with open(os.path.join(cwd, "main.go"), "w") as f:
            f.write("package main\n")
        args = [a["name"]]
        custom = ""
        user = o in ("user", "path_user", "path_rel_user")
        if o in ("path_rel", "path_rel_user"):
            custom = "custom/rel"
        elif o in ("path_abs", "path_user"):
            custom = os.path.join(other, "abs")
        if o == "path_abs_dotdot":
            # the same through an ABSOLUTE path
            os.makedirs(os.path.join(other, "deep", "dir"))
            os.symlink(os.path.join(other, "deep", "dir"), os.path.join(cwd, "lnk"))
            custom = os.path.join(cwd, "lnk", "..", "viaparent")
        if o == "path_dotdot":
            # a relative path that climbs out of a symlinked directory: the operating system applies ".." AFTER following
            # the link, so lnk/../viaparent is a sibling of the link's target, not of the link
            os.makedirs(os.path.join(other, "deep", "dir"))
            os.symlink(os.path.join(other, "deep", "dir"), os.path.join(cwd, "lnk"))
            custom = "lnk/../viaparent"
        if custom:
            args += ["--path", custom]
        if user:
            args += ["--user"]
        if o in ("path_dotdot", "path_abs_dotdot"):
            base = os.path.join(other, "deep", "viaparent")
        elif custom:
            base = custom if custom.startswith("/") else os.path.join(cwd, custom)
        elif user:
            base = os.path.join(home, a["user"])
        else:
            base = os.path.join(cwd, a["proj"])
        skill = os.path.join(base, a["skill"])
        # prior state
        if pr == "older":
            prepare_prior(base, "older_modes", tree)
        elif pr == "same_odd":
            # an older install with identical content but odd modes, and one file that is a symlink to an identical copy
            for i, (rel, data) in enumerate(tree):
                p = os.path.join(skill, rel)
                os.makedirs(os.path.dirname(p), exist_ok=True)
                if i == 1:
                    tgt = os.path.join(other, "copy-%d" % i)
                    open(tgt, "wb").write(data)
                    os.symlink(tgt, p)
                else:
                    open(p, "wb").write(data)
                    os.chmod(p, [0o600, 0o644, 0o666, 0o400][i % 4])
        elif pr == "unrelated":
            os.makedirs(os.path.join(skill, "references"), exist_ok=True)
            open(os.path.join(skill, "MINE.md"), "w").write("user notes\n")
            open(os.path.join(base, "sibling.txt"), "w").write("sibling\n")
        elif pr == "base_is_file":
            os.makedirs(os.path.dirname(base), exist_ok=True)
            open(base, "w").write("i am a file\n")
        physical = skill
        if pr == "base_is_symlink":
            # the base directory is a symlink to a directory kept elsewhere (dotfiles layout), holding an unrelated file
            real = os.path.join(other, "realbase")
            os.makedirs(real)
            open(os.path.join(real, "NOTES.md"), "w").write("mine\n")
            os.makedirs(os.path.dirname(base), exist_ok=True)
            os.symlink(real, base)
            physical = os.path.join(real, a["skill"])
        before = snapshot(work)
        env = dict(os.environ, HOME=home, GOMAXPROCS="2")
        # the process umask must not matter: the property fixes mode 0644 for every file
        um = ["022", "027", "077", "002"][k % 4]
        rc, out, err = vlib.run(["sh", "-c", 'umask %s; exec "$@"' % um, "sh", kessoku, "llm-setup"] + args, cwd=cwd, env=env, timeout=60)
        after = snapshot(work)
        m = re.search(r"Skills installed to: (.*)", out)
        # the symbolic links of the scratch tree, so that a path can be resolved the way the operating system does after the
        # tree is gone (the model names the documented directory, the CLI may report its physical path)
        links = {}
        for dp, dns, fns in os.walk(work):
            for n in dns + fns:
                q = os.path.join(dp, n)
                if os.path.islink(q):
                    links[q] = os.readlink(q)
        rec = dict(links=links, k=k, agent=a["name"], opt=o, prior=pr, umask=um, rc=rc, stdout=out[-300:], stderr=err[-300:], reported=m.group(1).strip() if m else None,
                   expected_dir=os.path.relpath(physical, work), expected_reported=os.path.relpath(skill, work), work=work, custom=custom, user=user, home=home, cwd=cwd, before=before, after=after)
        shutil.rmtree(work, ignore_errors=True)
        return rec
    with ThreadPoolExecutor(max_workers=14) as ex:
        recs = list(ex.map(one, jobs))
    rc, helpout, helperr = vlib.run([kessoku, "llm-setup", "--help"], timeout=60)
    return tree, agents, readme_names, recs, helpout + helperr


def c16_oracle(tree, rec):
    probs = []
    before, after = rec["before"], rec["after"]
    exp = rec["expected_dir"]
    if rec["prior"] == "base_is_file":
        if rec["rc"] == 0:
            probs.append("base path is a file but the installer exited 0")
        if before != after:
            ch = [p for p in set(before) | set(after) if before.get(p) != after.get(p)]
            probs.append("installation failed but the tree changed: %s" % ch[:5])
        return probs
    if rec["rc"] != 0:
        probs.append("installer failed: %s" % rec["stderr"][-200:])
        return probs
    want = {}
    for rel, data in tree:
        want[os.path.join(exp, rel)] = ("file", hashlib.sha256(data).hexdigest()[:16], 0o644, len(data))
    for p, v in want.items():
        if after.get(p) != v:
            probs.append("%s is %s, expected a regular file with the embedded content and mode 0644" % (p, after.get(p)))
    exp_rep = rec.get("expected_reported", exp)
    # (the directory may be named through a symbolic link or by its physical path: both denote the documented location)
    if rec["reported"] is None or os.path.relpath(rec["reported"], rec["work"]) not in (exp_rep, exp):
        probs.append("reported installation directory %s, documented location is %s" % (rec["reported"], exp_rep))
    # nothing else created or modified, apart from missing parent directories of the skill directory
    for p in set(before) | set(after):
        if p in want:
            continue
        b, a = before.get(p), after.get(p)
        if b == a:
            continue
        if b is None and a and a[0] == "dir" and (exp + os.sep).startswith(p + os.sep):
            continue                      # created ancestor (or the skill directory itself)
        if b is None and a and a[0] == "dir" and p.startswith(exp + os.sep):
            continue                      # sub-directory of the tree
        probs.append("path outside the installed tree created or modified: %s: %s -> %s" % (p, b, a))
    return probs


def resolve_path(path, links, depth=0):
    """path as the operating system resolves it, given the symbolic links {absolute link path: target} (.. after links)"""
    if depth > 20:
        return path
    cur = "/"
    for c in path.split("/"):
        if c in ("", "."):
            continue
        if c == "..":
            cur = os.path.dirname(cur)
            continue
        nxt = os.path.join(cur, c)
        if nxt in links:
            t = links[nxt]
            nxt = resolve_path(t if t.startswith("/") else os.path.join(cur, t), links, depth + 1)
        cur = nxt
    return cur
