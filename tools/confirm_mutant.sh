#!/bin/sh
# usage: confirm_mutant.sh <dir with patch.diff and demo/run.sh> [notest]
# Confirms a seeded change in scratch worktrees of /repo (never in /repo itself): the demo passes on the clean tree, the
# existing suite passes with the change, the demo fails with the change.  Worktrees are removed afterwards.
d=$1; id=$(basename "$d"); wt=/tmp/cm-$id-$$
git -C /repo worktree add -q --detach "$wt" HEAD || exit 2
trap 'git -C /repo worktree remove --force "$wt" >/dev/null 2>&1' EXIT
(cd "$wt" && timeout 900 bash "$d/demo/run.sh" "$wt" >"/tmp/cm-$id-clean.log" 2>&1); c=$?
git -C "$wt" checkout -q -- . ; git -C "$wt" clean -fdq
git -C "$wt" apply "$d/patch.diff" || { echo "patch does not apply"; exit 2; }
t=skipped
if [ "$2" != notest ]; then (cd "$wt" && timeout 1500 go test -vet=off -count=1 ./... >"/tmp/cm-$id-test.log" 2>&1); t=$?; git -C "$wt" checkout -q -- go.work.sum 2>/dev/null; fi
(cd "$wt" && timeout 900 bash "$d/demo/run.sh" "$wt" >"/tmp/cm-$id-mut.log" 2>&1); m=$?
echo "$id: demo_clean=$c tests_with_change=$t demo_with_change=$m"
