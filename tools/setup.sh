#!/bin/sh
# Build the framework offline: Coq development (full .vo build) and the harness tools.
set -e
cd "$(dirname "$0")/.."
export PATH=/opt/veriftools/go1.26.8/bin:$PATH GOTOOLCHAIN=local GOPROXY=off GOSUMDB=off GOWORK=off GOFLAGS=-mod=mod
mkdir -p build .cache/gocache evidence
export GOCACHE="$PWD/.cache/gocache"
(cd harness && go build -o ../build/bandparse ./cmd/bandparse && go build -o ../build/gentables ./cmd/gentables)
(cd harness/wirebuild && go build -o ../../build/wire github.com/google/wire/cmd/wire)
python3 tools/gen_tables.py
(cd coq && coq_makefile -f _CoqProject -o Makefile >/dev/null && timeout 3000 make -j16 >../build/coq_build.log 2>&1) || { tail -30 build/coq_build.log; exit 1; }
if grep -rnE '\b(Admitted|admit|Axiom|Parameter|Conjecture)\b' coq --include=*.v | grep -v '^\s*(\*' ; then echo "forbidden construct"; exit 1; fi
echo setup ok
