"""Static correspondence S (DESIGN 4.1): declarations -> real kessoku -> bandparse -> Coq comparison with the model."""
import json, os, random, re, shutil, sys
from concurrent.futures import ThreadPoolExecutor
import vlib, declgen
from declgen import CTX


# ------------------------------------------------------------------ generation of packages

def make_packages(seed, npk, per_file, files_per_pkg=1, malformed_frac=0.0, opts=None):
    """Returns list of packages: dict(name, files=[dict(fname, decls=[...])])."""
    rnd = random.Random(seed)
    pkgs = []
    k = 0
    for pi in range(npk):
        files = []
        for fi in range(files_per_pkg if pi % 3 else 1):
            decls = []
            for _ in range(per_file):
                decls.append(declgen.gen_decl(rnd, k, opts))
                k += 1
                if rnd.random() < 0.3 and decls[-1]["ret"] != "%sA9" % decls[-1]["prefix"]:
                    decls.append(declgen.twin_decl(rnd, decls[-1]))
            files.append(dict(fname="%s.go" % "abcdef"[fi], decls=decls))
        pkgs.append(dict(name="p%d" % pi, files=files, kind="valid"))
    # directed reproducers of the open concurrency findings: one package each (keeps `ctx` named ctx)
    for i, kd in enumerate(declgen.known_finding_decls()):
        pkgs.append(dict(name="kf%d" % i, files=[dict(fname="a.go", decls=[kd])], kind="valid"))
    shp = declgen.shape_decls(8500)
    for i in range(0, len(shp), 10):
        pkgs.append(dict(name="sh%d" % (i // 10), files=[dict(fname="a.go", decls=shp[i:i + 10])], kind="valid"))
    zf = declgen.sync_fanin_leaves(9500)
    for i in range(0, len(zf), 8):
        pkgs.append(dict(name="yz%d" % (i // 8), files=[dict(fname="a.go", decls=zf[i:i + 8])], kind="valid"))
    me = declgen.multi_edge_decls(9700)
    for i in range(0, len(me), 8):
        pkgs.append(dict(name="yw%d" % (i // 8), files=[dict(fname="a.go", decls=me[i:i + 8])], kind="valid"))
    # the user's package declares ctx, eg and err itself: the injector's context parameter and locals get other names, and
    # every emission path has to use the name that was handed out (a path that falls back to a literal "ctx" still compiles
    # here and waits on the package's background context, which is never cancelled)
    rc = random.Random(seed * 31 + 7)
    for yi in range(2):
        ycd = [declgen.gen_decl(rc, 9800 + 10 * yi + j, dict(n=rc.choice([6, 8, 9, 10]))) for j in range(8)]
        pkgs.append(dict(name="yc%d" % yi, files=[dict(fname="a.go", decls=ycd)], kind="valid",
                     extra_files={"zz_names.go": "package main\n\nimport \"context\"\n\n// names a generated injector would like to use\nvar ctx = context.Background()\n\nvar eg, err = 0, error(nil)\n"}))
    cm = declgen.ctx_mid_decls(8000)
    pkgs.append(dict(name="cm0", files=[dict(fname="a.go", decls=cm)], kind="valid"))
    # systematic stream (C05): all async masks x all discovery orders of 2..3 parameterless providers
    sysd = list(declgen.systematic_leaves(9000))
    for i in range(0, len(sysd), 14):
        pkgs.append(dict(name="y%d" % (i // 14), files=[dict(fname="a.go", decls=sysd[i:i + 14])], kind="valid"))
    return pkgs


def make_malformed_packages(seed, count):
    """One declaration per package (a refused declaration aborts the whole invocation)."""
    rnd = random.Random(seed ^ 0x5EED)
    pkgs = []
    k = 0
    tries = 0
    kinds = ["cycle", "dup", "orphan", "dupfield", "cycle_mv", "dup_mv", "orphan_self", "dup_sets", "cycle_self_bind"]
    while len(pkgs) < count and tries < count * 20:
        tries += 1
        kind = kinds[len(pkgs) % len(kinds)]
        base = declgen.gen_decl(rnd, 5000 + k, dict(n=rnd.choice([2, 3, 4, 5, 6, 8]), bindmv=kind.endswith("_mv")))
        d = declgen.mutate_malformed(rnd, base, kind)
        if d is None:
            continue
        k += 1
        # a second, valid declaration in the same file must not be emitted either: the file's output is neither created nor modified
        decls = [d]
        if len(pkgs) % 2 == 1:
            comp = declgen.gen_decl(rnd, 7000 + k, dict(n=rnd.choice([1, 2, 3])))
            comp["kind"] = "companion"
            decls = [comp, d] if rnd.random() < 0.5 else [d, comp]
        files = [dict(fname="a.go", decls=decls)]
        pkgs.append(dict(name="m%d" % len(pkgs), files=files, kind=d["kind"]))
    return pkgs


def write_package(mod, pkg):
    d = os.path.join(mod, pkg["name"])
    os.makedirs(d, exist_ok=True)
    for f in pkg["files"]:
        with open(os.path.join(d, f["fname"]), "w") as fh:
            fh.write(declgen.render_file(f["decls"]))
    for fname, text in (pkg.get("extra_files") or {}).items():
        with open(os.path.join(d, fname), "w") as fh:
            fh.write(text)
    return d


SENTINEL = "// sentinel: previous output, must survive a refused run\npackage main\n"


def run_generator(kessoku, pkgdir, pkg, sentinel=False):
    files = [f["fname"] for f in pkg["files"]]
    if sentinel:
        for fn in files:
            with open(os.path.join(pkgdir, fn[:-3] + "_band.go"), "w") as fh:
                fh.write(SENTINEL)
    rc, out, err = vlib.run([kessoku] + files, cwd=pkgdir, env=vlib.goenv(), timeout=120)
    return rc, out, err


# ------------------------------------------------------------------ observation -> abstract program

class Unparsed(Exception):
    pass


def type_table(d):
    tt = {CTX: 0}
    def tid(t):
        if t not in tt:
            tt[t] = len(tt)
        return tt[t]
    for p in d["provs"]:
        for t in p["requires"]:
            tid(t)
        for g in p["provides"]:
            for t in g:
                tid(t)
        if p["kind"] == "struct":
            for f in p["fields"]:
                tid(f[1])
            for iface in p.get("bind", []):
                tid(iface)
    tid(d["ret"])
    return tt


def provider_index(d):
    """name used in the generated call -> provider index; field name -> index of the synthetic field provider"""
    pidx = {}
    for i, p in enumerate(d["provs"]):
        if p["kind"] == "fn":
            pidx["Provide:" + p["fn"]] = i
        elif p["kind"] == "value":
            pidx["Value:" + p["var"]] = i
    fidx = {(d["provs"][i]["type"], fn): k for (i, fn), k in (declgen.field_index(d) or {}).items()}
    return pidx, fidx


def type_of_var(d, sv):
    """type of the variable ('var', provider index, result index): a declared provider's result, or - when the struct read
    from is itself a field of another expanded struct - that field's type"""
    if sv[1] < len(d["provs"]):
        return d["provs"][sv[1]]["provides"][sv[2]][0]
    sti, sfn = [k for k, v in (declgen.field_index(d) or {}).items() if v == sv[1]][0]
    return [ft for (fn_, ft) in d["provs"][sti]["fields"] if fn_ == sfn][0]


def unalias(t, imports):
    """undo import aliases chosen by the generator (context0.Context -> context.Context)"""
    for im in imports or []:
        if im["name"] and im["name"] not in ("_", "."):
            default = im["path"].split("/")[-1]
            t = re.sub(r"\b%s\." % re.escape(im["name"]), default + ".", t)
    return t


def observe_func(d, fn, imports=None):
    """bandparse function record -> observation dict (abstract program + signature + surface facts)."""
    fn = json.loads(json.dumps(fn))
    for p in fn["params"]:
        p["type"] = unalias(p["type"], imports)
    fn["results"] = [unalias(t, imports) for t in fn["results"]]
    if fn["unparsed"]:
        raise Unparsed("unparsed constructs: %s" % fn["unparsed"][:3])
    tt = type_table(d)
    pidx, fidx = provider_index(d)
    params = fn["params"]
    varmap = {}      # go variable -> ('arg', type) | ('var', pi, gi)
    vartype = {}
    for p in params:
        varmap[p["name"]] = ("arg", p["type"])
    chan_of = {}
    last = None
    for v in fn["vars"]:
        if v["chan"]:
            if last is None:
                raise Unparsed("channel %s without variable" % v["name"])
            chan_of[v["name"]] = last
        else:
            last = v["name"]
            vartype[v["name"]] = v["type"]
    threads = fn["threads"]
    # a function literal given as provider forwards to the instrumented function: recognise it by the function it calls
    for th in threads:
        for op in th:
            if op["op"] == "call" and isinstance(op.get("prov"), str) and op["prov"].startswith("Provide:func("):
                m = re.search(r"return (New\w+)\(", op["prov"])
                if m and "Provide:" + m.group(1) in pidx:
                    op["prov"] = "Provide:" + m.group(1)
    # pass 1: variable definitions
    struct_type_of_var = {}
    for th in threads:
        for op in th:
            if op["op"] == "call":
                if op.get("prov") not in pidx:
                    raise Unparsed("unknown provider %r" % op.get("prov"))
                pi = pidx[op["prov"]]
                outs = [x for x in op.get("lhs", []) if x != op.get("err")]
                if len(outs) != len(d["provs"][pi]["provides"]):
                    raise Unparsed("result arity of %s" % op["prov"])
                for gi, o in enumerate(outs):
                    if o != "_":
                        if o in varmap:
                            raise Unparsed("variable %s assigned twice" % o)
                        varmap[o] = ("var", pi, gi)
    for th in threads:
        for op in th:
            if op["op"] == "field":
                sv = varmap.get(op["struct"])
                if not sv or sv[0] != "var":
                    raise Unparsed("field read from non-provided %s" % op["struct"])
                st = type_of_var(d, sv)
                key = (st, op["field"])
                if key not in fidx:
                    raise Unparsed("unknown field %s.%s" % key)
                if op["lhs"][0] != "_":
                    varmap[op["lhs"][0]] = ("var", fidx[key], 0)
    defects = []
    sup, _ = declgen.supplier_map(d)
    def src(v):
        m = varmap.get(v)
        if m is None:
            # declared in the var block but never assigned: identify it through its type
            t = unalias(vartype.get(v, ""), imports)
            if sup and t in sup:
                key, gi = sup[t]
                pi = fidx.get((d["provs"][key[1]]["type"], key[2])) if isinstance(key, tuple) else key
                if pi is not None:
                    if ("unassigned", v) not in defects:
                        defects.append(("unassigned", v))
                    return ("var", pi, gi)
            raise Unparsed("use of unknown variable %s" % v)
        return m
    def chsrc(c):
        if c not in chan_of:
            raise Unparsed("unknown channel %s" % c)
        return src(chan_of[c])
    def items(th, is_main):
        res = []
        pend = []
        pend_ctx = None
        surface = []
        for op in th:
            o = op["op"]
            if o == "wait":
                if pend:
                    raise Unparsed("two wait statements before one call")
                pend = [chsrc(c) for c in op["chans"]]
                pend_ctx = (op.get("ctx", False), op.get("errret", ""), op["form"])
            elif o == "call":
                pi = pidx[op["prov"]]
                res.append(dict(pi=pi, args=[src(a) for a in op.get("args", [])], waits=pend, closes=[],
                                fall=bool(op.get("err")), async_=bool(op.get("async")),
                                wait_ctx=pend_ctx, define=op.get("define", False), errret=op.get("errret", ""),
                                lhs=op.get("lhs", [])))
                pend, pend_ctx = [], None
            elif o == "field":
                sv = src(op["struct"])
                st = type_of_var(d, sv)
                res.append(dict(pi=fidx[(st, op["field"])], args=[sv], waits=pend, closes=[], fall=False, async_=False,
                                wait_ctx=pend_ctx, define=op.get("define", False), errret="", lhs=op["lhs"]))
                pend, pend_ctx = [], None
            elif o == "close":
                if not res or res[-1]["closes"]:
                    raise Unparsed("close without a preceding call")
                cl = [chsrc(c) for c in op["chans"]]
                for c in cl:
                    if c[0] != "var" or c[1] != res[-1]["pi"]:
                        raise Unparsed("close of a channel that is not the preceding call's")
                res[-1]["closes"] = [c[2] for c in cl]
            elif o in ("vardecl", "go", "egwait", "ret"):
                surface.append(op)
            else:
                raise Unparsed("op " + o)
        if pend:
            raise Unparsed("dangling wait")
        return res, surface
    main, msurf = items(threads[0], True)
    gos = []
    for th in threads[1:]:
        it, s = items(th, False)
        gos.append(it)
    # all eg.Go statements precede the main thread's first own statement
    seen_other = False
    go_first = True
    for op in threads[0]:
        if op["op"] == "go":
            if seen_other:
                go_first = False
        elif op["op"] in ("call", "wait", "field", "close", "vardecl"):
            seen_other = True
    results = fn["results"]
    # surface rules of the emitted text (wait flavours, error-return forms, errgroup declaration, := vs =): the part of the
    # generator model that Sem2's ctxaware / p_reterr encode, checked on the text itself
    surf = []
    reterr_ = (len(results) == 2 and results[1] == "error")
    has_gos = len(threads) > 1
    ctxparams = [p["name"] for p in params if p["type"] == CTX]
    if has_gos:
        if not fn["eg"].startswith("ctx:") or not ctxparams or fn["eg"].split(":")[1] != ctxparams[0]:
            surf.append("goroutines exist but the errgroup is not derived from the context parameter (eg=%r, ctx params %s)" % (fn["eg"], ctxparams))
    for ti, th in enumerate([main] + gos):
        for it in th:
            wc = it.get("wait_ctx")
            if wc:
                want_ctx = True if ti > 0 else reterr_
                if wc[0] != want_ctx:
                    surf.append("%s wait before provider %d is %s" % ("goroutine" if ti else "main-thread", it["pi"], "a plain receive (not ctx-aware)" if not wc[0] else "ctx-aware although the injector has no error result"))
                if wc[0] and ((ti > 0 and wc[1] != "plain") or (ti == 0 and not wc[1].startswith("zero:"))):
                    surf.append("ctx branch of the wait before provider %d returns through form %r" % (it["pi"], wc[1]))
            if it["fall"]:
                er = it.get("errret", "")
                ok_form = (ti > 0 and er == "plain") or (ti == 0 and reterr_ and er.startswith("zero:"))
                if not ok_form:
                    surf.append("error of fallible provider %d is handled through form %r" % (it["pi"], er))
            if it.get("define") == has_gos and it["pi"] < len(d["provs"]):
                surf.append("provider %d assigned with %s although the injector %s its variables" % (it["pi"], ":=" if it.get("define") else "=", "predeclares" if has_gos else "does not predeclare"))
    egw = [op for op in msurf if op["op"] == "egwait"]
    if has_gos:
        if len(egw) != 1 or (reterr_ and (egw[0]["form"] != "if" or not (egw[0].get("errret") == "nilerr" or str(egw[0].get("errret", "")).startswith("zero:")))) or (not reterr_ and egw[0]["form"] != "discard"):
            surf.append("eg.Wait() form %s does not match the injector's results" % egw)
    elif egw:
        surf.append("eg.Wait() without goroutines")
    return dict(surface_problems=surf, name=fn["name"], params=[p["type"] for p in params], param_names=[p["name"] for p in params], results=results,
                reterr=(len(results) == 2 and results[1] == "error"), main=main, gos=gos, go_first=go_first,
                defects=["variable %s is read but never assigned" % v for _, v in defects],
                eg=fn["eg"], has_var=fn["has_var"], vars=fn["vars"], surface=msurf, tt=tt)


# ------------------------------------------------------------------ Gallina printing

ERRTY = 999999      # the predeclared type error in the written form of a declaration (no declared type has this number)


def coq_tree(d, tt):
    """The declaration as WRITTEN (ParseDecl.pexpr): wrappers in the order provider_expr nests them, Sets as the layout
    groups them. Returns (argument list term, implements table term, fields table term)."""
    def pe(p):
        if p["kind"] == "struct":
            e = "XStruct %d%%N" % tt[p["type"]]
            if p.get("wrap") == "async" and p.get("nest") == "bind_outer":
                e = "XAsync (%s)" % e
            for iface in p.get("bind", []):
                e = "XBind %d%%N (%s)" % (tt[iface], e)
            if p.get("wrap") == "async" and p.get("nest") != "bind_outer":
                e = "XAsync (%s)" % e
            return e
        if p["kind"] == "value":
            e = "XValue %d%%N" % tt[p["provides"][0][0]]
            for iface in p.get("bind", []):
                e = "XBind %d%%N (%s)" % (tt[iface], e)
            return e
        rets = ["%d%%N" % tt[g[0]] for g in p["provides"]] + (["%d%%N" % ERRTY] if p["fallible"] else [])
        e = "XProvide [%s] [%s]" % ("; ".join("%d%%N" % tt[t] for t in p["requires"]), "; ".join(rets))
        if p["async"] and p.get("nest") == "bind_outer":
            e = "XAsync (%s)" % e
            for iface in p.get("bind", []):
                e = "XBind %d%%N (%s)" % (tt[iface], e)
            return e
        for iface in p.get("bind", []):
            e = "XBind %d%%N (%s)" % (tt[iface], e)
        return "XAsync (%s)" % e if p["async"] else e
    seen_order = []
    def walk(layout):
        for it in layout:
            if isinstance(it, int):
                seen_order.append(it)
            else:
                walk(it[1])
    walk(d["layout"])
    if seen_order != list(range(len(d["provs"]))):
        raise Unparsed("harness: the layout of %s does not list the providers in index order" % d["name"])
    def lay(layout):
        return "[" + "; ".join(pe(d["provs"][it]) if isinstance(it, int) else "XSet %s" % lay(it[1]) for it in layout) + "]"
    impl = []
    for p in d["provs"]:
        for iface in p.get("bind", []):
            impl.append("(%d%%N, %d%%N)" % (tt[p["type"] if p["kind"] == "struct" else p["provides"][0][0]], tt[iface]))
    ftbl = []
    for p in d["provs"]:
        if p["kind"] == "struct":
            ftbl.append("(%d%%N, [%s])" % (tt[p["type"]], "; ".join("(%d%%N, %d%%N)" % (k + 1, tt[ft]) for k, (fn, ft) in enumerate(p["fields"]))))
    return lay(d["layout"]), "[" + "; ".join(impl) + "]", "[" + "; ".join(ftbl) + "]"


def coq_decl(d, tt):
    """the declaration the model works on: the written form, decoded by ParseDecl.parse"""
    tree, impl, ftbl = coq_tree(d, tt)
    return "(decl_of_tree %d%%N %s %d%%N %s %s)" % (tt[d["ret"]], impl, ERRTY, ftbl, tree)


def coq_decl_flat(d, tt):
    """the harness's own flat provider list (reference for ParseDecl.tree_code); an interface bound to a Struct expansion sits
    in the result group of the struct's source (the first provider function that provides the struct type)"""
    extra = {}
    for sp in d["provs"]:
        if sp["kind"] == "struct" and sp.get("bind"):
            for i, q in enumerate(d["provs"]):
                hit = [gi for gi, g in enumerate(q["provides"]) if sp["type"] in g] if q["kind"] != "struct" else []
                if hit:
                    for gi in hit:
                        extra.setdefault((i, gi), []).extend(sp["bind"])
                    break
    d = dict(d, provs=[dict(q, provides=[g + extra.get((i, gi), []) for gi, g in enumerate(q["provides"])]) for i, q in enumerate(d["provs"])])
    ps = []
    for p in d["provs"]:
        if p["kind"] == "struct":
            ps.append("mkstruct %d%%N [%s]" % (tt[p["type"]], "; ".join("(%d%%N, %d%%N)" % (k + 1, tt[ft]) for k, (fn, ft) in enumerate(p["fields"]))))
        else:
            ps.append("mkfn [%s] [%s] %s %s" % ("; ".join("%d%%N" % tt[t] for t in p["requires"]),
                                                   "; ".join("[%s]" % "; ".join("%d%%N" % tt[t] for t in g) for g in p["provides"]),
                                                   str(bool(p["fallible"])).lower(), str(bool(p["async"])).lower()))
    return "{| d_ret := %d%%N; d_provs := [%s] |}" % (tt[d["ret"]], "; ".join(ps))


def coq_src(s, tt):
    if s[0] == "arg":
        if s[1] not in tt:
            raise Unparsed("argument of a type unknown to the declaration: " + s[1])
        return "SArg %d%%N" % tt[s[1]]
    return "SVar %d %d" % (s[1], s[2])


def coq_items(its, tt):
    return "[" + "; ".join("mkx %d [%s] [%s] [%s] %s %s" % (it["pi"], "; ".join(coq_src(a, tt) for a in it["args"]),
                                                             "; ".join(coq_src(a, tt) for a in it["waits"]),
                                                             "; ".join(str(c) for c in it["closes"]),
                                                             str(it["fall"]).lower(), str(it["async_"]).lower()) for it in its) + "]"


def coq_obs(ob):
    tt = ob["tt"]
    for t in ob["params"]:
        if t not in tt:
            raise Unparsed("parameter type unknown to the declaration: " + t)
    sig = "mksig [%s] %s" % ("; ".join("%d%%N" % tt[t] for t in ob["params"]), str(ob["reterr"]).lower())
    return "XAcc (%s) %s [%s]" % (sig, coq_items(ob["main"], tt), "; ".join(coq_items(g, tt) for g in ob["gos"]))


def obs_prog(d, ob):
    """The observed thread program as a Sem2.prog term plus a rank list computed by topological sorting of its
    ordering constraints (thread order, awaited producer before consumer)."""
    tt = ob["tt"]
    nfields = sum(len(p["fields"]) for p in d["provs"] if p["kind"] == "struct")
    base = len(d["provs"]) + nfields
    def node(s):
        return base + tt[s[1]] if s[0] == "arg" else s[1]
    def var(s):
        return "(%d, %d)" % (node(s), 0 if s[0] == "arg" else s[2])
    def nrets(pi):
        return len(d["provs"][pi]["provides"]) if pi < len(d["provs"]) else 1
    threads = [ob["main"]] + ob["gos"]
    def item(it):
        return "{| it_node := %d; it_args := [%s]; it_waits := [%s]; it_nrets := %d; it_closes := [%s]; it_fallible := %s |}" % (
            it["pi"], "; ".join(var(a) for a in it["args"]), "; ".join(var(a) for a in it["waits"]), nrets(it["pi"]),
            "; ".join("(%d, %d)" % (it["pi"], c) for c in it["closes"]), str(it["fall"]).lower())
    argnodes = sorted({base + tt[t] for t in ob["params"] if t in tt})
    prog = "{| p_threads := [%s]; p_argnodes := [%s]; p_reterr := %s |}" % (
        "; ".join("[" + "; ".join(item(it) for it in th) + "]" for th in threads), "; ".join(map(str, argnodes)), str(ob["reterr"]).lower())
    # rank by Kahn over constraints
    nodes = [it["pi"] for th in threads for it in th]
    succ = {n: set() for n in nodes}
    indeg = {n: 0 for n in nodes}
    def edge(a, b):
        if a in succ and b in succ and b not in succ[a] and a != b:
            succ[a].add(b)
            indeg[b] += 1
    for th in threads:
        for a, b in zip(th, th[1:]):
            edge(a["pi"], b["pi"])
        for it in th:
            for w in it["waits"]:
                if w[0] == "var":
                    edge(w[1], it["pi"])
    rank = {}
    q = sorted(n for n in nodes if indeg[n] == 0)
    k = 1
    while q:
        n = q.pop(0)
        if n in rank:
            continue
        rank[n] = k
        k += 1
        for m in sorted(succ[n]):
            indeg[m] -= 1
            if indeg[m] == 0:
                q.append(m)
    for n in nodes:
        rank.setdefault(n, 0)      # cyclic constraints: no rank exists, the checker will say so
    rk = "[" + "; ".join("(%d, %d)" % (n, r) for n, r in sorted(rank.items())) + "]"
    # C05: positions of the input-free Async providers
    F = []
    for ti, th in enumerate(threads):
        for j, it in enumerate(th):
            if it["pi"] < len(d["provs"]):
                pr = d["provs"][it["pi"]]
                if pr["kind"] == "fn" and pr["async"] and not pr["requires"]:
                    F.append((ti, j))
    return prog, rk, "[" + "; ".join("(%d, %d)" % x for x in F) + "]"


REJ = {"dup": 1, "orphan": 2, "cycle": 3}


def classify_error(stderr):
    if "multiple providers provide" in stderr:
        return "dup"
    if "no provider for struct type" in stderr:
        return "orphan"
    if "circular dependency detected" in stderr or "dependency cycle detected" in stderr:
        return "cycle"
    return "other"


def run_cases(cases, workdir, name="cases", progs=None, specs=None, flats=None):
    """cases: list of (id:int, coq_decl:str, coq_obs:str); progs: {id: (Sem2.prog term, rank list)}; specs: {id: Spec.sval term}.
    Returns (ok, mismatching (id, code), log, failing checker (id, code))."""
    progs = progs or {}
    specs = specs or {}
    flats = flats or {}
    if not cases:
        return True, [], "", []
    shards = []
    per = 60
    for i in range(0, len(cases), per):
        shards.append(cases[i:i + per])
    def one(ix):
        sh = shards[ix]
        path = os.path.join(workdir, "%s_%d.v" % (name, ix))
        with open(path, "w") as f:
            f.write("From Coq Require Import List NArith. Import ListNotations.\nRequire Import Gen ParseDecl Corr GenU CorrS Sem2 Check Overlap Spec.\n")
            f.write("Definition cases : list (nat * (decl * xres)) := [\n" + ";\n".join("(%d, (%s, %s))" % c for c in sh) + "].\n")
            f.write("Definition M := Eval vm_compute in xmismatches cases.\nPrint M.\n")
            fl = [(c[0], c[1], flats[c[0]]) for c in sh if c[0] in flats]
            f.write("Definition trees : list (nat * (decl * decl)) := [\n" + ";\n".join("(%d, (%s, %s))" % x for x in fl) + "].\n")
            f.write("Definition T := Eval vm_compute in flat_map (fun c => match tree_code (fst (snd c)) (snd (snd c)) with 0 => [] | k => [(fst c, k)] end) trees.\nPrint T.\n")
            pl = [(c[0],) + progs[c[0]][:2] for c in sh if c[0] in progs]
            f.write("Definition obsprogs : list (nat * (Sem2.prog * list (nat * nat))) := [\n" + ";\n".join("(%d, (%s, %s))" % x for x in pl) + "].\n")
            pf = [(c[0], progs[c[0]][0], progs[c[0]][2]) for c in sh if c[0] in progs and progs[c[0]][2] != "[]"]
            f.write("Definition obsF : list (nat * (Sem2.prog * list (nat * nat))) := [\n" + ";\n".join("(%d, (%s, %s))" % x for x in pf) + "].\n")
            f.write("Definition C := Eval vm_compute in flat_map (fun c => if Overlap.c05b (fst (snd c)) (snd (snd c)) then [] else [(fst c, 20)]) obsF.\nPrint C.\n")
            sl = [(c[0], c[1], specs[c[0]]) for c in sh if c[0] in specs]
            f.write("Definition specs : list (nat * (decl * sval)) := [\n" + ";\n".join("(%d, (%s, %s))" % x for x in sl) + "].\n")
            f.write("Definition V := Eval vm_compute in flat_map (fun c => match spec_code (fst (snd c)) (snd (snd c)) with 0 => [] | k => [(fst c, k)] end) specs.\nPrint V.\n")
            f.write("Definition K := Eval vm_compute in flat_map (fun c => match check_code (fst (snd c)) (snd (snd c)) with 0 => [] | k => [(fst c, k)] end) obsprogs.\nPrint K.\n")
            f.write("Definition E := Eval vm_compute in flat_map (fun c => match fst (explore_code (fst (snd c))) with 0 => [] | k => [(fst c, k + 10)] end) obsprogs.\nPrint E.\n")
        rc, out = vlib.coqc_file(path, timeout=900)
        return rc, out
    bad = []
    chk = []
    log = ""
    ok = True
    with ThreadPoolExecutor(max_workers=12) as ex:
        for rc, out in ex.map(one, range(len(shards))):
            if rc != 0:
                ok = False
                log += out[-3000:]
                continue
            m = re.search(r"M\s*=\s*\[(.*?)\]\s*:\s*list \(nat \* nat\)", out, re.S)
            if not m:
                ok = False
                log += "cannot parse coqc output: " + out[-500:]
                continue
            body = m.group(1).strip()
            if body:
                bad += [(int(a), int(b)) for a, b in re.findall(r"\((\d+),\s*(\d+)\)", body)]
            m = re.search(r"K\s*=\s*\[(.*?)\]\s*:\s*list \(nat \* nat\)", out, re.S)
            if not m:
                ok = False
                log += "cannot parse checker output: " + out[-500:]
                continue
            chk += [(int(a), int(b)) for a, b in re.findall(r"\((\d+),\s*(\d+)\)", m.group(1))]
            m = re.search(r"E\s*=\s*\[(.*?)\]\s*:\s*list \(nat \* nat\)", out, re.S)
            if not m:
                ok = False
                log += "cannot parse explorer output: " + out[-500:]
                continue
            chk += [(int(a), int(b)) for a, b in re.findall(r"\((\d+),\s*(\d+)\)", m.group(1))]
            m = re.search(r"C\s*=\s*\[(.*?)\]\s*:\s*list \(nat \* nat\)", out, re.S)
            if not m:
                ok = False
                log += "cannot parse C05 checker output: " + out[-500:]
                continue
            chk += [(int(a), int(b)) for a, b in re.findall(r"\((\d+),\s*(\d+)\)", m.group(1))]
            m = re.search(r"T\s*=\s*\[(.*?)\]\s*:\s*list \(nat \* nat\)", out, re.S)
            if not m:
                ok = False
                log += "cannot parse written-form output: " + out[-500:]
                continue
            chk += [(int(a), int(b)) for a, b in re.findall(r"\((\d+),\s*(\d+)\)", m.group(1))]
            m = re.search(r"V\s*=\s*\[(.*?)\]\s*:\s*list \(nat \* nat\)", out, re.S)
            if not m:
                ok = False
                log += "cannot parse specification-value output: " + out[-500:]
                continue
            chk += [(int(a), int(b)) for a, b in re.findall(r"\((\d+),\s*(\d+)\)", m.group(1))]
    return ok, bad, log, chk


def isolate(mod, name, d):
    """Generate one declaration alone in its own package (failing-input search: removes cross-injector effects).
    Returns dict(pkg, decl, obs|None, sig|None, rc, stderr)."""
    kessoku = vlib.build_kessoku()
    bandparse = vlib.build_tool("bandparse")
    pkg = dict(name=name, files=[dict(fname="a.go", decls=[d])], kind="valid")
    pdir = write_package(mod, pkg)
    rc, out, err = run_generator(kessoku, pdir, pkg)
    rec = dict(pkg=name, decl=d, obs=None, sig=None, rc=rc, stderr=err[-600:], problems=[], id=-1, kind="valid", name=d["name"], file="a.go")
    band = os.path.join(pdir, "a_band.go")
    if rc != 0 or not os.path.exists(band):
        return rec
    rc2, o2, e2 = vlib.run([bandparse, band], timeout=60)
    bf = json.loads(o2)[band]
    funcs = {fn["name"]: fn for fn in bf["funcs"]} if not bf.get("error") else {}
    if d["name"] in funcs:
        fnrec = funcs[d["name"]]
        rec["sig"] = dict(params=[unalias(p["type"], bf["imports"]) for p in fnrec["params"]], results=[unalias(t, bf["imports"]) for t in fnrec["results"]])
        try:
            rec["obs"] = observe_func(d, fnrec, bf["imports"])
        except Unparsed as ex:
            rec["problems"].append("unparsed: %s" % ex)
    return rec


# ------------------------------------------------------------------ the stage

def stage(seed, tier, want_malformed=True):
    """Runs the static stage; returns a result dict (also cached on disk by repo hash/seed/tier)."""
    key = "S-%s-%s-%s" % (vlib.repo_hash() + vlib.tools_hash(), seed, tier)
    cpath = os.path.join(vlib.CACHE, "stage", key + ".json")
    if os.path.exists(cpath) and not os.environ.get("VERIF_NOCACHE"):
        return json.load(open(cpath))
    res = _stage(seed, tier, want_malformed, key)
    os.makedirs(os.path.dirname(cpath), exist_ok=True)
    with open(cpath, "w") as f:
        json.dump(res, f)
    return res


def _stage(seed, tier, want_malformed, key="S-x"):
    kessoku = vlib.build_kessoku()
    bandparse = vlib.build_tool("bandparse")
    mod = vlib.new_scratch_module("s")
    if tier == "quick":
        pkgs = make_packages(seed, 10, 8, files_per_pkg=2)
        mal = make_malformed_packages(seed, 45) if want_malformed else []
    else:
        pkgs = make_packages(seed, 60, 12, files_per_pkg=3)
        mal = make_malformed_packages(seed, 180) if want_malformed else []
    allp = pkgs + mal
    dirs = {}
    for p in allp:
        dirs[p["name"]] = write_package(mod, p)
    def gen(p):
        return p["name"], run_generator(kessoku, dirs[p["name"]], p, sentinel=(p["kind"] != "valid"))
    outs = {}
    with ThreadPoolExecutor(max_workers=12) as ex:
        for name, r in ex.map(gen, allp):
            outs[name] = r
    cases = []
    records = []
    cid = 0
    band_files = []
    for p in allp:
        for f in p["files"]:
            band_files.append(os.path.join(dirs[p["name"]], f["fname"][:-3] + "_band.go"))
    existing = [b for b in band_files if os.path.exists(b)]
    parsed = {}
    for i in range(0, len(existing), 40):
        rc, out, err = vlib.run([bandparse] + existing[i:i + 40], timeout=120)
        if rc != 0:
            raise RuntimeError("bandparse failed: " + err)
        parsed.update(json.loads(out))
    for p in allp:
        rc, out, err = outs[p["name"]]
        for f in p["files"]:
            band = os.path.join(dirs[p["name"]], f["fname"][:-3] + "_band.go")
            bf = parsed.get(band)
            funcs = {fn["name"]: fn for fn in bf["funcs"]} if bf and not bf.get("error") else {}
            band_text = open(band).read() if os.path.exists(band) else None
            for d in f["decls"]:
                cid += 1
                rec = dict(id=cid, pkg=p["name"], file=f["fname"], name=d["name"], kind=d["kind"], rc=rc, decl=d,
                           stderr=err[-1500:] if rc != 0 else "", problems=[], obs=None)
                tt = type_table(d)
                if d["kind"] == "companion":
                    # a valid declaration sharing its file with a refused one: only the fate of the file matters
                    rec["untouched"] = (band_text == SENTINEL)
                    records.append(rec)
                    continue
                if p["kind"] != "valid":
                    rec["untouched"] = (band_text == SENTINEL)
                    rec["err_class"] = classify_error(err)
                    exp_ = d.get("expect", {})
                    rec["err_names_types"] = all(t.lstrip("*") in err for t in exp_.get("types", [])) and \
                        (not exp_.get("types_any") or any(t.lstrip("*") in err for t in exp_["types_any"]))
                    if rc == 0:
                        rec["problems"].append("malformed declaration accepted (exit 0)")
                        if d["name"] in funcs:
                            try:
                                ob = observe_func(d, funcs[d["name"]], bf["imports"])
                                cases.append((cid, coq_decl(d, tt), coq_obs(ob)))
                            except Unparsed as ex:
                                rec["problems"].append("unparsed: %s" % ex)
                        else:
                            cases.append((cid, coq_decl(d, tt), "XRej 0"))
                    else:
                        code = REJ.get(rec["err_class"], 0)
                        cases.append((cid, coq_decl(d, tt), "XRej %d" % code))
                else:
                    if rc != 0:
                        # the whole invocation failed: attribute to the declaration named in stderr if possible
                        rec["problems"].append("valid declaration: generator exit %d" % rc)
                        cases.append((cid, coq_decl(d, tt), "XRej %d" % REJ.get(classify_error(err), 0)))
                    elif d["name"] not in funcs:
                        rec["problems"].append("accepted run emitted no function %s" % d["name"])
                        cases.append((cid, coq_decl(d, tt), "XRej 0"))
                    else:
                        fnrec = funcs[d["name"]]
                        rec["sig"] = dict(params=[unalias(p["type"], bf["imports"]) for p in fnrec["params"]],
                                          results=[unalias(t, bf["imports"]) for t in fnrec["results"]])
                        try:
                            ob = observe_func(d, fnrec, bf["imports"])
                            rec["obs"] = ob
                            cases.append((cid, coq_decl(d, tt), coq_obs(ob)))
                        except Unparsed as ex:
                            rec["problems"].append("unparsed: %s" % ex)
                            cases.append((cid, coq_decl(d, tt), "XRej 0"))
                records.append(rec)
            if p["kind"] == "valid" and rc == 0 and bf and not bf.get("error"):
                names = [d["name"] for d in f["decls"]]
                got = [fn["name"] for fn in bf["funcs"]]
                if got != names:
                    records.append(dict(id=0, pkg=p["name"], file=f["fname"], name="<file>", kind="valid", rc=rc, decl=None, stderr="",
                                        problems=["functions emitted %s != declarations %s" % (got, names)], obs=None))
    progs = {}
    for r in records:
        if r.get("obs"):
            try:
                progs[r["id"]] = obs_prog(r["decl"], r["obs"])
            except Exception as ex:
                r["problems"].append("unparsed: cannot express the observed program: %r" % ex)
    specs = {}
    for r in records:
        if r["id"] and r.get("obs") and r.get("decl") and r["kind"] == "valid":
            tr = declgen.eval_tree(r["decl"])
            if tr is not None:
                specs[r["id"]] = declgen.tree_sval(r["decl"], tr, type_table(r["decl"]))
    # the harness's own flat provider list of every declaration, compared in Coq with the decoding of the written form
    flats = {}
    for r in records:
        if r["id"] and r.get("decl"):
            flats[r["id"]] = coq_decl_flat(r["decl"], type_table(r["decl"]))
    ok, bad, log, chk = run_cases(cases, mod, "cases_s", progs, specs, flats)
    for r in records:
        codes = [c for i, c in chk if i == r["id"]]
        if 41 in codes:
            r["problems"].append("harness: ParseDecl.parse of the written declaration differs from the harness's flat provider list")
        r["spec_code"] = ([c for c in codes if 30 <= c < 40] or [0])[0]   # 31: Spec.spec_eval differs from the harness's reference value
        r["checker_code"] = ([c for c in codes if c < 10] or [0])[0]     # 1: not well-synchronised (wf), 2: rank conditions fail
        r["explore_code"] = ([c - 10 for c in codes if 10 <= c < 20] or [0])[0]  # 1: model run reads an unwritten variable, 2: model run deadlocks
        r["c05_shape_fails"] = 20 in codes     # the input-free Async providers are not all first-reachable without a wait
        if r["id"] in progs:
            r["c05_F"] = progs[r["id"]][2]
        if r["id"] in progs:
            r["obs_prog"] = progs[r["id"]][0]
        if r.get("obs") and r["obs"].get("defects"):
            r["problems"] += r["obs"]["defects"]
        if r.get("obs") and r["obs"].get("surface_problems"):
            r["problems"] += ["surface: " + x for x in r["obs"]["surface_problems"]]
    badmap = dict(bad)
    for r in records:
        r["model_mismatch"] = r["id"] in badmap
        k = badmap.get(r["id"], 0)
        r["mismatch_kinds"] = [n for b, n in ((1, "verdict"), (2, "sig"), (4, "items")) if k & b]
        if r.get("spec_code"):
            r["model_mismatch"] = True
            r["mismatch_kinds"].append("value")
    keep = os.path.join(vlib.CACHE, "stage", key + "-src")
    shutil.rmtree(keep, ignore_errors=True)
    shutil.copytree(mod, keep, ignore=shutil.ignore_patterns("*.vo", "*.glob", "*.aux", "*.vok", "*.vos"))
    return dict(seed=seed, tier=tier, coq_ok=ok, coq_log=log, n_cases=len(cases), records=records, srcdir=keep,
                case_text={str(c[0]): [c[1], c[2]] for c in cases})


if __name__ == "__main__":
    seed = int(os.environ.get("VERIF_SEED", "1"))
    r = stage(seed, sys.argv[1] if len(sys.argv) > 1 else "quick")
    print("coq_ok", r["coq_ok"], "cases", r["n_cases"])
    print(r["coq_log"][-2000:])
    bad = [x for x in r["records"] if x["model_mismatch"] or x["problems"]]
    print("mismatch/problems:", len(bad))
    for x in bad[:10]:
        print(x["id"], x["pkg"], x["name"], x["kind"], x["problems"], "mismatch" if x["model_mismatch"] else "", x.get("err_class"), x["stderr"][-300:])
        print("   ", r["case_text"][str(x["id"])][0][:600])
        print("   ", r["case_text"][str(x["id"])][1][:600])
