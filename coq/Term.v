(* Termination and error reporting under provider failures and caller cancellation (C06, C07):
   for injectors WITH an error result every maximal execution - any failures, cancellation at any point - has the
   injector returned; a returned nil error means every provider returned; a provider failure is never swallowed; no
   provider that depends on a failed one is ever entered. *)
From Coq Require Import List Arith Lia Bool Wf_nat.
Import ListNotations.
Require Import Sem2 Safe Live LiveInv Live2 Fault.

(* ---- a case principle for steps: the nine forms a successor state can take ---- *)
Definition mkst thr cl st eg ci ce tr : state :=
  {| s_thr := thr; s_closed := cl; s_store := st; s_egerr := eg; s_cint := ci; s_cext := ce; s_trace := tr |}.

Lemma step_cases p s l s' (P : label -> state -> Prop) : step p s l = Some s' ->
  (forall t pc k it x, cur p s t = Some (pc, PWait k, it) -> nth_error (it_waits it) k = Some x -> mem x (s_closed s) = true ->
       P (LWaitPass t) (setthr s t (TRun pc (PWait (S k))))) ->
  (forall t pc k it x e, cur p s t = Some (pc, PWait k, it) -> nth_error (it_waits it) k = Some x -> ctxaware p t = true ->
       ((e = ECtxExt /\ s_cext s = true) \/ (e = ECtxInt /\ s_cext s = false /\ s_cint s = true)) -> P (LWaitCtx t) (fail s t e)) ->
  (forall t pc it vs, cur p s t = Some (pc, PWait (length (it_waits it)), it) -> rdall p (s_store s) (it_args it) = Some vs ->
       P (LEnter t) (mkst (upd (s_thr s) t (TRun pc (PInside vs))) (s_closed s) (s_store s) (s_egerr s) (s_cint s) (s_cext s) (Enter (it_node it) vs :: s_trace s))) ->
  (forall t pc it vs, cur p s t = Some (pc, PInside vs, it) ->
       P (LExitOk t) (mkst (upd (s_thr s) t (TRun pc (PClose 0))) (s_closed s) (rets (it_node it) (it_nrets it) vs ++ s_store s) (s_egerr s) (s_cint s) (s_cext s)
                            (ExitOk (it_node it) vs :: s_trace s))) ->
  (forall t pc it vs, cur p s t = Some (pc, PInside vs, it) -> it_fallible it = true ->
       P (LExitErr t) (let f := fail s t (EProv (it_node it)) in mkst (s_thr f) (s_closed f) (s_store f) (s_egerr f) (s_cint f) (s_cext f) (ExitErr (it_node it) :: s_trace s))) ->
  (forall t pc k it x, cur p s t = Some (pc, PClose k, it) -> nth_error (it_closes it) k = Some x -> mem x (s_closed s) = false ->
       P (LClose t) (mkst (upd (s_thr s) t (TRun pc (PClose (S k)))) (x :: s_closed s) (s_store s) (s_egerr s) (s_cint s) (s_cext s) (s_trace s))) ->
  (forall t pc it, cur p s t = Some (pc, PClose (length (it_closes it)), it) -> P (LNext t) (setthr s t (TRun (S pc) (PWait 0)))) ->
  (forall t pc its, nth_error (s_thr s) t = Some (TRun pc (PWait 0)) -> nth_error (p_threads p) t = Some its -> pc = length its ->
       (t = 0 -> forallb isdone (tl (s_thr s)) = true) ->
       P (LFin t) (setthr s t (TDone (if Nat.eqb t 0 then (if p_reterr p then s_egerr s else None) else None)))) ->
  P LCancel (mkst (s_thr s) (s_closed s) (s_store s) (s_egerr s) (s_cint s) true (s_trace s)) ->
  P l s'.
Proof.
  intros Hs C1 C2 C3 C4 C5 C6 C7 C8 C9. destruct l as [t|t|t|t|t|t|t|t|]; unfold step in Hs.
  - destruct (cur p s t) as [[[pc ph] it]|] eqn:C; try discriminate. destruct ph as [k| |]; try discriminate.
    destruct (nth_error (it_waits it) k) as [x|] eqn:Ex; try discriminate. destruct (mem x (s_closed s)) eqn:M; try discriminate. inversion Hs; subst. eapply C1; eauto.
  - destruct (cur p s t) as [[[pc ph] it]|] eqn:C; try discriminate. destruct ph as [k| |]; try discriminate.
    destruct (nth_error (it_waits it) k) as [x|] eqn:Ex; try discriminate. destruct (ctxaware p t) eqn:A; try discriminate.
    destruct (s_cext s) eqn:Ce; [inversion Hs; subst; eapply C2; eauto|]. destruct (s_cint s) eqn:Ci; [|discriminate]. inversion Hs; subst. eapply C2; eauto.
  - destruct (cur p s t) as [[[pc ph] it]|] eqn:C; try discriminate. destruct ph as [k| |]; try discriminate.
    destruct (Nat.eqb k (length (it_waits it))) eqn:Ek; try discriminate. apply Nat.eqb_eq in Ek. subst k.
    destruct (rdall p (s_store s) (it_args it)) as [vs|] eqn:R; try discriminate. inversion Hs; subst. eapply C3; eauto.
  - destruct (cur p s t) as [[[pc ph] it]|] eqn:C; try discriminate. destruct ph as [k|vs|]; try discriminate. inversion Hs; subst. eapply C4; eauto.
  - destruct (cur p s t) as [[[pc ph] it]|] eqn:C; try discriminate. destruct ph as [k|vs|]; try discriminate.
    destruct (it_fallible it) eqn:Fl; try discriminate. inversion Hs; subst. eapply C5; eauto.
  - destruct (cur p s t) as [[[pc ph] it]|] eqn:C; try discriminate. destruct ph as [k| |k]; try discriminate.
    destruct (nth_error (it_closes it) k) as [x|] eqn:Ex; try discriminate. destruct (mem x (s_closed s)) eqn:M; try discriminate. inversion Hs; subst. eapply C6; eauto.
  - destruct (cur p s t) as [[[pc ph] it]|] eqn:C; try discriminate. destruct ph as [k| |k]; try discriminate.
    destruct (Nat.eqb k (length (it_closes it))) eqn:Ek; try discriminate. apply Nat.eqb_eq in Ek. subst k. inversion Hs; subst. eapply C7; eauto.
  - destruct (nth_error (s_thr s) t) as [[pc [[|k]| |]|]|] eqn:Ct; try discriminate.
    destruct (nth_error (p_threads p) t) as [its|] eqn:Et; try discriminate. destruct (Nat.eqb pc (length its)) eqn:Ep; try discriminate. apply Nat.eqb_eq in Ep.
    destruct (Nat.eqb t 0) eqn:E0.
    + destruct (forallb isdone (tl (s_thr s))) eqn:Fa; try discriminate. inversion Hs; subst.
      pose proof (C8 t (length its) its Ct Et eq_refl (fun _ => eq_refl)) as X. rewrite E0 in X. exact X.
    + inversion Hs; subst. apply Nat.eqb_neq in E0. pose proof (C8 t (length its) its Ct Et eq_refl (fun H => False_ind _ (E0 H))) as X.
      apply Nat.eqb_neq in E0. rewrite E0 in X. exact X.
  - inversion Hs; subst. exact C9.
Qed.

Lemma cur_thr p s t pc ph it : cur p s t = Some (pc, ph, it) -> nth_error (s_thr s) t = Some (TRun pc ph) /\ t < length (s_thr s).
Proof. intros C. apply cur_spec in C. destruct C as (Ct & _). split; auto. eapply nth_error_Some_lt; eauto. Qed.

(* updating a running thread: which threads are done afterwards *)
Lemma done_after_upd (l : list tstat) t x u y : t < length l -> nth_error (upd l t x) u = Some y -> (u = t /\ y = x) \/ (u <> t /\ nth_error l u = Some y).
Proof.
  intros Hl H. destruct (Nat.eq_dec t u) as [->|ne]; [rewrite nth_error_upd_eq in H by auto; inversion H; auto | rewrite nth_error_upd_neq in H by auto; right; auto].
Qed.

(* ---- the bookkeeping invariant ---- *)
Record TInv (p : prog) (s : state) : Prop := {
  (* a goroutine that ended with an error has cancelled the derived context, or the caller's context is cancelled *)
  tv_cancel : forall t e, t <> 0 -> nth_error (s_thr s) t = Some (TDone (Some e)) -> s_cext s = true \/ s_cint s = true;
  (* and the group holds an error *)
  tv_eg : forall t e, t <> 0 -> nth_error (s_thr s) t = Some (TDone (Some e)) -> s_egerr s <> None;
  (* once the injector has returned through eg.Wait() with a nil error, the group holds no error and everybody is done *)
  tv_main : p_reterr p = true -> nth_error (s_thr s) 0 = Some (TDone None) -> s_egerr s = None /\ forall t x, nth_error (s_thr s) t = Some x -> isdone x = true;
  (* a thread that finished normally has got every one of its providers to return *)
  tv_done : forall t, nth_error (s_thr s) t = Some (TDone None) -> forall j it, item_at p t j = Some it -> exited s (it_node it);
  (* a failed provider's thread is finished with that error *)
  tv_err : forall n, In (ExitErr n) (s_trace s) -> exists t j it, item_at p t j = Some it /\ it_node it = n /\ nth_error (s_thr s) t = Some (TDone (Some (EProv n))) }.

Lemma tinv_init p : TInv p (init p).
Proof.
  assert (H : forall t x, nth_error (s_thr (init p)) t = Some x -> x = TRun 0 (PWait 0)).
  { intros t x E. unfold init in E. simpl in E. rewrite nth_error_map in E. destruct (nth_error (p_threads p) t); inversion E; auto. }
  constructor; try (intros; match goal with E : nth_error (s_thr (init p)) _ = Some _ |- _ => apply H in E; discriminate end).
  intros n [].
Qed.

Lemma tinv_step p s l s' : wf p -> Inv p s -> TInv p s -> step p s l = Some s' -> TInv p s'.
Proof.
  intros W I T Hs.
  (* threads that are done never move: a step needs a running thread *)
  apply (step_cases p s l s' (fun _ s' => TInv p s') Hs).
  - (* LWaitPass *) intros t pc k it x C Ex M. destruct (cur_thr _ _ _ _ _ _ C) as (Ct & Hl). constructor; cbn [setthr s_thr s_cext s_cint s_egerr s_trace].
    + intros u e Hu E. apply done_after_upd in E; auto. destruct E as [(_ & E)|(_ & E)]; [discriminate|eapply (tv_cancel _ _ T); eauto].
    + intros u e Hu E. apply done_after_upd in E; auto. destruct E as [(_ & E)|(_ & E)]; [discriminate|eapply (tv_eg _ _ T); eauto].
    + intros R E. apply done_after_upd in E; auto. destruct E as [(_ & E)|(N0 & E)]; [discriminate|]. destruct (tv_main _ _ T R E) as (_ & D). specialize (D t _ Ct). discriminate.
    + intros u E. apply done_after_upd in E; auto. destruct E as [(_ & E)|(_ & E)]; [discriminate|]. apply (tv_done _ _ T u E).
    + intros n Hin. destruct (tv_err _ _ T n Hin) as (u & j & it0 & A & B & E). exists u, j, it0. repeat split; auto.
      rewrite nth_error_upd_neq; auto. intro; subst. congruence.
  - (* LWaitCtx *) intros t pc k it x e C Ex A Hc. destruct (cur_thr _ _ _ _ _ _ C) as (Ct & Hl).
    assert (Hflag : s_cext s = true \/ s_cint s = true) by (destruct Hc as [(_ & H)|(_ & _ & H)]; auto).
    constructor; unfold fail; cbn [s_thr s_cext s_cint s_egerr s_trace].
    + intros u e0 Hu E. apply done_after_upd in E; auto. destruct E as [(-> & E)|(_ & E)].
      * apply Nat.eqb_neq in Hu. rewrite Hu. auto.
      * destruct (tv_cancel _ _ T u e0 Hu E) as [X|X]; [left; auto|right]. destruct (Nat.eqb t 0); auto.
    + intros u e0 Hu E. apply done_after_upd in E; auto. destruct E as [(-> & E)|(_ & E)].
      * apply Nat.eqb_neq in Hu. rewrite Hu. destruct (s_egerr s); discriminate.
      * pose proof (tv_eg _ _ T u e0 Hu E) as X. destruct (Nat.eqb t 0); auto. destruct (s_egerr s); [discriminate|congruence].
    + intros R E. apply done_after_upd in E; auto. destruct E as [(_ & E)|(N0 & E)]; [discriminate|]. destruct (tv_main _ _ T R E) as (_ & D). specialize (D t _ Ct). discriminate.
    + intros u E. apply done_after_upd in E; auto. destruct E as [(_ & E)|(_ & E)]; [discriminate|]. apply (tv_done _ _ T u E).
    + intros n Hin. destruct (tv_err _ _ T n Hin) as (u & j & it0 & A0 & B & E). exists u, j, it0. repeat split; auto.
      rewrite nth_error_upd_neq; auto. intro; subst. congruence.
  - (* LEnter *) intros t pc it vs C R. destruct (cur_thr _ _ _ _ _ _ C) as (Ct & Hl). constructor; unfold mkst; cbn [s_thr s_cext s_cint s_egerr s_trace].
    + intros u e Hu E. apply done_after_upd in E; auto. destruct E as [(_ & E)|(_ & E)]; [discriminate|eapply (tv_cancel _ _ T); eauto].
    + intros u e Hu E. apply done_after_upd in E; auto. destruct E as [(_ & E)|(_ & E)]; [discriminate|eapply (tv_eg _ _ T); eauto].
    + intros Rr E. apply done_after_upd in E; auto. destruct E as [(_ & E)|(N0 & E)]; [discriminate|]. destruct (tv_main _ _ T Rr E) as (_ & D). specialize (D t _ Ct). discriminate.
    + intros u E. apply done_after_upd in E; auto. destruct E as [(_ & E)|(_ & E)]; [discriminate|]. intros j it0 Hi. destruct (tv_done _ _ T u E j it0 Hi) as (ws & Hw). exists ws. right. exact Hw.
    + intros n [E|Hin]; [discriminate|]. destruct (tv_err _ _ T n Hin) as (u & j & it0 & A0 & B & E). exists u, j, it0. repeat split; auto.
      rewrite nth_error_upd_neq; auto. intro; subst. congruence.
  - (* LExitOk *) intros t pc it vs C. destruct (cur_thr _ _ _ _ _ _ C) as (Ct & Hl). constructor; unfold mkst; cbn [s_thr s_cext s_cint s_egerr s_trace].
    + intros u e Hu E. apply done_after_upd in E; auto. destruct E as [(_ & E)|(_ & E)]; [discriminate|eapply (tv_cancel _ _ T); eauto].
    + intros u e Hu E. apply done_after_upd in E; auto. destruct E as [(_ & E)|(_ & E)]; [discriminate|eapply (tv_eg _ _ T); eauto].
    + intros Rr E. apply done_after_upd in E; auto. destruct E as [(_ & E)|(N0 & E)]; [discriminate|]. destruct (tv_main _ _ T Rr E) as (_ & D). specialize (D t _ Ct). discriminate.
    + intros u E. apply done_after_upd in E; auto. destruct E as [(_ & E)|(_ & E)]; [discriminate|]. intros j it0 Hi. destruct (tv_done _ _ T u E j it0 Hi) as (ws & Hw). exists ws. right. exact Hw.
    + intros n [E|Hin]; [discriminate|]. destruct (tv_err _ _ T n Hin) as (u & j & it0 & A0 & B & E). exists u, j, it0. repeat split; auto.
      rewrite nth_error_upd_neq; auto. intro; subst. congruence.
  - (* LExitErr *) intros t pc it vs C Fl. destruct (cur_thr _ _ _ _ _ _ C) as (Ct & Hl). apply cur_spec in C. destruct C as (_ & Ci).
    constructor; unfold mkst, fail; cbn [s_thr s_cext s_cint s_egerr s_trace].
    + intros u e0 Hu E. apply done_after_upd in E; auto. destruct E as [(-> & E)|(_ & E)].
      * apply Nat.eqb_neq in Hu. rewrite Hu. auto.
      * destruct (tv_cancel _ _ T u e0 Hu E) as [X|X]; [left; auto|right]. destruct (Nat.eqb t 0); auto.
    + intros u e0 Hu E. apply done_after_upd in E; auto. destruct E as [(-> & E)|(_ & E)].
      * apply Nat.eqb_neq in Hu. rewrite Hu. destruct (s_egerr s); discriminate.
      * pose proof (tv_eg _ _ T u e0 Hu E) as X. destruct (Nat.eqb t 0); auto. destruct (s_egerr s); [discriminate|congruence].
    + intros R E. apply done_after_upd in E; auto. destruct E as [(_ & E)|(N0 & E)]; [discriminate|]. destruct (tv_main _ _ T R E) as (_ & D). specialize (D t _ Ct). discriminate.
    + intros u E. apply done_after_upd in E; auto. destruct E as [(_ & E)|(_ & E)]; [discriminate|]. intros j it0 Hi. destruct (tv_done _ _ T u E j it0 Hi) as (ws & Hw). exists ws. right. exact Hw.
    + intros n [E|Hin].
      * inversion E; subst n. exists t, pc, it. repeat split; auto. apply nth_error_upd_eq; auto.
      * destruct (tv_err _ _ T n Hin) as (u & j & it0 & A0 & B & E). exists u, j, it0. repeat split; auto.
        rewrite nth_error_upd_neq; auto. intro; subst. congruence.
  - (* LClose *) intros t pc k it x C Ex M. destruct (cur_thr _ _ _ _ _ _ C) as (Ct & Hl). constructor; unfold mkst; cbn [s_thr s_cext s_cint s_egerr s_trace].
    + intros u e Hu E. apply done_after_upd in E; auto. destruct E as [(_ & E)|(_ & E)]; [discriminate|eapply (tv_cancel _ _ T); eauto].
    + intros u e Hu E. apply done_after_upd in E; auto. destruct E as [(_ & E)|(_ & E)]; [discriminate|eapply (tv_eg _ _ T); eauto].
    + intros Rr E. apply done_after_upd in E; auto. destruct E as [(_ & E)|(N0 & E)]; [discriminate|]. destruct (tv_main _ _ T Rr E) as (_ & D). specialize (D t _ Ct). discriminate.
    + intros u E. apply done_after_upd in E; auto. destruct E as [(_ & E)|(_ & E)]; [discriminate|]. apply (tv_done _ _ T u E).
    + intros n Hin. destruct (tv_err _ _ T n Hin) as (u & j & it0 & A0 & B & E). exists u, j, it0. repeat split; auto.
      rewrite nth_error_upd_neq; auto. intro; subst. congruence.
  - (* LNext *) intros t pc it C. destruct (cur_thr _ _ _ _ _ _ C) as (Ct & Hl). constructor; cbn [setthr s_thr s_cext s_cint s_egerr s_trace].
    + intros u e Hu E. apply done_after_upd in E; auto. destruct E as [(_ & E)|(_ & E)]; [discriminate|eapply (tv_cancel _ _ T); eauto].
    + intros u e Hu E. apply done_after_upd in E; auto. destruct E as [(_ & E)|(_ & E)]; [discriminate|eapply (tv_eg _ _ T); eauto].
    + intros R E. apply done_after_upd in E; auto. destruct E as [(_ & E)|(N0 & E)]; [discriminate|]. destruct (tv_main _ _ T R E) as (_ & D). specialize (D t _ Ct). discriminate.
    + intros u E. apply done_after_upd in E; auto. destruct E as [(_ & E)|(_ & E)]; [discriminate|]. apply (tv_done _ _ T u E).
    + intros n Hin. destruct (tv_err _ _ T n Hin) as (u & j & it0 & A0 & B & E). exists u, j, it0. repeat split; auto.
      rewrite nth_error_upd_neq; auto. intro; subst. congruence.
  - (* LFin *) intros t pc its Ct Et Ep Hjoin. assert (Hl : t < length (s_thr s)) by (eapply nth_error_Some_lt; eauto).
    constructor; cbn [setthr s_thr s_cext s_cint s_egerr s_trace].
    + intros u e Hu E. apply done_after_upd in E; auto. destruct E as [(-> & E)|(_ & E)]; [|eapply (tv_cancel _ _ T); eauto].
      apply Nat.eqb_neq in Hu. rewrite Hu in E. discriminate.
    + intros u e Hu E. apply done_after_upd in E; auto. destruct E as [(-> & E)|(_ & E)]; [|eapply (tv_eg _ _ T); eauto].
      apply Nat.eqb_neq in Hu. rewrite Hu in E. discriminate.
    + intros R E. apply done_after_upd in E; auto. destruct E as [(<- & E)|(N0 & E)].
      * (* the injector returns now: nil error means the group is clean; everybody else is done *)
        simpl in E. rewrite R in E. injection E as Eg. split; [symmetry; exact Eg|]. intros u x Hx. apply done_after_upd in Hx; auto.
        destruct Hx as [(_ & ->)|(Hu & Hx)]; [reflexivity|]. eapply forallb_tl_done; eauto.
      * destruct (tv_main _ _ T R E) as (_ & D). specialize (D t _ Ct). discriminate.
    + intros u E. apply done_after_upd in E; auto. destruct E as [(-> & _)|(_ & E)]; [|apply (tv_done _ _ T u E)].
      intros j it0 Hi. destruct (inv_pc _ _ I t pc (PWait 0) Ct) as (A & _). apply (A j it0); auto.
      unfold item_at, items_of in Hi. erewrite nth_error_nth in Hi by eauto. apply nth_error_Some_lt in Hi. lia.
    + intros n Hin. destruct (tv_err _ _ T n Hin) as (u & j & it0 & A0 & B & E). exists u, j, it0. repeat split; auto.
      rewrite nth_error_upd_neq; auto. intro; subst. congruence.
  - (* LCancel *) constructor; unfold mkst; cbn [s_thr s_cext s_cint s_egerr s_trace].
    + intros; left; reflexivity.
    + apply (tv_eg _ _ T).
    + apply (tv_main _ _ T).
    + apply (tv_done _ _ T).
    + apply (tv_err _ _ T).
Qed.

Lemma run_tinv p : forall ls s s', wf p -> Inv p s -> InvL p s -> TInv p s -> run p s ls = Some s' -> Inv p s' /\ InvL p s' /\ TInv p s'.
Proof.
  induction ls as [|l r IH]; intros s s' W I L T R; simpl in R; [inversion R; subst; auto|].
  destruct (step p s l) as [s1|] eqn:E; [|discriminate]. apply (IH s1 s' W); auto; [eapply step_inv; eauto | eapply stepL_inv; eauto | eapply tinv_step; eauto].
Qed.

(* ---- the injector always returns ---- *)
Theorem main_returns p rank ls s : wfl p rank -> 0 < length (p_threads p) -> p_reterr p = true -> run p (init p) ls = Some s ->
  (forall l, l <> LCancel -> step p s l = None) -> exists e, nth_error (s_thr s) 0 = Some (TDone e).
Proof.
  intros W Hmain R Hrun Hmax.
  destruct (run_tinv p ls _ _ (wfl_wf _ _ W) (inv_init p) (invL_init p) (tinv_init p) Hrun) as (I & L & T).
  destruct (nth_error (s_thr s) 0) as [[pc ph|e]|] eqn:C0; [|eauto|].
  2:{ exfalso. apply nth_error_None in C0. rewrite (inv_len _ _ I) in C0. lia. }
  exfalso.
  assert (FS : fshape p s).
  { right. split; auto. intros t e E. destruct (Nat.eq_dec t 0) as [->|ne]; [congruence|]. eapply (tv_cancel _ _ T); eauto. }
  assert (Ex : exists l, l <> LCancel /\ enabled p s l).
  { destruct (item_at p 0 pc) as [it|] eqn:Ci; [eapply progress_item_f; eauto|].
    (* main thread has run all its items: eg.Wait() *)
    destruct (il_bounds _ _ L 0 pc ph C0) as (Hpc & Hend & _).
    assert (Hthr : exists its, nth_error (p_threads p) 0 = Some its /\ items_of p 0 = its).
    { assert (0 < length (p_threads p)) by (rewrite <- (inv_len _ _ I); eapply nth_error_Some_lt; eauto).
      destruct (nth_error (p_threads p) 0) as [its|] eqn:E; [|apply nth_error_None in E; lia]. exists its. split; auto. unfold items_of. eapply nth_error_nth; eauto. }
    destruct Hthr as (its & Ets & Eits).
    assert (pc = length its). { unfold item_at in Ci. rewrite Eits in *. apply nth_error_None in Ci. lia. }
    subst pc. rewrite Eits in Hend. specialize (Hend eq_refl). subst ph.
    destruct (forallb isdone (tl (s_thr s))) eqn:Fa.
    - exists (LFin 0). split; [discriminate|]. unfold enabled, step. rewrite C0, Ets, Nat.eqb_refl. simpl. rewrite Fa. eauto.
    - assert (Hex : exists t', t' <> 0 /\ exists pc' ph', nth_error (s_thr s) t' = Some (TRun pc' ph')).
      { destruct (s_thr s) as [|x l] eqn:Es; [discriminate|]. simpl in Fa.
        assert (exists k y, nth_error l k = Some y /\ isdone y = false).
        { clear - Fa. induction l as [|y l IH]; simpl in Fa; [discriminate|]. destruct (isdone y) eqn:Ey.
          - destruct (IH Fa) as (k & z & Hk & Hz). exists (S k), z. auto.
          - exists 0, y. auto. }
        destruct H as (k & y & Hk & Hy). exists (S k). split; [discriminate|]. destruct y; [eauto|discriminate]. }
      destruct Hex as (t' & Hne & pc' & ph' & Ct').
      destruct (item_at p t' pc') as [it'|] eqn:Ci'; [eapply progress_item_f; eauto|].
      destruct (il_bounds _ _ L t' pc' ph' Ct') as (Hpc' & Hend' & _).
      assert (t' < length (p_threads p)) by (rewrite <- (inv_len _ _ I); eapply nth_error_Some_lt; eauto).
      destruct (nth_error (p_threads p) t') as [its'|] eqn:E'; [|apply nth_error_None in E'; lia].
      assert (Eits' : items_of p t' = its') by (unfold items_of; eapply nth_error_nth; eauto).
      assert (pc' = length its'). { unfold item_at in Ci'. rewrite Eits' in *. apply nth_error_None in Ci'. lia. }
      subst pc'. rewrite Eits' in Hend'. specialize (Hend' eq_refl). subst ph'.
      exists (LFin t'). split; [discriminate|]. unfold enabled, step. rewrite Ct', E', Nat.eqb_refl.
      apply Nat.eqb_neq in Hne. rewrite Hne. eauto. }
  destruct Ex as (l & Hl & (s1 & Hs1)). rewrite (Hmax l Hl) in Hs1. discriminate.
Qed.

(* ---- consequences for the result ---- *)
Theorem nil_error_means_complete p rank ls s : wfl p rank -> 0 < length (p_threads p) -> p_reterr p = true -> run p (init p) ls = Some s ->
  nth_error (s_thr s) 0 = Some (TDone None) ->
  (forall t x, nth_error (s_thr s) t = Some x -> x = TDone None) /\ (forall t j it, item_at p t j = Some it -> exited s (it_node it)).
Proof.
  intros W Hmain R Hrun H0.
  destruct (run_tinv p ls _ _ (wfl_wf _ _ W) (inv_init p) (invL_init p) (tinv_init p) Hrun) as (I & L & T).
  destruct (tv_main _ _ T R H0) as (Eg & D).
  assert (A : forall t x, nth_error (s_thr s) t = Some x -> x = TDone None).
  { intros t x E. specialize (D t x E). destruct x as [pc ph|[e|]]; [discriminate| |reflexivity].
    exfalso. destruct (Nat.eq_dec t 0) as [->|ne]; [congruence|]. apply (tv_eg _ _ T t e ne E). exact Eg. }
  split; [exact A|]. intros t j it Hi.
  destruct (nth_error (s_thr s) t) as [x|] eqn:E.
  - rewrite (A t x E) in E. eapply (tv_done _ _ T); eauto.
  - exfalso. apply nth_error_None in E. rewrite (inv_len _ _ I) in E. unfold item_at, items_of in Hi. rewrite nth_overflow in Hi by lia. destruct j; discriminate.
Qed.

Theorem failure_is_reported p rank ls s n e : wfl p rank -> p_reterr p = true -> run p (init p) ls = Some s ->
  In (ExitErr n) (s_trace s) -> nth_error (s_thr s) 0 = Some (TDone e) -> e <> None.
Proof.
  intros W R Hrun Hin H0 ->.
  destruct (run_tinv p ls _ _ (wfl_wf _ _ W) (inv_init p) (invL_init p) (tinv_init p) Hrun) as (I & L & T).
  destruct (tv_err _ _ T n Hin) as (t & j & it & _ & _ & E). destruct (Nat.eq_dec t 0) as [->|ne]; [congruence|].
  destruct (tv_main _ _ T R H0) as (Eg & _). apply (tv_eg _ _ T t _ ne E). exact Eg.
Qed.

(* ---- who has been entered ---- *)
Record DInv (p : prog) (s : state) : Prop := {
  dv_enter : forall m vs t j it x, In (Enter m vs) (s_trace s) -> item_at p t j = Some it -> it_node it = m -> In x (it_args it) -> isarg p x = false -> exited s (fst x);
  dv_exit : forall n vs, In (ExitOk n vs) (s_trace s) -> In (Enter n vs) (s_trace s);
  dv_inside : forall t pc vs it, nth_error (s_thr s) t = Some (TRun pc (PInside vs)) -> item_at p t pc = Some it -> In (Enter (it_node it) vs) (s_trace s);
  dv_failed : forall n vs, In (ExitErr n) (s_trace s) -> ~ In (ExitOk n vs) (s_trace s) }.

Lemma dinv_init p : DInv p (init p).
Proof.
  constructor; try (intros; simpl in *; contradiction).
  intros t pc vs it E. unfold init in E. simpl in E. rewrite nth_error_map in E. destruct (nth_error (p_threads p) t); discriminate.
Qed.

Lemma exited_more s tr e : forall n, exited s n -> exists vs, In (ExitOk n vs) (e :: tr) \/ In (ExitOk n vs) (s_trace s).
Proof. intros n (vs & H). exists vs. auto. Qed.

Lemma dinv_step p s l s' : wf p -> Inv p s -> TInv p s -> DInv p s -> step p s l = Some s' -> DInv p s'.
Proof.
  intros W I T D Hs.
  assert (KEEP : forall t x, (forall pc vs, x <> TRun pc (PInside vs)) -> t < length (s_thr s) ->
            forall t0 pc vs, nth_error (upd (s_thr s) t x) t0 = Some (TRun pc (PInside vs)) -> nth_error (s_thr s) t0 = Some (TRun pc (PInside vs))).
  { intros t x Hx Hl t0 pc vs E. apply done_after_upd in E; auto. destruct E as [(_ & E)|(_ & E)]; [exfalso; eapply Hx; eauto|exact E]. }
  assert (MONO : forall tr, (forall e, In e (s_trace s) -> In e tr) -> forall n, exited s n -> exists vs, In (ExitOk n vs) tr) by (intros tr H n (vs & Hv); eauto).
  apply (step_cases p s l s' (fun _ s' => DInv p s') Hs).
  - intros t pc k it x C Ex M. destruct (cur_thr _ _ _ _ _ _ C) as (Ct & Hl). constructor; cbn [setthr s_thr s_trace].
    + apply (dv_enter _ _ D). + apply (dv_exit _ _ D).
    + intros t0 pc0 vs it0 E. apply KEEP in E; auto; [apply (dv_inside _ _ D); auto | intros; discriminate].
    + apply (dv_failed _ _ D).
  - intros t pc k it x e C Ex A Hc. destruct (cur_thr _ _ _ _ _ _ C) as (Ct & Hl). constructor; unfold fail; cbn [s_thr s_trace].
    + apply (dv_enter _ _ D). + apply (dv_exit _ _ D).
    + intros t0 pc0 vs it0 E. apply KEEP in E; auto; [apply (dv_inside _ _ D); auto | intros; discriminate].
    + apply (dv_failed _ _ D).
  - intros t pc it vs C R. destruct (cur_thr _ _ _ _ _ _ C) as (Ct & Hl). apply cur_spec in C. destruct C as (_ & Ci).
    destruct (ready_reads p s t pc it W I Ct Ci) as (vs' & R' & F). rewrite R in R'. inversion R'; subst vs'.
    constructor; unfold mkst, exited; cbn [s_thr s_trace].
    + intros m ws t0 j0 it0 x [E|Hin] Hi Hn Hx Ha.
      * inversion E; subst. assert (El : t0 = t /\ j0 = pc) by (eapply loc_unique; eauto). destruct El; subst. rewrite Ci in Hi. inversion Hi; subst it0.
        assert (G : exists v, good_read p s x v). { clear - Hx F. induction F as [|a v l l' Hav _ IH]; [destruct Hx|]. destruct Hx as [->|Hx]; eauto. }
        destruct G as (v & [(A1 & _)|(us & Hu & _)]); [congruence|]. exists us. right. exact Hu.
      * destruct (dv_enter _ _ D m ws t0 j0 it0 x Hin Hi Hn Hx Ha) as (us & Hu). exists us. right. exact Hu.
    + intros n ws [E|Hin]; [discriminate|]. right. apply (dv_exit _ _ D). exact Hin.
    + intros t0 pc0 ws it0 E Hi0. apply done_after_upd in E; auto. destruct E as [(-> & E)|(_ & E)].
      * inversion E; subst. rewrite Ci in Hi0. inversion Hi0; subst. left. reflexivity.
      * right. eapply (dv_inside _ _ D); eauto.
    + intros n ws [E|Hin] [E'|Hin']; try discriminate. eapply (dv_failed _ _ D); eauto.
  - intros t pc it vs C. destruct (cur_thr _ _ _ _ _ _ C) as (Ct & Hl). apply cur_spec in C. destruct C as (_ & Ci).
    constructor; unfold mkst, exited; cbn [s_thr s_trace].
    + intros m ws t0 j0 it0 x [E|Hin] Hi Hn Hx Ha; [discriminate|]. destruct (dv_enter _ _ D m ws t0 j0 it0 x Hin Hi Hn Hx Ha) as (us & Hu). exists us. right. exact Hu.
    + intros n ws [E|Hin]; [inversion E; subst; right; eapply (dv_inside _ _ D); eauto | right; apply (dv_exit _ _ D); exact Hin].
    + intros t0 pc0 ws it0 E Hi0. apply KEEP in E; auto; [right; eapply (dv_inside _ _ D); eauto | intros; discriminate].
    + intros n ws [E|Hin] [E'|Hin']; try discriminate; [|eapply (dv_failed _ _ D); eauto].
      inversion E'; subst. destruct (tv_err _ _ T _ Hin) as (t1 & j1 & it1 & Hi1 & Hn1 & E1).
      assert (El : t1 = t /\ j1 = pc) by (eapply loc_unique; eauto). destruct El; subst. congruence.
  - intros t pc it vs C Fl. destruct (cur_thr _ _ _ _ _ _ C) as (Ct & Hl). apply cur_spec in C. destruct C as (_ & Ci).
    constructor; unfold mkst, fail, exited; cbn [s_thr s_trace].
    + intros m ws t0 j0 it0 x [E|Hin] Hi Hn Hx Ha; [discriminate|]. destruct (dv_enter _ _ D m ws t0 j0 it0 x Hin Hi Hn Hx Ha) as (us & Hu). exists us. right. exact Hu.
    + intros n ws [E|Hin]; [discriminate|]. right. apply (dv_exit _ _ D). exact Hin.
    + intros t0 pc0 ws it0 E Hi0. apply KEEP in E; auto; [right; eapply (dv_inside _ _ D); eauto | intros; discriminate].
    + intros n ws [E|Hin] [E'|Hin']; try discriminate; [|eapply (dv_failed _ _ D); eauto].
      inversion E; subst. destruct (inv_exit_loc _ _ I _ _ Hin') as (t1 & j1 & it1 & Hi1 & Hn1 & P1).
      assert (El : t1 = t /\ j1 = pc) by (eapply loc_unique; eauto). destruct El; subst. unfold past in P1. rewrite Ct in P1.
      destruct P1 as [P1|(_ & k & P1)]; [lia|discriminate].
  - intros t pc k it x C Ex M. destruct (cur_thr _ _ _ _ _ _ C) as (Ct & Hl). constructor; unfold mkst; cbn [s_thr s_trace].
    + apply (dv_enter _ _ D). + apply (dv_exit _ _ D).
    + intros t0 pc0 vs it0 E. apply KEEP in E; auto; [apply (dv_inside _ _ D); auto | intros; discriminate].
    + apply (dv_failed _ _ D).
  - intros t pc it C. destruct (cur_thr _ _ _ _ _ _ C) as (Ct & Hl). constructor; cbn [setthr s_thr s_trace].
    + apply (dv_enter _ _ D). + apply (dv_exit _ _ D).
    + intros t0 pc0 vs it0 E. apply KEEP in E; auto; [apply (dv_inside _ _ D); auto | intros; discriminate].
    + apply (dv_failed _ _ D).
  - intros t pc its Ct Et Ep Hj. assert (Hl : t < length (s_thr s)) by (eapply nth_error_Some_lt; eauto). constructor; cbn [setthr s_thr s_trace].
    + apply (dv_enter _ _ D). + apply (dv_exit _ _ D).
    + intros t0 pc0 vs it0 E. apply KEEP in E; auto; [apply (dv_inside _ _ D); auto | intros; discriminate].
    + apply (dv_failed _ _ D).
  - constructor; unfold mkst; cbn [s_thr s_trace]; [apply (dv_enter _ _ D) | apply (dv_exit _ _ D) | apply (dv_inside _ _ D) | apply (dv_failed _ _ D)].
Qed.

Lemma run_dinv p : forall ls s s', wf p -> Inv p s -> InvL p s -> TInv p s -> DInv p s -> run p s ls = Some s' -> DInv p s'.
Proof.
  induction ls as [|l r IH]; intros s s' W I L T D R; simpl in R; [inversion R; subst; auto|].
  destruct (step p s l) as [s1|] eqn:E; [|discriminate].
  apply (IH s1 s' W); auto; [eapply step_inv; eauto | eapply stepL_inv; eauto | eapply tinv_step; eauto | eapply dinv_step; eauto].
Qed.

(* m depends on n: some argument of m's provider call is a result of n, directly or through other providers *)
Inductive depends (p : prog) : nat -> nat -> Prop :=
| dep_direct t j it x : item_at p t j = Some it -> In x (it_args it) -> isarg p x = false -> depends p (it_node it) (fst x)
| dep_trans m k n : depends p m k -> depends p k n -> depends p m n.

Theorem no_dependent_entered p ls s : wf p -> run p (init p) ls = Some s ->
  forall n, In (ExitErr n) (s_trace s) -> forall m, depends p m n -> forall vs, ~ In (Enter m vs) (s_trace s).
Proof.
  intros W Hrun n Herr m Hdep vs Hin.
  assert (I : Inv p s) by (eapply run_inv; eauto using inv_init).
  assert (D : DInv p s).
  { assert (G : forall ls s0 s1, Inv p s0 -> InvL p s0 -> TInv p s0 -> DInv p s0 -> run p s0 ls = Some s1 -> DInv p s1) by (intros; eapply run_dinv; eauto).
    eapply (G ls (init p)); eauto using inv_init, invL_init, tinv_init, dinv_init. }
  assert (L1 : forall m n, depends p m n -> forall vs, In (Enter m vs) (s_trace s) -> exited s n).
  { clear - D. intros m n H. induction H as [t j it x Hi Hx Ha|m k n H1 IH1 H2 IH2]; intros vs Hin.
    - eapply (dv_enter _ _ D); eauto.
    - destruct (IH1 vs Hin) as (ws & Hw). apply (dv_exit _ _ D) in Hw. eapply IH2; eauto. }
  destruct (L1 m n Hdep vs Hin) as (ws & Hw). eapply (dv_failed _ _ D); eauto.
Qed.
