From Coq Require Import List Arith Lia Bool.
Import ListNotations.

(* ---------- programs ---------- *)
Definition var := (nat * nat)%type.
Definition var_eq_dec : forall a b : var, {a = b} + {a <> b}.
Proof. decide equality; apply Nat.eq_dec. Defined.
Definition mem (x : var) (l : list var) : bool := if in_dec var_eq_dec x l then true else false.

Record item := {
  it_node : nat;
  it_args : list var;
  it_waits : list var;
  it_nrets : nat;
  it_closes : list var;
  it_fallible : bool }.

Record prog := {
  p_threads : list (list item);   (* thread 0 = the injector's own thread *)
  p_argnodes : list nat;
  p_reterr : bool }.

Inductive val := VArg (a : nat) | VApp (n i : nat) (args : list val).
Inductive err := EProv (n : nat) | ECtxInt | ECtxExt.
Inductive phase := PWait (k : nat) | PInside (args : list val) | PClose (k : nat).
Inductive tstat := TRun (pc : nat) (ph : phase) | TDone (e : option err).
Inductive event := Enter (n : nat) (vs : list val) | ExitOk (n : nat) (vs : list val) | ExitErr (n : nat).

Record state := {
  s_thr : list tstat;
  s_closed : list var;
  s_store : list (var * val);
  s_egerr : option err;
  s_cint : bool;
  s_cext : bool;
  s_trace : list event (* newest first *) }.

Inductive label := LWaitPass (t : nat) | LWaitCtx (t : nat) | LEnter (t : nat) | LExitOk (t : nat)
                 | LExitErr (t : nat) | LClose (t : nat) | LNext (t : nat) | LFin (t : nat) | LCancel.

Fixpoint lookup (x : var) (st : list (var * val)) : option val :=
  match st with
  | [] => None
  | (y, v) :: r => if var_eq_dec x y then Some v else lookup x r
  end.

Definition isarg (p : prog) (x : var) : bool := if in_dec Nat.eq_dec (fst x) (p_argnodes p) then true else false.
Definition rd (p : prog) (st : list (var*val)) (x : var) : option val :=
  if isarg p x then Some (VArg (fst x)) else lookup x st.
Fixpoint rdall p st (xs : list var) : option (list val) :=
  match xs with
  | [] => Some []
  | x :: r => match rd p st x, rdall p st r with
              | Some v, Some vs => Some (v :: vs) | _, _ => None end
  end.

Fixpoint upd {A} (l : list A) (i : nat) (a : A) : list A :=
  match l, i with
  | [], _ => []
  | _ :: r, 0 => a :: r
  | x :: r, S j => x :: upd r j a
  end.

Definition rets (n k : nat) (args : list val) : list (var * val) :=
  map (fun i => ((n, i), VApp n i args)) (seq 0 k).

Definition cur (p : prog) (s : state) (t : nat) : option (nat * phase * item) :=
  match nth_error (s_thr s) t, nth_error (p_threads p) t with
  | Some (TRun pc ph), Some its =>
      match nth_error its pc with Some it => Some (pc, ph, it) | None => None end
  | _, _ => None
  end.

Definition ctxaware (p : prog) (t : nat) : bool := if Nat.eqb t 0 then p_reterr p else true.
Definition setthr (s : state) (t : nat) (x : tstat) : state :=
  {| s_thr := upd (s_thr s) t x; s_closed := s_closed s; s_store := s_store s; s_egerr := s_egerr s;
     s_cint := s_cint s; s_cext := s_cext s; s_trace := s_trace s |}.
Definition fail (s : state) (t : nat) (e : err) : state :=
  {| s_thr := upd (s_thr s) t (TDone (Some e)); s_closed := s_closed s; s_store := s_store s;
     s_egerr := if Nat.eqb t 0 then s_egerr s else match s_egerr s with Some e0 => Some e0 | None => Some e end;
     s_cint := if Nat.eqb t 0 then s_cint s else true; s_cext := s_cext s; s_trace := s_trace s |}.

Definition isdone (x : tstat) : bool := match x with TDone _ => true | _ => false end.

Definition step (p : prog) (s : state) (l : label) : option state :=
  match l with
  | LWaitPass t =>
      match cur p s t with
      | Some (pc, PWait k, it) =>
          match nth_error (it_waits it) k with
          | Some x => if mem x (s_closed s) then Some (setthr s t (TRun pc (PWait (S k)))) else None
          | None => None end
      | _ => None end
  | LWaitCtx t =>
      match cur p s t with
      | Some (pc, PWait k, it) =>
          match nth_error (it_waits it) k with
          | Some x => if ctxaware p t then
                        if s_cext s then Some (fail s t ECtxExt)
                        else if s_cint s then Some (fail s t ECtxInt) else None
                      else None
          | None => None end
      | _ => None end
  | LEnter t =>
      match cur p s t with
      | Some (pc, PWait k, it) =>
          if Nat.eqb k (length (it_waits it)) then
            match rdall p (s_store s) (it_args it) with
            | Some vs => Some {| s_thr := upd (s_thr s) t (TRun pc (PInside vs)); s_closed := s_closed s;
                                 s_store := s_store s; s_egerr := s_egerr s; s_cint := s_cint s; s_cext := s_cext s;
                                 s_trace := Enter (it_node it) vs :: s_trace s |}
            | None => None   (* read of an unwritten variable: stuck = detectable *)
            end
          else None
      | _ => None end
  | LExitOk t =>
      match cur p s t with
      | Some (pc, PInside vs, it) =>
          Some {| s_thr := upd (s_thr s) t (TRun pc (PClose 0)); s_closed := s_closed s;
                  s_store := rets (it_node it) (it_nrets it) vs ++ s_store s;
                  s_egerr := s_egerr s; s_cint := s_cint s; s_cext := s_cext s;
                  s_trace := ExitOk (it_node it) vs :: s_trace s |}
      | _ => None end
  | LExitErr t =>
      match cur p s t with
      | Some (pc, PInside vs, it) =>
          if it_fallible it then
            let s' := fail s t (EProv (it_node it)) in
            Some {| s_thr := s_thr s'; s_closed := s_closed s'; s_store := s_store s'; s_egerr := s_egerr s';
                    s_cint := s_cint s'; s_cext := s_cext s'; s_trace := ExitErr (it_node it) :: s_trace s |}
          else None
      | _ => None end
  | LClose t =>
      match cur p s t with
      | Some (pc, PClose k, it) =>
          match nth_error (it_closes it) k with
          | Some x => if mem x (s_closed s) then None (* panic *) else
              Some {| s_thr := upd (s_thr s) t (TRun pc (PClose (S k))); s_closed := x :: s_closed s;
                      s_store := s_store s; s_egerr := s_egerr s; s_cint := s_cint s; s_cext := s_cext s;
                      s_trace := s_trace s |}
          | None => None end
      | _ => None end
  | LNext t =>
      match cur p s t with
      | Some (pc, PClose k, it) =>
          if Nat.eqb k (length (it_closes it)) then Some (setthr s t (TRun (S pc) (PWait 0))) else None
      | _ => None end
  | LFin t =>
      match nth_error (s_thr s) t, nth_error (p_threads p) t with
      | Some (TRun pc (PWait 0)), Some its =>
          if Nat.eqb pc (length its) then
            if Nat.eqb t 0 then
              (* the injector's own thread: eg.Wait() joins every goroutine, then returns the group's error if it has an error result *)
              if forallb isdone (tl (s_thr s)) then Some (setthr s t (TDone (if p_reterr p then s_egerr s else None))) else None
            else Some (setthr s t (TDone None))
          else None
      | _, _ => None end
  | LCancel => Some {| s_thr := s_thr s; s_closed := s_closed s; s_store := s_store s; s_egerr := s_egerr s;
                       s_cint := s_cint s; s_cext := true; s_trace := s_trace s |}
  end.

Fixpoint run (p : prog) (s : state) (ls : list label) : option state :=
  match ls with
  | [] => Some s
  | l :: r => match step p s l with Some s' => run p s' r | None => None end
  end.

Definition init (p : prog) : state :=
  {| s_thr := map (fun _ => TRun 0 (PWait 0)) (p_threads p); s_closed := []; s_store := [];
     s_egerr := None; s_cint := false; s_cext := false; s_trace := [] |}.


(* ---------- well-formedness ---------- *)
Definition items_of (p : prog) (t : nat) : list item := nth t (p_threads p) [].
Definition item_at (p : prog) (t j : nat) : option item := nth_error (items_of p t) j.

Record wf (p : prog) : Prop := {
  wf_nodup : NoDup (map it_node (concat (p_threads p)));
  wf_args : forall t j it x, item_at p t j = Some it -> In x (it_args it) ->
      isarg p x = true \/
      (exists j' it', j' < j /\ item_at p t j' = Some it' /\ it_node it' = fst x /\ snd x < it_nrets it') \/
      In x (it_waits it);
  wf_waits : forall t j it x, item_at p t j = Some it -> In x (it_waits it) -> isarg p x = false /\
      exists t' j' it', item_at p t' j' = Some it' /\ it_node it' = fst x /\ snd x < it_nrets it';
  wf_closes : forall t j it x, item_at p t j = Some it -> In x (it_closes it) -> fst x = it_node it;
  wf_noarg : forall t j it, item_at p t j = Some it -> ~ In (it_node it) (p_argnodes p) }.

Definition exited (s : state) (n : nat) : Prop := exists vs, In (ExitOk n vs) (s_trace s).

Definition past (s : state) (t j : nat) : Prop :=
  match nth_error (s_thr s) t with
  | Some (TRun pc ph) => j < pc \/ (j = pc /\ exists k, ph = PClose k)
  | Some (TDone _) => True
  | None => False
  end.

Record Inv (p : prog) (s : state) : Prop := {
  inv_len : length (s_thr s) = length (p_threads p);
  inv_closed : forall x, In x (s_closed s) -> exited s (fst x);
  inv_store : forall n vs i k t j it, In (ExitOk n vs) (s_trace s) -> item_at p t j = Some it -> it_node it = n ->
                 k = it_nrets it -> i < k -> lookup (n, i) (s_store s) = Some (VApp n i vs);
  inv_exit_loc : forall n vs, In (ExitOk n vs) (s_trace s) ->
                 exists t j it, item_at p t j = Some it /\ it_node it = n /\ past s t j;
  inv_pc : forall t pc ph, nth_error (s_thr s) t = Some (TRun pc ph) ->
              (forall j it, j < pc -> item_at p t j = Some it -> exited s (it_node it)) /\
              match ph with
              | PWait k => forall i it x, item_at p t pc = Some it -> i < k -> nth_error (it_waits it) i = Some x -> In x (s_closed s)
              | PClose _ => forall it, item_at p t pc = Some it -> exited s (it_node it)
              | PInside _ => True
              end;
  inv_once : forall n vs ws, In (ExitOk n vs) (s_trace s) -> In (ExitOk n ws) (s_trace s) -> vs = ws }.
