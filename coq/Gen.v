From Coq Require Import List Arith Lia Bool NArith.
Import ListNotations.

(* ------------------------------------------------------------------ utilities *)
Definition upd {A} (l : list A) (i : nat) (f : A -> A) : list A :=
  (fix go l i := match l, i with
                 | [], _ => []
                 | x :: r, 0 => f x :: r
                 | x :: r, S j => x :: go r j end) l i.
Fixpoint assoc {A} (k : N) (l : list (N * A)) : option A :=
  match l with [] => None | (k', v) :: r => if N.eqb k k' then Some v else assoc k r end.
Fixpoint assocn {A} (k : nat) (l : list (nat * A)) : option A :=
  match l with [] => None | (k', v) :: r => if Nat.eqb k k' then Some v else assocn k r end.
Definition memn (x : nat) (l : list nat) : bool := existsb (Nat.eqb x) l.
Fixpoint index_of (x : nat) (l : list nat) : option nat :=
  match l with [] => None | y :: r => if Nat.eqb x y then Some 0 else option_map S (index_of x r) end.

Inductive result (A : Type) := OK (a : A) | Err (e : nat).
Arguments OK {A}. Arguments Err {A}.
(* error codes: 1 dup, 2 orphan struct, 3 cycle, 4 fuel, 5 panic, 6 no initial pools, 7 nil/internal *)

(* ------------------------------------------------------------------ declarations *)
Record prov := {
  requires : list N; provides : list (list N); fallible : bool; async : bool;
  isstruct : bool; sfields : list (N * N) (* field name id, type *); isfield : bool; fname : N }.
Definition mkfn req prv f a : prov :=
  {| requires := req; provides := prv; fallible := f; async := a; isstruct := false; sfields := []; isfield := false; fname := 0%N |}.
Definition mkstruct (t : N) (fs : list (N*N)) : prov :=
  {| requires := [t]; provides := [[t]]; fallible := false; async := false; isstruct := true; sfields := fs; isfield := false; fname := 0%N |}.
Record decl := { d_ret : N; d_provs : list prov }.

(* ------------------------------------------------------------------ NewGraph *)
Inductive nodek := NArg (t : N) | NProv (pi : nat).
Record edge := { e_to : nat; e_src : nat; e_dst : nat }.
Record graph := { g_provs : list prov; g_nodes : list nodek; g_edges : list (list edge); g_redges : list (list nat);
                  g_ret : nat * nat }.

Definition pmap := list (N * (nat * nat)).   (* type -> provider index, result group *)

Fixpoint add_group (pm : pmap) (pi gi : nat) (ts : list N) : result pmap :=
  match ts with
  | [] => OK pm
  | t :: r => match assoc t pm with
              | Some (pj, _) => if Nat.eqb pi pj then add_group pm pi gi r else Err 1
              | None => add_group (pm ++ [(t, (pi, gi))]) pi gi r
              end
  end.
Fixpoint add_groups (pm : pmap) (pi gi : nat) (gs : list (list N)) : result pmap :=
  match gs with
  | [] => OK pm
  | g :: r => match add_group pm pi gi g with OK pm' => add_groups pm' pi (S gi) r | Err e => Err e end
  end.
(* first pass over non-struct providers (index = position in the original list) *)
Fixpoint pass1 (pm : pmap) (pi : nat) (ps : list prov) : result pmap :=
  match ps with
  | [] => OK pm
  | p :: r => if isstruct p then pass1 pm (S pi) r
              else match add_groups pm pi 0 (provides p) with OK pm' => pass1 pm' (S pi) r | Err e => Err e end
  end.
Definition mkfield (st : N) (f : N * N) : prov :=
  {| requires := [st]; provides := [[snd f]]; fallible := false; async := false; isstruct := false; sfields := [];
     isfield := true; fname := fst f |}.
Fixpoint add_fields (pm : pmap) (provs : list prov) (st : N) (fs : list (N*N)) : result (pmap * list prov) :=
  match fs with
  | [] => OK (pm, provs)
  | f :: r => match assoc (snd f) pm with
              | Some _ => Err 1
              | None => add_fields (pm ++ [(snd f, (length provs, 0))]) (provs ++ [mkfield st f]) st r
              end
  end.
(* second pass: Struct expansions. The source of a struct may itself be a field of a struct expanded later: such an
   expansion is put back behind the others (at most once per waiting struct between two successful expansions), so the
   order of the declaration does not decide acceptance (graph.go:NewGraph, "pending"/"deferred"). *)
Definition has_field_of (st : N) (ss : list prov) : bool :=
  existsb (fun s => existsb (fun f : N * N => N.eqb (snd f) st) (sfields s)) ss.
Fixpoint pass2_loop (fuel : nat) (pm : pmap) (provs : list prov) (pending : list prov) (deferred : nat) : result (pmap * list prov) :=
  match fuel with
  | 0 => Err 4
  | S fuel =>
      match pending with
      | [] => OK (pm, provs)
      | s :: r => match hd_error (requires s) with
                  | None => Err 7
                  | Some st => match assoc st pm with
                               | None => if has_field_of st r && Nat.leb deferred (length r)
                                         then pass2_loop fuel pm provs (r ++ [s]) (S deferred)
                                         else Err 2
                               | Some _ => match add_fields pm provs st (sfields s) with
                                           | OK (pm', provs') => pass2_loop fuel pm' provs' r 0
                                           | Err e => Err e end
                               end
                  end
      end
  end.
Definition pass2 (pm : pmap) (provs : list prov) (ss : list prov) : result (pmap * list prov) :=
  pass2_loop (S (length ss * (length ss + 3))) pm provs ss 0.

Record bfs := { b_nodes : list nodek; b_edges : list (list edge); b_redges : list (list nat);
                b_pnode : list (nat * nat); b_anode : list (N * nat); b_queue : list nat; b_visited : list nat }.

Definition add_edge (b : bfs) (n2 n1 src dst : nat) : bfs :=
  {| b_nodes := b_nodes b; b_edges := upd (b_edges b) n2 (fun l => l ++ [{| e_to := n1; e_src := src; e_dst := dst |}]);
     b_redges := upd (b_redges b) n1 (fun l => l ++ [n2]); b_pnode := b_pnode b; b_anode := b_anode b;
     b_queue := b_queue b; b_visited := b_visited b |}.
Definition new_node (b : bfs) (k : nodek) : bfs * nat :=
  let n := length (b_nodes b) in
  ({| b_nodes := b_nodes b ++ [k]; b_edges := b_edges b ++ [[]]; b_redges := b_redges b ++ [[]];
      b_pnode := match k with NProv pi => b_pnode b ++ [(pi, n)] | _ => b_pnode b end;
      b_anode := match k with NArg t => b_anode b ++ [(t, n)] | _ => b_anode b end;
      b_queue := b_queue b ++ [n]; b_visited := b_visited b |}, n).

Fixpoint do_requires (pm : pmap) (b : bfs) (n1 : nat) (i : nat) (ts : list N) : bfs :=
  match ts with
  | [] => b
  | t :: r =>
      let '(b', n2, src) :=
        match assoc t pm with
        | Some (pi, gi) => match assocn pi (b_pnode b) with
                           | Some n2 => (b, n2, gi)
                           | None => let (b', n2) := new_node b (NProv pi) in (b', n2, gi)
                           end
        | None => match assoc t (b_anode b) with
                  | Some n2 => (b, n2, 0)
                  | None => let (b', n2) := new_node b (NArg t) in (b', n2, 0)
                  end
        end in
      do_requires pm (add_edge b' n2 n1 src i) n1 (S i) r
  end.

Fixpoint bfs_loop (fuel : nat) (provs : list prov) (pm : pmap) (b : bfs) : result bfs :=
  match fuel with
  | 0 => Err 4
  | S fuel =>
      match b_queue b with
      | [] => OK b
      | n1 :: q =>
          let b := {| b_nodes := b_nodes b; b_edges := b_edges b; b_redges := b_redges b; b_pnode := b_pnode b;
                      b_anode := b_anode b; b_queue := q; b_visited := b_visited b |} in
          if memn n1 (b_visited b) then bfs_loop fuel provs pm b
          else
            let b := {| b_nodes := b_nodes b; b_edges := b_edges b; b_redges := b_redges b; b_pnode := b_pnode b;
                        b_anode := b_anode b; b_queue := b_queue b; b_visited := n1 :: b_visited b |} in
            match nth_error (b_nodes b) n1 with
            | Some (NProv pi) =>
                match nth_error provs pi with
                | Some p => bfs_loop fuel provs pm (do_requires pm b n1 0 (requires p))
                | None => Err 7 end
            | _ => bfs_loop fuel provs pm b
            end
      end
  end.

(* three-colour DFS; colours: 0 white 1 gray 2 black *)
Fixpoint dfs (fuel : nat) (edges : list (list edge)) (col : list nat) (n : nat) : option (list nat) (* None = cycle *) :=
  match fuel with
  | 0 => None
  | S fuel =>
      let col := upd col n (fun _ => 1) in
      (fix go (es : list edge) (col : list nat) : option (list nat) :=
         match es with
         | [] => Some (upd col n (fun _ => 2))
         | e :: r => match nth (e_to e) col 0 with
                     | 1 => None
                     | 0 => match dfs fuel edges col (e_to e) with Some col' => go r col' | None => None end
                     | _ => go r col
                     end
         end) (nth n edges []) col
  end.
Fixpoint dfs_all (fuel : nat) (edges : list (list edge)) (col : list nat) (ns : list nat) : bool :=
  match ns with
  | [] => true
  | n :: r => match nth n col 0 with
              | 0 => match dfs fuel edges col n with Some col' => dfs_all fuel edges col' r | None => false end
              | _ => dfs_all fuel edges col r
              end
  end.

Definition new_graph (d : decl) : result graph :=
  match pass1 [] 0 (d_provs d) with
  | Err e => Err e
  | OK pm =>
      match pass2 pm (d_provs d) (filter isstruct (d_provs d)) with
      | Err e => Err e
      | OK (pm, provs) =>
          match assoc (d_ret d) pm with
          | None => OK {| g_provs := provs; g_nodes := [NArg (d_ret d)]; g_edges := [[]]; g_redges := [[]]; g_ret := (0, 0) |}
          | Some (pi, gi) =>
              (* NB: the return node is NOT registered in providerNodeMap *)
              let b0 := {| b_nodes := [NProv pi]; b_edges := [[]]; b_redges := [[]]; b_pnode := []; b_anode := [];
                           b_queue := [0]; b_visited := [] |} in
              let fuel := 2 + 2 * (length provs + fold_right (fun p a => length (requires p) + a) 0 provs) in
              match bfs_loop fuel provs pm b0 with
              | Err e => Err e
              | OK b =>
                  let n := length (b_nodes b) in
                  if dfs_all (S n) (b_edges b) (repeat 0 n) (seq 0 n)
                  then OK {| g_provs := provs; g_nodes := b_nodes b; g_edges := b_edges b; g_redges := b_redges b; g_ret := (0, gi) |}
                  else Err 3
              end
          end
      end
  end.

(* ------------------------------------------------------------------ scheduling *)
Section Sched.
Variable g : graph.
Definition nn := length (g_nodes g).
Definition prov_of (n : nat) : option prov :=
  match nth_error (g_nodes g) n with Some (NProv pi) => nth_error (g_provs g) pi | _ => None end.
Definition is_async (n : nat) : bool := match prov_of n with Some p => async p | None => false end.
Definition is_arg (n : nat) : bool := match nth_error (g_nodes g) n with Some (NArg _) => true | _ => false end.
Definition deps (n : nat) : list nat := nth n (g_redges g) [].
Definition outs (n : nat) : list edge := nth n (g_edges g) [].

(* Kuhn's augmenting paths: matchR : list (option nat) indexed by v *)
Fixpoint augment (fuel : nat) (u : nat) (used : list nat) (matchR : list (option nat)) : bool * list nat * list (option nat) :=
  match fuel with
  | 0 => (false, used, matchR)
  | S fuel =>
      (fix go (vs : list edge) (used : list nat) (matchR : list (option nat)) :=
         match vs with
         | [] => (false, used, matchR)
         | e :: r =>
             let v := e_to e in
             if memn v used then go r used matchR
             else
               let used := v :: used in
               match nth v matchR None with
               | None => (true, used, upd matchR v (fun _ => Some u))
               | Some u' =>
                   let '(ok, used', matchR') := augment fuel u' used matchR in
                   if ok then (true, used', upd matchR' v (fun _ => Some u)) else go r used' matchR'
               end
         end) (outs u) used matchR
  end.
Definition antichain : nat :=
  let '(cnt, _) :=
    fold_left (fun '(cnt, matchR) u =>
                 let '(ok, _, matchR') := augment (S nn) u [] matchR in
                 (if ok then cnt - 1 else cnt, matchR')) (seq 0 nn) (nn, repeat None nn) in cnt.

(* Kahn with FIFO queue; counts : per node remaining; provided : per node list of dst already counted *)
Fixpoint kahn (fuel : nat) (queue : list nat) (visited : list nat) (counts : list nat) (provided : list (list nat)) (acc : list nat) : list nat :=
  match fuel with
  | 0 => rev acc
  | S fuel =>
      match queue with
      | [] => rev acc
      | n :: q =>
          if memn n visited then kahn fuel q visited counts provided acc
          else
            let '(q', counts', provided') :=
              fold_left (fun '(q, counts, provided) e =>
                           if memn (e_dst e) (nth (e_to e) provided []) then (q, counts, provided)
                           else
                             let c := nth (e_to e) counts 0 - 1 in
                             (if Nat.eqb c 0 then q ++ [e_to e] else q,
                              upd counts (e_to e) (fun _ => c),
                              upd provided (e_to e) (fun l => e_dst e :: l)))
                        (outs n) (q, counts, provided) in
            kahn fuel q' (n :: visited) counts' provided' (n :: acc)
      end
  end.
Definition topo : list nat :=
  let counts := map (fun n => length (deps n)) (seq 0 nn) in
  let q0 := filter (fun n => Nat.eqb (length (deps n)) 0) (seq 0 nn) in
  kahn (S (nn + fold_right (fun l a => length l + a) 0 (g_edges g))) q0 [] counts (repeat [] nn) [].

(* findOptimalPool *)
Definition count_provided (provided : list nat) (ds : list nat) : nat := length (filter (fun d => memn d provided) ds).

Fixpoint pool_loop_inner (ds : list nat) (rpool : list nat) : nat (* 0 = return this pool, 1 = skip pool, 2 = fell through *) :=
  match rpool with
  | [] => 2
  | nd :: r => if memn nd ds then 0 else if is_async nd then 1 else pool_loop_inner ds r
  end.
Fixpoint pool_loop (asyncn : bool) (ds : list nat) (pools : list (list nat)) (cands : list nat) : option nat :=
  match cands with
  | [] => None
  | pi :: r =>
      if negb asyncn then Some pi
      else match pool_loop_inner ds (rev (nth pi pools [])) with
           | 0 => Some pi
           | 1 => pool_loop asyncn ds pools r
           | _ => if Nat.eqb pi 0 then Some 0 else pool_loop asyncn ds pools r
           end
  end.
Fixpoint first_empty (pools : list (list nat)) (i : nat) : option nat :=
  match pools with [] => None | p :: r => match p with [] => Some i | _ => first_empty r (S i) end end.

Definition find_pool (n : nat) (pools : list (list nat)) (pprov : list (list nat)) : nat :=
  let ds := deps n in
  let asyncn := is_async n in
  let '(maxc, cands) :=
    fold_left (fun '(maxc, cands) i =>
                 let c := count_provided (nth i pprov []) ds in
                 if negb asyncn && Nat.eqb (length (nth i pools [])) 0 then (maxc, cands)
                 else if Nat.ltb maxc c then (c, [i])
                 else if Nat.eqb c maxc then (maxc, cands ++ [i]) else (maxc, cands))
              (seq 0 (length pools)) (0, []) in
  match cands with
  | [] => 0
  | _ =>
      let r1 := if Nat.eqb maxc (length ds) then pool_loop asyncn ds pools cands else None in
      match r1 with
      | Some i => i
      | None =>
          match (if asyncn then first_empty pools 0 else None) with
          | Some i => i
          | None =>
              snd (fold_left (fun '(minsz, best) i =>
                                let sz := length (nth i pools []) in
                                if negb asyncn && Nat.eqb sz 0 then (minsz, best)
                                else match minsz with
                                     | None => (Some sz, i)
                                     | Some m => if Nat.ltb sz m then (Some sz, i) else (minsz, best) end)
                             cands (None, 0))
          end
      end
  end.

(* Build, first pass *)
Definition assign : list (list nat) * list (nat * nat) (* node -> pool *) :=
  let np := antichain in
  let args := filter is_arg (seq 0 nn) in
  let '(pools, pprov, n2p) :=
    fold_left (fun '(pools, pprov, n2p) n =>
                 if is_arg n then (pools, pprov, n2p)
                 else
                   let i := find_pool n pools pprov in
                   (upd pools i (fun l => l ++ [n]), upd pprov i (fun l => n :: l), n2p ++ [(n, i)]))
              topo (repeat [] np, repeat args np, []) in
  (pools, n2p).

End Sched.

(* ------------------------------------------------------------------ second pass, thread assembly, emission *)
Section Emit.
Variable g : graph.
Definition var := (nat * nat)%type.
Record item := { it_node : nat; it_args : list var; it_waits : list var; it_closes : list var; it_fall : bool; it_async : bool }.

Definition pool_of (n2p : list (nat * nat)) (n : nat) : option nat := assocn n n2p.
Definition cross (n2p : list (nat*nat)) (a b : nat) : bool :=
  match pool_of n2p a, pool_of n2p b with
  | Some x, Some y => negb (Nat.eqb x y)
  | _, _ => true     (* an argument node is in no pool: "not in the same pool" *)
  end.
(* withChannel of variable (n,i): n is a provider and some edge out of (n,i) crosses pools *)
Definition with_chan (n2p : list (nat*nat)) (x : var) : bool :=
  negb (is_arg g (fst x)) &&
  existsb (fun e => Nat.eqb (e_src e) (snd x) && cross n2p (fst x) (e_to e)) (outs g (fst x)).

(* argument sources of node m, in parameter order: for dst i the unique edge into m with e_dst = i *)
Definition arg_src (m : nat) (i : nat) : option var :=
  let cands := flat_map (fun n => map (fun e => (n, e)) (filter (fun e => Nat.eqb (e_to e) m && Nat.eqb (e_dst e) i) (outs g n)))
                        (seq 0 (nn g)) in
  match cands with (n, e) :: _ => Some (n, e_src e) | [] => None end.
Definition nparams (m : nat) : nat := match prov_of g m with Some p => length (requires p) | None => 0 end.
Definition args_of (m : nat) : list var :=
  flat_map (fun i => match arg_src m i with Some x => [x] | None => [] end) (seq 0 (nparams m)).

Definition mkitem (n2p : list (nat*nat)) (m : nat) : item :=
  let args := args_of m in
  {| it_node := m; it_args := args;
     it_waits := filter (fun x => cross n2p (fst x) m && with_chan n2p x) args;
     it_closes := filter (with_chan n2p) (map (fun i => (m, i)) (seq 0 (match prov_of g m with Some p => length (provides p) | None => 0 end)));
     it_fall := match prov_of g m with Some p => fallible p | None => false end;
     it_async := is_async g m |}.

Definition deps_in (n : nat) (done : list nat) : bool := forallb (fun d => memn d done) (deps g n).

Record threads := { t_main : list nat; t_gos : list (list nat) }.

Fixpoint dep_loop (fuel : nat) (pools : list (list nat)) (visited : list nat) (processed : list nat) (main : list nat) (gos : list (list nat))
  : list nat * list (list nat) :=
  match fuel with
  | 0 => (main, gos)
  | S fuel =>
      let '(visited', processed', main', gos', progress) :=
        fold_left (fun '(visited, processed, main, gos, progress) i =>
                     let pool := nth i pools [] in
                     if memn i visited || Nat.eqb (length pool) 0 then (visited, processed, main, gos, progress)
                     else match pool with
                          | first :: _ =>
                              if deps_in first processed then
                                if is_async g first then (i :: visited, pool ++ processed, main, gos ++ [pool], true)
                                else (i :: visited, pool ++ processed, main ++ pool, gos, true)
                              else (visited, processed, main, gos, progress)
                          | [] => (visited, processed, main, gos, progress)
                          end)
                  (seq 0 (length pools)) (visited, processed, main, gos, false) in
      if progress then dep_loop fuel pools visited' processed' main' gos' else (main', gos')
  end.

Definition build_threads (pools : list (list nat)) : result threads :=
  let args := filter (is_arg g) (seq 0 (nn g)) in
  let nonempty := filter (fun i => negb (Nat.eqb (length (nth i pools [])) 0)) (seq 0 (length pools)) in
  let initial := filter (fun i => match nth i pools [] with first :: _ => deps_in first args | [] => false end) nonempty in
  match initial with
  | [] => Err 6
  | i0 :: _ =>
      let syncs := filter (fun i => match nth i pools [] with first :: _ => negb (is_async g first) | [] => false end) initial in
      let mainidx := match syncs with s :: _ => s | [] => i0 end in
      let main := nth mainidx pools [] in
      let others := filter (fun i => negb (Nat.eqb i mainidx)) initial in
      let gos := map (fun i => nth i pools []) others in
      let visited := mainidx :: others ++ filter (fun i => Nat.eqb (length (nth i pools [])) 0) (seq 0 (length pools)) in
      let processed := args ++ main ++ concat gos in
      let '(main', gos') := dep_loop (S (length pools)) pools visited processed main gos in
      OK {| t_main := main'; t_gos := gos' |}
  end.

Definition emit : result (list item * list (list item)) :=
  let '(pools, n2p) := assign g in
  match build_threads pools with
  | Err e => Err e
  | OK th => OK (map (mkitem n2p) (t_main th), map (map (mkitem n2p)) (t_gos th))
  end.
End Emit.

Definition gen (d : decl) :=
  match new_graph d with
  | Err e => Err e
  | OK g => match emit g with Err e => Err e | OK x => OK (g_nodes g, topo g, antichain g, fst (assign g), x) end
  end.

(* ------------------------------------------------------------------ examples/complex_async *)
(* types: 1 Config 2 Db 3 Cache 4 Msg 5 User 6 Session 7 Notif 8 App *)
Definition complex_async : decl := {| d_ret := 8%N; d_provs := [
  mkfn [] [[1%N]] false false;
  mkfn [1%N] [[2%N]] false true; mkfn [1%N] [[3%N]] false true; mkfn [1%N] [[4%N]] false true;
  mkfn [2%N] [[5%N]] false true; mkfn [3%N] [[6%N]] false true;
  mkfn [5%N;6%N;4%N] [[7%N]] false true;
  mkfn [7%N] [[8%N]] false false ] |}.
Eval vm_compute in gen complex_async.
