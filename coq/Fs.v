From Coq Require Import List Arith Lia Bool.
Import ListNotations.

Definition path := nat.
Definition content := list nat.
Definition mode := nat.
Definition fs := path -> option (content * mode).
Definition fset (s : fs) (p : path) (v : option (content * mode)) : fs := fun q => if Nat.eqb q p then v else s q.
Lemma fset_eq s p v : fset s p v p = v. Proof. unfold fset. rewrite Nat.eqb_refl. auto. Qed.
Lemma fset_neq s p v q : q <> p -> fset s p v q = s q. Proof. unfold fset. intros H. apply Nat.eqb_neq in H. rewrite H. auto. Qed.

Definition m600 := 384. Definition m644 := 420.

(* one file to install: destination, content, and the name CreateTemp will pick (fresh, chosen by the OS) *)
Record job := { dst : path; cnt : content; tmp : path }.

(* primitive steps of InstallFile, in order *)
Inductive stepk := SMkdir | SCreate | SWrite | SSync | SClose | SChmod | SRename.
Definition steps : list stepk := [SMkdir; SCreate; SWrite; SSync; SClose; SChmod; SRename].

Definition do_step (j : job) (k : stepk) (s : fs) : fs :=
  match k with
  | SMkdir | SSync | SClose => s
  | SCreate => fset s (tmp j) (Some ([], m600))
  | SWrite => fset s (tmp j) (Some (cnt j, m600))
  | SChmod => match s (tmp j) with Some (c, _) => fset s (tmp j) (Some (c, m644)) | None => s end
  | SRename => fset (fset s (dst j) (s (tmp j))) (tmp j) None
  end.
Definition run_steps (j : job) (ks : list stepk) (s : fs) : fs := fold_left (fun s k => do_step j k s) ks s.

(* a crash: the process dies after n complete steps of this file; if it dies inside Write, a prefix has been written *)
Definition crash_file (j : job) (n : nat) (torn : option nat) (s : fs) : fs :=
  let s' := run_steps j (firstn n steps) s in
  match torn, nth_error steps n with
  | Some len, Some SWrite => fset s' (tmp j) (Some (firstn len (cnt j), m600))
  | _, _ => s'
  end.

(* a failing step (no crash): steps before it ran, the failing one had no effect (or a partial write), then the
   deferred cleanup removes the temp file if it was created *)
Definition fail_file (j : job) (n : nat) (torn : option nat) (s : fs) : fs :=
  let s' := crash_file j n torn s in
  if Nat.leb 2 n || (match torn with Some _ => Nat.eqb n 2 | None => false end) then fset s' (tmp j) None
  else s'.      (* CreateTemp itself failed, or MkdirAll failed: nothing to clean *)

Definition install_file (j : job) (s : fs) : fs := run_steps j steps s.
Definition install (js : list job) (s : fs) : fs := fold_left (fun s j => install_file j s) js s.

(* crash while installing the i-th file *)
Definition crash (js : list job) (i n : nat) (torn : option nat) (s : fs) : fs :=
  match nth_error js i with
  | Some j => crash_file j n torn (install (firstn i js) s)
  | None => install js s
  end.

(* well-formed job lists: temp names are fresh, distinct from every destination and from one another *)
Definition jobs_ok (js : list job) (s : fs) : Prop :=
  NoDup (map dst js) /\ NoDup (map tmp js) /\ (forall j j', In j js -> In j' js -> tmp j <> dst j') /\
  (forall j, In j js -> s (tmp j) = None).

Ltac fs_crush :=
  unfold install_file, run_steps, do_step, fset; simpl;
  repeat (match goal with
          | |- context [Nat.eqb ?a ?a] => rewrite (Nat.eqb_refl a)
          | H : ?a <> ?b |- context [Nat.eqb ?a ?b] => rewrite (proj2 (Nat.eqb_neq a b) H)
          | H : ?b <> ?a |- context [Nat.eqb ?a ?b] => rewrite (proj2 (Nat.eqb_neq a b) (not_eq_sym H))
          end; simpl).

Lemma install_file_dst j s : tmp j <> dst j -> install_file j s (dst j) = Some (cnt j, m644).
Proof. intros H. fs_crush. reflexivity. Qed.
Lemma install_file_other j s q : q <> dst j -> q <> tmp j -> install_file j s q = s q.
Proof. intros H1 H2. fs_crush. reflexivity. Qed.
Lemma install_file_tmp j s : install_file j s (tmp j) = None.
Proof. fs_crush. reflexivity. Qed.

(* crash atomicity for one file: at every crash point the destination is old or (new, 0644); everything else but the
   temp file is untouched *)
Theorem crash_file_atomic j n torn s : tmp j <> dst j ->
  (crash_file j n torn s (dst j) = s (dst j) \/ crash_file j n torn s (dst j) = Some (cnt j, m644)) /\
  (forall q, q <> dst j -> q <> tmp j -> crash_file j n torn s q = s q).
Proof.
  intros H. unfold crash_file.
  do 8 (destruct n as [|n]; [destruct torn; (split; [|intros q H1 H2]); fs_crush; auto;
                             try (destruct (s (tmp j)) as [[c md]|]; fs_crush; auto)|]).
  destruct torn; (split; [|intros q H1 H2]); fs_crush; auto; try (destruct (s (tmp j)) as [[c md]|]; fs_crush; auto).
Qed.
Print Assumptions crash_file_atomic.
