(* C16 - Every agent installs the full skill tree exactly where documented.  Agents_gen.v is regenerated on every run. *)
From Coq Require Import String List Bool Arith.
Import ListNotations.
Require Import Agents_gen Agents Install InstallProps.
Open Scope string_scope.

(* Registry, CLI subcommands and documentation agree (finite domain: the agents present in the source, bound stated by
   the table itself): agent names are pairwise distinct; the visible kong subcommands are exactly the registry names and each
   is bound to the agent type of that name; the README lists exactly these subcommands and, for each, the agent's
   project/user default directories; every agent installs the one embedded tree skills/kessoku-di under the name kessoku-di. *)
Theorem C16_registry :
  NoDup registry_names /\
  ((forall x, In x registry_names <-> In x kong_names) /\ length registry_names = length kong_names) /\
  ((forall x, In x registry_names <-> In x readme_names) /\ length registry_names = length readme_names) /\
  kong_bound_ok = true /\ readme_paths_ok = true /\ one_tree_ok = true.
Proof.
  assert (H : registry_ok = true) by (vm_compute; reflexivity).
  unfold registry_ok in H. repeat (apply andb_true_iff in H; destruct H as (H & ?)).
  split; [apply nodups_sound; assumption|]. split; [apply same_set_sound; assumption|]. split; [apply same_set_sound; assumption|]. auto.
Qed.
Print Assumptions C16_registry.

(* Path priority: a custom path wins over --user, which wins over the project default; the skill always goes to <base>/<skill name>. *)
Theorem C16_paths : forall a custom user home cwd,
  install_dir a custom user home cwd =
    join (if negb (String.eqb custom "") then (if is_abs custom then custom else join cwd custom)
          else if user then join home (a_user a) else join cwd (a_proj a)) (a_skill a).
Proof. reflexivity. Qed.
Print Assumptions C16_paths.

(* A successful installation writes exactly the given tree: every file once, new content, mode 0644, and nothing but the
   destinations (and this run's temp names, which end up absent) changes - whatever was there before. *)
Theorem C16_tree : forall js s, jobs_ok js s ->
  (forall j, In j js -> install js s (dst j) = Some (cnt j, m644)) /\
  (forall j, In j js -> install js s (tmp j) = None) /\
  (forall q, (forall a, In a js -> q <> dst a /\ q <> tmp a) -> install js s q = s q).
Proof. exact install_complete. Qed.
Print Assumptions C16_tree.

(* The directory a path names to the operating system (Agents.resolve: symbolic links followed left to right, ".." applied
   to the directory reached so far). The correspondence compares the documented directory (install_dir) and the directory
   the CLI reports after resolving both this way. Two facts that pin the function down: *)

(* in a tree without symbolic links, a path without ".." names the directory its components spell *)
Theorem C16_resolution_without_links : forall todo fuel cur, length todo < fuel -> (forall c, In c todo -> c <> "..") ->
  resolve fuel [] cur todo = Some ((rev todo ++ cur)%list).
Proof. exact resolve_plain. Qed.
Print Assumptions C16_resolution_without_links.

(* ".." leaves the directory REACHED so far - after links have been followed - whatever name led there *)
Theorem C16_dotdot_after_links : forall fuel links cur r, resolve (S fuel) links cur (".." :: r) = resolve fuel links (tl cur) r.
Proof. exact resolve_dotdot. Qed.
Print Assumptions C16_dotdot_after_links.
