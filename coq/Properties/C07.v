(* C07 - Cancellation never hangs the injector nor yields a silent partial result. *)
From Coq Require Import List Arith Bool.
Import ListNotations.
Require Import Sem2 Safe Live Fault Term Finite GenU GenSound.

(* The full statement is refuted on the model of the code as it is, by two mechanisms (known findings KF-C07-1, KF-C07-2).
   Program: A (node 0) async in a goroutine, B(a) (node 1) on the main thread; the injector has no error result, so the
   main thread's wait is a plain receive and the final eg.Wait() discards the error. *)
Definition kf_prog : prog :=
  {| p_threads := [[ {| it_node := 1; it_args := [(0,0)]; it_waits := [(0,0)]; it_nrets := 1; it_closes := []; it_fallible := false |} ];
                   [ {| it_node := 2; it_args := []; it_waits := []; it_nrets := 1; it_closes := [(2,0)]; it_fallible := false |};
                     {| it_node := 0; it_args := [(2,0)]; it_waits := []; it_nrets := 1; it_closes := [(0,0)]; it_fallible := false |} ]];
     p_argnodes := []; p_reterr := false |}.

(* KF-C07-1 (hang): the caller cancels; a goroutine waiting with a ctx-aware select leaves without closing its
   channels; the main thread's plain receive then blocks forever: only LCancel remains enabled, main is not done. *)
Definition kf_hang : prog :=
  {| p_threads := [[ {| it_node := 1; it_args := [(0,0)]; it_waits := [(0,0)]; it_nrets := 1; it_closes := []; it_fallible := false |} ];
                   [ {| it_node := 0; it_args := [(2,0)]; it_waits := [(2,0)]; it_nrets := 1; it_closes := [(0,0)]; it_fallible := false |} ];
                   [ {| it_node := 2; it_args := []; it_waits := []; it_nrets := 1; it_closes := [(2,0)]; it_fallible := false |} ]];
     p_argnodes := []; p_reterr := false |}.
Theorem C07_refuted_hang : exists ls s, run kf_hang (init kf_hang) ls = Some s /\
  nth_error (s_thr s) 0 = Some (TRun 0 (PWait 0)) /\
  (forall t, In t [0;1;2] -> forall l, In l [LWaitPass t; LWaitCtx t; LEnter t; LExitOk t; LExitErr t; LClose t; LNext t; LFin t] -> step kf_hang s l = None).
Proof.
  exists [LCancel; LWaitCtx 1; LEnter 2; LExitOk 2; LClose 2; LNext 2; LFin 2]. eexists. split; [vm_compute; reflexivity|]. split; [reflexivity|].
  intros t Ht l Hl. simpl in Ht. repeat (destruct Ht as [<-|Ht]; [simpl in Hl; repeat (destruct Hl as [<-|Hl]; [vm_compute; reflexivity|]); destruct Hl|]). destruct Ht.
Qed.
Print Assumptions C07_refuted_hang.

(* KF-C07-2 (silent partial result): single goroutine A (node 0) that waits for nothing but whose producer thread is
   cancelled before the value needed by the return exists: main returns TDone None (no error reported) although the
   requested value (1,0) was never written. *)
Definition kf_partial : prog :=
  {| p_threads := [[ {| it_node := 3; it_args := []; it_waits := []; it_nrets := 1; it_closes := [(3,0)]; it_fallible := false |} ];
                   [ {| it_node := 1; it_args := [(3,0)]; it_waits := [(3,0)]; it_nrets := 1; it_closes := []; it_fallible := false |} ]];
     p_argnodes := []; p_reterr := false |}.
Theorem C07_refuted_silent_partial : exists ls s, run kf_partial (init kf_partial) ls = Some s /\
  nth_error (s_thr s) 0 = Some (TDone None) /\ lookup (1,0) (s_store s) = None.
Proof.
  exists [LCancel; LWaitCtx 1; LEnter 0; LExitOk 0; LClose 0; LNext 0; LFin 0]. eexists. split; [vm_compute; reflexivity|]. split; reflexivity.
Qed.
Print Assumptions C07_refuted_silent_partial.

(* Injectors WITH an error result: cancellation before or at any point of the call (LCancel anywhere in ls, first included)
   together with any provider failures never hangs the injector: every execution in which nothing more can happen
   has the injector returned ... *)
Theorem C07_with_error_result_returns : forall p rank ls s, wfl p rank -> 0 < length (p_threads p) -> p_reterr p = true ->
  run p (init p) ls = Some s -> (forall l, l <> LCancel -> step p s l = None) -> exists e, nth_error (s_thr s) 0 = Some (TDone e).
Proof. exact main_returns. Qed.
Print Assumptions C07_with_error_result_returns.

(* ... and a nil error means a completely constructed result: every thread finished normally and every provider of the
   injector returned (so by C02 the returned value is the sequential one); otherwise the error is non-nil. *)
Theorem C07_with_error_result_complete : forall p rank ls s, wfl p rank -> 0 < length (p_threads p) -> p_reterr p = true ->
  run p (init p) ls = Some s -> nth_error (s_thr s) 0 = Some (TDone None) ->
  (forall t x, nth_error (s_thr s) t = Some x -> x = TDone None) /\ (forall t j it, item_at p t j = Some it -> exited s (it_node it)).
Proof. exact nil_error_means_complete. Qed.
Print Assumptions C07_with_error_result_complete.

(* No execution - cancelled before, during or never - runs forever: at most `bound p` steps besides the caller's
   cancellations.  (So "never blocks forever" is exactly: the state in which nothing more can happen has the injector
   returned - C07_with_error_result_returns; its failure without an error result is KF-C07-1.) *)
Theorem C07_executions_finite : forall p ls s, run p (init p) ls = Some s -> length (filter noncancel ls) <= bound p.
Proof. exact runs_are_finite. Qed.
Print Assumptions C07_executions_finite.

(* For ALL accepted declarations whose injector has an error result (some needed provider can fail): whatever is cancelled
   and whatever fails, when nothing more can happen the injector has returned; and if it returned a nil error, every thread
   finished normally and every provider of the injector returned - in particular the provider of the requested type, whose
   stored result is then the declared value (C02_result_is_declared_value). *)
Theorem C07_all_declarations : forall d g, unew_graph d = Gen.OK g -> reterr_of g = true ->
  exists st, Threads.build (unp g) (upool g) (udeps g) (uisasync g) (uargs g) = Some st /\
  forall ls s, run (uprog g st) (init (uprog g st)) ls = Some s ->
    ((forall l, l <> LCancel -> step (uprog g st) s l = None) -> exists e, nth_error (s_thr s) 0 = Some (TDone e)) /\
    (nth_error (s_thr s) 0 = Some (TDone None) ->
       (forall t x, nth_error (s_thr s) t = Some x -> x = TDone None) /\ (forall t j it, item_at (uprog g st) t j = Some it -> exited s (it_node it))).
Proof.
  intros d g H Hr. destruct (gen_sound d g H) as (st & B & W). exists st. split; [exact B|].
  assert (Hlen : 0 < length (p_threads (uprog g st))) by (unfold uprog, Assembly.prog_of, Sched2.P; simpl; apply Nat.lt_0_succ).
  assert (Hre : p_reterr (uprog g st) = true) by (unfold uprog, Assembly.prog_of, Sched2.P; simpl; exact Hr).
  intros ls s R. split.
  - intros Hmax. apply (main_returns _ _ ls s W Hlen Hre R Hmax).
  - intros H0. apply (nil_error_means_complete _ _ ls s W Hlen Hre R H0).
Qed.
Print Assumptions C07_all_declarations.
