(* C10 - Injector signature follows the declaration.  (v1: context and error-result placement of the model signature) *)
From Coq Require Import List Arith Bool NArith.
Import ListNotations.
Require Import Gen Bfs GenU CorrS.

(* context.Context is the first parameter whenever a needed (graph) provider is Async, and then appears exactly once *)
Theorem C10_ctx_first : forall g, uhas_async g = true ->
  hd_error (uparams g) = Some ctx_ty /\ ~ In ctx_ty (tl (uparams g)).
Proof.
  intros g H. unfold uparams. rewrite H. simpl. split; auto.
  intro Hin. apply filter_In in Hin. destruct Hin as (_ & Hn). rewrite N.eqb_refl in Hn. discriminate.
Qed.
Print Assumptions C10_ctx_first.

(* without a needed Async provider the parameters are exactly the argument nodes, in discovery order *)
Theorem C10_params_are_arg_nodes : forall g, uhas_async g = false -> uparams g = uarg_types g.
Proof. intros g H. unfold uparams. rewrite H. reflexivity. Qed.
Print Assumptions C10_params_are_arg_nodes.

(* the error result is present exactly when some provider node of the graph can fail *)
Theorem C10_error_result : forall g, sg_reterr (usig g) = true <-> exists n, n < length (unodes g) /\ ufall g n = true.
Proof.
  intros g. unfold usig, uhas_fall. simpl. rewrite existsb_exists. split.
  - intros (n & Hin & Hf). exists n. split; auto. apply in_seq in Hin. simpl in Hin. apply Hin.
  - intros (n & Hn & Hf). exists n. split; auto. apply in_seq. simpl. split; auto with arith.
Qed.
Print Assumptions C10_error_result.
