(* C10 - Injector signature follows the declaration.  (v1: context and error-result placement of the model signature) *)
From Coq Require Import List Arith Bool NArith.
Import ListNotations.
Require Import Gen Bfs GenU CorrS Resolve.

(* context.Context is the first parameter whenever a needed (graph) provider is Async, and then appears exactly once *)
Theorem C10_ctx_first : forall g, uhas_async g = true ->
  hd_error (uparams g) = Some ctx_ty /\ ~ In ctx_ty (tl (uparams g)).
Proof.
  intros g H. unfold uparams. rewrite H. simpl. split; auto.
  intro Hin. apply filter_In in Hin. destruct Hin as (_ & Hn). rewrite N.eqb_refl in Hn. discriminate.
Qed.
Print Assumptions C10_ctx_first.

(* without a needed Async provider the parameters are exactly the argument nodes, in discovery order *)
Theorem C10_params_are_arg_nodes : forall g, uhas_async g = false -> uparams g = uarg_types g.
Proof. intros g H. unfold uparams. rewrite H. reflexivity. Qed.
Print Assumptions C10_params_are_arg_nodes.

(* the error result is present exactly when some provider node of the graph can fail *)
Theorem C10_error_result : forall g, sg_reterr (usig g) = true <-> exists n, n < length (unodes g) /\ ufall g n = true.
Proof.
  intros g. unfold usig, uhas_fall. simpl. rewrite existsb_exists. split.
  - intros (n & Hin & Hf). exists n. split; auto. apply in_seq in Hin. simpl in Hin. apply Hin.
  - intros (n & Hn & Hf). exists n. split; auto. apply in_seq. simpl. split; auto with arith.
Qed.
Print Assumptions C10_error_result.

(* For ALL accepted declarations: the argument parameters are one per type (never listed twice), only types that no
   declared provider supplies, and every unsupplied type that a needed provider requires is among them. *)
Theorem C10_params_unsupplied_once_complete : forall d g, unew_graph d = Gen.OK g -> exists pm, dpm d = Some (pm, uprovs g) /\
  NoDup (uarg_types g) /\ (forall t, In t (uarg_types g) -> Gen.assoc t pm = None) /\
  (forall c p t, uprov g c = Some p -> In t (Gen.requires p) -> Gen.assoc t pm = None -> In t (uarg_types g)).
Proof. exact arg_nodes. Qed.
Print Assumptions C10_params_unsupplied_once_complete.

Theorem C10_signature_lists_each_type_once : forall d g, unew_graph d = Gen.OK g -> NoDup (uparams g).
Proof. exact uparams_nodup. Qed.
Print Assumptions C10_signature_lists_each_type_once.
