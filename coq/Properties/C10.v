(* C10 - Injector signature follows the declaration.  (v1: context and error-result placement of the model signature) *)
From Coq Require Import List Arith Bool NArith.
Import ListNotations.
Require Import Gen Bfs GenU CorrS Resolve.

(* context.Context is the first parameter whenever a needed (graph) provider is Async, and then appears exactly once *)
Theorem C10_ctx_first : forall g, uhas_async g = true ->
  hd_error (uparams g) = Some ctx_ty /\ ~ In ctx_ty (tl (uparams g)).
Proof.
  intros g H. unfold uparams. rewrite H. simpl. split; auto.
  intro Hin. apply filter_In in Hin. destruct Hin as (_ & Hn). rewrite N.eqb_refl in Hn. discriminate.
Qed.
Print Assumptions C10_ctx_first.

(* without a needed Async provider the parameters are exactly the argument nodes, in discovery order *)
Theorem C10_params_are_arg_nodes : forall g, uhas_async g = false -> uparams g = uarg_types g.
Proof. intros g H. unfold uparams. rewrite H. reflexivity. Qed.
Print Assumptions C10_params_are_arg_nodes.

(* the error result is present exactly when some provider node of the graph can fail *)
Theorem C10_error_result : forall g, sg_reterr (usig g) = true <-> exists n, n < length (unodes g) /\ ufall g n = true.
Proof.
  intros g. unfold usig, uhas_fall. simpl. rewrite existsb_exists. split.
  - intros (n & Hin & Hf). exists n. split; auto. apply in_seq in Hin. simpl in Hin. apply Hin.
  - intros (n & Hn & Hf). exists n. split; auto. apply in_seq. simpl. split; auto with arith.
Qed.
Print Assumptions C10_error_result.

(* For ALL accepted declarations: the argument parameters are one per type (never listed twice), only types that no
   declared provider supplies, and every unsupplied type that a needed provider requires is among them. *)
Theorem C10_params_unsupplied_once_complete : forall d g, unew_graph d = Gen.OK g -> exists pm, dpm d = Some (pm, uprovs g) /\
  NoDup (uarg_types g) /\ (forall t, In t (uarg_types g) -> Gen.assoc t pm = None) /\
  (forall c p t, uprov g c = Some p -> In t (Gen.requires p) -> Gen.assoc t pm = None -> In t (uarg_types g)).
Proof. exact arg_nodes. Qed.
Print Assumptions C10_params_unsupplied_once_complete.

Theorem C10_signature_lists_each_type_once : forall d g, unew_graph d = Gen.OK g -> NoDup (uparams g).
Proof. exact uparams_nodup. Qed.
Print Assumptions C10_signature_lists_each_type_once.

(* context.Context is a parameter EXACTLY when a needed provider (a node of the graph) is Async or context.Context is
   itself a type that a needed provider requires and nobody supplies (an argument node). *)
Theorem C10_ctx_exactly_when : forall g,
  In ctx_ty (uparams g) <-> (exists n, n < length (unodes g) /\ uisasync g n = true) \/ In ctx_ty (uarg_types g).
Proof.
  intros g. unfold uparams.
  assert (HA : uhas_async g = true <-> exists n, n < length (unodes g) /\ uisasync g n = true).
  { unfold uhas_async. rewrite existsb_exists. split.
    - intros (n & Hin & Hf). exists n. split; auto. apply in_seq in Hin. simpl in Hin. apply Hin.
    - intros (n & Hn & Hf). exists n. split; auto. apply in_seq. simpl. split; auto with arith. }
  destruct (uhas_async g) eqn:E.
  - split; intros _; [left; apply HA; reflexivity | left; reflexivity].
  - split; [intros H; right; exact H | intros [H|H]; [apply HA in H; discriminate | exact H]].
Qed.
Print Assumptions C10_ctx_exactly_when.

(* Every parameter other than context.Context is an argument node's type and conversely: the Async marks of the
   declaration can only add context.Context in front, they never add, drop or duplicate any other parameter. *)
Theorem C10_marks_only_decide_ctx : forall g t, t <> ctx_ty -> (In t (uparams g) <-> In t (uarg_types g)).
Proof.
  intros g t Ht. unfold uparams. destruct (uhas_async g); [|tauto]. split.
  - intros [H|H]; [congruence|]. apply filter_In in H. apply H.
  - intros H. right. apply filter_In. split; auto. destruct (N.eqb_spec t ctx_ty); [contradiction|reflexivity].
Qed.
Print Assumptions C10_marks_only_decide_ctx.

(* ... and they keep the relative order of the other parameters (the order in which the types were first required) *)
Theorem C10_other_params_keep_order : forall g,
  filter (fun t => negb (N.eqb t ctx_ty)) (uparams g) = filter (fun t => negb (N.eqb t ctx_ty)) (uarg_types g).
Proof.
  intros g. unfold uparams. destruct (uhas_async g); auto.
  set (f := fun t => negb (N.eqb t ctx_ty)).
  assert (F : forall l, filter f (filter f l) = filter f l).
  { induction l as [|a l IH]; cbn [filter]; auto. destruct (f a) eqn:E; cbn [filter]; [rewrite E, IH|]; auto. }
  cbn [filter]. replace (f ctx_ty) with false by reflexivity. apply F.
Qed.
Print Assumptions C10_other_params_keep_order.
