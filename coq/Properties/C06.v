(* C06 - A provider failure surfaces as that failure. *)
From Coq Require Import List Arith Bool.
Import ListNotations.
Require Import Sem2 Safe Live Fault Term GenU GenSound Finite.

(* For EVERY thread program (no well-formedness needed) and every run without caller cancellation: an error
   returned by the injector is the error of a provider that really failed, or it is the internal context's error
   while the group holds such a provider error - exactly the mechanism of known finding KF-C06-1, nothing else. *)
Theorem C06_modulo_known : forall p ls s e, forallb nocancel ls = true -> run p (init p) ls = Some s ->
  nth_error (s_thr s) 0 = Some (TDone (Some e)) ->
  provider_err s e \/ (e = ECtxInt /\ exists e', s_egerr s = Some e' /\ provider_err s e').
Proof. exact C06_error_identity. Qed.
Print Assumptions C06_modulo_known.

(* The full statement is refuted on the model of the code as it is (KF-C06-1): A (node 0) and B (node 1) are async and
   fallible, C(a,b) runs on the main thread; B fails while the main thread waits for it. *)
Definition kf_prog : prog :=
  {| p_threads := [[ {| it_node := 2; it_args := [(0,0);(1,0)]; it_waits := [(0,0);(1,0)]; it_nrets := 1; it_closes := []; it_fallible := false |} ];
                   [ {| it_node := 0; it_args := []; it_waits := []; it_nrets := 1; it_closes := [(0,0)]; it_fallible := true |} ];
                   [ {| it_node := 1; it_args := []; it_waits := []; it_nrets := 1; it_closes := [(1,0)]; it_fallible := true |} ]];
     p_argnodes := []; p_reterr := true |}.
Theorem C06_refuted : exists ls s, forallb nocancel ls = true /\ run kf_prog (init kf_prog) ls = Some s /\
  In (ExitErr 1) (s_trace s) /\ nth_error (s_thr s) 0 = Some (TDone (Some ECtxInt)).
Proof. exists [LEnter 2; LExitErr 2; LWaitCtx 0]. eexists. split; [reflexivity|]. split; [vm_compute; reflexivity|]. split; vm_compute; auto. Qed.
Print Assumptions C06_refuted.

(* A provider failure is never swallowed: for every ranked well-synchronised program with an error result, in every run
   (cancellation allowed), once some provider has failed the injector cannot return a nil error. *)
Theorem C06_failure_reported : forall p rank ls s n e, wfl p rank -> p_reterr p = true -> run p (init p) ls = Some s ->
  In (ExitErr n) (s_trace s) -> nth_error (s_thr s) 0 = Some (TDone e) -> e <> None.
Proof. exact failure_is_reported. Qed.
Print Assumptions C06_failure_reported.

(* No provider that depends, directly or transitively, on a failed provider is ever entered - in any run. *)
Theorem C06_no_dependent_invoked : forall p ls s, wf p -> run p (init p) ls = Some s ->
  forall n, In (ExitErr n) (s_trace s) -> forall m, depends p m n -> forall vs, ~ In (Enter m vs) (s_trace s).
Proof. exact no_dependent_entered. Qed.
Print Assumptions C06_no_dependent_invoked.

(* The injector still terminates: with an error result, every execution in which nothing more can happen (whatever
   failed, whenever the caller cancelled) has the injector returned. *)
Theorem C06_terminates : forall p rank ls s, wfl p rank -> 0 < length (p_threads p) -> p_reterr p = true -> run p (init p) ls = Some s ->
  (forall l, l <> LCancel -> step p s l = None) -> exists e, nth_error (s_thr s) 0 = Some (TDone e).
Proof. exact main_returns. Qed.
Print Assumptions C06_terminates.

(* ... and all of this for the program emitted for ANY accepted declaration *)
Theorem C06_all_declarations : forall d g, unew_graph d = Gen.OK g ->
  exists st, Threads.build (unp g) (upool g) (udeps g) (uisasync g) (uargs g) = Some st /\
  forall ls s, run (uprog g st) (init (uprog g st)) ls = Some s ->
    (forall n, In (ExitErr n) (s_trace s) -> forall m, depends (uprog g st) m n -> forall vs, ~ In (Enter m vs) (s_trace s)) /\
    (p_reterr (uprog g st) = true -> (forall l, l <> LCancel -> step (uprog g st) s l = None) -> exists e, nth_error (s_thr s) 0 = Some (TDone e)) /\
    (p_reterr (uprog g st) = true -> forall n e, In (ExitErr n) (s_trace s) -> nth_error (s_thr s) 0 = Some (TDone e) -> e <> None).
Proof.
  intros d g H. destruct (gen_sound d g H) as (st & B & W). exists st. split; [exact B|].
  intros ls s R. split; [apply (no_dependent_entered _ ls s (wfl_wf _ _ W) R)|]. split.
  - intros Re Hmax. apply (main_returns _ _ ls s W); auto. unfold uprog, Assembly.prog_of, Sched2.P. simpl. apply Nat.lt_0_succ.
  - intros Re n e Hin H0. apply (failure_is_reported _ _ ls s n e W Re R Hin H0).
Qed.
Print Assumptions C06_all_declarations.

(* ... and it gets there: whatever fails and whenever the caller cancels, an execution has at most `bound p` steps besides
   the caller's cancellations, so the state of C06_terminates in which nothing more can happen is always reached. *)
Theorem C06_executions_finite : forall p ls s, run p (init p) ls = Some s -> length (filter noncancel ls) <= bound p.
Proof. exact runs_are_finite. Qed.
Print Assumptions C06_executions_finite.
