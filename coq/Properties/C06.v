(* C06 - A provider failure surfaces as that failure. *)
From Coq Require Import List Arith Bool.
Import ListNotations.
Require Import Sem2 Safe Fault.

(* For EVERY thread program (no well-formedness needed) and every run without caller cancellation: an error
   returned by the injector is the error of a provider that really failed, or it is the internal context's error
   while the group holds such a provider error - exactly the mechanism of known finding KF-C06-1, nothing else. *)
Theorem C06_modulo_known : forall p ls s e, forallb nocancel ls = true -> run p (init p) ls = Some s ->
  nth_error (s_thr s) 0 = Some (TDone (Some e)) ->
  provider_err s e \/ (e = ECtxInt /\ exists e', s_egerr s = Some e' /\ provider_err s e').
Proof. exact C06_error_identity. Qed.
Print Assumptions C06_modulo_known.

(* The full statement is refuted on the model of the code as it is (KF-C06-1): A (node 0) and B (node 1) are async and
   fallible, C(a,b) runs on the main thread; B fails while the main thread waits for it. *)
Definition kf_prog : prog :=
  {| p_threads := [[ {| it_node := 2; it_args := [(0,0);(1,0)]; it_waits := [(0,0);(1,0)]; it_nrets := 1; it_closes := []; it_fallible := false |} ];
                   [ {| it_node := 0; it_args := []; it_waits := []; it_nrets := 1; it_closes := [(0,0)]; it_fallible := true |} ];
                   [ {| it_node := 1; it_args := []; it_waits := []; it_nrets := 1; it_closes := [(1,0)]; it_fallible := true |} ]];
     p_argnodes := []; p_reterr := true |}.
Theorem C06_refuted : exists ls s, forallb nocancel ls = true /\ run kf_prog (init kf_prog) ls = Some s /\
  In (ExitErr 1) (s_trace s) /\ nth_error (s_thr s) 0 = Some (TDone (Some ECtxInt)).
Proof. exists [LEnter 2; LExitErr 2; LWaitCtx 0]. eexists. split; [reflexivity|]. split; [vm_compute; reflexivity|]. split; vm_compute; auto. Qed.
Print Assumptions C06_refuted.
