(* C05 - Input-free Async providers really run concurrently.
   Layer A: any emitted program of the right shape has the overlapping execution (C05_overlap, C05_overlap_checked).
   Layer B: for EVERY accepted declaration the generator model emits that shape - roots of the graph are visited first
   (Kahn.topo_roots_first), findOptimalPool's model puts synchronous roots into pool 0 and every Async root into pool 0
   (if it holds no Async node yet) or into an empty pool, of which one always exists because the pool count is at least
   the number of roots (Sched2.place_root, Match.antichain_ge_roots) - so C05_all_declarations is a theorem.  The
   verified checker `c05b` is still evaluated on every generated injector: that is the tie to the code. *)
From Coq Require Import List Arith Bool.
Import ListNotations.
Require Import Sem2 Safe Live LiveInv Check Overlap GenU GenSound C05B.

(* For every ranked well-synchronised program and every set F of positions (thread, item), at most one per thread, such
   that no item of that thread up to the position awaits anything: there is an execution without failure or
   cancellation that reaches a state in which ALL items of F are simultaneously inside their provider function -
   however many other providers, arguments, synchronous or asynchronous, the program contains. *)
Theorem C05_overlap : forall p rank, wfl p rank -> forall F, NoDup (map fst F) -> (forall tj, In tj F -> waitfree_upto p tj) ->
  exists ls s, forallb ffl ls = true /\ run p (init p) ls = Some s /\ forall tj, In tj F -> inside_at s tj.
Proof. exact overlap. Qed.
Print Assumptions C05_overlap.

(* the same for any program and set that pass the two boolean checkers (this is what is evaluated on observed programs) *)
Theorem C05_overlap_checked : forall p rk F, check_code p rk = 0 -> c05b p F = true ->
  exists ls s, forallb ffl ls = true /\ run p (init p) ls = Some s /\ forall tj, In tj F -> inside_at s tj.
Proof. exact overlap_checked. Qed.
Print Assumptions C05_overlap_checked.

(* THE STATEMENT OF C05, for all accepted declarations: take any set of needed providers that are marked Async and take no
   inputs at all (graph nodes with no parameters); the emitted program has an execution, without failure or cancellation,
   that reaches a state in which ALL of them are inside their provider function simultaneously - regardless of how many
   other providers, arguments, synchronous or asynchronous, the injector contains and in which order they are declared. *)
Theorem C05_all_declarations : forall d g, unew_graph d = Gen.OK g ->
  exists st, Threads.build (unp g) (upool g) (udeps g) (uisasync g) (uargs g) = Some st /\
  forall roots, NoDup roots -> (forall n, In n roots -> n < nn g /\ unreq g n = 0 /\ uisarg g n = false /\ uisasync g n = true) ->
  exists ls s, forallb ffl ls = true /\ Sem2.run (uprog g st) (Sem2.init (uprog g st)) ls = Some s /\
    forall n, In n roots -> exists t j vs, item_at (uprog g st) t j = Some (uitem g n) /\ nth_error (s_thr s) t = Some (TRun j (PInside vs)).
Proof. exact async_roots_overlap. Qed.
Print Assumptions C05_all_declarations.

(* non-vacuity: main thread = sync S then async A; two goroutines with async B, C; all three async ones overlap *)
Definition ex_prog : prog :=
  {| p_threads := [[ {| it_node := 0; it_args := []; it_waits := []; it_nrets := 1; it_closes := []; it_fallible := false |};
                     {| it_node := 1; it_args := []; it_waits := []; it_nrets := 1; it_closes := []; it_fallible := false |};
                     {| it_node := 4; it_args := [(0,0);(1,0);(2,0);(3,0)]; it_waits := [(2,0);(3,0)]; it_nrets := 1; it_closes := []; it_fallible := false |} ];
                   [ {| it_node := 2; it_args := []; it_waits := []; it_nrets := 1; it_closes := [(2,0)]; it_fallible := false |} ];
                   [ {| it_node := 3; it_args := []; it_waits := []; it_nrets := 1; it_closes := [(3,0)]; it_fallible := false |} ]];
     p_argnodes := []; p_reterr := false |}.
Example C05_example : check_code ex_prog [(0,1);(1,2);(2,3);(3,4);(4,5)] = 0 /\ c05b ex_prog [(0,1);(1,0);(2,0)] = true.
Proof. split; vm_compute; reflexivity. Qed.
