(* C05 - Input-free Async providers really run concurrently.  (v1: the enabling fact; the overlap schedule follows) *)
From Coq Require Import List Arith Bool.
Import ListNotations.
Require Import Sem2 Safe.

(* A goroutine whose first item has no inputs and no waits can enter it in the initial state, whatever else the
   injector contains: nothing orders it after any other provider. *)
Theorem C05_first_item_enters_at_once : forall p t it rest, nth_error (p_threads p) t = Some (it :: rest) ->
  it_args it = [] -> it_waits it = [] -> exists s', step p (init p) (LEnter t) = Some s'.
Proof.
  intros p t it rest Ht Ha Hw. unfold step, cur, init. simpl.
  rewrite nth_error_map, Ht. simpl. rewrite Hw, Ha. simpl. eauto.
Qed.
Print Assumptions C05_first_item_enters_at_once.
