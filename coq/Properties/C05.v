(* C05 - Input-free Async providers really run concurrently.
   partial: Layer A (any emitted program of the right shape has the overlapping execution) is a theorem; that the
   generator always emits that shape is established per observed program by the verified checker `c05b`, evaluated on
   every generated injector of the streams, and by the barrier runs - not yet by a theorem about findOptimalPool. *)
From Coq Require Import List Arith Bool.
Import ListNotations.
Require Import Sem2 Safe Live LiveInv Check Overlap.

(* For every ranked well-synchronised program and every set F of positions (thread, item), at most one per thread, such
   that no item of that thread up to the position awaits anything: there is an execution without failure or
   cancellation that reaches a state in which ALL items of F are simultaneously inside their provider function -
   however many other providers, arguments, synchronous or asynchronous, the program contains. *)
Theorem C05_overlap : forall p rank, wfl p rank -> forall F, NoDup (map fst F) -> (forall tj, In tj F -> waitfree_upto p tj) ->
  exists ls s, forallb ffl ls = true /\ run p (init p) ls = Some s /\ forall tj, In tj F -> inside_at s tj.
Proof. exact overlap. Qed.
Print Assumptions C05_overlap.

(* the same for any program and set that pass the two boolean checkers (this is what is evaluated on observed programs) *)
Theorem C05_overlap_checked : forall p rk F, check_code p rk = 0 -> c05b p F = true ->
  exists ls s, forallb ffl ls = true /\ run p (init p) ls = Some s /\ forall tj, In tj F -> inside_at s tj.
Proof. exact overlap_checked. Qed.
Print Assumptions C05_overlap_checked.

(* non-vacuity: main thread = sync S then async A; two goroutines with async B, C; all three async ones overlap *)
Definition ex_prog : prog :=
  {| p_threads := [[ {| it_node := 0; it_args := []; it_waits := []; it_nrets := 1; it_closes := []; it_fallible := false |};
                     {| it_node := 1; it_args := []; it_waits := []; it_nrets := 1; it_closes := []; it_fallible := false |};
                     {| it_node := 4; it_args := [(0,0);(1,0);(2,0);(3,0)]; it_waits := [(2,0);(3,0)]; it_nrets := 1; it_closes := []; it_fallible := false |} ];
                   [ {| it_node := 2; it_args := []; it_waits := []; it_nrets := 1; it_closes := [(2,0)]; it_fallible := false |} ];
                   [ {| it_node := 3; it_args := []; it_waits := []; it_nrets := 1; it_closes := [(3,0)]; it_fallible := false |} ]];
     p_argnodes := []; p_reterr := false |}.
Example C05_example : check_code ex_prog [(0,1);(1,2);(2,3);(3,4);(4,5)] = 0 /\ c05b ex_prog [(0,1);(1,0);(2,0)] = true.
Proof. split; vm_compute; reflexivity. Qed.
