(* C03 - Injectors terminate and join all their goroutines on success. *)
From Coq Require Import List Arith Bool.
Import ListNotations.
Require Import Sem2 Safe Live LiveInv GenU GenSound Finite.

(* Deadlock freedom: in every state reachable by a fault-free run (no provider error, no cancellation) of a
   well-synchronised, ranked program, as long as some thread has not finished, a step other than the caller's cancel
   is enabled - in particular a thread standing at close(ch) can always close (no double close), a thread standing
   at a wait whose channel is not yet closed is never the only one left. *)
Theorem C03_no_deadlock : forall p rank ls s, wfl p rank -> forallb ffl ls = true -> run p (init p) ls = Some s ->
  (exists t pc ph, nth_error (s_thr s) t = Some (TRun pc ph)) -> exists l, l <> LCancel /\ enabled p s l.
Proof.
  intros p rank ls s W F R H.
  destruct (run_all p ls (init p) s W (inv_init p) (invL_init p) (clean_init p) F R) as (I & L & (Ff & _)).
  exact (progress p rank s W I L Ff H).
Qed.
Print Assumptions C03_no_deadlock.

(* When nothing more can happen every thread - the injector's own thread and every goroutine - has finished
   normally: the injector has returned and every goroutine it started has ended. *)
Theorem C03_returns_joined : forall p rank ls s, wfl p rank -> forallb ffl ls = true -> run p (init p) ls = Some s ->
  (forall l, l <> LCancel -> step p s l = None) ->
  forall t st, nth_error (s_thr s) t = Some st -> st = TDone None.
Proof. exact C03_joined. Qed.
Print Assumptions C03_returns_joined.

(* For ALL declarations the NewGraph model accepts: the model of buildStmts cannot fail ("no initial pools found" never
   happens), and in every fault-free run of the emitted program some step is enabled as long as a thread is unfinished;
   a state in which nothing more can happen has every thread finished normally. *)
Theorem C03_all_declarations : forall d g, unew_graph d = Gen.OK g ->
  exists st, Threads.build (unp g) (upool g) (udeps g) (uisasync g) (uargs g) = Some st /\
  forall ls s, forallb ffl ls = true -> Sem2.run (uprog g st) (Sem2.init (uprog g st)) ls = Some s ->
    ((exists t pc ph, nth_error (s_thr s) t = Some (TRun pc ph)) -> exists l, l <> LCancel /\ enabled (uprog g st) s l) /\
    ((forall l, l <> LCancel -> Sem2.step (uprog g st) s l = None) -> forall t x, nth_error (s_thr s) t = Some x -> x = TDone None).
Proof.
  intros d g H. destruct (gen_sound d g H) as (st & B & W). exists st. split; [exact B|].
  intros ls s F R. split; [apply (C03_no_deadlock _ _ ls s W F R) | apply (C03_returns_joined _ _ ls s W F R)].
Qed.
Print Assumptions C03_all_declarations.

(* Termination: a fault-free execution of ANY program has at most `bound p` steps (one per wait, call, return, close,
   advance and final return) - so no schedule runs forever; with C03_no_deadlock (a step exists while a thread runs) and
   C03_returns_joined (when none exists everything has returned) every maximal fault-free execution is finite and ends
   with the injector returned and all goroutines joined. *)
Theorem C03_executions_finite : forall p ls s, forallb ffl ls = true -> run p (init p) ls = Some s -> length ls <= bound p.
Proof. exact fault_free_runs_bounded. Qed.
Print Assumptions C03_executions_finite.
