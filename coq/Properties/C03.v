(* C03 - Injectors terminate and join all their goroutines on success. *)
From Coq Require Import List Arith Bool.
Import ListNotations.
Require Import Sem2 Safe Live LiveInv Twice GenU GenSound Finite.

(* Deadlock freedom: in every state reachable by a fault-free run (no provider error, no cancellation) of a
   well-synchronised, ranked program, as long as some thread has not finished, a step other than the caller's cancel
   is enabled - in particular a thread standing at close(ch) can always close (no double close), a thread standing
   at a wait whose channel is not yet closed is never the only one left. *)
Theorem C03_no_deadlock : forall p rank ls s, wfl p rank -> forallb ffl ls = true -> run p (init p) ls = Some s ->
  (exists t pc ph, nth_error (s_thr s) t = Some (TRun pc ph)) -> exists l, l <> LCancel /\ enabled p s l.
Proof.
  intros p rank ls s W F R H.
  destruct (run_all p ls (init p) s W (inv_init p) (invL_init p) (clean_init p) F R) as (I & L & (Ff & _)).
  exact (progress p rank s W I L Ff H).
Qed.
Print Assumptions C03_no_deadlock.

(* When nothing more can happen every thread - the injector's own thread and every goroutine - has finished
   normally: the injector has returned and every goroutine it started has ended. *)
Theorem C03_returns_joined : forall p rank ls s, wfl p rank -> forallb ffl ls = true -> run p (init p) ls = Some s ->
  (forall l, l <> LCancel -> step p s l = None) ->
  forall t st, nth_error (s_thr s) t = Some st -> st = TDone None.
Proof. exact C03_joined. Qed.
Print Assumptions C03_returns_joined.

(* For ALL declarations the NewGraph model accepts: the model of buildStmts cannot fail ("no initial pools found" never
   happens), and in every fault-free run of the emitted program some step is enabled as long as a thread is unfinished;
   a state in which nothing more can happen has every thread finished normally. *)
Theorem C03_all_declarations : forall d g, unew_graph d = Gen.OK g ->
  exists st, Threads.build (unp g) (upool g) (udeps g) (uisasync g) (uargs g) = Some st /\
  forall ls s, forallb ffl ls = true -> Sem2.run (uprog g st) (Sem2.init (uprog g st)) ls = Some s ->
    ((exists t pc ph, nth_error (s_thr s) t = Some (TRun pc ph)) -> exists l, l <> LCancel /\ enabled (uprog g st) s l) /\
    ((forall l, l <> LCancel -> Sem2.step (uprog g st) s l = None) -> forall t x, nth_error (s_thr s) t = Some x -> x = TDone None).
Proof.
  intros d g H. destruct (gen_sound d g H) as (st & B & W). exists st. split; [exact B|].
  intros ls s F R. split; [apply (C03_no_deadlock _ _ ls s W F R) | apply (C03_returns_joined _ _ ls s W F R)].
Qed.
Print Assumptions C03_all_declarations.

(* Termination: a fault-free execution of ANY program has at most `bound p` steps (one per wait, call, return, close,
   advance and final return) - so no schedule runs forever; with C03_no_deadlock (a step exists while a thread runs) and
   C03_returns_joined (when none exists everything has returned) every maximal fault-free execution is finite and ends
   with the injector returned and all goroutines joined. *)
Theorem C03_executions_finite : forall p ls s, forallb ffl ls = true -> run p (init p) ls = Some s -> length ls <= bound p.
Proof. exact fault_free_runs_bounded. Qed.
Print Assumptions C03_executions_finite.

Definition C03_ex : prog :=
  {| p_threads := [[ {| it_node := 1; it_args := [(0,0)]; it_waits := [(0,0)]; it_nrets := 1; it_closes := []; it_fallible := false |} ];
                   [ {| it_node := 0; it_args := []; it_waits := []; it_nrets := 1; it_closes := [(0,0)]; it_fallible := false |} ]];
     p_argnodes := []; p_reterr := false |}.

(* "never signals the same completion twice": in EVERY execution - provider failures and cancellation at any point
   included - of a well-synchronised program, a thread that stands at close(ch) finds ch not yet closed (the model's
   close of a closed channel is the run-time panic), so its close step is enabled. *)
Theorem C03_never_signals_twice : forall p rank ls s t pc k it x, wfl p rank -> run p (init p) ls = Some s ->
  nth_error (s_thr s) t = Some (TRun pc (PClose k)) -> item_at p t pc = Some it -> nth_error (it_closes it) k = Some x ->
  ~ In x (s_closed s).
Proof. exact never_closes_twice. Qed.
Print Assumptions C03_never_signals_twice.

Theorem C03_close_never_panics : forall p rank ls s t pc k it x, wfl p rank -> run p (init p) ls = Some s ->
  cur p s t = Some (pc, PClose k, it) -> nth_error (it_closes it) k = Some x -> exists s', step p s (LClose t) = Some s'.
Proof. exact close_step_enabled. Qed.
Print Assumptions C03_close_never_panics.

(* "never waits for a completion signal that no one sends": every awaited signal has exactly one sending position *)
Theorem C03_one_sender_per_signal : forall p rank t j it x, wfl p rank -> item_at p t j = Some it -> In x (it_waits it) ->
  exists t' j' it', item_at p t' j' = Some it' /\ In x (it_closes it') /\
  forall t2 j2 it2, item_at p t2 j2 = Some it2 -> In x (it_closes it2) -> t2 = t' /\ j2 = j'.
Proof. exact one_sender_per_signal. Qed.
Print Assumptions C03_one_sender_per_signal.

(* both, for the program emitted for ANY accepted declaration *)
Theorem C03_signals_all_declarations : forall d g, unew_graph d = Gen.OK g ->
  exists st, Threads.build (unp g) (upool g) (udeps g) (uisasync g) (uargs g) = Some st /\
  (forall ls s t pc k it x, Sem2.run (uprog g st) (Sem2.init (uprog g st)) ls = Some s ->
     cur (uprog g st) s t = Some (pc, PClose k, it) -> nth_error (it_closes it) k = Some x ->
     ~ In x (s_closed s) /\ exists s', Sem2.step (uprog g st) s (LClose t) = Some s') /\
  (forall t j it x, item_at (uprog g st) t j = Some it -> In x (it_waits it) ->
     exists t' j' it', item_at (uprog g st) t' j' = Some it' /\ In x (it_closes it') /\
     forall t2 j2 it2, item_at (uprog g st) t2 j2 = Some it2 -> In x (it_closes it2) -> t2 = t' /\ j2 = j').
Proof.
  intros d g H. destruct (gen_sound d g H) as (st & B & W). exists st. split; [exact B|]. split.
  - intros ls s t pc k it x R C Hk. split.
    + destruct (cur_spec _ _ _ _ _ _ C) as (C1 & C2). eapply never_closes_twice; eauto.
    + eapply close_step_enabled; eauto.
  - intros t j it x Hit Hx. eapply one_sender_per_signal; eauto.
Qed.
Print Assumptions C03_signals_all_declarations.

(* non-vacuity: the example program of C05 reaches a state in which a goroutine stands at its close *)
Example C03_close_reached : exists ls s, run C03_ex (init C03_ex) ls = Some s /\ nth_error (s_thr s) 1 = Some (TRun 0 (PClose 0)).
Proof. exists [LEnter 1; LExitOk 1]. eexists. split; vm_compute; reflexivity. Qed.
