(* C03 - Injectors terminate and join all their goroutines on success. *)
From Coq Require Import List Arith Bool.
Import ListNotations.
Require Import Sem2 Safe Live LiveInv.

(* Deadlock freedom: in every state reachable by a fault-free run (no provider error, no cancellation) of a
   well-synchronised, ranked program, as long as some thread has not finished, a step other than the caller's cancel
   is enabled - in particular a thread standing at close(ch) can always close (no double close), a thread standing
   at a wait whose channel is not yet closed is never the only one left. *)
Theorem C03_no_deadlock : forall p rank ls s, wfl p rank -> forallb ffl ls = true -> run p (init p) ls = Some s ->
  (exists t pc ph, nth_error (s_thr s) t = Some (TRun pc ph)) -> exists l, l <> LCancel /\ enabled p s l.
Proof.
  intros p rank ls s W F R H.
  destruct (run_all p ls (init p) s W (inv_init p) (invL_init p) (clean_init p) F R) as (I & L & (Ff & _)).
  exact (progress p rank s W I L Ff H).
Qed.
Print Assumptions C03_no_deadlock.

(* When nothing more can happen every thread - the injector's own thread and every goroutine - has finished
   normally: the injector has returned and every goroutine it started has ended. *)
Theorem C03_returns_joined : forall p rank ls s, wfl p rank -> forallb ffl ls = true -> run p (init p) ls = Some s ->
  (forall l, l <> LCancel -> step p s l = None) ->
  forall t st, nth_error (s_thr s) t = Some st -> st = TDone None.
Proof. exact C03_joined. Qed.
Print Assumptions C03_returns_joined.
