(* C15 - Skill installation is atomic per file under crashes and errors. *)
From Coq Require Import List Arith Lia Bool.
Import ListNotations.
Require Import Install InstallProps.

(* The installer process dies after n complete primitive steps (MkdirAll, CreateTemp, Write, Sync, Close, Chmod, Rename) of
   the i-th file, possibly inside Write with any prefix written (torn); i, n, torn arbitrary, any prior file system s -
   fresh or previously installed, any contents and modes. Then every destination is either exactly as before or entirely
   the new content with mode 0644, and nothing but destinations and this run's temp files has changed. *)
Theorem C15_crash_atomic : forall js s i n torn, jobs_ok js s ->
  (forall j, In j js -> crash js i n torn s (dst j) = s (dst j) \/ crash js i n torn s (dst j) = Some (cnt j, m644)) /\
  (forall q, (forall a, In a js -> q <> dst a /\ q <> tmp a) -> crash js i n torn s q = s q).
Proof.
  intros js s i n torn Ok. destruct (nth_error js i) as [ji|] eqn:Hi.
  - split; [intros j Hj; eapply crash_at_dst; eauto | intros q H; eapply crash_at_other; eauto].
  - unfold crash. rewrite Hi. destruct (install_complete js s Ok) as (A & _ & C). split; [intros j Hj; right; auto | exact C].
Qed.
Print Assumptions C15_crash_atomic.

(* A later successful run - from ANY state, in particular the one a crash left behind, temp files of the dead run
   included - completes the installation: every destination holds the new content with mode 0644 and the new run's
   temp files are gone. (CreateTemp picks names that are unused in that state: jobs_ok.) *)
Theorem C15_rerun_completes : forall js' s', jobs_ok js' s' ->
  (forall j, In j js' -> install js' s' (dst j) = Some (cnt j, m644)) /\ (forall j, In j js' -> install js' s' (tmp j) = None).
Proof. intros js' s' Ok. destruct (install_complete js' s' Ok) as (A & B & _). split; assumption. Qed.
Print Assumptions C15_rerun_completes.

(* A single failing step n < 7 of file i without a crash: the run stops with an error; no temp file of this run
   remains; the destination of the file being installed is as before; earlier files are completely installed, later
   ones untouched. *)
Theorem C15_fault_clean : forall js s i ji n torn, jobs_ok js s -> nth_error js i = Some ji -> n < 7 ->
  (forall j, In j js -> fail js i n torn s (tmp j) = None) /\
  fail js i n torn s (dst ji) = s (dst ji) /\
  (forall j, In j (firstn i js) -> fail js i n torn s (dst j) = Some (cnt j, m644)) /\
  (forall j, In j (skipn (S i) js) -> fail js i n torn s (dst j) = s (dst j)).
Proof. intros. eapply fail_at; eauto. Qed.
Print Assumptions C15_fault_clean.

(* non-vacuity: two files over a previous install; crash inside the second file's write *)
Definition ex_jobs : list job := [ {| dst := 1; cnt := [7;7]; tmp := 10 |}; {| dst := 2; cnt := [8;8;8]; tmp := 11 |} ].
Definition ex_fs : fs := fun q => match q with 1 => Some ([1], 384) | 2 => Some ([2], 420) | _ => None end.
Example C15_example : jobs_ok ex_jobs ex_fs /\ crash ex_jobs 1 2 (Some 1) ex_fs 1 = Some ([7;7], m644) /\
  crash ex_jobs 1 2 (Some 1) ex_fs 2 = Some ([2], 420) /\ crash ex_jobs 1 2 (Some 1) ex_fs 11 = Some ([8], m600).
Proof.
  split; [|vm_compute; auto]. constructor.
  - simpl. repeat constructor; simpl; intuition congruence.
  - simpl. repeat constructor; simpl; intuition congruence.
  - intros j j' [<-|[<-|[]]] [<-|[<-|[]]]; simpl; congruence.
  - intros j [<-|[<-|[]]]; reflexivity.
Qed.
