(* C14 - Migration output is well-formed, minimal and deterministic.  (partial: the alias allocator; the rest by differential runs) *)
From Coq Require Import String List Arith Bool Permutation.
Import ListNotations.
Require Import Dec TypeConv Determinism MapLoops Census_gen.
Open Scope string_scope.

(* After ANY sequence of AddImport requests (all merged files of one migration): the path -> alias table is a function,
   two different packages never share an alias (consistent aliases when different packages share a name), and a path
   keeps the alias it got first. *)
Theorem C14_alias_consistent : forall reqs outs st, add_all tc0 reqs = Some (outs, st) ->
  (forall p a a', In (p, a) (imports st) -> In (p, a') (imports st) -> a = a') /\
  (forall p p' a, In (p, a) (imports st) -> In (p', a) (imports st) -> p = p').
Proof.
  intros reqs outs st H. destruct (add_all_inv reqs tc0 outs st tc0_inv H) as (I & _).
  split; [apply alias_functional; exact I | apply alias_injective; exact I].
Qed.
Print Assumptions C14_alias_consistent.

Theorem C14_alias_stable : forall st path desired n st', tcinv st -> add_import st path desired = Some (n, st') ->
  forall p a, In (p, a) (imports st) -> In (p, a) (imports st').
Proof. intros st path desired n st' I H. apply (add_import_inv _ _ _ _ _ I H). Qed.
Print Assumptions C14_alias_stable.

(* an import is never given a name the source package declares at package level, nor the name kessoku (the names
   NewTypeConverter reserves before any import is added), and aliases stay consistent from such a start *)
Theorem C14_reserved_names_never_used : forall rs reqs outs st, NoDup rs -> add_all (tc_reserved rs) reqs = Some (outs, st) ->
  (forall p d n, In (p, d) reqs -> p <> sentinel n) ->
  tcinv st /\ forall a, In a outs -> ~ In a rs.
Proof. exact reserved_never_allocated. Qed.
Print Assumptions C14_reserved_names_never_used.

Example C14_reserved_example : option_map fst (add_all (tc_reserved ["kessoku"; "config"]) [("x/config", "config"); ("y/kessoku", "kessoku"); ("x/config", "config")])
  = Some ["config_1"; "kessoku_1"; "config_1"].
Proof. vm_compute. reflexivity. Qed.

(* the collision loop terminates for every request *)
Theorem C14_alias_total : forall st path desired, exists r, add_import st path desired = Some r.
Proof. exact add_import_total. Qed.
Print Assumptions C14_alias_total.

(* the emitted import block does not depend on the order in which the alias map is ranged *)
Theorem C14_imports_order_independent : forall (A : Type) (key : A -> nat) (l l' : list A),
  NoDup (map key l) -> Permutation l l' -> isort A key l = isort A key l'.
Proof. exact isort_order_independent. Qed.
Print Assumptions C14_imports_order_independent.

Example C14_collision : option_map fst (add_all tc0 [("a/config", "config"); ("b/config", "config"); ("a/config", "config"); ("c/config", "config"); ("x/config_1", "config_1")])
  = Some ["config"; "config_1"; "config"; "config_2"; "config_1_1"].
Proof. vm_compute. reflexivity. Qed.

(* every iteration over a Go map in internal/migrate (found in the current source by the census) belongs to a class of loop
   whose effect is the same for every iteration order; see Properties/C11.v for the generator's packages *)
Theorem C14_every_map_iteration_order_independent : forall site c, In (site, c) census_migrate -> exists cl, c = Some cl /\ class_sound cl.
Proof. exact (all_classified_sound _ census_migrate eq_refl). Qed.
Print Assumptions C14_every_map_iteration_order_independent.
