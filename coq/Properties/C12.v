(* C12 - Generated identifiers are always fresh.  Reserved_gen.v is regenerated from internal/kessoku/const.go on every run. *)
From Coq Require Import String List Arith Bool.
Import ListNotations.
Require Import Dec VarPool VarPoolRun Reserved_gen.
Open Scope string_scope.

(* the code's reserved lists contain every keyword and predeclared identifier of the Go specification *)
Theorem C12_reserved_complete : incl spec_keywords code_keywords /\ incl spec_predeclared code_predeclared.
Proof. split; apply inclb_sound; vm_compute; reflexivity. Qed.
Print Assumptions C12_reserved_complete.

(* the allocator's search loop always terminates: no request history makes it run out of candidates *)
Theorem C12_total : forall st reqs, exists r, run_auto st reqs = Some r.
Proof. intros st reqs. apply run_auto_total. Qed.
Print Assumptions C12_total.

(* For every set `pre` of pre-registered names (package-level declarations, import names - registered through the
   allocator itself, as ParseFile does) and every later request history `reqs` (variables, done-channels, error
   variables, parameters, import aliases of all injectors served by one pool - since fix abf9ec3 the injectors of one
   source file, before it all files of one invocation; the statement covers either, being about every history): the names handed out are
   pairwise distinct and none is a keyword, a predeclared identifier or a pre-registered name. *)
Theorem C12_fresh : forall pre reqs o0 st0 outs st1,
  run_auto (reserved_pool (code_predeclared ++ code_keywords)) pre = Some (o0, st0) ->
  run_auto st0 reqs = Some (outs, st1) ->
  NoDup outs /\ forall x, In x outs -> ~ In x spec_keywords /\ ~ In x spec_predeclared /\ ~ In x pre.
Proof.
  intros pre reqs o0 st0 outs st1 H0 H1.
  destruct (run_auto_fresh _ _ _ _ H0) as (_ & _ & _ & K0 & M0).
  destruct (run_auto_fresh _ _ _ _ H1) as (D & E & _).
  destruct C12_reserved_complete as (RK & RP).
  split; [exact D|]. intros x Hx. specialize (E x Hx). split; [|split]; intro Hin; apply E.
  - apply K0. apply reserved_used. apply in_or_app. right. apply RK. exact Hin.
  - apply K0. apply reserved_used. apply in_or_app. left. apply RP. exact Hin.
  - apply M0. exact Hin.
Qed.
Print Assumptions C12_fresh.

(* non-vacuity and the adversarial history of the (fixed) defect: user type names that look like suffixed names *)
Example C12_history : option_map fst (run_auto (reserved_pool (code_predeclared ++ code_keywords)) ["foo"; "foo"; "foo0"; "foo"; "func"; "err"; "err"; "err0"])
  = Some ["foo"; "foo0"; "foo00"; "foo1"; "func0"; "err"; "err0"; "err00"].
Proof. vm_compute. reflexivity. Qed.
(* the allocator before fix 015da20 handed foo0 out twice *)
Example C12_refuted_before_fix :
  let '(a, s1) := get_name_cur [] "foo" in let '(b, s2) := get_name_cur s1 "foo" in let '(c, _) := get_name_cur s2 "foo0" in b = c.
Proof. vm_compute. reflexivity. Qed.
