(* C02 - Injector result equals sequential evaluation of the declared graph.  (v1: per-provider facts; the value theorem follows) *)
From Coq Require Import List Arith Bool.
Import ListNotations.
Require Import Sem2 Safe.

(* In every run of a well-synchronised program a provider returns at most once, with one argument vector. *)
Theorem C02_once : forall p ls s n vs ws, wf p -> run p (init p) ls = Some s ->
  In (ExitOk n vs) (s_trace s) -> In (ExitOk n ws) (s_trace s) -> vs = ws.
Proof. intros p ls s n vs ws W R. apply (inv_once p s (run_inv p ls _ _ W (inv_init p) R)). Qed.
Print Assumptions C02_once.

(* Every value stored for result i of provider n is the application of n to the arguments it was entered with. *)
Theorem C02_store : forall p ls s n vs i t j it, wf p -> run p (init p) ls = Some s ->
  In (ExitOk n vs) (s_trace s) -> item_at p t j = Some it -> it_node it = n -> i < it_nrets it ->
  lookup (n, i) (s_store s) = Some (VApp n i vs).
Proof. intros p ls s n vs i t j it W R H1 H2 H3 H4. eapply (inv_store p s (run_inv p ls _ _ W (inv_init p) R)); eauto. Qed.
Print Assumptions C02_store.
