(* C02 - Injector result equals sequential evaluation of the declared graph. *)
From Coq Require Import List Arith Bool Permutation.
Import ListNotations.
Require Import Sem2 Safe Live Denote GenU GenSound Resolve Spec Reorder ParseDecl.

(* In every run of a well-synchronised program a provider returns at most once, with one argument vector. *)
Theorem C02_once : forall p ls s n vs ws, wf p -> Sem2.run p (Sem2.init p) ls = Some s ->
  In (ExitOk n vs) (s_trace s) -> In (ExitOk n ws) (s_trace s) -> vs = ws.
Proof. intros p ls s n vs ws W R. apply (inv_once p s (run_inv p ls _ _ W (inv_init p) R)). Qed.
Print Assumptions C02_once.

(* Whatever the interleaving, latencies, failures or cancellation: the value stored for result i of a provider that
   returned is the value the sequential, one-provider-at-a-time evaluator `seq_eval` computes for that variable. *)
Theorem C02_value : forall p ls s, wf p -> Sem2.run p (Sem2.init p) ls = Some s ->
  forall n i vs t j it fuel v, In (ExitOk n vs) (s_trace s) -> item_at p t j = Some it -> it_node it = n -> i < it_nrets it ->
    seq_eval fuel p (n, i) = Some v -> lookup (n, i) (s_store s) = Some v.
Proof. exact run_value_is_sequential. Qed.
Print Assumptions C02_value.

(* Two executions under different schedules (and different fault sequences) agree on every value both of them computed:
   marking providers Async, which only changes the thread structure of the emitted program, cannot change a value. *)
Theorem C02_schedule_independent : forall p ls1 ls2 s1 s2, wf p ->
  Sem2.run p (Sem2.init p) ls1 = Some s1 -> Sem2.run p (Sem2.init p) ls2 = Some s2 ->
  forall n i vs1 vs2 t j it, In (ExitOk n vs1) (s_trace s1) -> In (ExitOk n vs2) (s_trace s2) ->
    item_at p t j = Some it -> it_node it = n -> i < it_nrets it ->
    lookup (n, i) (s_store s1) = lookup (n, i) (s_store s2).
Proof.
  intros p ls1 ls2 s1 s2 W R1 R2 n i vs1 vs2 t j it H1 H2 Hi Hn Hr.
  destruct (stored_values_denote p ls1 s1 W R1 n i vs1 t j it H1 Hi Hn Hr) as (L1 & D1).
  destruct (stored_values_denote p ls2 s2 W R2 n i vs2 t j it H2 Hi Hn Hr) as (L2 & D2).
  rewrite L1, L2. f_equal. eapply (denotes_fun p W _ _ (le_n _)); eauto.
Qed.
Print Assumptions C02_schedule_independent.

(* For ALL declarations the NewGraph model accepts, the emitted program has these properties. *)
Theorem C02_all_declarations : forall d g, unew_graph d = Gen.OK g ->
  exists st, Threads.build (unp g) (upool g) (udeps g) (uisasync g) (uargs g) = Some st /\
  forall ls s, Sem2.run (uprog g st) (Sem2.init (uprog g st)) ls = Some s ->
    forall n i vs t j it fuel v, In (ExitOk n vs) (s_trace s) -> item_at (uprog g st) t j = Some it -> it_node it = n -> i < it_nrets it ->
      seq_eval fuel (uprog g st) (n, i) = Some v -> lookup (n, i) (s_store s) = Some v.
Proof.
  intros d g H. destruct (gen_sound d g H) as (st & B & W). exists st. split; [exact B|].
  intros ls s R. apply (run_value_is_sequential _ ls s (wfl_wf _ _ W) R).
Qed.
Print Assumptions C02_all_declarations.

(* What "the declared graph" is, for ALL accepted declarations: every parameter of every needed provider is selected by its
   type - if some declared provider (function, Bind group, Value, Struct field) supplies the type, the parameter is result
   gi of THE node of that provider; if none does it is THE injector argument of that type.  (pm is the provider map the two
   registration passes build from the declaration.) *)
Theorem C02_parameters_selected_by_type : forall d g, unew_graph d = Gen.OK g -> exists pm, dpm d = Some (pm, uprovs g) /\
  forall c p, uprov g c = Some p ->
    unreq g c = length (Gen.requires p) /\
    forall i t, nth_error (Gen.requires p) i = Some t ->
      match Gen.assoc t pm with
      | Some (pi, gi) => usidx g c i = gi /\ nth_error (Bfs.nodes (ub g)) (usrc g c i) = Some (Bfs.NProv pi)
      | None => nth_error (Bfs.nodes (ub g)) (usrc g c i) = Some (Bfs.NArg t)
      end.
Proof. exact params_by_type. Qed.
Print Assumptions C02_parameters_selected_by_type.

(* Each needed provider is ONE node (so Layer A's at-most-once per node is at-most-once per provider), and the node whose
   result is returned is the provider of the requested type. *)
Theorem C02_one_node_per_provider : forall d g, unew_graph d = Gen.OK g -> exists pm pi, dpm d = Some (pm, uprovs g) /\
  Gen.assoc (Gen.d_ret d) pm = Some (pi, uret g) /\ nth_error (Bfs.nodes (ub g)) 0 = Some (Bfs.NProv pi) /\
  forall n n' pj, n <> 0 -> n' <> 0 -> nth_error (Bfs.nodes (ub g)) n = Some (Bfs.NProv pj) -> nth_error (Bfs.nodes (ub g)) n' = Some (Bfs.NProv pj) -> n = n'.
Proof. exact prov_nodes. Qed.
Print Assumptions C02_one_node_per_provider.

(* THE STATEMENT OF C02, for all accepted declarations.  spec_den pm provs t v says: v is the value of type t obtained from
   the declaration alone - the injector argument of type t when no declared provider supplies t, otherwise result gi of the
   supplying provider applied to the values of the types it requires.  It mentions neither the generator's graph, nor
   Async, nor pools, channels or threads, and it is a function (one value per type).  In every run of the emitted program
   (any interleaving, latency, failure, cancellation) in which the provider of the requested type has returned, the
   variable the injector returns holds exactly that value. *)
Theorem C02_result_is_declared_value : forall d g, unew_graph d = Gen.OK g ->
  exists st pm, Threads.build (unp g) (upool g) (udeps g) (uisasync g) (uargs g) = Some st /\ dpm d = Some (pm, uprovs g) /\
  forall ls s vs, Sem2.run (uprog g st) (Sem2.init (uprog g st)) ls = Some s -> In (ExitOk 0 vs) (s_trace s) ->
    exists v, lookup (0, uret g) (s_store s) = Some v /\ spec_den pm (uprovs g) (Gen.d_ret d) (trv g v) /\
      forall v', spec_den pm (uprovs g) (Gen.d_ret d) v' -> v' = trv g v.
Proof. exact result_is_spec_value. Qed.
Print Assumptions C02_result_is_declared_value.

(* Marking any subset of providers Async (or fallible) never changes the value: two declarations that differ only in those
   marks give the requested type the same declared value. *)
Theorem C02_marks_do_not_change_value : forall d d' pm l pm' l' v v',
  Gen.d_ret d = Gen.d_ret d' -> Forall2 same_shape (Gen.d_provs d) (Gen.d_provs d') ->
  dpm d = Some (pm, l) -> dpm d' = Some (pm', l') ->
  spec_den pm l (Gen.d_ret d) v -> spec_den pm' l' (Gen.d_ret d') v' -> v = v'.
Proof. exact marks_do_not_change_value. Qed.
Print Assumptions C02_marks_do_not_change_value.

(* Providers that are not needed are never invoked: every node of the graph (hence every provider call in the emitted
   program) is transitively required by the provider of the requested type. *)
Theorem C02_only_needed_providers : forall d g, unew_graph d = Gen.OK g ->
  forall n, n < nn g -> Relation_Operators.clos_refl_trans nat (feeds g) n 0.
Proof. exact all_nodes_needed. Qed.
Print Assumptions C02_only_needed_providers.

(* non-vacuity: the sequential evaluator succeeds on a concrete program and the concurrent run stores that value *)
Definition ex_prog : prog :=
  {| p_threads := [[ {| it_node := 1; it_args := [(0,0); (2,0)]; it_waits := [(0,0)]; it_nrets := 1; it_closes := []; it_fallible := false |} ];
                   [ {| it_node := 0; it_args := [(2,0)]; it_waits := []; it_nrets := 1; it_closes := [(0,0)]; it_fallible := false |} ]];
     p_argnodes := [2]; p_reterr := false |}.
Example C02_example : seq_eval 5 ex_prog (1, 0) = Some (VApp 1 0 [VApp 0 0 [VArg 2]; VArg 2]) /\
  exists s, Sem2.run ex_prog (Sem2.init ex_prog) [LEnter 1; LExitOk 1; LClose 1; LWaitPass 0; LEnter 0; LExitOk 0] = Some s /\
            lookup (1, 0) (s_store s) = Some (VApp 1 0 [VApp 0 0 [VArg 2]; VArg 2]).
Proof. split; [vm_compute; reflexivity|]. eexists. split; vm_compute; reflexivity. Qed.

(* "... or reordering the declaration never changes the value returned": two accepted declarations whose provider lists are
   permutations of each other (Set grouping is not part of a declaration: it is the flattened list) give the requested type
   the same value - the same tree of the same providers applied to the same arguments; only the positions at which the
   providers stand in their lists differ (same_value relates position pi of one list to the position of the SAME provider
   record in the other).  With C02_result_is_declared_value this is a statement about what both injectors return. *)
Theorem C02_order_does_not_change_value : forall d d' pm provs pm' provs' v,
  Permutation (Gen.d_provs d) (Gen.d_provs d') -> Gen.d_ret d = Gen.d_ret d' ->
  dpm d = Some (pm, provs) -> dpm d' = Some (pm', provs') ->
  spec_den pm provs (Gen.d_ret d) v ->
  exists v', spec_den pm' provs' (Gen.d_ret d') v' /\ same_value provs provs' v v' /\
             forall w, spec_den pm' provs' (Gen.d_ret d') w -> w = v'.
Proof. exact order_does_not_change_value. Qed.
Print Assumptions C02_order_does_not_change_value.

(* the supplier map mentions no order: a type maps to (pi, gi) exactly when the provider at pi is a supplier whose first
   result group containing the type is gi *)
Theorem C02_supplier_map_characterised : forall d pm provs, dpm d = Some (pm, provs) ->
  (forall t pi gi, Gen.assoc t pm = Some (pi, gi) <-> supplies provs pi gi t) /\
  exists ss, Permutation (filter Gen.isstruct (Gen.d_provs d)) ss /\ provs = Gen.d_provs d ++ flat_map fields_of ss.
Proof. exact sup_char. Qed.
Print Assumptions C02_supplier_map_characterised.

(* Reordering never turns an accepted declaration into a refused one: the first pass accepts a provider list exactly when
   no two different positions supply the same type (pass1_accepts_iff), a condition that mentions no order; stated here
   for declarations without Struct expansions (for those with expansions the directed package nested_struct_order and
   C09_orphan_never_accepted / C09_struct_pass_total cover the retrying second pass). *)
Theorem C02_reordering_keeps_acceptance : forall d d',
  Permutation (Gen.d_provs d) (Gen.d_provs d') -> filter Gen.isstruct (Gen.d_provs d) = [] ->
  (exists r, dpm d = Some r) -> exists r', dpm d' = Some r'.
Proof. exact acceptance_order_independent_no_structs. Qed.
Print Assumptions C02_reordering_keeps_acceptance.

(* The declaration as WRITTEN (ParseDecl.v: provider expressions wrapped in Async / Bind, grouped in nested Sets) reaches
   the model - and with it every theorem above - through ParseDecl.parse; the static correspondence hands the written form
   of every declaration to it. What the wrappers and the grouping can and cannot change: *)

(* a Set - inline or a variable, at any depth - stands for its contents in its place: grouping never changes the provider
   list, hence neither acceptance nor the value *)
Theorem C02_sets_only_group : forall implements errty fields_of a es b,
  parse implements errty fields_of (a ++ [XSet es] ++ b) = parse implements errty fields_of (a ++ es ++ b).
Proof. exact set_is_grouping. Qed.
Print Assumptions C02_sets_only_group.

(* Async and Bind may be nested either way round: the decoded provider is the same *)
Theorem C02_async_bind_either_way : forall implements errty fields_of i e,
  decode implements errty fields_of (XAsync (XBind i e)) = decode implements errty fields_of (XBind i (XAsync e)).
Proof. exact async_bind_commute. Qed.
Print Assumptions C02_async_bind_either_way.

(* a Bind changes nothing but the result groups: every group keeps its types in order and gains the interface exactly
   when one of its types implements it; requirements, fallibility and the Async mark are those of the wrapped provider *)
Theorem C02_bind_only_adds_the_interface : forall implements errty fields_of i e p q,
  decode implements errty fields_of e = Gen.OK p -> decode implements errty fields_of (XBind i e) = Gen.OK q ->
  Gen.requires q = Gen.requires p /\ Gen.fallible q = Gen.fallible p /\ Gen.async q = Gen.async p /\ Gen.isstruct q = Gen.isstruct p /\ Gen.sfields q = Gen.sfields p /\
  length (Gen.provides q) = length (Gen.provides p) /\
  forall k g, nth_error (Gen.provides p) k = Some g -> nth_error (Gen.provides q) k = Some (if binds implements i g then g ++ [i] else g).
Proof. exact bind_effect. Qed.
Print Assumptions C02_bind_only_adds_the_interface.

(* the provider list has one provider per provider expression, in the order written: each is the decoding of its
   expression, except that an interface bound to a Struct expansion has been moved to the result group of the struct's
   source (requirements, marks, kind and fields never change) *)
Theorem C02_one_provider_per_expression : forall implements errty fields_of es l, parse implements errty fields_of es = Gen.OK l ->
  exists l0, Forall2 (fun x p => decode implements errty fields_of x = Gen.OK p) (leaves_l es) l0 /\ Forall2 same_but_provides l0 l.
Proof.
  intros implements errty fields_of es l H. destruct (parse_shape _ _ _ _ _ H) as (l0 & _ & S & L). exists l0. split; assumption.
Qed.
Print Assumptions C02_one_provider_per_expression.

(* Bind over a Struct expansion: the interfaces go to the first provider function one of whose result groups holds the
   struct type - that group gains them; no provider before it provides the struct type, nothing else in the list changes *)
Theorem C02_bound_struct_interface_joins_the_source : forall t ex l l', give t ex l = Some l' ->
  exists k p, nth_error l k = Some p /\ Gen.isstruct p = false /\ existsb (has_type t) (Gen.provides p) = true /\
              (forall j q, j < k -> nth_error l j = Some q -> Gen.isstruct q = true \/ existsb (has_type t) (Gen.provides q) = false) /\
              nth_error l' k = Some (add_to_group t ex p) /\ (forall j, j <> k -> nth_error l' j = nth_error l j).
Proof. exact give_spec. Qed.
Print Assumptions C02_bound_struct_interface_joins_the_source.
