(* C13 - Migration preserves what google/wire would have built.
   Wire.v models wire's resolution, kessoku's resolution of migrated declarations, and the per-construct rewriting. *)
From Coq Require Import List Arith Bool NArith.
Import ListNotations.
Require Import Wire.

(* Safe fragment (record `safe`): wire supplies no type twice; every bound implementation has its constructor in the
   configuration (the provider literally named New<Impl>, which migrate looks up); kessoku's duplicate-supplier check
   accepts the migrated declarations; an injector parameter's type is not also supplied.
   For every such configuration built from provider functions, NewSet nesting (flattened), Bind, Value, InterfaceValue,
   Struct and FieldsOf, every requested type and every evaluation depth: whatever term wire's injector computes from its
   declared parameters - which provider functions are invoked on which inputs - the injector generated from the migrated
   declarations computes the same term, taking as arguments exactly the parameter types that evaluation used. *)
Theorem C13_safe_fragment : forall cfg given, safe cfg given ->
  forall fuel t tm, weval fuel cfg given t = Some tm -> keval fuel (migrate cfg) t = Some tm.
Proof. exact migrate_preserves. Qed.
Print Assumptions C13_safe_fragment.

(* Outside the fragment the statement is false of the code as it is; model witnesses of two recorded findings.
   KF-C13-13/16 shape: wire.Struct supplies T and *T, the migrated constructor only *T: a consumer of T by value gets an
   extra injector argument. Here type 1 = *Svc, 2 = Svc, 3 = Tag, 4 = *App; wire's own table would also list (2, ...). *)
Example C13_value_struct_becomes_argument :
  keval 8 (migrate [WProv 0 [] 3%N; WStruct 1%N [3%N]; WProv 1 [2%N] 4%N]) 4%N = Some (TFn 1 [TArg 2%N]).
Proof. vm_compute. reflexivity. Qed.

(* non-vacuity: a configuration with a binding, a value, a struct and a field provider is in the fragment and both sides agree *)
Definition ex_cfg : wcfg :=
  [WProv 0 [2; 5; 7; 9]%N 1%N; WProv 1 [] 3%N; WBind 2%N 3%N; WValue 2 5%N; WStruct 7%N [5%N]; WProv 3 [] 8%N; WFieldsOf 8%N [(0, 9%N)]].
Example C13_example : weval 8 ex_cfg (fun _ => false) 1%N = Some (TFn 0 [TFn 1 []; TVal 2; TStruct 7%N [TVal 2]; TField (TFn 3 []) 0])
  /\ keval 8 (migrate ex_cfg) 1%N = Some (TFn 0 [TFn 1 []; TVal 2; TStruct 7%N [TVal 2]; TField (TFn 3 []) 0]).
Proof. split; vm_compute; reflexivity. Qed.
