(* C08 - No goroutine outlives the injector blocked forever. *)
From Coq Require Import List Arith Bool.
Import ListNotations.
Require Import Sem2 Safe Fault Finite Leak.

(* Normal return: in every reachable state of every program - failures and cancellation included - if the injector's
   own thread has returned through its final path (after eg.Wait()) then every goroutine has ended. *)
Theorem C08_normal_return_joined : forall p ls s, run p (init p) ls = Some s ->
  nth_error (s_thr s) 0 = Some (TDone None) -> forall t st, nth_error (s_thr s) t = Some st -> isdone st = true.
Proof.
  intros p ls. assert (G : forall s0 s, joined s0 -> run p s0 ls = Some s -> joined s).
  { induction ls as [|l r IH]; intros s0 s J R; simpl in R.
    - injection R as <-. exact J.
    - destruct (step p s0 l) as [s1|] eqn:E; [|discriminate]. apply (IH s1 s); [eapply joined_step; eauto|exact R]. }
  intros s R. apply (G (init p) s); [|exact R]. unfold joined, init. simpl. destruct (p_threads p); simpl; discriminate.
Qed.
Print Assumptions C08_normal_return_joined.

(* KF-C08-1 on the model: X (node 0, fallible) runs on the main thread; a goroutine waits for x. X fails, the main
   thread returns early, the goroutine stays blocked in its ctx-aware wait: no step but the caller's cancel is enabled. *)
Definition kf_prog : prog :=
  {| p_threads := [[ {| it_node := 0; it_args := []; it_waits := []; it_nrets := 1; it_closes := [(0,0)]; it_fallible := true |} ];
                   [ {| it_node := 1; it_args := [(0,0)]; it_waits := [(0,0)]; it_nrets := 1; it_closes := []; it_fallible := false |} ]];
     p_argnodes := []; p_reterr := true |}.
Theorem C08_refuted : exists ls s, run kf_prog (init kf_prog) ls = Some s /\
  nth_error (s_thr s) 0 = Some (TDone (Some (EProv 0))) /\ nth_error (s_thr s) 1 = Some (TRun 0 (PWait 0)) /\
  (forall l, In l [LWaitPass 1; LWaitCtx 1; LEnter 1; LExitOk 1; LExitErr 1; LClose 1; LNext 1; LFin 1; LFin 0] -> step kf_prog s l = None).
Proof.
  exists [LEnter 0; LExitErr 0]. eexists. split; [vm_compute; reflexivity|]. split; [reflexivity|]. split; [reflexivity|].
  intros l H. simpl in H. repeat (destruct H as [<-|H]; [vm_compute; reflexivity|]). destruct H.
Qed.
Print Assumptions C08_refuted.

(* Every goroutine's activity is finite: after at most `bound p` steps nothing more can happen without the caller, so a
   goroutine that has not exited by then never will - which is what the dynamic leak detector observes. *)
Theorem C08_executions_finite : forall p ls s, run p (init p) ls = Some s -> length (filter noncancel ls) <= bound p.
Proof. exact runs_are_finite. Qed.
Print Assumptions C08_executions_finite.

(* The complete picture, for EVERY program and every execution (failures and cancellation at any point): once the
   injector has returned, either every goroutine has ended, or the injector's own thread returned EARLY - observing a
   context error at one of its own waits, or with the error of a provider it invoked itself (KF-C08-1's mechanism, which
   leaves the errgroup's context uncancelled).  A goroutine left behind after a nil return, or after an error that came
   out of eg.Wait(), contradicts this theorem and is reported as a new violation by the dynamic monitor. *)
Theorem C08_modulo_known : forall p ls s e, run p (init p) ls = Some s -> nth_error (s_thr s) 0 = Some (TDone e) ->
  (forall t st, nth_error (s_thr s) t = Some st -> isdone st = true) \/ exists e', e = Some e' /\ early p s e'.
Proof. exact leak_only_after_early_return. Qed.
Print Assumptions C08_modulo_known.
