(* C11 - Generation is deterministic and idempotent.
   The generator starts no goroutine (checked syntactically on every run), so process-level randomness can reach the
   output only through Go map iteration. The model pins the two places where a map's order feeds an ordered structure,
   and the census (Census_gen.v, regenerated from /repo's source by a go/types pass on every run) ties every map iteration
   the generator's packages contain to a class of loop whose effect is proved the same for every iteration order. *)
From Coq Require Import List Arith Bool Permutation String.
Import ListNotations.
Require Import Determinism Dec VarPool VarPoolRun MapLoops Census_gen.

(* the import block: whatever order the used-imports map is ranged in (any permutation), sorting by the distinct import
   paths yields the same block *)
Theorem C11_imports_order_independent : forall (A : Type) (key : A -> nat) (l l' : list A),
  NoDup (map key l) -> Permutation l l' -> isort A key l = isort A key l'.
Proof. exact isort_order_independent. Qed.
Print Assumptions C11_imports_order_independent.

(* findMaximumAntichainSize: whatever order the edges map is ranged in, every node's adjacency list is the same *)
Theorem C11_adjacency_order_independent : forall targets o o', NoDup o -> Permutation o o' -> forall m, fill targets o m = fill targets o' m.
Proof. exact fill_order_independent. Qed.
Print Assumptions C11_adjacency_order_independent.

(* names: the allocator's answers are a function of the reserved words, the pre-registered names and the request
   history alone; files carrying kessoku's generated-code header contribute nothing to `pre` (fix c22546e), so a
   previous, stale or truncated output cannot change them *)
Theorem C11_names_function_of_history : forall rs pre reqs o1 o2, serve rs pre reqs = Some o1 -> serve rs pre reqs = Some o2 -> o1 = o2.
Proof. intros rs pre reqs o1 o2 H1 H2. rewrite H1 in H2. injection H2 as ->. reflexivity. Qed.
Print Assumptions C11_names_function_of_history.

(* every iteration over a Go map in the generator's packages (root package, internal/kessoku, internal/config, cmd/kessoku;
   found in the current source by the census) belongs to a class of loop - collect then sort by distinct keys, flag the
   visited entries, copy entries into another map under their own keys, fill the adjacency table - whose effect is the same
   for every order in which the runtime delivers the entries. A loop that is new, or whose text changed since it was
   reviewed, has no class, and this theorem stops checking. *)
Theorem C11_every_map_iteration_order_independent : forall site c, In (site, c) census_generator -> exists cl, c = Some cl /\ class_sound cl.
Proof. exact (all_classified_sound _ census_generator eq_refl). Qed.
Print Assumptions C11_every_map_iteration_order_independent.

(* the classes are not empty words: flagging entries and copying entries, in two different orders *)
Example C11_loop_classes_example :
  (forall k, mark nat (fun e => e) [3; 1; 2] (fun _ => false) k = mark nat (fun e => e) [2; 3; 1] (fun _ => false) k) /\
  filter_into nat (fun e => e) Nat.even [4; 1; 2] (fun _ => None) 2 = Some 2 /\ filter_into nat (fun e => e) Nat.even [2; 4; 1] (fun _ => None) 1 = None.
Proof. split; [intro k; apply mark_order_independent; apply Permutation_sym; apply (Permutation_cons_append [3;1] 2)|split; vm_compute; reflexivity]. Qed.
