(* C11 - Generation is deterministic and idempotent.
   The generator starts no goroutine (checked syntactically on every run), so process-level randomness can reach the
   output only through Go map iteration. The model pins the two places where a map's order feeds an ordered structure. *)
From Coq Require Import List Arith Bool Permutation String.
Import ListNotations.
Require Import Determinism Dec VarPool VarPoolRun.

(* the import block: whatever order the used-imports map is ranged in (any permutation), sorting by the distinct import
   paths yields the same block *)
Theorem C11_imports_order_independent : forall (A : Type) (key : A -> nat) (l l' : list A),
  NoDup (map key l) -> Permutation l l' -> isort A key l = isort A key l'.
Proof. exact isort_order_independent. Qed.
Print Assumptions C11_imports_order_independent.

(* findMaximumAntichainSize: whatever order the edges map is ranged in, every node's adjacency list is the same *)
Theorem C11_adjacency_order_independent : forall targets o o', NoDup o -> Permutation o o' -> forall m, fill targets o m = fill targets o' m.
Proof. exact fill_order_independent. Qed.
Print Assumptions C11_adjacency_order_independent.

(* names: the allocator's answers are a function of the reserved words, the pre-registered names and the request
   history alone; files carrying kessoku's generated-code header contribute nothing to `pre` (fix c22546e), so a
   previous, stale or truncated output cannot change them *)
Theorem C11_names_function_of_history : forall rs pre reqs o1 o2, serve rs pre reqs = Some o1 -> serve rs pre reqs = Some o2 -> o1 = o2.
Proof. intros rs pre reqs o1 o2 H1 H2. rewrite H1 in H2. injection H2 as ->. reflexivity. Qed.
Print Assumptions C11_names_function_of_history.
