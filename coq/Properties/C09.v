(* C09 - Unsatisfiable graphs are refused, satisfiable ones accepted, never mis-generated.  (v1: refusal of cycles) *)
From Coq Require Import List Arith Lia Bool NArith.
Import ListNotations.
Require Import Dfs GenU GenSound Suppliers Resolve Accept Reorder StructPass.

Section Cycle.
Variable succs : nat -> list nat.
Variable n : nat.
Hypothesis closed : forall u v, u < n -> In v (succs u) -> v < n.

Inductive path : nat -> nat -> Prop :=
| path_one u v : In v (succs u) -> path u v
| path_step u w v : In w (succs u) -> path w v -> path u v.

(* If the three-colour check (detectCycles' model) succeeds, a rank strictly increases along every edge between
   nodes of the graph; hence no node reaches itself: every dependency cycle - of any length, a self loop included -
   makes the check fail, i.e. the declaration is refused. *)
Theorem C09_cycle_refused : forall fuel c' fin', dfs_all succs fuel (seq 0 n) (fun _ => White) [] = Some (c', fin') ->
  forall u, u < n -> ~ path u u.
Proof.
  intros fuel c' fin' H.
  assert (R : forall u v, path u v -> u < n -> posn u fin' < posn v fin' /\ v < n).
  { intros u v P. induction P as [u v Huv|u w v Huw P IH]; intros Hu.
    - split; [eapply acyclic_rank; eauto|eapply closed; eauto].
    - assert (Hw : w < n) by (eapply closed; eauto). destruct (IH Hw) as (A & B). split; auto.
      pose proof (acyclic_rank succs fuel n c' fin' H u w Hu Huw). lia. }
  intros u Hu P. destruct (R u u P Hu). lia.
Qed.
End Cycle.
Print Assumptions C09_cycle_refused.

(* non-vacuity: a 3-cycle 0 -> 1 -> 2 -> 0 and a self loop are refused, the chain 0 -> 1 -> 2 is accepted *)
Example C09_three_cycle : dfs_all (fun u => match u with 0 => [1] | 1 => [2] | 2 => [0] | _ => [] end) 4 (seq 0 3) (fun _ => White) [] = None.
Proof. vm_compute. reflexivity. Qed.
Example C09_self_loop : dfs_all (fun u => match u with 0 => [0] | _ => [] end) 2 (seq 0 1) (fun _ => White) [] = None.
Proof. vm_compute. reflexivity. Qed.
Example C09_chain_accepted : exists r, dfs_all (fun u => match u with 0 => [1] | 1 => [2] | _ => [] end) 4 (seq 0 3) (fun _ => White) [] = Some r.
Proof. eexists. vm_compute. reflexivity. Qed.

(* Two different providers supplying one type - a function result, an injected value, an interface bound to a result
   (it sits in the result's group) - make the first pass fail with the "multiple providers" code, wherever they stand
   in the declaration and whether or not the type is needed. *)
Theorem C09_dup_refused : forall ps k k' p p' g g' t,
  nth_error ps k = Some p -> nth_error ps k' = Some p' -> k <> k' -> Gen.isstruct p = false -> Gen.isstruct p' = false ->
  In g (Gen.provides p) -> In t g -> In g' (Gen.provides p') -> In t g' -> Gen.pass1 [] 0 ps = Gen.Err 1.
Proof. exact dup_providers_refused. Qed.
Print Assumptions C09_dup_refused.

(* an expanded struct field whose type already has a supplier, and two fields of one struct with the same type *)
Theorem C09_dup_field_refused : forall pm provs st f r, Gen.assoc (snd f) pm <> None -> Gen.add_fields pm provs st (f :: r) = Gen.Err 1.
Proof. exact dup_field_refused. Qed.
Print Assumptions C09_dup_field_refused.
Theorem C09_two_equal_fields_refused : forall pm provs st f f', snd f = snd f' -> Gen.assoc (snd f) pm = None -> Gen.add_fields pm provs st [f; f'] = Gen.Err 1.
Proof. exact two_equal_fields_refused. Qed.
Print Assumptions C09_two_equal_fields_refused.

(* a Struct expansion without a source for its struct *)
Theorem C09_orphan_refused : forall pm provs s st r, hd_error (Gen.requires s) = Some st -> Gen.assoc st pm = None ->
  Gen.has_field_of st r = false -> Gen.pass2 pm provs (s :: r) = Gen.Err 2.
Proof. exact orphan_struct_refused. Qed.
Print Assumptions C09_orphan_refused.

(* wherever the orphan stands among the Struct expansions (which are retried when their source is a field of a struct
   expanded later): if nobody supplies its struct type - no provider and no field of any struct of the declaration - the
   declaration is never accepted *)
Theorem C09_orphan_never_accepted : forall pm provs ss s st, In s ss -> hd_error (Gen.requires s) = Some st ->
  Gen.assoc st pm = None -> Gen.has_field_of st ss = false -> forall r, Gen.pass2 pm provs ss <> Gen.OK r.
Proof. exact orphan_struct_never_accepted. Qed.
Print Assumptions C09_orphan_never_accepted.

(* the first pass (function providers, bindings, values) accepts exactly the provider lists in which no two different
   positions supply the same type *)
Theorem C09_first_pass_accepts_iff_unambiguous : forall ps, (exists pm, Gen.pass1 [] 0 ps = Gen.OK pm) <-> ~ clash ps.
Proof. exact pass1_accepts_iff. Qed.
Print Assumptions C09_first_pass_accepts_iff_unambiguous.

(* "Conversely ... whose struct expansions all have a source is accepted": when every expansion has a source - a provider of
   the first pass or, transitively, a field of another expanded struct -, no field type is supplied twice or already
   supplied, and no struct has a field of its own struct type, the second pass accepts; and it does so for every order in
   which the expansions are declared *)
Theorem C09_structs_with_sources_accepted : forall pm provs ss ss', Permutation.Permutation ss ss' ->
  NoDup (allfields ss) -> (forall t, In t (allfields ss) -> Gen.assoc t pm = None) ->
  (forall s, In s ss -> exists st, stype s = Some st /\ ~ In st (ftypes s)) ->
  (forall s, In s ss -> reach pm ss s) ->
  exists r, Gen.pass2 pm provs ss' = Gen.OK r.
Proof. exact structs_accepted_in_any_order. Qed.
Print Assumptions C09_structs_with_sources_accepted.

(* both passes together: an unambiguous provider list whose expansions have sources has a provider map (dpm), which is the
   hypothesis of C09_acyclic_accepted below *)
Theorem C09_unambiguous_with_sources_has_provider_map : forall d pm1,
  ~ clash (Gen.d_provs d) -> Gen.pass1 [] 0 (Gen.d_provs d) = Gen.OK pm1 ->
  let ss := filter Gen.isstruct (Gen.d_provs d) in
  NoDup (allfields ss) -> (forall t, In t (allfields ss) -> Gen.assoc t pm1 = None) ->
  (forall s, In s ss -> exists st, stype s = Some st /\ ~ In st (ftypes s)) ->
  (forall s, In s ss -> reach pm1 ss s) ->
  exists r, dpm d = Some r.
Proof. exact with_sources_has_provider_map. Qed.
Print Assumptions C09_unambiguous_with_sources_has_provider_map.

(* the retrying expansion loop always comes to a verdict within its fuel: "out of fuel" (code 4) is not an outcome *)
Theorem C09_struct_pass_total : forall pm provs ss, Gen.pass2 pm provs ss <> Gen.Err 4.
Proof. exact pass2_fuel_suffices. Qed.
Print Assumptions C09_struct_pass_total.

(* acceptance, second half: once the model of NewGraph has accepted a declaration, statement building cannot fail
   ("no initial pools found" is unreachable) - the injector is emitted. (C09_acyclic_accepted below is the first half.) *)
Theorem C09_accept_partial : forall d g, unew_graph d = Gen.OK g -> exists tix, uthreads g = Some tix.
Proof.
  intros d g H. destruct (gen_sound d g H) as (st & B & _). unfold uthreads. rewrite B. eauto.
Qed.
Print Assumptions C09_accept_partial.

(* acceptance, first half, for ALL declarations: if the provider map exists (dpm d = Some: no type has two suppliers, every
   struct expansion has a source), the requested type is supplied, and the declared providers have a rank - every provider
   ranks above the suppliers of the types it requires, i.e. the declaration is acyclic - then the model of NewGraph accepts:
   the breadth-first construction never exhausts its fuel and the three-colour cycle check never reports a cycle; and then
   (C09_accept_partial) exactly one injector is emitted. *)
Theorem C09_acyclic_accepted : forall d pm provs pi gi (rho : nat -> nat),
  dpm d = Some (pm, provs) -> Gen.assoc (Gen.d_ret d) pm = Some (pi, gi) ->
  (forall pc p t pj gj, nth_error provs pc = Some p -> In t (Gen.requires p) -> Gen.assoc t pm = Some (pj, gj) -> rho pj < rho pc) ->
  exists g, unew_graph d = Gen.OK g /\ exists tix, uthreads g = Some tix.
Proof.
  intros d pm provs pi gi rho H1 H2 H3. destruct (acyclic_accepted d pm provs pi gi rho H1 H2 H3) as (g & Hg). exists g. split; auto.
  destruct (gen_sound d g Hg) as (st & B & _). unfold uthreads. rewrite B. eauto.
Qed.
Print Assumptions C09_acyclic_accepted.

(* non-vacuity: the diamond R(X(A), Y(A)) with an argument under A satisfies the hypotheses with rank 3,2,2,1 *)
Example C09_accept_example :
  let d := {| Gen.d_ret := 1%N; Gen.d_provs := [Gen.mkfn [2;3]%N [[1%N]] false false; Gen.mkfn [4%N] [[2%N]] false true; Gen.mkfn [4%N] [[3%N]] true true; Gen.mkfn [9%N] [[4%N]] false false] |} in
  exists pm provs pi gi, dpm d = Some (pm, provs) /\ Gen.assoc (Gen.d_ret d) pm = Some (pi, gi) /\
    forall pc p t pj gj, nth_error provs pc = Some p -> In t (Gen.requires p) -> Gen.assoc t pm = Some (pj, gj) ->
      nth pj [3;2;2;1] 0 < nth pc [3;2;2;1] 0.
Proof.
  eexists. eexists. eexists. eexists. split; [vm_compute; reflexivity|]. split; [vm_compute; reflexivity|].
  intros pc p t pj gj Hp Ht Ha.
  destruct pc as [|[|[|[|pc]]]]; simpl in Hp; try (destruct pc; discriminate); inversion Hp; subst p; simpl in Ht;
    repeat (destruct Ht as [<-|Ht]; [vm_compute in Ha; inversion Ha; subst; simpl; lia|]); destruct Ht.
Qed.
