(* C09 - Unsatisfiable graphs are refused, satisfiable ones accepted, never mis-generated.  (v1: refusal of cycles) *)
From Coq Require Import List Arith Lia Bool.
Import ListNotations.
Require Import Dfs.

Section Cycle.
Variable succs : nat -> list nat.
Variable n : nat.
Hypothesis closed : forall u v, u < n -> In v (succs u) -> v < n.

Inductive path : nat -> nat -> Prop :=
| path_one u v : In v (succs u) -> path u v
| path_step u w v : In w (succs u) -> path w v -> path u v.

(* If the three-colour check (detectCycles' model) succeeds, a rank strictly increases along every edge between
   nodes of the graph; hence no node reaches itself: every dependency cycle - of any length, a self loop included -
   makes the check fail, i.e. the declaration is refused. *)
Theorem C09_cycle_refused : forall fuel c' fin', dfs_all succs fuel (seq 0 n) (fun _ => White) [] = Some (c', fin') ->
  forall u, u < n -> ~ path u u.
Proof.
  intros fuel c' fin' H.
  assert (R : forall u v, path u v -> u < n -> posn u fin' < posn v fin' /\ v < n).
  { intros u v P. induction P as [u v Huv|u w v Huw P IH]; intros Hu.
    - split; [eapply acyclic_rank; eauto|eapply closed; eauto].
    - assert (Hw : w < n) by (eapply closed; eauto). destruct (IH Hw) as (A & B). split; auto.
      pose proof (acyclic_rank succs fuel n c' fin' H u w Hu Huw). lia. }
  intros u Hu P. destruct (R u u P Hu). lia.
Qed.
End Cycle.
Print Assumptions C09_cycle_refused.

(* non-vacuity: a 3-cycle 0 -> 1 -> 2 -> 0 and a self loop are refused, the chain 0 -> 1 -> 2 is accepted *)
Example C09_three_cycle : dfs_all (fun u => match u with 0 => [1] | 1 => [2] | 2 => [0] | _ => [] end) 4 (seq 0 3) (fun _ => White) [] = None.
Proof. vm_compute. reflexivity. Qed.
Example C09_self_loop : dfs_all (fun u => match u with 0 => [0] | _ => [] end) 2 (seq 0 1) (fun _ => White) [] = None.
Proof. vm_compute. reflexivity. Qed.
Example C09_chain_accepted : exists r, dfs_all (fun u => match u with 0 => [1] | 1 => [2] | _ => [] end) 4 (seq 0 3) (fun _ => White) [] = Some r.
Proof. eexists. vm_compute. reflexivity. Qed.
