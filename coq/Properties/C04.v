(* C04 - Successful generation always yields compilable, hygienic Go.  (partial: the parts that are logic)
   What a theorem can carry here: freshness of every allocated identifier against keywords, predeclared identifiers,
   package-level names and one another (from C12), exactness and order of the import block, via Layer A that every
   variable read is a variable that some emitted statement defines, and that every type is spelled as an expression that
   denotes that same type (model of createASTTypeExpr, tied to the real function on random types). The Go type checker
   itself is not modelled: `go vet` on every generated package is the tie for "compiles". *)
From Coq Require Import String List Arith Bool Permutation.
Import ListNotations.
Require Import Dec VarPool VarPoolRun Reserved_gen Determinism Sem2 Safe Check TypeRender.
Open Scope string_scope.

(* no generated identifier clashes with a keyword, a predeclared identifier, a pre-registered package-level or import
   name, or another generated identifier of the same invocation (any number of injectors and files) *)
Theorem C04_fresh_identifiers : forall pre reqs o0 st0 outs st1,
  run_auto (reserved_pool (code_predeclared ++ code_keywords)) pre = Some (o0, st0) ->
  run_auto st0 reqs = Some (outs, st1) ->
  NoDup outs /\ forall x, In x outs -> ~ In x spec_keywords /\ ~ In x spec_predeclared /\ ~ In x pre.
Proof.
  intros pre reqs o0 st0 outs st1 H0 H1.
  destruct (run_auto_fresh _ _ _ _ H0) as (_ & _ & _ & K0 & M0).
  destruct (run_auto_fresh _ _ _ _ H1) as (D & E & _).
  assert (RK : incl spec_keywords code_keywords) by (apply inclb_sound; vm_compute; reflexivity).
  assert (RP : incl spec_predeclared code_predeclared) by (apply inclb_sound; vm_compute; reflexivity).
  split; [exact D|]. intros x Hx. specialize (E x Hx). split; [|split]; intro Hin; apply E.
  - apply K0. apply reserved_used. apply in_or_app. right. apply RK. exact Hin.
  - apply K0. apply reserved_used. apply in_or_app. left. apply RP. exact Hin.
  - apply M0. exact Hin.
Qed.
Print Assumptions C04_fresh_identifiers.

(* the import block is a duplicate-free, sorted list containing exactly the used imports, whatever order the map of
   used imports is traversed in *)
Theorem C04_import_block : forall (A : Type) (key : A -> nat) (used : list A), NoDup (map key used) ->
  Permutation used (isort A key used) /\ sorted A key (isort A key used) /\
  (forall used', Permutation used used' -> isort A key used' = isort A key used).
Proof.
  intros A key used ND. split; [apply isort_perm|]. split; [apply isort_sorted|].
  intros used' P. symmetry. apply isort_order_independent; auto.
Qed.
Print Assumptions C04_import_block.

(* declared-before-use: in every execution of a program that passes the verified checker, a provider call never reads
   a variable that no emitted statement has assigned (the read always finds a value) *)
Theorem C04_no_use_before_definition : forall p rk ls s, check_code p rk = 0 -> run p (init p) ls = Some s ->
  forall t pc it, nth_error (s_thr s) t = Some (TRun pc (PWait (length (it_waits it)))) -> item_at p t pc = Some it ->
  exists vs, rdall p (s_store s) (it_args it) = Some vs.
Proof.
  intros p rk ls s C R t pc it Ct Ci. pose proof (check_code_sound p rk C) as W.
  assert (I : Inv p s) by (eapply run_inv; eauto using inv_init; apply W).
  destruct (ready_reads p s t pc it (Live.wfl_wf _ _ W) I Ct Ci) as (vs & H & _). eauto.
Qed.
Print Assumptions C04_no_use_before_definition.


(* Every type go/types can hand to the generator from the property's universe - basic types (unsafe.Pointer included),
   named and alias types of the current or of another package, instances of generic types, pointers, slices, arrays, maps,
   channels with direction, function types (variadic included), struct types (embedded fields and tags included) and
   interface types - is spelled by the model of createASTTypeExpr as an expression that, read in the generated file (whose
   import block maps every import name back to its path), denotes exactly that type. *)
Theorem C04_type_spelled_as_denoted : forall cur alias unalias, (forall p, unalias (alias p) = Some p) ->
  forall t, TypeRender.wf cur t -> denote cur unalias (render cur alias t) = Some t.
Proof. exact roundtrip. Qed.
Print Assumptions C04_type_spelled_as_denoted.

(* non-vacuity: a variadic function over a generic instance, an embedded field with a tag, unsafe.Pointer *)
Example C04_type_example :
  let t := TFunc [TNamed "example.com/q" "Box" [TSlice (TBasic "int")]; TSlice (TStruct [("Reader", true, "json:""r""", TNamed "io" "Reader" [])])] true [TBasic "Pointer"; TNamed "" "error" []] in
  render "example.com/p" (fun p => if String.eqb p "io" then "io0" else if String.eqb p "unsafe" then "unsafe" else "q") t =
    EFunc [("arg0", EIndex (ESel "q" "Box") [EArr None (EId "int")]); ("arg1", EEllipsis (EStruct [(None, "json:""r""", ESel "io0" "Reader")]))]
          [("result0", ESel "unsafe" "Pointer"); ("result1", EId "error")].
Proof. vm_compute. reflexivity. Qed.
