(* C01 - Providers run only after their dependencies, race-free, in every schedule.
   This file contains only statements, each closed by `exact` of a lemma proved elsewhere. *)
From Coq Require Import List Arith Bool.
Import ListNotations.
Require Import Sem2 Safe Race Live LiveInv Kahn Pool Threads Sched2 Assembly GenU GenSound.

(* Layer A: for every well-synchronised thread program p, every label sequence ls (any interleaving, any provider
   latency, failures and cancellation included) and every state s it reaches: a thread that stands before a provider
   call with all its waits passed can enter (the read is never stuck on an unwritten variable), and each argument it
   reads is an injector argument or exactly the value written by a producer that has already returned. *)
Theorem C01_order_and_values : forall p ls s, wf p -> Sem2.run p (Sem2.init p) ls = Some s ->
  forall t pc it, nth_error (s_thr s) t = Some (TRun pc (PWait (length (it_waits it)))) -> item_at p t pc = Some it ->
  exists s', Sem2.step p s (LEnter t) = Some s' /\
    exists vs, s_trace s' = Enter (it_node it) vs :: s_trace s /\ Forall2 (good_read p s) (it_args it) vs.
Proof. exact enter_after_deps. Qed.
Print Assumptions C01_order_and_values.

(* No sequentially consistent execution reaches a state in which one thread is about to read a variable that a
   different thread is about to write: the emitted program is data-race-free. *)
Theorem C01_race_free : forall p ls s, wf p -> Sem2.run p (Sem2.init p) ls = Some s -> ~ race_state p s.
Proof. exact race_free. Qed.
Print Assumptions C01_race_free.

(* Layer B o A: the program emitted by the generator model for any dependency graph satisfying the facts that
   NewGraph's model establishes (Bfs.v Final, Dfs.acyclic_rank, Match.antichain_ge_roots) is well-synchronised. *)
Theorem C01_emitted_wf : forall nn outs nreq src sidx nprov isarg isasync fallible np reterr rank0,
  (forall n c i, In (c, i) (outs n) <-> (c < nn /\ i < nreq c /\ src c i = n)) ->
  (forall n, NoDup (outs n)) ->
  (forall c i, c < nn -> i < nreq c -> src c i < nn) ->
  (forall c i, c < nn -> i < nreq c -> isarg (src c i) = false -> sidx c i < nprov (src c i)) ->
  (forall n, isarg n = true -> n < nn) ->
  (forall c i, c < nn -> i < nreq c -> rank0 (src c i) < rank0 c) ->
  0 < np -> (exists n, n < nn /\ isarg n = false) ->
  exists st, Threads.build np (Sched2.pool nn outs nreq src isarg isasync np) (Sched2.deps nreq src) isasync (Sched2.args nn isarg) = Some st /\
             wfl (prog_of nn outs nreq src sidx nprov isarg isasync fallible np reterr st) (Sched2.rk nn outs nreq).
Proof. intros. eapply emitted_wfl; eauto. Qed.
Print Assumptions C01_emitted_wf.

(* For ALL declarations: whenever the model of NewGraph accepts a declaration d (any DAG shape, Async marking, multi-value
   providers, Bind groups, Struct expansion, Value, injector arguments, flattened Sets, declaration order), the model of
   buildStmts succeeds and every execution of the emitted program - every interleaving, latency, failure and
   cancellation - is race free, never gets stuck at a provider entry, and every provider reads exactly what its
   producers returned. (`umodel d`, which the static correspondence compares with the real generator's output, is the
   projection of this very program: GenSound.umodel_is_uprog.) *)
Theorem C01_all_declarations : forall d g, unew_graph d = Gen.OK g ->
  exists st, Threads.build (unp g) (upool g) (udeps g) (uisasync g) (uargs g) = Some st /\
  forall ls s, Sem2.run (uprog g st) (Sem2.init (uprog g st)) ls = Some s ->
    ~ race_state (uprog g st) s /\
    forall t pc it, nth_error (s_thr s) t = Some (TRun pc (PWait (length (it_waits it)))) -> item_at (uprog g st) t pc = Some it ->
      exists s', Sem2.step (uprog g st) s (LEnter t) = Some s' /\
        exists vs, s_trace s' = Enter (it_node it) vs :: s_trace s /\ Forall2 (good_read (uprog g st) s) (it_args it) vs.
Proof.
  intros d g H. destruct (gen_sound d g H) as (st & B & W). exists st. split; [exact B|].
  intros ls s R. split; [apply (race_free _ ls s (wfl_wf _ _ W) R) | intros t pc it Ct Ci; apply (enter_after_deps _ ls s (wfl_wf _ _ W) R t pc it Ct Ci)].
Qed.
Print Assumptions C01_all_declarations.

(* non-vacuity: a concrete two-thread program is well-synchronised and has a run in which the consumer enters *)
Definition ex_prog : prog :=
  {| p_threads := [[ {| it_node := 1; it_args := [(0,0)]; it_waits := [(0,0)]; it_nrets := 1; it_closes := []; it_fallible := false |} ];
                   [ {| it_node := 0; it_args := []; it_waits := []; it_nrets := 1; it_closes := [(0,0)]; it_fallible := false |} ]];
     p_argnodes := []; p_reterr := false |}.
Example C01_nonvacuous :
  exists s, Sem2.run ex_prog (Sem2.init ex_prog) [LEnter 1; LExitOk 1; LClose 1; LWaitPass 0; LEnter 0] = Some s /\
            s_trace s = [Enter 1 [VApp 0 0 []]; ExitOk 0 []; Enter 0 []].
Proof. eexists. split; vm_compute; reflexivity. Qed.
