(* C09, acceptance: a declaration whose provider map exists (no duplicate supplier, every struct expansion has a source),
   whose requested type is supplied and whose providers have a rank (acyclic) is ACCEPTED by the model of NewGraph - the
   breadth-first construction never runs out of fuel and the cycle check never reports a cycle. *)
From Coq Require Import List Arith Bool NArith Lia.
Import ListNotations.
Require Import Gen Bfs Final1 Dfs GenU CorrS GenSound Resolve.

Definition allreq (provs : list Gen.prov) : list N := concat (map Gen.requires provs).
Lemma allreq_len provs : length (allreq provs) = fold_right (fun p a => length (Gen.requires p) + a) 0 provs.
Proof. unfold allreq. induction provs as [|p r IH]; simpl; auto. rewrite app_length, IH. auto. Qed.

Lemma nodup_bound (l : list nat) P : NoDup l -> (forall x, In x l -> x < P) -> length l <= P.
Proof.
  intros ND H. rewrite <- (seq_length P 0). apply NoDup_incl_length; auto. intros x Hx. apply in_seq. specialize (H x Hx). lia.
Qed.

Lemma nodes_bound provs pm : pm_good pm provs -> forall b vis cur,
  Bfs.inv (ureq provs) (pm_of pm) (nprovides provs) b vis cur -> length (Bfs.nodes b) <= 1 + length provs + length (allreq provs).
Proof.
  intros G b vis cur I. rewrite (Bfs.i_count _ _ _ _ _ _ I).
  assert (A : length (Bfs.pn b) <= length provs).
  { rewrite <- (map_length fst). apply nodup_bound; [apply (Bfs.i_pn_nodup _ _ _ _ _ _ I)|].
    intros pi Hin. apply in_map_iff in Hin. destruct Hin as ((pi' & n) & E & Hin). simpl in E. subst pi'.
    destruct (Bfs.i_pn_pm _ _ _ _ _ _ I pi n Hin) as (t & gi & Hpm). specialize (G t pi gi Hpm). unfold nprovides in G.
    destruct (nth_error provs pi) eqn:E; [apply nth_error_Some; congruence | lia]. }
  assert (B : length (Bfs.an b) <= length (allreq provs)).
  { rewrite <- (map_length fst). apply NoDup_incl_length; [apply (Bfs.i_an_nodup _ _ _ _ _ _ I)|].
    intros t Hin. apply in_map_iff in Hin. destruct Hin as ((t' & n) & E & Hin). simpl in E. subst t'.
    destruct (Bfs.i_an_req _ _ _ _ _ _ I t n Hin) as (pc & i & Hreq). unfold ureq in Hreq.
    destruct (nth_error provs pc) as [p|] eqn:E; [|destruct i; discriminate].
    unfold allreq. apply in_concat. exists (Gen.requires p). split; [apply in_map; eapply nth_error_In; eauto | eapply nth_error_In; eauto]. }
  lia.
Qed.

Theorem acyclic_accepted : forall d pm provs pi gi (rho : nat -> nat),
  dpm d = Some (pm, provs) -> Gen.assoc (Gen.d_ret d) pm = Some (pi, gi) ->
  (forall pc p t pj gj, nth_error provs pc = Some p -> In t (Gen.requires p) -> Gen.assoc t pm = Some (pj, gj) -> rho pj < rho pc) ->
  exists g, unew_graph d = OK g.
Proof.
  intros d pm provs pi gi rho Hpm Hret Hrho. unfold dpm in Hpm. unfold unew_graph.
  destruct (Gen.pass1 [] 0 (Gen.d_provs d)) as [pm1|e] eqn:P1; [|discriminate].
  destruct (Gen.pass2 pm1 (Gen.d_provs d) (filter Gen.isstruct (Gen.d_provs d))) as [[pm' provs']|e] eqn:P2; [|discriminate].
  inversion Hpm; subst pm' provs'. clear Hpm. rewrite Hret.
  assert (G1 : pm_good pm1 (Gen.d_provs d)) by (apply (pass1_good (Gen.d_provs d) [] [] pm1 P1); intros t p0 g0 H0; discriminate).
  assert (G : pm_good pm provs) by (eapply pass2_good; eauto).
  assert (PMOK : forall t p0 g0, pm_of pm t = Some (p0, g0) -> g0 < nprovides provs p0) by (intros t p0 g0 H0; apply (G t p0 g0 H0)).
  set (req := fun pi0 => match nth_error provs pi0 with Some p => Gen.requires p | None => [] end).
  change req with (ureq provs).
  set (b0 := {| Bfs.nodes := [Bfs.NProv pi]; red := fun _ => []; out := fun _ => []; pn := []; an := []; queue := [0] |}).
  pose proof (Final1.b0_inv (ureq provs) (pm_of pm) (nprovides provs) pi) as I0. fold b0 in I0.
  destruct (Bfs.loop_total (ureq provs) (pm_of pm) (nprovides provs) PMOK _ (nodes_bound provs pm G)
              (2 + 2 * (length provs + fold_right (fun p a => length (Gen.requires p) + a) 0 provs)) b0 [] I0) as ((b & vis) & L).
  { rewrite allreq_len. simpl. lia. }
  rewrite L.
  destruct (Bfs.loop_inv (ureq provs) (pm_of pm) (nprovides provs) PMOK _ b0 [] b vis I0 L) as (I & Q).
  set (n := length (Bfs.nodes b)).
  set (rho' := fun m => match nth_error (Bfs.nodes b) m with Some (Bfs.NProv pc) => S (rho pc) | _ => 0 end).
  destruct (Dfs.dfs_all_complete (fun m => map fst (Bfs.out b m)) n rho') with (fuel := S n) (ns := seq 0 n) (c := fun _ : nat => White) (fin := @nil nat) as ((c' & fin') & D).
  - intros u v Hu Hv. apply in_map_iff in Hv. destruct Hv as ((c & i) & E & Hin). simpl in E. subst c.
    apply (Bfs.outs_src _ _ _ b vis I) in Hin. apply Hin.
  - intros u v Hu Hv. apply in_map_iff in Hv. destruct Hv as ((c & i) & E & Hin). simpl in E. subst c.
    apply (Bfs.outs_src _ _ _ b vis I) in Hin. destruct Hin as (Hv & Hi & Hs).
    unfold rho'. destruct (nth_error (Bfs.nodes b) v) as [[ta|pc]|] eqn:Ev.
    + rewrite (Bfs.arg_noreq _ _ _ b vis I v ta Ev) in Hi. lia.
    + destruct (Bfs.res_by_type _ _ _ b vis I v pc i Ev Hi) as (t & Ht & Hm). rewrite Hs in Hm. unfold pm_of in Hm.
      destruct (Gen.assoc t pm) as [[pj gj]|] eqn:A.
      * destruct Hm as (_ & Hu'). rewrite Hu'. apply -> Nat.succ_lt_mono. unfold ureq in Ht.
        destruct (nth_error provs pc) as [p|] eqn:Ep; [|destruct i; discriminate].
        apply (Hrho pc p t pj gj Ep); [eapply nth_error_In; eauto | exact A].
      * destruct Hm as (_ & Hu'). rewrite Hu'. lia.
    + apply nth_error_None in Ev. unfold Bfs.nn in Hv. lia.
  - lia.
  - split; [intros m; split; [discriminate|intros []] | split; constructor].
  - intros m. discriminate.
  - intros x Hx. apply in_seq in Hx. lia.
  - fold n. rewrite D. eauto.
Qed.
