(* C04, type spelling: a model of createASTTypeExpr (types.Type -> ast.Expr) and of the type a spelled expression denotes,
   with the round-trip theorem "every type is spelled as the same type it denotes". *)
From Coq Require Import List String Bool Arith NArith Lia DecimalString.
Import ListNotations.
Open Scope string_scope.

Inductive chdir := CBoth | CSend | CRecv.
Inductive ty :=
| TBasic (name : string)
| TNamed (pkg : string) (name : string) (targs : list ty)      (* pkg "" : universe (error, any) *)
| TPtr (t : ty) | TSlice (t : ty) | TArray (n : N) (t : ty) | TMap (k v : ty) | TChan (d : chdir) (t : ty)
| TFunc (ps : list ty) (variadic : bool) (rs : list ty)
| TStruct (fs : list (string * bool * string * ty))            (* field name, embedded, tag, type *)
| TIface (ms : list (string * ty)).

Inductive ex :=
| EId (s : string) | ESel (q s : string) | EStar (e : ex) | EArr (len : option N) (e : ex) | EMap (k v : ex) | EChan (d : chdir) (e : ex)
| EEllipsis (e : ex) | EFunc (ps rs : list (string * ex)) | EStruct (fs : list (option string * string * ex)) | EIface (ms : list (string * ex))
| EIndex (x : ex) (args : list ex).

Definition dec (i : nat) : string := NilZero.string_of_uint (Nat.to_uint i).

Section Render.
Variable cur : string.                 (* path of the package the file is generated into *)
Variable alias : string -> string.     (* import path -> name it is imported under *)

Definition render_params (r : ty -> ex) (v : bool) : nat -> list ty -> list (string * ex) :=
  fix go (i : nat) (l : list ty) : list (string * ex) :=
    match l with
    | [] => []
    | t :: rest => ("arg" ++ dec i,
                    match rest, v, t with
                    | [], true, TSlice e => EEllipsis (r e)
                    | _, _, _ => r t
                    end) :: go (S i) rest
    end.
Definition render_results (r : ty -> ex) : nat -> list ty -> list (string * ex) :=
  fix go (i : nat) (l : list ty) : list (string * ex) :=
    match l with [] => [] | t :: rest => ("result" ++ dec i, r t) :: go (S i) rest end.

Fixpoint render (t : ty) : ex :=
  match t with
  | TBasic n => if String.eqb n "Pointer" then ESel (alias "unsafe") n else EId n
  | TNamed p n targs =>
      let base := if String.eqb p "" || String.eqb p cur then EId n else ESel (alias p) n in
      match targs with [] => base | _ => EIndex base (map render targs) end
  | TPtr e => EStar (render e)
  | TSlice e => EArr None (render e)
  | TArray n e => EArr (Some n) (render e)
  | TMap k v => EMap (render k) (render v)
  | TChan d e => EChan d (render e)
  | TFunc ps v rs => EFunc (render_params render v 0 ps) (render_results render 0 rs)
  | TStruct fs => EStruct (map (fun f : string * bool * string * ty => match f with (n, emb, tag, ft) => (if emb then None else Some n, tag, render ft) end) fs)
  | TIface ms => EIface (map (fun m : string * ty => (fst m, render (snd m))) ms)
  end.
End Render.

(* ---------------- the type a spelled expression denotes in the generated file ---------------- *)
Definition basics : list string :=
  ["bool"; "string"; "int"; "int8"; "int16"; "int32"; "int64"; "uint"; "uint8"; "uint16"; "uint32"; "uint64"; "uintptr";
   "float32"; "float64"; "complex64"; "complex128"; "byte"; "rune"].
Definition universe_named : list string := ["error"; "any"; "comparable"].
Definition mems (s : string) (l : list string) : bool := existsb (String.eqb s) l.

Definition embname (t : ty) : option string :=
  match t with
  | TNamed _ n _ => Some n
  | TPtr (TNamed _ n _) => Some n
  | TBasic n => Some n
  | _ => None
  end.

Section Denote.
Variable cur : string.
Variable unalias : string -> option string.   (* import name -> import path, in the generated file *)

Definition olist {A B} (f : A -> option B) : list A -> option (list B) :=
  fix go l := match l with [] => Some [] | a :: r => match f a, go r with Some b, Some bs => Some (b :: bs) | _, _ => None end end.

Definition denote_params (d : ex -> option ty) : list (string * ex) -> option (list ty * bool) :=
  fix go l := match l with
              | [] => Some ([], false)
              | (_, e) :: rest =>
                  match rest, e with
                  | [], EEllipsis x => match d x with Some t => Some ([TSlice t], true) | None => None end
                  | _, EEllipsis _ => None
                  | _, _ => match d e, go rest with Some t, Some (ts, v) => Some (t :: ts, v) | _, _ => None end
                  end
              end.

Fixpoint denote (e : ex) : option ty :=
  match e with
  | EId s => Some (if mems s basics then TBasic s else if mems s universe_named then TNamed "" s [] else TNamed cur s [])
  | ESel q s => match unalias q with
                | Some p => Some (if String.eqb p "unsafe" && String.eqb s "Pointer" then TBasic s else TNamed p s [])
                | None => None end
  | EStar x => option_map TPtr (denote x)
  | EArr None x => option_map TSlice (denote x)
  | EArr (Some n) x => option_map (TArray n) (denote x)
  | EMap k v => match denote k, denote v with Some a, Some b => Some (TMap a b) | _, _ => None end
  | EChan d x => option_map (TChan d) (denote x)
  | EEllipsis _ => None
  | EFunc ps rs => match denote_params denote ps, olist (fun p => denote (snd p)) rs with
                   | Some (ts, v), Some us => Some (TFunc ts v us) | _, _ => None end
  | EStruct fs => option_map TStruct
                    (olist (fun f => match f with
                                     | (Some n, tag, x) => option_map (fun t => (n, false, tag, t)) (denote x)
                                     | (None, tag, x) => match denote x with
                                                         | Some t => option_map (fun n => (n, true, tag, t)) (embname t)
                                                         | None => None end
                                     end) fs)
  | EIface ms => option_map TIface (olist (fun m => option_map (fun t => (fst m, t)) (denote (snd m))) ms)
  | EIndex x args => match denote x, olist denote args with
                     | Some (TNamed p n []), Some (a :: ts) => Some (TNamed p n (a :: ts))
                     | _, _ => None end
  end.
End Denote.

(* ---------------- well-formed types (what go/types hands to the generator) ---------------- *)
Section WF.
Variable cur : string.
Fixpoint wf (t : ty) : Prop :=
  match t with
  | TBasic n => mems n basics = true \/ n = "Pointer"
  | TNamed p n targs =>
      (fix all (l : list ty) : Prop := match l with [] => True | a :: r => wf a /\ all r end) targs /\
      (p = "" -> mems n universe_named = true /\ targs = []) /\
      (p = cur -> mems n basics = false /\ mems n universe_named = false) /\
      (p = "unsafe" -> n <> "Pointer")
  | TPtr e | TSlice e | TArray _ e | TChan _ e => wf e
  | TMap k v => wf k /\ wf v
  | TFunc ps v rs =>
      (fix all (l : list ty) : Prop := match l with [] => True | a :: r => wf a /\ all r end) ps /\
      (fix all (l : list ty) : Prop := match l with [] => True | a :: r => wf a /\ all r end) rs /\
      (v = true -> exists front e, ps = (front ++ [TSlice e])%list)
  | TStruct fs =>
      (fix all (l : list (string * bool * string * ty)) : Prop :=
         match l with [] => True | (n, emb, _, ft) :: r => wf ft /\ (emb = true -> embname ft = Some n) /\ all r end) fs
  | TIface ms =>
      (fix all (l : list (string * ty)) : Prop := match l with [] => True | (_, mt) :: r => wf mt /\ all r end) ms
  end.
End WF.

(* ---------------- induction principle with the lists opened ---------------- *)
Section Ind.
Variable P : ty -> Prop.
Hypothesis HBasic : forall n, P (TBasic n).
Hypothesis HNamed : forall p n targs, Forall P targs -> P (TNamed p n targs).
Hypothesis HPtr : forall e, P e -> P (TPtr e).
Hypothesis HSlice : forall e, P e -> P (TSlice e).
Hypothesis HArray : forall n e, P e -> P (TArray n e).
Hypothesis HMap : forall k v, P k -> P v -> P (TMap k v).
Hypothesis HChan : forall d e, P e -> P (TChan d e).
Hypothesis HFunc : forall ps v rs, Forall P ps -> Forall P rs -> P (TFunc ps v rs).
Hypothesis HStruct : forall fs, Forall (fun f => P (snd f)) fs -> P (TStruct fs).
Hypothesis HIface : forall ms, Forall (fun m => P (snd m)) ms -> P (TIface ms).
Fixpoint ty_ind2 (t : ty) : P t :=
  match t with
  | TBasic n => HBasic n
  | TNamed p n targs => HNamed p n targs ((fix go (l : list ty) : Forall P l := match l with [] => Forall_nil _ | a :: r => Forall_cons _ (ty_ind2 a) (go r) end) targs)
  | TPtr e => HPtr e (ty_ind2 e)
  | TSlice e => HSlice e (ty_ind2 e)
  | TArray n e => HArray n e (ty_ind2 e)
  | TMap k v => HMap k v (ty_ind2 k) (ty_ind2 v)
  | TChan d e => HChan d e (ty_ind2 e)
  | TFunc ps v rs => HFunc ps v rs
      ((fix go (l : list ty) : Forall P l := match l with [] => Forall_nil _ | a :: r => Forall_cons _ (ty_ind2 a) (go r) end) ps)
      ((fix go (l : list ty) : Forall P l := match l with [] => Forall_nil _ | a :: r => Forall_cons _ (ty_ind2 a) (go r) end) rs)
  | TStruct fs => HStruct fs ((fix go (l : list (string * bool * string * ty)) : Forall (fun f => P (snd f)) l :=
                                 match l with [] => Forall_nil _ | a :: r => Forall_cons _ (ty_ind2 (snd a)) (go r) end) fs)
  | TIface ms => HIface ms ((fix go (l : list (string * ty)) : Forall (fun m => P (snd m)) l :=
                               match l with [] => Forall_nil _ | a :: r => Forall_cons _ (ty_ind2 (snd a)) (go r) end) ms)
  end.
End Ind.

(* ---------------- round trip ---------------- *)
Section RoundTrip.
Variable cur : string.
Variable alias : string -> string.
Variable unalias : string -> option string.
Hypothesis inverse : forall p, unalias (alias p) = Some p.    (* the import block maps each name back to its path *)

Lemma universe_not_basic n : mems n universe_named = true -> mems n basics = false.
Proof.
  unfold mems, universe_named. simpl. rewrite orb_false_r. intros H.
  apply orb_true_iff in H. destruct H as [H|H]; [|apply orb_true_iff in H; destruct H as [H|H]]; apply String.eqb_eq in H; subst; reflexivity.
Qed.
Lemma render_not_ellipsis t x : render cur alias t <> EEllipsis x.
Proof.
  destruct t; simpl; try discriminate.
  - destruct (String.eqb name "Pointer"); discriminate.
  - destruct targs; [destruct (String.eqb pkg "" || String.eqb pkg cur); discriminate | discriminate].
Qed.
Lemma wf_all_forall (l : list ty) :
  (fix all (l : list ty) : Prop := match l with [] => True | a :: r => wf cur a /\ all r end) l -> Forall (wf cur) l.
Proof. induction l as [|a r IH]; intros H; constructor; [apply H | apply IH; apply H]. Qed.
Lemma olist_map (l : list ty) : Forall (fun t => wf cur t -> denote cur unalias (render cur alias t) = Some t) l -> Forall (wf cur) l ->
  olist (denote cur unalias) (map (render cur alias) l) = Some l.
Proof.
  induction 1 as [|a r Ha _ IH]; intros W; simpl; auto. inversion W; subst. rewrite Ha by auto. rewrite IH by auto. reflexivity.
Qed.
Lemma base_named p n : (p = "" -> mems n universe_named = true) -> (p = cur -> mems n basics = false /\ mems n universe_named = false) ->
  (p = "unsafe" -> n <> "Pointer") ->
  denote cur unalias (if String.eqb p "" || String.eqb p cur then EId n else ESel (alias p) n) = Some (TNamed p n []).
Proof.
  intros H0 Hc Hu. destruct (String.eqb p "") eqn:E0; cbn [orb].
  - apply String.eqb_eq in E0. subst p. specialize (H0 eq_refl). cbn [denote]. rewrite (universe_not_basic _ H0), H0. reflexivity.
  - destruct (String.eqb p cur) eqn:Ec; cbn [orb].
    + apply String.eqb_eq in Ec. subst p. destruct (Hc eq_refl) as (A & B). cbn [denote]. rewrite A, B. reflexivity.
    + cbn [denote]. rewrite inverse. destruct (String.eqb p "unsafe") eqn:Eu; cbn [andb]; auto. apply String.eqb_eq in Eu.
      destruct (String.eqb n "Pointer") eqn:En; auto. apply String.eqb_eq in En. exfalso. apply (Hu Eu En).
Qed.

Lemma dp_last (d : ex -> option ty) nm e t : (forall x, e <> EEllipsis x) -> d e = Some t -> denote_params d [(nm, e)] = Some ([t], false).
Proof. intros Hne Hd. destruct e; simpl; rewrite ?Hd; try reflexivity. exfalso. eapply Hne. reflexivity. Qed.
Lemma dp_cons (d : ex -> option ty) nm e t h tl : (forall x, e <> EEllipsis x) -> d e = Some t ->
  denote_params d ((nm, e) :: h :: tl) = match denote_params d (h :: tl) with Some (ts, v) => Some (t :: ts, v) | None => None end.
Proof. intros Hne Hd. destruct e; cbn [denote_params]; rewrite ?Hd; try reflexivity. exfalso. eapply Hne. reflexivity. Qed.
Lemma dp_ellipsis (d : ex -> option ty) nm x t : d x = Some t -> denote_params d [(nm, EEllipsis x)] = Some ([TSlice t], true).
Proof. intros Hd. simpl. rewrite Hd. reflexivity. Qed.

Lemma params_roundtrip v : forall ps i, Forall (fun t => wf cur t -> denote cur unalias (render cur alias t) = Some t) ps -> Forall (wf cur) ps ->
  (v = true -> exists front e, ps = (front ++ [TSlice e])%list) ->
  denote_params (denote cur unalias) (render_params (render cur alias) v i ps) = Some (ps, match ps with [] => false | _ => v end).
Proof.
  induction ps as [|t rest IH]; intros i F W Hv; [reflexivity|].
  inversion F as [|? ? Ht Fr]; subst. inversion W as [|? ? Wt Wr]; subst.
  destruct rest as [|t2 rest2].
  - (* the last parameter *)
    destruct v.
    + destruct (Hv eq_refl) as (front & e & E). destruct front as [|f0 fr]; simpl in E; [|destruct fr; discriminate]. inversion E; subst t.
      assert (He : denote cur unalias (render cur alias e) = Some e).
      { specialize (Ht Wt). simpl in Ht. destruct (denote cur unalias (render cur alias e)); simpl in Ht; [inversion Ht; reflexivity | discriminate]. }
      cbn [render_params]. apply dp_ellipsis. exact He.
    + cbn [render_params]. apply dp_last; [intros x; apply render_not_ellipsis | apply Ht; exact Wt].
  - (* an inner parameter: never spelled with an ellipsis *)
    assert (Hv' : v = true -> exists front e, (t2 :: rest2) = (front ++ [TSlice e])%list).
    { intros Ev. destruct (Hv Ev) as (front & e & E). destruct front as [|f0 fr]; simpl in E; [discriminate|]. inversion E. eauto. }
    specialize (IH (S i) Fr Wr Hv').
    change (render_params (render cur alias) v i (t :: t2 :: rest2)) with
      (("arg" ++ dec i, render cur alias t) :: render_params (render cur alias) v (S i) (t2 :: rest2)).
    remember (render_params (render cur alias) v (S i) (t2 :: rest2)) as tailp eqn:Etail.
    assert (Ecs : exists h tl, tailp = h :: tl) by (rewrite Etail; cbn [render_params]; eauto). destruct Ecs as (h & tl & Etl).
    rewrite Etl in *. rewrite (dp_cons _ _ _ t h tl); [|intros x; apply render_not_ellipsis | apply Ht; exact Wt]. rewrite IH. reflexivity.
Qed.

Lemma results_roundtrip : forall rs i, Forall (fun t => wf cur t -> denote cur unalias (render cur alias t) = Some t) rs -> Forall (wf cur) rs ->
  olist (fun p : string * ex => denote cur unalias (snd p)) (render_results (render cur alias) i rs) = Some rs.
Proof.
  induction rs as [|t r IH]; intros i F W; [reflexivity|]. inversion F; subst. inversion W; subst.
  cbn [render_results olist snd]. rewrite H1 by auto. change ((fix go (l : list (string * ex)) : option (list ty) := match l with [] => Some [] | a :: r0 => match denote cur unalias (snd a), go r0 with Some b, Some bs => Some (b :: bs) | _, _ => None end end) (render_results (render cur alias) (S i) r)) with (olist (fun p : string * ex => denote cur unalias (snd p)) (render_results (render cur alias) (S i) r)).
  rewrite IH by auto. reflexivity.
Qed.

(* every well-formed type is spelled as an expression that denotes that same type *)
Theorem roundtrip : forall t, wf cur t -> denote cur unalias (render cur alias t) = Some t.
Proof.
  induction t using ty_ind2; intros W.
  - (* basic *) cbn [wf] in W. cbn [render]. destruct (String.eqb n "Pointer") eqn:E.
    + apply String.eqb_eq in E. subst n. cbn [denote]. rewrite inverse. reflexivity.
    + destruct W as [W|W]; [|subst n; discriminate]. cbn [denote]. rewrite W. reflexivity.
  - (* named, possibly an instance of a generic type *)
    cbn [wf] in W. destruct W as (Wa & W0 & Wc & Wu). apply wf_all_forall in Wa.
    cbn [render]. destruct targs as [|a ts].
    + apply base_named; [intros E; apply (W0 E) | exact Wc | exact Wu].
    + assert (p <> "") by (intro E; destruct (W0 E) as (_ & X); discriminate).
      cbn [denote]. rewrite base_named; [|intros E; contradiction | exact Wc | exact Wu].
      change (olist (denote cur unalias) (map (render cur alias) (a :: ts))) with (olist (denote cur unalias) (map (render cur alias) (a :: ts))).
      rewrite (olist_map (a :: ts)) by auto. reflexivity.
  - cbn [wf] in W. cbn [render denote]. rewrite IHt by auto. reflexivity.
  - cbn [wf] in W. cbn [render denote]. rewrite IHt by auto. reflexivity.
  - cbn [wf] in W. cbn [render denote]. rewrite IHt by auto. reflexivity.
  - cbn [wf] in W. destruct W. cbn [render denote]. rewrite IHt1, IHt2 by auto. reflexivity.
  - cbn [wf] in W. cbn [render denote]. rewrite IHt by auto. reflexivity.
  - (* function type *)
    cbn [wf] in W. destruct W as (Wp & Wr & Wv). apply wf_all_forall in Wp. apply wf_all_forall in Wr.
    cbn [render denote]. rewrite (params_roundtrip v ps 0) by auto. rewrite results_roundtrip by auto.
    destruct ps; [|reflexivity]. destruct v; [|reflexivity]. destruct (Wv eq_refl) as (front & e & E). destruct front; discriminate.
  - (* struct type *)
    cbn [render denote]. cbn [wf] in W.
    assert (G : olist (fun f : option string * string * ex => match f with
                       | (Some n, tag, x) => option_map (fun t => (n, false, tag, t)) (denote cur unalias x)
                       | (None, tag, x) => match denote cur unalias x with Some t => option_map (fun n => (n, true, tag, t)) (embname t) | None => None end end)
                  (map (fun f : string * bool * string * ty => match f with (n, emb, tag, ft) => (if emb then None else Some n, tag, render cur alias ft) end) fs) = Some fs).
    { induction fs as [|[[[n emb] tag] ft] r IHr]; [reflexivity|]. inversion H as [|? ? Hf Hr]; subst. destruct W as (Wf & We & Wr).
      cbn [map olist]. simpl in Hf. rewrite (Hf Wf).
      match goal with |- context [olist ?f (map ?g r)] => change (olist f (map g r)) with (olist f (map g r)); rewrite (IHr Hr Wr) end.
      destruct emb; cbn [option_map]; [rewrite (We eq_refl); reflexivity | reflexivity]. }
    match goal with |- option_map TStruct ?X = _ => replace X with (Some fs) by (symmetry; exact G) end. reflexivity.
  - (* interface type *)
    cbn [render denote]. cbn [wf] in W.
    assert (G : olist (fun m : string * ex => option_map (fun t => (fst m, t)) (denote cur unalias (snd m)))
                  (map (fun m : string * ty => (fst m, render cur alias (snd m))) ms) = Some ms).
    { induction ms as [|[n mt] r IHr]; [reflexivity|]. inversion H as [|? ? Hf Hr]; subst. destruct W as (Wf & Wr).
      cbn [map olist fst snd]. simpl in Hf. rewrite (Hf Wf). cbn [option_map].
      match goal with |- context [olist ?f (map ?g r)] => change (olist f (map g r)) with (olist f (map g r)); rewrite (IHr Hr Wr) end. reflexivity. }
    match goal with |- option_map TIface ?X = _ => replace X with (Some ms) by (symmetry; exact G) end. reflexivity.
Qed.
End RoundTrip.

(* ---------------- executable comparison used by the correspondence with the real createASTTypeExpr ---------------- *)
Definition list_eqb {A} (f : A -> A -> bool) : list A -> list A -> bool :=
  fix go l1 l2 := match l1, l2 with [], [] => true | a :: r, b :: s => f a b && go r s | _, _ => false end.
Definition chdir_eqb (a b : chdir) : bool := match a, b with CBoth, CBoth | CSend, CSend | CRecv, CRecv => true | _, _ => false end.
Definition ostr_eqb (a b : option string) : bool := match a, b with None, None => true | Some x, Some y => String.eqb x y | _, _ => false end.
Fixpoint ty_eqb (a b : ty) : bool :=
  match a, b with
  | TBasic n, TBasic m => String.eqb n m
  | TNamed p n l, TNamed q m k => String.eqb p q && String.eqb n m && list_eqb ty_eqb l k
  | TPtr x, TPtr y | TSlice x, TSlice y => ty_eqb x y
  | TArray n x, TArray m y => N.eqb n m && ty_eqb x y
  | TMap k v, TMap k' v' => ty_eqb k k' && ty_eqb v v'
  | TChan d x, TChan d' y => chdir_eqb d d' && ty_eqb x y
  | TFunc ps v rs, TFunc ps' v' rs' => list_eqb ty_eqb ps ps' && Bool.eqb v v' && list_eqb ty_eqb rs rs'
  | TStruct fs, TStruct gs =>
      list_eqb (fun f g : string * bool * string * ty =>
                  match f, g with (n, e, t, x), (n', e', t', x') => String.eqb n n' && Bool.eqb e e' && String.eqb t t' && ty_eqb x x' end) fs gs
  | TIface ms, TIface ns => list_eqb (fun m n : string * ty => String.eqb (fst m) (fst n) && ty_eqb (snd m) (snd n)) ms ns
  | _, _ => false
  end.
Fixpoint ex_eqb (a b : ex) : bool :=
  match a, b with
  | EId s, EId t => String.eqb s t
  | ESel q s, ESel q' s' => String.eqb q q' && String.eqb s s'
  | EStar x, EStar y | EEllipsis x, EEllipsis y => ex_eqb x y
  | EArr None x, EArr None y => ex_eqb x y
  | EArr (Some n) x, EArr (Some m) y => N.eqb n m && ex_eqb x y
  | EMap k v, EMap k' v' => ex_eqb k k' && ex_eqb v v'
  | EChan d x, EChan d' y => chdir_eqb d d' && ex_eqb x y
  | EFunc ps rs, EFunc ps' rs' =>
      list_eqb (fun p q : string * ex => String.eqb (fst p) (fst q) && ex_eqb (snd p) (snd q)) ps ps' &&
      list_eqb (fun p q : string * ex => String.eqb (fst p) (fst q) && ex_eqb (snd p) (snd q)) rs rs'
  | EStruct fs, EStruct gs =>
      list_eqb (fun f g : option string * string * ex =>
                  match f, g with (n, t, x), (n', t', x') => ostr_eqb n n' && String.eqb t t' && ex_eqb x x' end) fs gs
  | EIface ms, EIface ns => list_eqb (fun p q : string * ex => String.eqb (fst p) (fst q) && ex_eqb (snd p) (snd q)) ms ns
  | EIndex x l, EIndex y k => ex_eqb x y && list_eqb ex_eqb l k
  | _, _ => false
  end.

Definition alias_of (m : list (string * string)) (p : string) : string :=
  match find (fun x => String.eqb (fst x) p) m with Some x => snd x | None => "" end.
Definition unalias_of (m : list (string * string)) (q : string) : option string :=
  match find (fun x => String.eqb (snd x) q) m with Some x => Some (fst x) | None => None end.
(* 0: the real spelling is the model's spelling and denotes the type it was made from; 41: spelling differs; 42: it denotes
   another type (or none) *)
Definition render_code (cur : string) (imports : list (string * string)) (t : ty) (observed : ex) : nat :=
  match denote cur (unalias_of imports) observed with
  | Some t' => if ty_eqb t t' then (if ex_eqb (render cur (alias_of imports) t) observed then 0 else 41) else 42
  | None => 42 end.
Definition render_mismatches (cases : list (nat * (string * list (string * string) * ty * ex))) : list (nat * nat) :=
  flat_map (fun c => match c with (i, (cur, imps, t, e)) => match render_code cur imps t e with 0 => [] | k => [(i, k)] end end) cases.

(* the same for a spelling function whose layout the model does not describe (migrate's TypeToExpr: nameless parameters):
   only the denotation of the real output is compared with the input type *)
Definition denote_mismatches (cases : list (nat * (string * list (string * string) * ty * ex))) : list (nat * nat) :=
  flat_map (fun c => match c with (i, (cur, imps, t, e)) =>
                       match denote cur (unalias_of imps) e with
                       | Some t' => if ty_eqb t t' then [] else [(i, 42)]
                       | None => [(i, 42)] end end) cases.

(* ---------------- a checker for well-formedness, so that the correspondence can report how many of the observed types
   fall under the theorem's hypothesis ---------------- *)
Definition ends_in_slice (ps : list ty) : bool := match rev ps with TSlice _ :: _ => true | _ => false end.
Definition ostr_is (o : option string) (n : string) : bool := match o with Some m => String.eqb m n | None => false end.
Fixpoint wfb (cur : string) (t : ty) : bool :=
  match t with
  | TBasic n => mems n basics || String.eqb n "Pointer"
  | TNamed p n targs =>
      forallb (wfb cur) targs &&
      (if String.eqb p "" then mems n universe_named && match targs with [] => true | _ => false end else true) &&
      (if String.eqb p cur then negb (mems n basics) && negb (mems n universe_named) else true) &&
      (if String.eqb p "unsafe" then negb (String.eqb n "Pointer") else true)
  | TPtr e | TSlice e | TArray _ e | TChan _ e => wfb cur e
  | TMap k v => wfb cur k && wfb cur v
  | TFunc ps v rs => forallb (wfb cur) ps && forallb (wfb cur) rs && (if v then ends_in_slice ps else true)
  | TStruct fs => forallb (fun f : string * bool * string * ty => match f with (n, emb, _, ft) => wfb cur ft && (if emb then ostr_is (embname ft) n else true) end) fs
  | TIface ms => forallb (fun m : string * ty => wfb cur (snd m)) ms
  end.

Lemma ends_in_slice_spec ps : ends_in_slice ps = true -> exists front e, ps = (front ++ [TSlice e])%list.
Proof.
  unfold ends_in_slice. intros H. destruct (rev ps) as [|x r] eqn:E; [discriminate|]. destruct x; try discriminate.
  exists (rev r), x. rewrite <- (rev_involutive ps), E. reflexivity.
Qed.

Theorem wfb_sound cur : forall t, wfb cur t = true -> wf cur t.
Proof.
  induction t using ty_ind2; cbn [wfb wf]; intros W.
  - apply orb_true_iff in W. destruct W as [W|W]; [left; exact W | right; apply String.eqb_eq; exact W].
  - apply andb_true_iff in W. destruct W as (W & W4). apply andb_true_iff in W. destruct W as (W & W3). apply andb_true_iff in W. destruct W as (W1 & W2).
    split; [|split; [|split]].
    + clear - H W1. induction H as [|a r Ha Hr IH]; [exact I|]. simpl in W1. apply andb_true_iff in W1. destruct W1 as (Wa & Wr). split; [apply Ha; exact Wa | apply IH; exact Wr].
    + intros ->. cbn [String.eqb] in W2. apply andb_true_iff in W2. destruct W2 as (A & B). split; auto. destruct targs; [reflexivity|discriminate].
    + intros ->. rewrite String.eqb_refl in W3. apply andb_true_iff in W3. destruct W3 as (A & B). split; apply negb_true_iff; auto.
    + intros ->. rewrite String.eqb_refl in W4. apply negb_true_iff in W4. apply String.eqb_neq. exact W4.
  - auto.
  - auto.
  - auto.
  - apply andb_true_iff in W. destruct W. split; auto.
  - auto.
  - apply andb_true_iff in W. destruct W as (W & W3). apply andb_true_iff in W. destruct W as (W1 & W2). split; [|split].
    + clear - H W1. induction H as [|a r Ha Hr IH]; [exact I|]. simpl in W1. apply andb_true_iff in W1. destruct W1 as (Wa & Wr). split; [apply Ha; exact Wa | apply IH; exact Wr].
    + clear - H0 W2. induction H0 as [|a r Ha Hr IH]; [exact I|]. simpl in W2. apply andb_true_iff in W2. destruct W2 as (Wa & Wr). split; [apply Ha; exact Wa | apply IH; exact Wr].
    + intros ->. apply ends_in_slice_spec. exact W3.
  - induction H as [|[[[n emb] tag] ft] r Ha Hr IH]; [exact I|]. simpl in W. apply andb_true_iff in W. destruct W as (W1 & W2).
    apply andb_true_iff in W1. destruct W1 as (A & B). simpl in Ha. split; [auto|]. split; [|apply IH; exact W2].
    intros ->. unfold ostr_is in B. destruct (embname ft) as [m|]; [|discriminate]. apply String.eqb_eq in B. subst. reflexivity.
  - induction H as [|[n mt] r Ha Hr IH]; [exact I|]. simpl in W. apply andb_true_iff in W. destruct W as (A & B). simpl in Ha. split; [apply Ha; exact A | apply IH; exact B].
Qed.

Definition wf_count (cases : list (nat * (string * list (string * string) * ty * ex))) : nat * nat :=
  (List.length (filter (fun c => match c with (_, (cur, _, t, _)) => wfb cur t end) cases), List.length cases).
