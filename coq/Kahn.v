From Coq Require Import List Arith Lia Bool.
Import ListNotations.

Section Kahn.
Variable nn : nat.                              (* nodes are 0 .. nn-1 *)
Variable outs : nat -> list (nat * nat).        (* producer n: list of (consumer, parameter index), in g.edges[n] order *)
Variable nreq : nat -> nat.                     (* number of parameters = len(reverseEdges[n]) *)

Definition memn (x : nat) (l : list nat) : bool := existsb (Nat.eqb x) l.
Lemma memn_In x l : memn x l = true <-> In x l.
Proof. unfold memn. rewrite existsb_exists. split; [intros (y & H & E); apply Nat.eqb_eq in E; subst; auto | intros H; exists x; split; auto; apply Nat.eqb_refl]. Qed.

Definition fupd {A} (f : nat -> A) (k : nat) (v : A) : nat -> A := fun m => if Nat.eqb m k then v else f m.

Record st := { q : list nat; cnt : nat -> nat; prov : nat -> list nat }.

(* one edge of the node being yielded *)
Definition relax (s : st) (e : nat * nat) : st :=
  let (c, i) := e in
  if memn i (prov s c) then s
  else let k := cnt s c - 1 in
       {| q := if Nat.eqb k 0 then q s ++ [c] else q s; cnt := fupd (cnt s) c k; prov := fupd (prov s) c (i :: prov s c) |}.

Fixpoint kahn (fuel : nat) (s : st) (vis : list nat) : list nat :=   (* vis: newest first; result: visiting order *)
  match fuel with
  | 0 => rev vis
  | S fuel =>
      match q s with
      | [] => rev vis
      | n :: r =>
          let s0 := {| q := r; cnt := cnt s; prov := prov s |} in
          if memn n vis then kahn fuel s0 vis
          else kahn fuel (fold_left relax (outs n) s0) (n :: vis)
      end
  end.

Definition init : st := {| q := filter (fun n => Nat.eqb (nreq n) 0) (seq 0 nn); cnt := nreq; prov := fun _ => [] |}.
Definition topo : list nat := kahn (S nn) init [].

(* ---- graph well-formedness (established by the model of NewGraph) ---- *)
Variable src : nat -> nat -> nat.               (* src c i = the producer of parameter i of c *)
Hypothesis outs_src : forall n c i, In (c, i) (outs n) <-> (c < nn /\ i < nreq c /\ src c i = n).
Hypothesis outs_nodup : forall n, NoDup (outs n).
Hypothesis src_lt : forall c i, c < nn -> i < nreq c -> src c i < nn.

Lemma NoDup_app_inv {A} (l r : list A) : NoDup (l ++ r) -> NoDup l /\ NoDup r /\ (forall x, In x l -> In x r -> False).
Proof.
  induction l as [|a l IH]; simpl; intros H.
  - repeat split; auto. constructor.
  - inversion H; subst. destruct (IH H3) as (Hl & Hr & Hd). repeat split; auto.
    + constructor; auto. intro. apply H2. apply in_or_app; auto.
    + intros x [->|Hx] Hxr; [apply H2; apply in_or_app; auto | eapply Hd; eauto].
Qed.
(* ---- pigeonhole facts ---- *)
Lemma ph_le (l : list nat) k : NoDup l -> (forall x, In x l -> x < k) -> length l <= k.
Proof. intros ND B. rewrite <- (seq_length k 0). apply NoDup_incl_length; auto. intros x Hx. apply in_seq. specialize (B x Hx). lia. Qed.
Lemma ph_all (l : list nat) k : NoDup l -> (forall x, In x l -> x < k) -> length l = k -> forall i, i < k -> In i l.
Proof. intros ND B L i Hi. apply (NoDup_length_incl ND (l' := seq 0 k)); [rewrite seq_length; lia | intros x Hx; apply in_seq; specialize (B x Hx); lia | apply in_seq; lia]. Qed.
Lemma ph_lt (l : list nat) k i : NoDup l -> (forall x, In x l -> x < k) -> i < k -> ~ In i l -> length l < k.
Proof. intros ND B Hi Hn. assert (length (i :: l) <= k); [|simpl in *; lia]. apply ph_le; [constructor; auto|]. intros x [<-|Hx]; auto. Qed.

(* ---- invariants ---- *)
Definition before (vis : list nat) (c : nat) : Prop :=
  forall l1 l2, vis = l1 ++ c :: l2 -> forall i, i < nreq c -> In (src c i) l2.

Record inv_in (s : st) (vis0 : list nat) (n : nat) (done : list (nat * nat)) : Prop := {
  i_cnt : forall c, c < nn -> cnt s c + length (prov s c) = nreq c;
  i_nodup : forall c, NoDup (prov s c);
  i_prov : forall c i, In i (prov s c) <-> (c < nn /\ i < nreq c /\ (In (src c i) vis0 \/ (src c i = n /\ In (c, i) done)));
  i_q : forall c, In c (q s) -> c < nn /\ cnt s c = 0;
  i_ready : forall c, c < nn -> cnt s c = 0 -> In c (q s) \/ In c (n :: vis0);
  i_sep : NoDup (q s ++ n :: vis0);
  i_vis : forall c, In c (n :: vis0) -> c < nn;
  i_before : forall c, In c (n :: vis0) -> before (n :: vis0) c }.

Record inv_out (s : st) (vis : list nat) : Prop := {
  o_cnt : forall c, c < nn -> cnt s c + length (prov s c) = nreq c;
  o_nodup : forall c, NoDup (prov s c);
  o_prov : forall c i, In i (prov s c) <-> (c < nn /\ i < nreq c /\ In (src c i) vis);
  o_q : forall c, In c (q s) -> c < nn /\ cnt s c = 0;
  o_ready : forall c, c < nn -> cnt s c = 0 -> In c (q s) \/ In c vis;
  o_sep : NoDup (q s ++ vis);
  o_vis : forall c, In c vis -> c < nn;
  o_before : forall c, In c vis -> before vis c }.

Lemma fupd_eq {A} (f : nat -> A) k v : fupd f k v k = v. Proof. unfold fupd. rewrite Nat.eqb_refl. auto. Qed.
Lemma fupd_neq {A} (f : nat -> A) k v m : m <> k -> fupd f k v m = f m. Proof. unfold fupd. intros H. apply Nat.eqb_neq in H. rewrite H. auto. Qed.

Lemma relax_inv s vis0 n done e rest : outs n = done ++ e :: rest -> ~ In n vis0 ->
  inv_in s vis0 n done -> inv_in (relax s e) vis0 n (done ++ [e]).
Proof.
  intros Hout Hn I. destruct e as [c i].
  assert (He : In (c, i) (outs n)) by (rewrite Hout; apply in_or_app; right; left; auto).
  apply outs_src in He. destruct He as (Hc & Hi & Hs).
  assert (Hnd : ~ In (c, i) done).
  { pose proof (outs_nodup n) as ND. rewrite Hout in ND. apply NoDup_remove_2 in ND. intro. apply ND. apply in_or_app; auto. }
  assert (Hnot : ~ In i (prov s c)).
  { intro Hin. apply (i_prov _ _ _ _ I) in Hin. destruct Hin as (_ & _ & [Hv|(_ & Hd)]); [rewrite Hs in Hv; auto | auto]. }
  assert (Hbound : forall x, In x (prov s c) -> x < nreq c) by (intros x Hx; apply (i_prov _ _ _ _ I) in Hx; tauto).
  assert (Hlen : length (prov s c) < nreq c) by (eapply ph_lt; eauto using i_nodup).
  pose proof (i_cnt _ _ _ _ I c Hc) as Hcnt.
  unfold relax. destruct (memn i (prov s c)) eqn:M; [apply memn_In in M; contradiction|].
  constructor; cbn [q cnt prov].
  - intros c0 Hc0. destruct (Nat.eq_dec c0 c) as [->|Hne].
    + rewrite !fupd_eq. simpl. lia.
    + rewrite !fupd_neq by auto. apply (i_cnt _ _ _ _ I); auto.
  - intros c0. destruct (Nat.eq_dec c0 c) as [->|Hne].
    + rewrite fupd_eq. constructor; auto. apply (i_nodup _ _ _ _ I).
    + rewrite fupd_neq by auto. apply (i_nodup _ _ _ _ I).
  - intros c0 i0. destruct (Nat.eq_dec c0 c) as [->|Hne].
    + rewrite fupd_eq. split.
      * intros [<-|Hin]; [repeat split; auto; right; split; auto; apply in_or_app; right; left; auto|].
        apply (i_prov _ _ _ _ I) in Hin. destruct Hin as (A & B & [C|(C & D)]); repeat split; auto. right; split; auto. apply in_or_app; auto.
      * intros (A & B & [C|(C & D)]).
        -- right. apply (i_prov _ _ _ _ I). auto.
        -- apply in_app_or in D. destruct D as [D|[D|[]]]; [right; apply (i_prov _ _ _ _ I); auto | inversion D; left; auto].
    + rewrite fupd_neq by auto. rewrite (i_prov _ _ _ _ I). split.
      * intros (A & B & [C|(C & D)]); repeat split; auto. right; split; auto. apply in_or_app; auto.
      * intros (A & B & [C|(C & D)]); repeat split; auto. apply in_app_or in D. destruct D as [D|[D|[]]]; [auto|inversion D; congruence].
  - intros c0 Hin. assert (Hc0 : In c0 (q s) \/ (c0 = c /\ cnt s c - 1 = 0)).
    { destruct (Nat.eqb (cnt s c - 1) 0) eqn:E; auto. apply in_app_or in Hin. destruct Hin as [H|[<-|[]]]; auto. right; split; auto. apply Nat.eqb_eq; auto. }
    destruct Hc0 as [H|(-> & Hk)].
    + destruct (i_q _ _ _ _ I c0 H) as (A & B). split; auto. destruct (Nat.eq_dec c0 c) as [->|Hne]; [lia | rewrite fupd_neq; auto].
    + split; auto. rewrite fupd_eq. auto.
  - intros c0 Hc0 Hz. destruct (Nat.eq_dec c0 c) as [->|Hne].
    + rewrite fupd_eq in Hz. left. rewrite Hz. simpl. apply in_or_app. right; left; auto.
    + rewrite fupd_neq in Hz by auto. destruct (i_ready _ _ _ _ I c0 Hc0 Hz) as [H|H]; auto.
      left. destruct (Nat.eqb (cnt s c - 1) 0); auto. apply in_or_app; auto.
  - destruct (Nat.eqb (cnt s c - 1) 0) eqn:E; [|apply (i_sep _ _ _ _ I)].
    (* c is pushed: it is neither queued nor visited *)
    assert (Hcq : ~ In c (q s)) by (intro H; apply (i_q _ _ _ _ I) in H; lia).
    assert (Hcv : ~ In c (n :: vis0)).
    { intro H. pose proof (i_before _ _ _ _ I c H) as Hb. apply in_split in H. destruct H as (l1 & l2 & El).
      specialize (Hb l1 l2 El i Hi). rewrite Hs in Hb.
      pose proof (i_sep _ _ _ _ I) as ND. apply NoDup_app_inv in ND. destruct ND as (_ & ND & _). rewrite El in ND.
      (* n is the head of n :: vis0 = l1 ++ c :: l2 and also in l2: duplicate *)
      destruct l1 as [|y l1]; simpl in El; inversion El; subst.
      - inversion ND; subst. auto.
      - inversion ND; subst. apply H1. apply in_or_app. right; right; auto. }
    rewrite <- app_assoc. simpl.
    pose proof (i_sep _ _ _ _ I) as ND.
    clear - ND Hcq Hcv. induction (q s) as [|x l IH]; simpl in *.
    + constructor; auto.
    + inversion ND; subst. constructor.
      * intro H. apply in_app_or in H. destruct H as [H|[H|H]]; [apply H1; apply in_or_app; auto | subst; auto | apply H1; apply in_or_app; auto].
      * apply IH; auto.
  - apply (i_vis _ _ _ _ I).
  - apply (i_before _ _ _ _ I).
Qed.

Lemma fold_relax_inv vis0 n : ~ In n vis0 -> forall rest done s, outs n = done ++ rest ->
  inv_in s vis0 n done -> inv_in (fold_left relax rest s) vis0 n (outs n).
Proof.
  intros Hn. induction rest as [|e rest IH]; intros done s Hout I; simpl.
  - rewrite app_nil_r in Hout. rewrite Hout. exact I.
  - apply (IH (done ++ [e])); [rewrite <- app_assoc; exact Hout|]. eapply relax_inv; eauto.
Qed.

Lemma pop_inv s vis n r : inv_out s vis -> q s = n :: r ->
  ~ In n vis /\ inv_in {| q := r; cnt := cnt s; prov := prov s |} vis n [].
Proof.
  intros O Hq.
  pose proof (o_sep _ _ O) as ND. rewrite Hq in ND. simpl in ND. inversion ND as [|? ? Hnin ND']; subst.
  assert (Hnv : ~ In n vis) by (intro; apply Hnin; apply in_or_app; auto).
  destruct (o_q _ _ O n) as (Hn & Hz); [rewrite Hq; left; auto|].
  split; auto. constructor; cbn [q cnt prov].
  - apply (o_cnt _ _ O).
  - apply (o_nodup _ _ O).
  - intros c i. rewrite (o_prov _ _ O). split; [intros (A & B & C); auto | intros (A & B & [C|(_ & [])]); auto].
  - intros c Hc. apply (o_q _ _ O). rewrite Hq. right; auto.
  - intros c Hc Hcz. destruct (o_ready _ _ O c Hc Hcz) as [H|H]; [rewrite Hq in H; destruct H as [<-|H]; [right; left; auto | left; auto] | right; right; auto].
  - (* NoDup (r ++ n :: vis) *)
    clear - ND' Hnin. induction r as [|x l IH]; simpl in *.
    + constructor; auto.
    + inversion ND'; subst. constructor.
      * intro H. apply in_app_or in H. destruct H as [H|[H|H]]; [apply H1; apply in_or_app; auto | subst; apply Hnin; left; auto | apply H1; apply in_or_app; auto].
      * apply IH; auto; intro H; apply Hnin; right; auto.
  - intros c [<-|Hc]; auto. apply (o_vis _ _ O); auto.
  - intros c [<-|Hc].
    + (* all producers of n were visited: cnt n = 0 *)
      intros l1 l2 E i Hi. destruct l1 as [|y l1]; simpl in E.
      * injection E as E1. subst l2.
        pose proof (o_cnt _ _ O n Hn) as Hc. rewrite Hz in Hc. simpl in Hc.
        assert (Hin : In i (prov s n)).
        { eapply ph_all; eauto using o_nodup. intros x Hx. apply (o_prov _ _ O) in Hx. tauto. }
        apply (o_prov _ _ O) in Hin. tauto.
      * injection E as E1 E2. exfalso. apply Hnv. rewrite E2. apply in_or_app. right; left; auto.
    + intros l1 l2 E i Hi. destruct l1 as [|y l1]; simpl in E.
      * injection E as E1 E2. subst. contradiction.
      * injection E as E1 E2. eapply (o_before _ _ O c Hc); eauto.
Qed.

Lemma close_inv s vis n : inv_in s vis n (outs n) -> inv_out s (n :: vis).
Proof.
  intros I. constructor.
  - apply (i_cnt _ _ _ _ I).
  - apply (i_nodup _ _ _ _ I).
  - intros c i. rewrite (i_prov _ _ _ _ I). split.
    + intros (A & B & [C|(C & D)]); repeat split; auto; [right; auto | left; auto].
    + intros (A & B & [C|C]); repeat split; auto. right. split; auto. apply outs_src. auto.
  - apply (i_q _ _ _ _ I).
  - apply (i_ready _ _ _ _ I).
  - apply (i_sep _ _ _ _ I).
  - apply (i_vis _ _ _ _ I).
  - apply (i_before _ _ _ _ I).
Qed.

(* the loop: with enough fuel it ends with an empty queue, and the invariant holds at the end *)
Lemma kahn_inv : forall fuel s vis, inv_out s vis -> nn < fuel + length vis ->
  exists s' vis', kahn fuel s vis = rev vis' /\ inv_out s' vis' /\ q s' = [].
Proof.
  induction fuel as [|fuel IH]; intros s vis O Hf.
  - exfalso. assert (length vis <= nn); [|simpl in Hf; lia]. apply ph_le; [|apply (o_vis _ _ O)].
    pose proof (o_sep _ _ O) as ND. apply NoDup_app_inv in ND. tauto.
  - simpl. destruct (q s) as [|n r] eqn:Hq.
    + exists s, vis. auto.
    + destruct (pop_inv s vis n r O Hq) as (Hnv & I0).
      destruct (memn n vis) eqn:M; [apply memn_In in M; contradiction|].
      pose proof (fold_relax_inv vis n Hnv (outs n) [] _ eq_refl I0) as I1.
      apply close_inv in I1. apply IH in I1; [exact I1 | simpl; lia].
Qed.

Lemma init_inv : inv_out init [].
Proof.
  constructor; unfold init; cbn [q cnt prov].
  - intros; simpl; lia.
  - intros; constructor.
  - intros c i. split; [intros [] | intros (_ & _ & [])].
  - intros c Hc. apply filter_In in Hc. destruct Hc as (Hc & E). apply in_seq in Hc. apply Nat.eqb_eq in E. split; [lia|auto].
  - intros c Hc Hz. left. apply filter_In. split; [apply in_seq; lia | apply Nat.eqb_eq; auto].
  - rewrite app_nil_r. apply NoDup_filter. apply seq_NoDup.
  - intros c [].
  - intros c [].
Qed.

Theorem topo_valid :
  exists vis, topo = rev vis /\ NoDup vis /\ (forall c, In c vis -> c < nn) /\
    (forall c, In c vis -> before vis c) /\
    (* completeness under acyclicity, given as a rank *)
    (forall rank : nat -> nat, (forall c i, c < nn -> i < nreq c -> rank (src c i) < rank c) -> forall c, c < nn -> In c vis).
Proof.
  destruct (kahn_inv (S nn) init [] init_inv) as (s & vis & E & O & Hq); [simpl; lia|].
  exists vis. split; [exact E|]. split; [|split; [|split]].
  - pose proof (o_sep _ _ O) as ND. rewrite Hq in ND. exact ND.
  - apply (o_vis _ _ O).
  - apply (o_before _ _ O).
  - intros rank Hr c. remember (rank c) as k. revert c Heqk. induction k as [k IHk] using lt_wf_ind. intros c -> Hc.
    assert (Hall : forall i, i < nreq c -> In i (prov s c)).
    { intros i Hi. apply (o_prov _ _ O). repeat split; auto. apply (IHk (rank (src c i))); auto. }
    assert (Hlen : nreq c <= length (prov s c)).
    { rewrite <- (seq_length (nreq c) 0). apply NoDup_incl_length; [apply seq_NoDup|]. intros i Hi. apply in_seq in Hi. apply Hall. lia. }
    pose proof (o_cnt _ _ O c Hc) as Hcnt.
    destruct (o_ready _ _ O c Hc) as [H|H]; [lia | rewrite Hq in H; destruct H | exact H].
Qed.

(* ---- roots first: every node without parameters is visited before any node with parameters ---- *)
Definition isroot (n : nat) : bool := Nat.eqb (nreq n) 0.
Lemma relax_q s e : exists new, q (relax s e) = q s ++ new /\ (forall c, In c new -> c = fst e).
Proof.
  destruct e as [c i]. unfold relax. destruct (memn i (prov s c)); [exists []; rewrite app_nil_r; split; auto; intros ? []|].
  cbn [q]. destruct (Nat.eqb (cnt s c - 1) 0); [exists [c]; split; auto; intros ? [<-|[]]; auto | exists []; rewrite app_nil_r; split; auto; intros ? []].
Qed.
Lemma fold_relax_q : forall es s, exists new, q (fold_left relax es s) = q s ++ new /\ (forall c, In c new -> exists i, In (c, i) es).
Proof.
  induction es as [|e es IH]; intros s; simpl; [exists []; rewrite app_nil_r; split; auto; intros ? []|].
  destruct (relax_q s e) as (n1 & E1 & H1). destruct (IH (relax s e)) as (n2 & E2 & H2).
  exists (n1 ++ n2). rewrite E2, E1, app_assoc. split; auto. intros c Hc. apply in_app_or in Hc. destruct Hc as [Hc|Hc].
  - specialize (H1 c Hc). destruct e as [c' i]. simpl in H1. subst. exists i. left; auto.
  - destruct (H2 c Hc) as (i & Hi). exists i. right; auto.
Qed.
Definition RF (s : st) (vis : list nat) : Prop :=
  exists r a v1 v2, q s = r ++ a /\ vis = v1 ++ v2 /\ Forall (fun n => isroot n = true) r /\ Forall (fun n => isroot n = false) a /\
                    Forall (fun n => isroot n = false) v1 /\ Forall (fun n => isroot n = true) v2 /\ (r <> [] -> v1 = []).
Lemma kahn_rf : forall fuel s vis, RF s vis ->
  exists v1 v2, kahn fuel s vis = rev (v1 ++ v2) /\ Forall (fun n => isroot n = false) v1 /\ Forall (fun n => isroot n = true) v2.
Proof.
  induction fuel as [|fuel IH]; intros s vis (r & a & v1 & v2 & Hq & Hv & Fr & Fa & F1 & F2 & Hp); simpl.
  - exists v1, v2. subst. auto.
  - destruct (q s) as [|n rest] eqn:Eq; [exists v1, v2; subst; auto|].
    set (s0 := {| q := rest; cnt := cnt s; prov := prov s |}).
    destruct r as [|n' r'].
    + (* the head is a node with parameters *)
      simpl in Hq. subst a. inversion Fa as [|? ? Hn Fa']; subst.
      match goal with |- context [memn n ?l] => destruct (memn n l) end.
      * apply IH. exists [], rest, v1, v2. repeat split; auto.
      * destruct (fold_relax_q (outs n) s0) as (new & En & Hnew). apply IH.
        exists [], (rest ++ new), (n :: v1), v2. repeat split; auto.
        -- apply Forall_app. split; auto. apply Forall_forall. intros c Hc. destruct (Hnew c Hc) as (i & Hi). apply outs_src in Hi.
           unfold isroot. apply Nat.eqb_neq. lia.
        -- intros H; congruence.
    + simpl in Hq. injection Hq as <- ->. inversion Fr as [|? ? Hn Fr']; subst. specialize (Hp ltac:(discriminate)). subst v1. simpl in *.
      match goal with |- context [memn n ?l] => destruct (memn n l) end.
      * apply IH. exists r', a, [], v2. repeat split; auto.
      * destruct (fold_relax_q (outs n) s0) as (new & En & Hnew). apply IH.
        exists r', (a ++ new), [], (n :: v2). repeat split; auto.
        -- rewrite En. unfold s0. cbn [q]. rewrite app_assoc. reflexivity.
        -- apply Forall_app. split; auto. apply Forall_forall. intros c Hc. destruct (Hnew c Hc) as (i & Hi). apply outs_src in Hi.
           unfold isroot. apply Nat.eqb_neq. lia.
Qed.
Theorem topo_roots_first : exists R NR, topo = R ++ NR /\ Forall (fun n => nreq n = 0) R /\ Forall (fun n => nreq n <> 0) NR.
Proof.
  destruct (kahn_rf (S nn) init []) as (v1 & v2 & E & F1 & F2).
  - exists (q init), [], [], []. rewrite app_nil_r. repeat split; auto. unfold init. cbn [q]. apply Forall_forall. intros n Hn. apply filter_In in Hn. apply Hn.
  - exists (rev v2), (rev v1). unfold topo. rewrite E, rev_app_distr. split; auto. split; apply Forall_rev.
    + eapply Forall_impl; [|exact F2]. intros n Hn. apply Nat.eqb_eq. exact Hn.
    + eapply Forall_impl; [|exact F1]. intros n Hn. apply Nat.eqb_neq. exact Hn.
Qed.
End Kahn.
Print Assumptions topo_valid.
