From Coq Require Import String Ascii List Arith Lia DecimalString DecimalNat Decimal.
Import ListNotations.
Open Scope string_scope.
Definition dec (n : nat) : string := NilEmpty.string_of_uint (Nat.to_uint n).
Eval vm_compute in (dec 0, dec 7, dec 10, dec 123).
Lemma dec_inj a b : dec a = dec b -> a = b.
Proof.
  unfold dec. intros H.
  apply (f_equal NilEmpty.uint_of_string) in H. rewrite !NilEmpty.usu in H.
  inversion H as [H1]. apply Unsigned.to_uint_inj; exact H1.
Qed.
Lemma append_inj_r (p a b : string) : p ++ a = p ++ b -> a = b.
Proof. induction p; simpl; intros H; auto. inversion H; auto. Qed.
Print Assumptions dec_inj.
