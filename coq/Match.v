From Coq Require Import List Arith Lia Bool.
Import ListNotations.

(* findMaximumAntichainSize: Kuhn's augmenting paths over g.edges *)
Section Match.
Variable nn : nat.
Variable adj : nat -> list nat.
Hypothesis adj_lt : forall u v, In v (adj u) -> v < nn.

Definition mset := nat -> option nat.
Definition mupd (m : mset) (v u : nat) : mset := fun w => if Nat.eqb w v then Some u else m w.
Definition memn (x : nat) (l : list nat) : bool := existsb (Nat.eqb x) l.
Definition issome {A} (o : option A) : bool := match o with Some _ => true | None => false end.
Definition count (m : mset) : nat := length (filter (fun v => issome (m v)) (seq 0 nn)).

Fixpoint aug (fuel : nat) (u : nat) (used : list nat) (m : mset) : bool * list nat * mset :=
  match fuel with
  | 0 => (false, used, m)
  | S fuel =>
      (fix go (vs : list nat) (used : list nat) (m : mset) : bool * list nat * mset :=
         match vs with
         | [] => (false, used, m)
         | v :: r =>
             if memn v used then go r used m
             else let used := v :: used in
                  match m v with
                  | None => (true, used, mupd m v u)
                  | Some u' => let '(ok, used', m') := aug fuel u' used m in
                               if ok then (true, used', mupd m' v u) else go r used' m'
                  end
         end) (adj u) used m
  end.

Fixpoint go (fuel u : nat) (vs : list nat) (used : list nat) (m : mset) : bool * list nat * mset :=
  match vs with
  | [] => (false, used, m)
  | v :: r =>
      if memn v used then go fuel u r used m
      else let used := v :: used in
           match m v with
           | None => (true, used, mupd m v u)
           | Some u' => let '(ok, used', m') := aug fuel u' used m in
                        if ok then (true, used', mupd m' v u) else go fuel u r used' m'
           end
  end.
Lemma aug_unfold fuel u used m : aug (S fuel) u used m = go fuel u (adj u) used m.
Proof. simpl. generalize used m. induction (adj u) as [|v r IH]; intros; simpl; auto.
  destruct (memn v used0); auto. destruct (m0 v); auto. destruct (aug fuel n (v :: used0) m0) as [[ok us] m1]. destruct ok; auto. Qed.

(* counting *)
Lemma filter_flip_one (f g : nat -> bool) (l : list nat) v : NoDup l -> In v l -> f v = false -> g v = true ->
  (forall w, w <> v -> g w = f w) -> length (filter g l) = S (length (filter f l)).
Proof.
  induction l as [|a l IH]; intros ND Hin Hf Hg Hs; [destruct Hin|]. inversion ND; subst. simpl.
  destruct (Nat.eq_dec a v) as [->|Hne].
  - rewrite Hf, Hg. simpl. f_equal. f_equal. apply filter_ext_in. intros w Hw. apply Hs. intro; subst; contradiction.
  - rewrite (Hs a Hne). destruct Hin as [E|Hin]; [contradiction|]. destruct (f a); simpl; rewrite IH; auto.
Qed.
Lemma count_mupd_none m v u : v < nn -> m v = None -> count (mupd m v u) = S (count m).
Proof.
  intros Hv Hm. unfold count. apply (filter_flip_one _ _ _ v).
  - apply seq_NoDup.
  - apply in_seq. lia.
  - rewrite Hm. auto.
  - unfold mupd. rewrite Nat.eqb_refl. auto.
  - intros w Hw. unfold mupd. apply Nat.eqb_neq in Hw. rewrite Hw. auto.
Qed.
Lemma count_mupd_some m v u u0 : m v = Some u0 -> count (mupd m v u) = count m.
Proof.
  unfold count. intros Hm. f_equal. apply filter_ext. intros w. unfold mupd. destruct (Nat.eqb w v) eqn:E; auto.
  apply Nat.eqb_eq in E. subst. rewrite Hm. auto.
Qed.

Definition post (m : mset) (r : bool * list nat * mset) : Prop :=
  let '(ok, _, m') := r in
  (ok = true -> count m' = S (count m)) /\ (ok = false -> m' = m) /\
  (forall v, m v <> None -> m' v <> None) /\
  (forall v, m' v <> None -> m v <> None \/ exists u0, In v (adj u0)).

Lemma mupd_some m v u w : mupd m v u w <> None <-> (w = v \/ m w <> None).
Proof. unfold mupd. destruct (Nat.eqb w v) eqn:E; [apply Nat.eqb_eq in E; subst; split; [auto|intros; discriminate] | apply Nat.eqb_neq in E; split; [auto|intros [H|H]; [contradiction|auto]]]. Qed.

Lemma aug_post : forall fuel u used m, post m (aug fuel u used m).
Proof.
  induction fuel as [|fuel IH]; intros u used m.
  - simpl. repeat split; auto; try discriminate.
  - rewrite aug_unfold.
    assert (G : forall vs used m, (forall v, In v vs -> In v (adj u)) -> post m (go fuel u vs used m)).
    { induction vs as [|v r IHr]; intros used0 m0 Hsub; simpl.
      - repeat split; auto; try discriminate.
      - assert (Hv : In v (adj u)) by (apply Hsub; left; auto).
        assert (Hr : forall w, In w r -> In w (adj u)) by (intros; apply Hsub; right; auto).
        destruct (memn v used0); [apply IHr; auto|].
        destruct (m0 v) as [u'|] eqn:Mv.
        + pose proof (IH u' (v :: used0) m0) as P. destruct (aug fuel u' (v :: used0) m0) as [[ok us] m1]. destruct ok.
          * destruct P as (P1 & _ & P3 & P4). split; [|split; [|split]].
            -- intros _. rewrite (count_mupd_some m1 v u) with (u0 := match m1 v with Some x => x | None => 0 end).
               ++ apply P1; auto.
               ++ assert (m1 v <> None) by (apply P3; congruence). destruct (m1 v); congruence.
            -- discriminate.
            -- intros w Hw. apply mupd_some. right. apply P3; auto.
            -- intros w Hw. apply mupd_some in Hw. destruct Hw as [->|Hw]; [left; congruence | apply P4; auto].
          * destruct P as (_ & P2 & _). rewrite (P2 eq_refl). apply IHr; auto.
        + split; [|split; [|split]].
          * intros _. apply count_mupd_none; auto. eapply adj_lt; eauto.
          * discriminate.
          * intros w Hw. apply mupd_some. auto.
          * intros w Hw. apply mupd_some in Hw. destruct Hw as [->|Hw]; [right; eauto | left; auto]. }
    apply G. auto.
Qed.

(* the outer loop of findMaximumAntichainSize *)
Fixpoint outer (us : list nat) (cnt : nat) (m : mset) : nat * mset :=
  match us with
  | [] => (cnt, m)
  | u :: r => let '(ok, _, m') := aug (S nn) u [] m in outer r (if ok then cnt - 1 else cnt) m'
  end.
Definition antichain : nat := fst (outer (seq 0 nn) nn (fun _ => None)).

Definition hasin (v : nat) : Prop := exists u0, In v (adj u0).

(* every matched vertex has an incoming edge, and the counter dropped at most once per matched vertex *)
Theorem antichain_bound : forall us cnt m, (forall v, m v <> None -> hasin v) ->
  fst (outer us cnt m) + count (snd (outer us cnt m)) >= cnt + count m /\ (forall v, snd (outer us cnt m) v <> None -> hasin v).
Proof.
  induction us as [|u r IH]; intros cnt m Hin; cbn [outer]; [simpl; split; [lia|auto]|].
  pose proof (aug_post (S nn) u [] m) as P. destruct (aug (S nn) u [] m) as [[ok us'] m1]. destruct P as (P1 & P2 & P3 & P4).
  assert (Hin1 : forall v, m1 v <> None -> hasin v) by (intros v Hv; destruct (P4 v Hv); auto).
  destruct ok.
  - specialize (P1 eq_refl). destruct (IH (cnt - 1) m1 Hin1) as (A & B). split; [lia|exact B].
  - rewrite (P2 eq_refl) in *. apply IH; auto.
Qed.

(* hence: #pools >= number of vertices without an incoming edge *)
Variable hasin_dec : forall v, {hasin v} + {~ hasin v}.
Definition nroots : nat := length (filter (fun v => if hasin_dec v then false else true) (seq 0 nn)).

Lemma count_none : count (fun _ : nat => @None nat) = 0.
Proof. unfold count. induction (seq 0 nn) as [|a l IH]; simpl; auto. Qed.

Lemma matched_plus_roots (m : mset) : (forall v, m v <> None -> hasin v) -> forall l : list nat,
  length (filter (fun v => issome (m v)) l) + length (filter (fun v => if hasin_dec v then false else true) l) <= length l.
Proof.
  intros B l. induction l as [|v l IHl]; simpl; auto.
  destruct (m v) eqn:E; simpl.
  - destruct (hasin_dec v) as [H|H]; simpl; [lia|]. exfalso. apply H. apply B. congruence.
  - destruct (hasin_dec v); simpl; lia.
Qed.

Theorem antichain_ge_roots : nroots <= antichain.
Proof.
  unfold antichain. destruct (antichain_bound (seq 0 nn) nn (fun _ => None)) as (B1 & B2); [intros v H; congruence|].
  rewrite count_none in B1.
  pose proof (matched_plus_roots _ B2 (seq 0 nn)) as H. rewrite seq_length in H. unfold count in B1. unfold nroots. lia.
Qed.
End Match.
Print Assumptions antichain_ge_roots.
