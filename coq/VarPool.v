From Coq Require Import String Ascii List Arith Lia Bool FinFun DecimalString DecimalNat Decimal.
Import ListNotations.
Require Import Dec.
Open Scope string_scope.

(* pool: association list base name -> count (always >= 1 when present) *)
Definition pool := list (string * nat).
Fixpoint count (st : pool) (k : string) : nat :=
  match st with [] => 0 | (k', c) :: r => if String.eqb k k' then c else count r k end.
Fixpoint set (st : pool) (k : string) (c : nat) : pool :=
  match st with
  | [] => [(k, c)]
  | (k', c') :: r => if String.eqb k k' then (k, c) :: r else (k', c') :: set r k c
  end.

Lemma count_set_eq st k c : count (set st k c) k = c.
Proof. induction st as [|[k' c'] r IH]; simpl; [rewrite String.eqb_refl; auto|].
  destruct (String.eqb k k') eqn:E; simpl; [rewrite String.eqb_refl; auto | rewrite E; auto]. Qed.
Lemma count_set_neq st k k2 c : k2 <> k -> count (set st k c) k2 = count st k2.
Proof. intros N. induction st as [|[k' c'] r IH]; simpl.
  - destruct (String.eqb k2 k) eqn:E; auto. apply String.eqb_eq in E; congruence.
  - destruct (String.eqb k k') eqn:E; simpl.
    + apply String.eqb_eq in E; subst. destruct (String.eqb k2 k') eqn:E2; auto. apply String.eqb_eq in E2; congruence.
    + destruct (String.eqb k2 k'); auto. Qed.

(* the FIXED allocator (F1) on fuel *)
Fixpoint get_name (fuel : nat) (st : pool) (base : string) : option (string * pool) :=
  match fuel with
  | 0 => None
  | S fuel =>
      let c := count st base in
      let st1 := set st base (S c) in
      if Nat.eqb c 0 then Some (base, st1)
      else let name := base ++ dec (c - 1) in
           if Nat.eqb (count st1 name) 0 then Some (name, set st1 name 1)
           else get_name fuel st1 base
  end.

(* the CURRENT allocator *)
Definition get_name_cur (st : pool) (base : string) : string * pool :=
  let c := count st base in
  (if Nat.eqb c 0 then base else base ++ dec (c - 1), set st base (S c)).

Definition used (st : pool) (k : string) : Prop := count st k > 0.

Lemma get_name_fresh fuel : forall st base n st', get_name fuel st base = Some (n, st') ->
  ~ used st n /\ used st' n /\ (forall x, used st x -> used st' x).
Proof.
  induction fuel as [|fuel IH]; intros st base n st' H; simpl in H; [discriminate|].
  destruct (Nat.eqb (count st base) 0) eqn:E0.
  - inversion H; subst. apply Nat.eqb_eq in E0. unfold used. split; [|split].
    + lia.
    + rewrite count_set_eq. lia.
    + intros x Hx. destruct (string_dec x n) as [->|N]; [rewrite count_set_eq; lia | rewrite count_set_neq; auto].
  - set (st1 := set st base (S (count st base))) in *.
    assert (M1 : forall x, used st x -> used st1 x).
    { intros x Hx. unfold used, st1 in *. destruct (string_dec x base) as [->|N]; [rewrite count_set_eq; lia | rewrite count_set_neq; auto]. }
    destruct (Nat.eqb (count st1 (base ++ dec (count st base - 1))) 0) eqn:E1.
    + inversion H; subst. apply Nat.eqb_eq in E1. split; [|split].
      * intro Hu. apply M1 in Hu. unfold used in Hu. lia.
      * unfold used. rewrite count_set_eq. lia.
      * unfold used. intros x Hx. apply M1 in Hx. unfold used in Hx.
        destruct (string_dec x (base ++ dec (count st base - 1))) as [->|N]; [rewrite count_set_eq; lia | rewrite count_set_neq; auto].
    + destruct (IH _ _ _ _ H) as (A & B & C). split; [|split].
      * intro Hu. apply A. apply M1; exact Hu.
      * exact B.
      * intros x Hx. apply C. apply M1. exact Hx.
Qed.

(* request histories *)
Fixpoint run (fuel : nat) (st : pool) (reqs : list string) : option (list string * pool) :=
  match reqs with
  | [] => Some ([], st)
  | b :: r => match get_name fuel st b with
              | Some (n, st1) => match run fuel st1 r with Some (ns, st2) => Some (n :: ns, st2) | None => None end
              | None => None end
  end.

Theorem outputs_fresh fuel : forall reqs st outs st', run fuel st reqs = Some (outs, st') ->
  NoDup outs /\ (forall x, In x outs -> ~ used st x) /\ (forall x, In x outs -> used st' x) /\ (forall x, used st x -> used st' x).
Proof.
  induction reqs as [|b r IH]; intros st outs st' H; simpl in H.
  - inversion H; subst. repeat split; auto; try constructor; intros x [].
  - destruct (get_name fuel st b) as [[n st1]|] eqn:G; try discriminate.
    destruct (run fuel st1 r) as [[ns st2]|] eqn:R; try discriminate. inversion H; subst.
    destruct (get_name_fresh _ _ _ _ _ G) as (A & B & C). destruct (IH _ _ _ R) as (D & E & F & K).
    repeat split.
    + constructor; auto. intro Hin. apply (E _ Hin). exact B.
    + intros x [<-|Hx]; auto. intro Hu. apply (E _ Hx). apply C; auto.
    + intros x [<-|Hx]; auto.
    + intros x Hx. auto.
Qed.

(* refutation of freshness for the current allocator *)
Example current_allocator_collides :
  let '(a, s1) := get_name_cur [] "foo" in let '(b, s2) := get_name_cur s1 "foo" in let '(c, _) := get_name_cur s2 "foo0" in
  b = c /\ a <> b.
Proof. vm_compute. split; [reflexivity | discriminate]. Qed.
Eval vm_compute in (option_map fst (run 10 [("func",1);("foo1",1)] ["foo";"foo";"foo0";"foo";"func";"foo"])).
Print Assumptions outputs_fresh.

(* ---------------- termination of the candidate loop (fuel is never exhausted) ---------------- *)
Lemma count_notin st k : ~ In k (map fst st) -> count st k = 0.
Proof.
  induction st as [|[k' c] r IH]; simpl; auto. intros H. destruct (String.eqb k k') eqn:E.
  - apply String.eqb_eq in E. subst. exfalso. apply H. left; auto.
  - apply IH. intro. apply H. right; auto.
Qed.

Lemma append_nonempty_neq (b s : string) : s <> EmptyString -> b ++ s <> b.
Proof.
  intros Hs E. assert (L : String.length (b ++ s) = String.length b) by (rewrite E; auto).
  assert (forall a c, String.length (a ++ c) = String.length a + String.length c) by (induction a; simpl; auto).
  rewrite H in L. destruct s; [congruence|]. simpl in L. lia.
Qed.
Lemma dec_nonempty n : dec n <> EmptyString.
Proof.
  intro E. assert (dec n = dec n) by auto. unfold dec in E.
  assert (NilEmpty.uint_of_string (NilEmpty.string_of_uint (Nat.to_uint n)) = Some (Nat.to_uint n)) by apply DecimalString.NilEmpty.usu.
  rewrite E in H0. simpl in H0. inversion H0 as [H1]. 
  assert (Nat.of_uint (Nat.to_uint n) = n) by apply DecimalNat.Unsigned.of_to. rewrite <- H1 in H2. simpl in H2.
  (* n = 0 but to_uint 0 = D0 Nil, not Nil *) subst n. discriminate H1.
Qed.

Lemma loop_terminates base : forall fuel lo st, count st base = S lo ->
  (exists k, lo <= k < lo + fuel /\ count st (base ++ dec k) = 0) ->
  exists r, get_name fuel st base = Some r.
Proof.
  induction fuel as [|fuel IH]; intros lo st Hc (k & Hk & Hz); [lia|].
  simpl. rewrite Hc. simpl. replace (lo - 0) with lo by lia.
  assert (Hne : forall j, base ++ dec j <> base) by (intros j; apply append_nonempty_neq; apply dec_nonempty).
  destruct (Nat.eqb (count (set st base (S (S lo))) (base ++ dec lo)) 0) eqn:E; [eauto|].
  apply (IH (S lo)).
  - apply count_set_eq.
  - apply Nat.eqb_neq in E. rewrite count_set_neq in E by auto.
    assert (k <> lo) by (intro; subst; contradiction).
    exists k. split; [lia|]. rewrite count_set_neq by auto. exact Hz.
Qed.

Lemma cands_nodup base lo n : NoDup (map (fun k => base ++ dec k) (seq lo n)).
Proof.
  apply FinFun.Injective_map_NoDup; [|apply seq_NoDup]. intros a b E. apply append_inj_r in E. apply dec_inj; auto.
Qed.

Theorem get_name_total st base : exists r, get_name (S (length st)) st base = Some r.
Proof.
  destruct (count st base) as [|lo] eqn:Hc.
  - simpl. rewrite Hc. simpl. eauto.
  - apply (loop_terminates base (S (length st)) lo st Hc).
    (* pigeonhole: length st + 1 distinct candidates cannot all be keys *)
    destruct (existsb (fun k => Nat.eqb (count st (base ++ dec k)) 0) (seq lo (S (length st)))) eqn:E.
    + apply existsb_exists in E. destruct E as (k & Hk & Hz). apply in_seq in Hk. apply Nat.eqb_eq in Hz. exists k. split; [lia|auto].
    + exfalso. assert (Hall : forall k, In k (seq lo (S (length st))) -> In (base ++ dec k) (map fst st)).
      { intros k Hk. destruct (in_dec string_dec (base ++ dec k) (map fst st)) as [|Hn]; auto. exfalso.
        assert (existsb (fun k => Nat.eqb (count st (base ++ dec k)) 0) (seq lo (S (length st))) = true); [|congruence].
        apply existsb_exists. exists k. split; auto. apply Nat.eqb_eq. apply count_notin; auto. }
      assert (Hincl : incl (map (fun k => base ++ dec k) (seq lo (S (length st)))) (map fst st)).
      { intros x Hx. apply in_map_iff in Hx. destruct Hx as (k & <- & Hk). auto. }
      pose proof (NoDup_incl_length (cands_nodup base lo (S (length st))) Hincl) as L.
      rewrite !map_length, seq_length in L. lia.
Qed.
Print Assumptions get_name_total.
