From Coq Require Import List Arith Lia Bool.
Import ListNotations.
Require Import Sem2 Safe Live.

Lemma item_at_lt p t j it : item_at p t j = Some it -> j < length (items_of p t).
Proof. unfold item_at. intros H. eapply nth_error_Some_lt; eauto. Qed.

(* generic preservation: thread t moves from old to new; closed grows *)
Lemma invL_frame p s s' t old new :
  InvL p s ->
  nth_error (s_thr s) t = Some old ->
  s_thr s' = upd (s_thr s) t new ->
  (forall x, In x (s_closed s) -> In x (s_closed s')) ->
  (* il_done for thread t in its new status *)
  (forall j it x, item_at p t j = Some it -> In x (it_closes it) ->
     match new with TRun pc ph => j < pc | TDone None => True | _ => False end -> In x (s_closed s')) ->
  (* il_closing for thread t *)
  (forall pc k it i x, new = TRun pc (PClose k) -> item_at p t pc = Some it -> i < k -> nth_error (it_closes it) i = Some x -> In x (s_closed s')) ->
  (* closed-source: old witnesses located in thread t survive the move, and new closed channels have one *)
  (forall j it x, item_at p t j = Some it -> In x (it_closes it) ->
     match old with
     | TRun pc ph => j < pc \/ (j = pc /\ exists k i, ph = PClose k /\ i < k /\ nth_error (it_closes it) i = Some x)
     | TDone _ => True end ->
     match new with
     | TRun pc ph => j < pc \/ (j = pc /\ exists k i, ph = PClose k /\ i < k /\ nth_error (it_closes it) i = Some x)
     | TDone _ => True end) ->
  (forall x, In x (s_closed s') -> ~ In x (s_closed s) ->
     exists j it, item_at p t j = Some it /\ In x (it_closes it) /\
       match new with
       | TRun pc ph => j < pc \/ (j = pc /\ exists k i, ph = PClose k /\ i < k /\ nth_error (it_closes it) i = Some x)
       | TDone _ => True end) ->
  (* bounds of the new status *)
  (forall pc ph, new = TRun pc ph -> pc <= length (items_of p t) /\ (pc = length (items_of p t) -> ph = PWait 0) /\
     (forall it, item_at p t pc = Some it -> match ph with PWait k => k <= length (it_waits it) | PClose k => k <= length (it_closes it) | _ => True end)) ->
  InvL p s'.
Proof.
  intros L Hold Hthr Hcl Ndone Nclosing Nsrc_old Nsrc_new Nb.
  assert (Hlt : t < length (s_thr s)) by (eapply nth_error_Some_lt; eauto).
  constructor.
  - intros t0 j it x Hit Hx Hst. rewrite Hthr in Hst. destruct (Nat.eq_dec t t0) as [<-|Hne].
    + rewrite nth_error_upd_eq in Hst by auto. eapply Ndone; eauto.
    + rewrite nth_error_upd_neq in Hst by auto. apply Hcl. eapply (il_done _ _ L); eauto.
  - intros t0 pc k it i x Hst Hit Hi Hx. rewrite Hthr in Hst. destruct (Nat.eq_dec t t0) as [<-|Hne].
    + rewrite nth_error_upd_eq in Hst by auto. inversion Hst; subst. eapply Nclosing; eauto.
    + rewrite nth_error_upd_neq in Hst by auto. apply Hcl. eapply (il_closing _ _ L); eauto.
  - intros x Hx. destruct (in_dec var_eq_dec x (s_closed s)) as [Hin|Hnin].
    + destruct (il_closed_src _ _ L x Hin) as (t2 & j2 & it2 & Hit2 & Hc2 & Hp2). exists t2, j2, it2. split; auto. split; auto.
      rewrite Hthr. destruct (Nat.eq_dec t t2) as [<-|Hne].
      * rewrite nth_error_upd_eq by auto. rewrite Hold in Hp2. eapply Nsrc_old; eauto.
      * rewrite nth_error_upd_neq by auto. exact Hp2.
    + destruct (Nsrc_new x Hx Hnin) as (j & it & Hit & Hc & Hp). exists t, j, it. split; auto. split; auto.
      rewrite Hthr, nth_error_upd_eq by auto. exact Hp.
  - intros t0 pc ph Hst. rewrite Hthr in Hst. destruct (Nat.eq_dec t t0) as [<-|Hne].
    + rewrite nth_error_upd_eq in Hst by auto. inversion Hst; subst. apply Nb; auto.
    + rewrite nth_error_upd_neq in Hst by auto. eapply (il_bounds _ _ L); eauto.
Qed.

Ltac frameL p s t old new L Ct :=
  eapply (invL_frame p s _ t old new); [exact L | exact Ct | reflexivity | | | | | | ]; cbn [setthr fail s_thr s_trace s_closed s_store].

Ltac same_pc_done L Ct := (* il_done obligation when pc does not change *)
  let j := fresh "j" in let it := fresh "it" in let x := fresh "x" in let Hit := fresh in let Hx := fresh in let Hj := fresh in
  intros j it x Hit Hx Hj; eapply (il_done _ _ L); eauto; rewrite Ct; exact Hj.

Lemma stepL_inv p s l s' : wf p -> InvL p s -> step p s l = Some s' -> InvL p s'.
Proof.
  intros W L Hs. destruct l as [t|t|t|t|t|t|t|t|]; unfold step in Hs.
  - (* LWaitPass *)
    destruct (cur p s t) as [[[pc ph] it]|] eqn:C; try discriminate. destruct ph as [k| |]; try discriminate.
    destruct (nth_error (it_waits it) k) as [x|] eqn:Ex; try discriminate.
    destruct (mem x (s_closed s)); try discriminate. inv_some. apply cur_spec in C. destruct C as (Ct & Ci).
    destruct (il_bounds _ _ L t pc _ Ct) as (B1 & B2 & B3).
    frameL p s t (TRun pc (PWait k)) (TRun pc (PWait (S k))) L Ct.
    + auto.
    + same_pc_done L Ct.
    + intros; discriminate.
    + intros j it0 x0 _ _ [H|(H & k0 & i0 & E & _)]; [left; auto | discriminate].
    + intros x0 H1 H2. contradiction.
    + intros pc' ph' E. inversion E; subst. split; auto. split.
      * intros Hl. exfalso. apply item_at_lt in Ci. lia.
      * intros it0 Hit0. rewrite Ci in Hit0. inversion Hit0; subst. apply nth_error_Some_lt in Ex. lia.
  - (* LWaitCtx *)
    destruct (cur p s t) as [[[pc ph] it]|] eqn:C; try discriminate. destruct ph as [k| |]; try discriminate.
    destruct (nth_error (it_waits it) k) as [x|] eqn:Ex; try discriminate.
    destruct (ctxaware p t); try discriminate. apply cur_spec in C. destruct C as (Ct & Ci).
    assert (G : forall e, InvL p (fail s t e)).
    { intros e. frameL p s t (TRun pc (PWait k)) (TDone (Some e)) L Ct.
      - auto.
      - intros j it0 x0 _ _ [].
      - intros; discriminate.
      - auto.
      - intros x0 H1 H2. contradiction.
      - intros; discriminate. }
    destruct (s_cext s); [inv_some; apply G|]. destruct (s_cint s); [inv_some; apply G|discriminate].
  - (* LEnter *)
    destruct (cur p s t) as [[[pc ph] it]|] eqn:C; try discriminate. destruct ph as [k| |]; try discriminate.
    destruct (Nat.eqb k (length (it_waits it))); try discriminate.
    destruct (rdall p (s_store s) (it_args it)) as [vs|]; try discriminate. inv_some. apply cur_spec in C. destruct C as (Ct & Ci).
    destruct (il_bounds _ _ L t pc _ Ct) as (B1 & B2 & B3).
    frameL p s t (TRun pc (PWait k)) (TRun pc (PInside vs)) L Ct.
    + auto.
    + same_pc_done L Ct.
    + intros; discriminate.
    + intros j it0 x0 _ _ [H|(H & k0 & i0 & E & _)]; [left; auto | discriminate].
    + intros x0 H1 H2. contradiction.
    + intros pc' ph' E. inversion E; subst. split; auto. split; auto.
      intros Hl. exfalso. apply item_at_lt in Ci. lia.
  - (* LExitOk *)
    destruct (cur p s t) as [[[pc ph] it]|] eqn:C; try discriminate. destruct ph as [|vs|]; try discriminate. inv_some.
    apply cur_spec in C. destruct C as (Ct & Ci). destruct (il_bounds _ _ L t pc _ Ct) as (B1 & B2 & B3).
    frameL p s t (TRun pc (PInside vs)) (TRun pc (PClose 0)) L Ct.
    + auto.
    + same_pc_done L Ct.
    + intros pc' k it0 i x0 E _ Hi. inversion E; subst. lia.
    + intros j it0 x0 _ _ [H|(H & k0 & i0 & E & _)]; [left; auto | discriminate].
    + intros x0 H1 H2. contradiction.
    + intros pc' ph' E. inversion E; subst. split; auto. split.
      * intros Hl. exfalso. apply item_at_lt in Ci. lia.
      * intros; lia.
  - (* LExitErr *)
    destruct (cur p s t) as [[[pc ph] it]|] eqn:C; try discriminate. destruct ph as [|vs|]; try discriminate.
    destruct (it_fallible it); try discriminate. inv_some. apply cur_spec in C. destruct C as (Ct & Ci).
    frameL p s t (TRun pc (PInside vs)) (TDone (Some (EProv (it_node it)))) L Ct.
    + auto.
    + intros j it0 x0 _ _ [].
    + intros; discriminate.
    + auto.
    + intros x0 H1 H2. contradiction.
    + intros; discriminate.
  - (* LClose *)
    destruct (cur p s t) as [[[pc ph] it]|] eqn:C; try discriminate. destruct ph as [| |k]; try discriminate.
    destruct (nth_error (it_closes it) k) as [x|] eqn:Ex; try discriminate.
    destruct (mem x (s_closed s)); try discriminate. inv_some. apply cur_spec in C. destruct C as (Ct & Ci).
    destruct (il_bounds _ _ L t pc _ Ct) as (B1 & B2 & B3).
    frameL p s t (TRun pc (PClose k)) (TRun pc (PClose (S k))) L Ct.
    + intros y Hy. right; auto.
    + intros j it0 x0 Hit0 Hx0 Hj. right. eapply (il_done _ _ L); eauto. rewrite Ct. exact Hj.
    + intros pc' k' it0 i x0 E Hit0 Hi Hx0. inversion E; subst. rewrite Ci in Hit0. inversion Hit0; subst.
      destruct (Nat.eq_dec i k) as [->|Hne]; [rewrite Ex in Hx0; inversion Hx0; left; auto | right; eapply (il_closing _ _ L); eauto; lia].
    + intros j it0 x0 _ _ [H|(H & k0 & i0 & E & Hi & Hx0)]; [left; auto | right; split; auto; inversion E; subst; exists (S k0), i0; repeat split; auto].
    + intros x0 [<-|H1] H2; [|contradiction]. exists pc, it. split; auto. split; [eapply nth_error_In; eauto|].
      right. split; auto. exists (S k), k. repeat split; auto.
    + intros pc' ph' E. inversion E; subst. split; auto. split.
      * intros Hl. exfalso. apply item_at_lt in Ci. lia.
      * intros it0 Hit0. rewrite Ci in Hit0. inversion Hit0; subst. apply nth_error_Some_lt in Ex. lia.
  - (* LNext *)
    destruct (cur p s t) as [[[pc ph] it]|] eqn:C; try discriminate. destruct ph as [| |k]; try discriminate.
    destruct (Nat.eqb k (length (it_closes it))) eqn:Ek; try discriminate. inv_some. apply Nat.eqb_eq in Ek.
    apply cur_spec in C. destruct C as (Ct & Ci). destruct (il_bounds _ _ L t pc _ Ct) as (B1 & B2 & B3).
    frameL p s t (TRun pc (PClose k)) (TRun (S pc) (PWait 0)) L Ct.
    + auto.
    + intros j it0 x0 Hit0 Hx0 Hj. destruct (Nat.eq_dec j pc) as [->|Hne].
      * rewrite Ci in Hit0. inversion Hit0; subst. apply In_nth_error in Hx0. destruct Hx0 as (i & Hi).
        eapply (il_closing _ _ L); eauto. apply nth_error_Some_lt in Hi. lia.
      * eapply (il_done _ _ L); eauto. rewrite Ct. lia.
    + intros; discriminate.
    + intros j it0 x0 _ _ [H|(H & _)]; left; lia.
    + intros x0 H1 H2. contradiction.
    + intros pc' ph' E. inversion E; subst. apply item_at_lt in Ci. split; [lia|]. split; auto. intros; lia.
  - (* LFin *)
    destruct (nth_error (s_thr s) t) as [[pc [[|k]| |]|]|] eqn:Ct; try discriminate.
    destruct (nth_error (p_threads p) t) as [its|] eqn:Et; try discriminate.
    destruct (Nat.eqb pc (length its)) eqn:Ep; try discriminate. apply Nat.eqb_eq in Ep.
    assert (Eits : items_of p t = its) by (unfold items_of; eapply nth_error_nth; eauto).
    assert (G : forall e, InvL p (setthr s t (TDone e))).
    { intros e. frameL p s t (TRun pc (PWait 0)) (TDone e) L Ct.
      - auto.
      - intros j it0 x0 Hit0 Hx0 He. destruct e; [destruct He|]. eapply (il_done _ _ L); eauto. rewrite Ct.
        apply item_at_lt in Hit0. rewrite Eits in Hit0. lia.
      - intros; discriminate.
      - auto.
      - intros x0 H1 H2. contradiction.
      - intros; discriminate. }
    destruct (Nat.eqb t 0); [destruct (forallb isdone (tl (s_thr s))); try discriminate|]; inv_some; apply G.
  - (* LCancel *)
    inv_some. destruct L. constructor; auto.
Qed.
Print Assumptions stepL_inv.

(* ---------------- C03 in the prototype semantics ---------------- *)
Lemma invL_init p : InvL p (init p).
Proof.
  assert (T : forall t st, nth_error (s_thr (init p)) t = Some st -> st = TRun 0 (PWait 0) /\ t < length (p_threads p)).
  { unfold init. cbn [s_thr]. intros t st H. assert (Hlt := nth_error_Some_lt _ _ _ H). rewrite map_length in Hlt.
    apply nth_error_In in H. apply in_map_iff in H. destruct H as (x & E & _). auto. }
  constructor.
  - intros t j it x Hit Hx Hst. destruct (nth_error (s_thr (init p)) t) as [st|] eqn:E; [|destruct Hst].
    destruct (T _ _ E) as (-> & _). lia.
  - intros t pc k it i x E. destruct (T _ _ E) as (E' & _). discriminate.
  - intros x [].
  - intros t pc ph E. destruct (T _ _ E) as (E' & Hlt). inversion E'; subst. split; [lia|]. split; auto. intros; lia.
Qed.

Definition ffl (l : label) : bool := match l with LExitErr _ | LWaitCtx _ | LCancel => false | _ => true end.
Definition clean (s : state) : Prop := ffree s /\ s_egerr s = None.

Lemma clean_init p : clean (init p).
Proof.
  split; [|reflexivity]. intros t e H. unfold init in H. cbn [s_thr] in H. apply nth_error_In in H. apply in_map_iff in H.
  destruct H as (x & E & _). discriminate.
Qed.

Lemma ffree_upd s t x : ffree s -> (forall e, x <> TDone (Some e)) ->
  forall t0 e, nth_error (upd (s_thr s) t x) t0 = Some (TDone (Some e)) -> False.
Proof.
  intros F Hx t0 e H. destruct (Nat.eq_dec t t0) as [<-|Hne].
  - destruct (lt_dec t (length (s_thr s))) as [Hlt|Hge].
    + rewrite nth_error_upd_eq in H by auto. inversion H. eapply Hx; eauto.
    + assert (upd (s_thr s) t x = s_thr s).
      { clear - Hge. revert t Hge. induction (s_thr s) as [|a l IH]; intros [|t] H; simpl in *; auto; try lia. f_equal. apply IH. lia. }
      rewrite H0 in H. eapply F; eauto.
  - rewrite nth_error_upd_neq in H by auto. eapply F; eauto.
Qed.

Lemma clean_step p s l s' : clean s -> ffl l = true -> step p s l = Some s' -> clean s'.
Proof.
  intros (F & E) Hl Hs. destruct l as [t|t|t|t|t|t|t|t|]; try discriminate; unfold step in Hs.
  - destruct (cur p s t) as [[[pc ph] it]|]; try discriminate. destruct ph; try discriminate.
    destruct (nth_error (it_waits it) k); try discriminate. destruct (mem v (s_closed s)); try discriminate. inv_some.
    split; auto. unfold ffree, setthr. cbn [s_thr]. apply ffree_upd; auto. intros; discriminate.
  - destruct (cur p s t) as [[[pc ph] it]|]; try discriminate. destruct ph; try discriminate.
    destruct (Nat.eqb k (length (it_waits it))); try discriminate. destruct (rdall p (s_store s) (it_args it)); try discriminate. inv_some.
    split; auto. unfold ffree. cbn [s_thr]. apply ffree_upd; auto. intros; discriminate.
  - destruct (cur p s t) as [[[pc ph] it]|]; try discriminate. destruct ph; try discriminate. inv_some.
    split; auto. unfold ffree. cbn [s_thr]. apply ffree_upd; auto. intros; discriminate.
  - destruct (cur p s t) as [[[pc ph] it]|]; try discriminate. destruct ph; try discriminate.
    destruct (nth_error (it_closes it) k); try discriminate. destruct (mem v (s_closed s)); try discriminate. inv_some.
    split; auto. unfold ffree. cbn [s_thr]. apply ffree_upd; auto. intros; discriminate.
  - destruct (cur p s t) as [[[pc ph] it]|]; try discriminate. destruct ph; try discriminate.
    destruct (Nat.eqb k (length (it_closes it))); try discriminate. inv_some.
    split; auto. unfold ffree, setthr. cbn [s_thr]. apply ffree_upd; auto. intros; discriminate.
  - destruct (nth_error (s_thr s) t) as [[pc [[|k]| |]|]|]; try discriminate.
    destruct (nth_error (p_threads p) t); try discriminate. destruct (Nat.eqb pc (length l)); try discriminate.
    destruct (Nat.eqb t 0).
    + destruct (forallb isdone (tl (s_thr s))); try discriminate. inv_some. rewrite E.
      split; auto. unfold ffree, setthr. cbn [s_thr]. apply ffree_upd; auto. destruct (p_reterr p); intros; discriminate.
    + inv_some. split; auto. unfold ffree, setthr. cbn [s_thr]. apply ffree_upd; auto. intros; discriminate.
Qed.

Lemma run_all p : forall ls s s', wf p -> Inv p s -> InvL p s -> clean s -> forallb ffl ls = true -> run p s ls = Some s' ->
  Inv p s' /\ InvL p s' /\ clean s'.
Proof.
  induction ls as [|l ls IH]; intros s s' W I L C F R; simpl in *.
  - inversion R; subst. auto.
  - apply andb_true_iff in F. destruct F as (Fl & Fr). destruct (step p s l) as [s1|] eqn:E; try discriminate.
    eapply (IH s1); eauto using step_inv, stepL_inv, clean_step.
Qed.

(* C03: in every fault-free run from the initial state, if no step (other than the caller's cancel) is enabled then
   every thread, the injector's own included, has finished normally; in particular the injector has returned and all
   goroutines it started have ended. Together with `progress` this is deadlock freedom. *)
Theorem C03_joined p rank ls s : wfl p rank -> forallb ffl ls = true -> run p (init p) ls = Some s ->
  (forall l, l <> LCancel -> step p s l = None) ->
  forall t st, nth_error (s_thr s) t = Some st -> st = TDone None.
Proof.
  intros W F R Hmax t st Ht.
  destruct (run_all p ls (init p) s W (inv_init p) (invL_init p) (clean_init p) F R) as (I & L & (Ff & Eg)).
  destruct st as [pc ph|[e|]]; auto.
  - exfalso. destruct (progress p rank s W I L Ff) as (l & Hl & (s1 & Hs1)); eauto. rewrite (Hmax l Hl) in Hs1. discriminate.
  - exfalso. eapply Ff; eauto.
Qed.
Print Assumptions C03_joined.
