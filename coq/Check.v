(* Verified checkers: boolean versions of the well-formedness predicates of Sem2/Live, proved sound.
   They are evaluated by vm_compute on the thread program OBSERVED in a generated *_band.go file, so Layer A's
   theorems (C01 order/values/race freedom, C03 deadlock freedom) apply to that very program even when the generator
   model no longer matches the code; a `false` points at the obligation that fails (the failing-input search). *)
From Coq Require Import List Arith Lia Bool.
Import ListNotations.
Require Import Sem2 Safe Live.

Fixpoint indexed_from {A} (k : nat) (l : list A) : list (nat * A) :=
  match l with [] => [] | x :: r => (k, x) :: indexed_from (S k) r end.
Definition indexed {A} (l : list A) := indexed_from 0 l.

Lemma indexed_from_spec {A} (l : list A) : forall k j x, nth_error l j = Some x -> In (k + j, x) (indexed_from k l).
Proof.
  induction l as [|a l IH]; intros k j x H; [destruct j; discriminate|].
  destruct j; simpl in *.
  - inversion H; subst. left. f_equal. lia.
  - right. replace (k + S j) with (S k + j) by lia. apply IH; auto.
Qed.
Lemma indexed_spec {A} (l : list A) j x : nth_error l j = Some x -> In (j, x) (indexed l).
Proof. intros H. apply (indexed_from_spec l 0 j x H). Qed.
Lemma indexed_from_inv {A} (l : list A) : forall k j x, In (j, x) (indexed_from k l) -> k <= j /\ nth_error l (j - k) = Some x.
Proof.
  induction l as [|a l IH]; intros k j x H; simpl in H; [destruct H|].
  destruct H as [H|H].
  - inversion H; subst. split; auto. rewrite Nat.sub_diag. reflexivity.
  - destruct (IH _ _ _ H) as (A1 & A2). split; [lia|]. replace (j - k) with (S (j - S k)) by lia. exact A2.
Qed.
Lemma indexed_inv {A} (l : list A) j x : In (j, x) (indexed l) -> nth_error l j = Some x.
Proof. intros H. destruct (indexed_from_inv l 0 j x H) as (_ & E). rewrite Nat.sub_0_r in E. exact E. Qed.

Definition memn (x : nat) (l : list nat) : bool := existsb (Nat.eqb x) l.
Lemma memn_true x l : memn x l = true <-> In x l.
Proof. unfold memn. rewrite existsb_exists. split; [intros (y & H & E); apply Nat.eqb_eq in E; subst; auto | intros H; exists x; split; auto; apply Nat.eqb_refl]. Qed.
Fixpoint nodupb (l : list nat) : bool := match l with [] => true | x :: r => negb (memn x r) && nodupb r end.
Lemma nodupb_sound l : nodupb l = true -> NoDup l.
Proof.
  induction l as [|x r IH]; simpl; intros H; [constructor|]. apply andb_true_iff in H. destruct H as (H1 & H2).
  constructor; [|auto]. intro Hin. apply memn_true in Hin. rewrite Hin in H1. discriminate.
Qed.
Fixpoint nodupv (l : list var) : bool := match l with [] => true | x :: r => negb (mem x r) && nodupv r end.
Lemma mem_true x l : mem x l = true <-> In x l.
Proof. unfold mem. destruct (in_dec var_eq_dec x l); split; auto; discriminate. Qed.
Lemma nodupv_sound l : nodupv l = true -> NoDup l.
Proof.
  induction l as [|x r IH]; simpl; intros H; [constructor|]. apply andb_true_iff in H. destruct H as (H1 & H2).
  constructor; [|auto]. intro Hin. apply mem_true in Hin. rewrite Hin in H1. discriminate.
Qed.

Section Checker.
Variable p : prog.
Definition all_items : list item := concat (p_threads p).

Definition arg_ok (its : list item) (j : nat) (it : item) (x : var) : bool :=
  isarg p x
  || existsb (fun ji => Nat.ltb (fst ji) j && Nat.eqb (it_node (snd ji)) (fst x) && Nat.ltb (snd x) (it_nrets (snd ji))) (indexed its)
  || mem x (it_waits it).
Definition wait_ok (x : var) : bool :=
  negb (isarg p x) && existsb (fun it' => Nat.eqb (it_node it') (fst x) && Nat.ltb (snd x) (it_nrets it')) all_items.
Definition item_ok (its : list item) (j : nat) (it : item) : bool :=
  forallb (arg_ok its j it) (it_args it) && forallb wait_ok (it_waits it)
  && forallb (fun x => Nat.eqb (fst x) (it_node it)) (it_closes it) && negb (memn (it_node it) (p_argnodes p)).
Definition wfb : bool :=
  nodupb (map it_node all_items) &&
  forallb (fun its => forallb (fun ji => item_ok its (fst ji) (snd ji)) (indexed its)) (p_threads p).

Lemma item_ok_parts its j it : item_ok its j it = true ->
  forallb (arg_ok its j it) (it_args it) = true /\ forallb wait_ok (it_waits it) = true /\
  forallb (fun x => Nat.eqb (fst x) (it_node it)) (it_closes it) = true /\ memn (it_node it) (p_argnodes p) = false.
Proof.
  unfold item_ok. intros H. apply andb_true_iff in H. destruct H as (H & D). apply andb_true_iff in H. destruct H as (H & C).
  apply andb_true_iff in H. destruct H as (A & B). repeat split; auto. destruct (memn (it_node it) (p_argnodes p)); [discriminate|reflexivity].
Qed.

Lemma item_at_thread t j it : item_at p t j = Some it -> exists its, In its (p_threads p) /\ nth_error its j = Some it.
Proof.
  unfold item_at, items_of. intros H. destruct (nth_error (p_threads p) t) as [its|] eqn:E.
  - exists its. split; [eapply nth_error_In; eauto|]. erewrite nth_error_nth in H by eauto. exact H.
  - rewrite nth_overflow in H by (apply nth_error_None; auto). destruct j; discriminate.
Qed.
Lemma item_at_of_thread t its j it : nth_error (p_threads p) t = Some its -> nth_error its j = Some it -> item_at p t j = Some it.
Proof. intros H1 H2. unfold item_at, items_of. erewrite nth_error_nth by eauto. exact H2. Qed.
Lemma in_all_items it : In it all_items -> exists t j, item_at p t j = Some it.
Proof.
  unfold all_items. intros H. apply in_concat in H. destruct H as (its & H1 & H2).
  apply In_nth_error in H1. destruct H1 as (t & Ht). apply In_nth_error in H2. destruct H2 as (j & Hj).
  exists t, j. eapply item_at_of_thread; eauto.
Qed.

Lemma item_ok_of t j it : wfb = true -> item_at p t j = Some it ->
  exists its, nth_error (p_threads p) t = Some its /\ nth_error its j = Some it /\ item_ok its j it = true.
Proof.
  intros W H. unfold wfb in W. apply andb_true_iff in W. destruct W as (_ & W). rewrite forallb_forall in W.
  unfold item_at, items_of in H. destruct (nth_error (p_threads p) t) as [its|] eqn:E.
  - erewrite nth_error_nth in H by eauto. exists its. split; auto. split; auto.
    specialize (W its (nth_error_In _ _ E)). rewrite forallb_forall in W. apply (W (j, it)). apply indexed_spec. exact H.
  - rewrite nth_overflow in H by (apply nth_error_None; auto). destruct j; discriminate.
Qed.

Theorem wfb_sound : wfb = true -> wf p.
Proof.
  intros W. constructor.
  - unfold wfb in W. apply andb_true_iff in W. destruct W as (W & _). apply nodupb_sound. exact W.
  - intros t j it x Hi Hx. destruct (item_ok_of t j it W Hi) as (its & Et & Ej & Ok).
    destruct (item_ok_parts _ _ _ Ok) as (Ok1 & _). clear Ok. rename Ok1 into Ok.
    rewrite forallb_forall in Ok. specialize (Ok x Hx). unfold arg_ok in Ok.
    apply orb_true_iff in Ok. destruct Ok as [Ok|Ok]; [apply orb_true_iff in Ok; destruct Ok as [Ok|Ok]|].
    + left. exact Ok.
    + right. left. apply existsb_exists in Ok. destruct Ok as ((j' & it') & Hin & Hc). simpl in Hc.
      apply andb_true_iff in Hc. destruct Hc as (Hc & H3). apply andb_true_iff in Hc. destruct Hc as (H1 & H2).
      exists j', it'. apply Nat.ltb_lt in H1. apply Nat.eqb_eq in H2. apply Nat.ltb_lt in H3. repeat split; auto.
      eapply item_at_of_thread; eauto. apply indexed_inv. exact Hin.
    + right. right. apply mem_true. exact Ok.
  - intros t j it x Hi Hx. destruct (item_ok_of t j it W Hi) as (its & Et & Ej & Ok).
    destruct (item_ok_parts _ _ _ Ok) as (_ & Ok2 & _).
    rewrite forallb_forall in Ok2. specialize (Ok2 x Hx). unfold wait_ok in Ok2. apply andb_true_iff in Ok2. destruct Ok2 as (A & B).
    split; [destruct (isarg p x); [discriminate|reflexivity]|].
    apply existsb_exists in B. destruct B as (it' & Hin & Hc). apply andb_true_iff in Hc. destruct Hc as (H2 & H3).
    apply Nat.eqb_eq in H2. apply Nat.ltb_lt in H3. destruct (in_all_items it' Hin) as (t' & j' & Hat). exists t', j', it'. auto.
  - intros t j it x Hi Hx. destruct (item_ok_of t j it W Hi) as (its & Et & Ej & Ok).
    destruct (item_ok_parts _ _ _ Ok) as (_ & _ & Ok3 & _).
    rewrite forallb_forall in Ok3. specialize (Ok3 x Hx). apply Nat.eqb_eq in Ok3. exact Ok3.
  - intros t j it Hi Hin. destruct (item_ok_of t j it W Hi) as (its & Et & Ej & Ok).
    destruct (item_ok_parts _ _ _ Ok) as (_ & _ & _ & Ok4).
    apply memn_true in Hin. rewrite Hin in Ok4. discriminate.
Qed.

(* ranks: increasing along each thread; awaited channels are closed by a lower-ranked producer item *)
Variable rank : nat -> nat.
Fixpoint increasing (l : list item) : bool :=
  match l with
  | [] => true
  | a :: r => forallb (fun b => Nat.ltb (rank (it_node a)) (rank (it_node b))) r && increasing r
  end.
Lemma increasing_spec l : increasing l = true -> forall j j' a b, j < j' -> nth_error l j = Some a -> nth_error l j' = Some b ->
  rank (it_node a) < rank (it_node b).
Proof.
  induction l as [|x r IH]; intros H j j' a b Hlt Ha Hb; [destruct j; discriminate|].
  simpl in H. apply andb_true_iff in H. destruct H as (H1 & H2).
  destruct j' as [|j']; [lia|]. simpl in Hb. destruct j as [|j]; simpl in Ha.
  - inversion Ha; subst. rewrite forallb_forall in H1. apply Nat.ltb_lt. apply H1. eapply nth_error_In; eauto.
  - eapply (IH H2 j j'); eauto. lia.
Qed.
Definition lwait_ok (it : item) (x : var) : bool :=
  existsb (fun it' => Nat.eqb (it_node it') (fst x) && mem x (it_closes it') && Nat.ltb (rank (it_node it')) (rank (it_node it))) all_items.
Definition wflb : bool :=
  wfb && forallb increasing (p_threads p)
  && forallb (fun it => forallb (lwait_ok it) (it_waits it) && nodupv (it_closes it)) all_items.

Lemma item_in_all t j it : item_at p t j = Some it -> In it all_items.
Proof.
  intros H. destruct (item_at_thread t j it H) as (its & H1 & H2). unfold all_items. apply in_concat. exists its. split; auto. eapply nth_error_In; eauto.
Qed.

Theorem wflb_sound : wflb = true -> wfl p rank.
Proof.
  intros W. unfold wflb in W. apply andb_true_iff in W. destruct W as (W & W3). apply andb_true_iff in W. destruct W as (W1 & W2).
  rewrite forallb_forall in W2, W3. constructor.
  - apply wfb_sound. exact W1.
  - intros t j j' it it' Hlt H1 H2. unfold item_at, items_of in *.
    destruct (nth_error (p_threads p) t) as [its|] eqn:E.
    + erewrite nth_error_nth in H1, H2 by eauto. eapply increasing_spec; eauto. apply W2. eapply nth_error_In; eauto.
    + rewrite nth_overflow in H1 by (apply nth_error_None; auto). destruct j; discriminate.
  - intros t j it x Hi Hx. specialize (W3 it (item_in_all _ _ _ Hi)). apply andb_true_iff in W3. destruct W3 as (A & _).
    rewrite forallb_forall in A. specialize (A x Hx). unfold lwait_ok in A. apply existsb_exists in A. destruct A as (it' & Hin & Hc).
    apply andb_true_iff in Hc. destruct Hc as (Hc & H3). apply andb_true_iff in Hc. destruct Hc as (H1 & H2).
    apply Nat.eqb_eq in H1. apply mem_true in H2. apply Nat.ltb_lt in H3.
    destruct (in_all_items it' Hin) as (t' & j' & Hat). exists t', j', it'. auto.
  - intros t j it Hi. specialize (W3 it (item_in_all _ _ _ Hi)). apply andb_true_iff in W3. destruct W3 as (_ & B). apply nodupv_sound. exact B.
Qed.
End Checker.

(* rank given as an association list (node, rank); unknown nodes get rank 0 *)
Fixpoint rank_of (l : list (nat * nat)) (n : nat) : nat :=
  match l with [] => 0 | (k, r) :: t => if Nat.eqb k n then r else rank_of t n end.

(* diagnostic codes for the harness: 0 ok; 1 wfb fails; 2 wfb holds but the rank conditions fail *)
Definition check_code (p : prog) (rk : list (nat * nat)) : nat :=
  if wfb p then (if wflb p (rank_of rk) then 0 else 2) else 1.

Theorem check_code_sound : forall p rk, check_code p rk = 0 -> wfl p (rank_of rk).
Proof.
  intros p rk H. unfold check_code in H. destruct (wfb p); [|discriminate]. destruct (wflb p (rank_of rk)) eqn:E; [|discriminate].
  apply wflb_sound. exact E.
Qed.

(* ---- failing-input search on the model: a greedy fault-free schedule of an (observed) program.
   Every step taken is a step of Sem2, so a non-final stuck state is a genuine fault-free execution of the program
   that does not terminate with all threads finished (C03), or whose next read finds no written value (C01). ---- *)
Definition thread_labels (t : nat) : list label := [LWaitPass t; LEnter t; LExitOk t; LClose t; LNext t; LFin t].
Fixpoint first_step (p : prog) (s : state) (ls : list label) : option (label * state) :=
  match ls with
  | [] => None
  | l :: r => match step p s l with Some s' => Some (l, s') | None => first_step p s r end
  end.
Fixpoint greedy (fuel : nat) (p : prog) (s : state) (acc : list label) : state * list label :=
  match fuel with
  | 0 => (s, rev acc)
  | S f => match first_step p s (flat_map thread_labels (seq 0 (length (p_threads p)))) with
           | Some (l, s') => greedy f p s' (l :: acc)
           | None => (s, rev acc)
           end
  end.
Definition step_budget (p : prog) : nat :=
  fold_right (fun it a => length (it_waits it) + length (it_closes it) + 4 + a) (2 * length (p_threads p) + 2) (concat (p_threads p)).
Definition all_done (s : state) : bool := forallb (fun x => match x with TDone None => true | _ => false end) (s_thr s).
Definition unwritten_read (p : prog) (s : state) : bool :=
  existsb (fun t => match cur p s t with
                    | Some (_, PWait k, it) => Nat.eqb k (length (it_waits it)) && match rdall p (s_store s) (it_args it) with None => true | _ => false end
                    | _ => false end) (seq 0 (length (p_threads p))).
(* 0: the greedy fault-free run ends with every thread finished; 1: it reaches a read of a never-written variable;
   2: it reaches a state where nothing is enabled although a thread has not finished (deadlock) *)
Definition explore_code (p : prog) : nat * list label :=
  let '(s, ls) := greedy (step_budget p) p (init p) [] in
  if all_done s then (0, []) else if unwritten_read p s then (1, ls) else (2, ls).

(* ---- validation of the semantics against real executions: the event log of an instrumented run, turned into labels by
   the harness, must be a run of Sem2 on the observed program, and after letting blocked waits leave through their ctx
   branch and finished threads return, the model's outcome must be the outcome the real injector had ---- *)
Definition leave_labels (t : nat) : list label := [LWaitCtx t; LFin t].
Fixpoint settle (fuel : nat) (p : prog) (s : state) : state :=
  match fuel with
  | 0 => s
  | S f => match first_step p s (flat_map leave_labels (seq 0 (length (p_threads p)))) with
           | Some (_, s') => settle f p s'
           | None => s
           end
  end.
(* 0: returned nil; 100 + n: returned provider n's error; 2: returned a context error; 3: did not return *)
Definition outcome (s : state) : nat :=
  match nth_error (s_thr s) 0 with
  | Some (TDone None) => 0
  | Some (TDone (Some (EProv n))) => 100 + n
  | Some (TDone (Some _)) => 2
  | _ => 3
  end.
Definition goroutines_left (s : state) : bool := existsb (fun x => match x with TRun _ _ => true | _ => false end) (tl (s_thr s)).
(* 0 = agreement; 1 = the label sequence is not a run of the model; 2 = outcome differs; 3 = leaked-goroutine verdict differs *)
Definition trace_code (p : prog) (ls : list label) (expect : nat) (leak : bool) : nat :=
  match run p (init p) ls with
  | None => 1
  | Some s => let s' := settle (2 * length (p_threads p) + 2) p s in
              if negb (Nat.eqb (outcome s') expect) then 2
              else if Nat.eqb expect 3 then 0
              else if Bool.eqb (goroutines_left s') leak then 0 else 3
  end.
