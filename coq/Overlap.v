(* C05: providers that no wait separates from the start of their thread can all be inside their function at the same
   time. For a ranked well-synchronised program and a set F of positions (thread t, item j), one per thread, such that no
   item of thread t up to and including j awaits anything, there is a fault-free execution reaching a state in which
   every thread of F is inside its item j. *)
From Coq Require Import List Arith Lia Bool.
Import ListNotations.
Require Import Sem2 Safe Live LiveInv Check.

(* position of a thread inside its item list, counted in micro-steps *)
Definition icost (it : item) : nat := 3 + length (it_closes it).
Fixpoint base (its : list item) (pc : nat) : nat :=
  match its, pc with
  | _, 0 => 0
  | [], _ => 0
  | it :: r, S q => icost it + base r q
  end.
Lemma base_0 its : base its 0 = 0. Proof. destruct its; reflexivity. Qed.
Lemma base_mono : forall its a b, a <= b -> base its a <= base its b.
Proof.
  induction its as [|x r IH]; intros a b H; [destruct a, b; simpl; lia|].
  destruct a as [|a]; [simpl; lia|]. destruct b as [|b]; [lia|]. cbn [base]. specialize (IH a b ltac:(lia)). lia.
Qed.
Definition off (ph : phase) : nat := match ph with PWait _ => 0 | PInside _ => 1 | PClose k => 2 + k end.
Definition pos (its : list item) (st : tstat) : nat := match st with TRun pc ph => base its pc + off ph | TDone _ => 0 end.

Lemma base_S its pc it : nth_error its pc = Some it -> base its (S pc) = base its pc + icost it.
Proof.
  revert pc. induction its as [|a r IH]; intros pc H; [destruct pc; discriminate|].
  destruct pc as [|q]; simpl in H.
  - inversion H; subst. cbn [base]. rewrite base_0. lia.
  - cbn [base]. rewrite (IH q H). destruct q; cbn [base]; lia.
Qed.

Section Own.
Variable p : prog.
Variable rank : nat -> nat.
Hypothesis W : wfl p rank.

(* a thread whose current item awaits nothing can always take a step of its own, which advances its position by one
   and leaves every other thread as it is *)
Lemma own_step s t pc ph it its : Inv p s -> InvL p s ->
  nth_error (s_thr s) t = Some (TRun pc ph) -> nth_error (p_threads p) t = Some its -> nth_error its pc = Some it -> it_waits it = [] ->
  (forall vs, ph <> PInside vs \/ True) ->
  exists l s' x, In l [LEnter t; LExitOk t; LClose t; LNext t] /\ step p s l = Some s' /\
                 s_thr s' = upd (s_thr s) t x /\ pos its x = S (pos its (TRun pc ph)) /\
                 (forall e, x <> TDone e).
Proof.
  intros I L Ct Ets Eit Hw _.
  assert (Ci : item_at p t pc = Some it) by (unfold item_at, items_of; erewrite nth_error_nth by eauto; exact Eit).
  assert (Cur : cur p s t = Some (pc, ph, it)) by (unfold cur; rewrite Ct, Ets, Eit; reflexivity).
  destruct (il_bounds _ _ L t pc ph Ct) as (_ & _ & Hph). specialize (Hph it Ci).
  destruct ph as [k|vs|k].
  - rewrite Hw in Hph. simpl in Hph. assert (k = 0) by lia. subst k.
    assert (Ct' : nth_error (s_thr s) t = Some (TRun pc (PWait (length (it_waits it))))) by (rewrite Hw; exact Ct).
    destruct (ready_reads p s t pc it (wfl_wf _ _ W) I Ct' Ci) as (vs & Hrd & _).
    exists (LEnter t). eexists. exists (TRun pc (PInside vs)). split; [simpl; auto|]. split.
    + unfold step. rewrite Cur, Hw. simpl. rewrite Hrd. reflexivity.
    + cbn [s_thr]. split; [reflexivity|]. split; [simpl; lia | intros; discriminate].
  - exists (LExitOk t). eexists. exists (TRun pc (PClose 0)). split; [simpl; auto|]. split.
    + unfold step. rewrite Cur. reflexivity.
    + cbn [s_thr]. split; [reflexivity|]. split; [simpl; lia | intros; discriminate].
  - destruct (Nat.eq_dec k (length (it_closes it))) as [->|Hk].
    + exists (LNext t). eexists. exists (TRun (S pc) (PWait 0)). split; [simpl; auto|]. split.
      * unfold step. rewrite Cur, Nat.eqb_refl. reflexivity.
      * cbn [setthr s_thr]. split; [reflexivity|]. split; [|intros; discriminate]. simpl. rewrite (base_S its pc it Eit). unfold icost. lia.
    + assert (Hk' : k < length (it_closes it)) by lia.
      destruct (nth_error (it_closes it) k) as [x|] eqn:Ex; [|apply nth_error_None in Ex; lia].
      exists (LClose t). eexists. exists (TRun pc (PClose (S k))). split; [simpl; auto|].
      assert (Hnin : mem x (s_closed s) = false).
      { unfold mem. destruct (in_dec var_eq_dec x (s_closed s)) as [Hin|]; [|reflexivity]. exfalso.
        destruct (il_closed_src _ _ L x Hin) as (t2 & j2 & it2 & Hit2 & Hc2 & Hp2).
        assert (E1 : fst x = it_node it) by (eapply (wf_closes p (wfl_wf _ _ W)); eauto using nth_error_In).
        assert (E2 : fst x = it_node it2) by (eapply (wf_closes p (wfl_wf _ _ W)); eauto).
        destruct (loc_unique p (wfl_wf _ _ W) _ _ _ _ _ _ Hit2 Ci ltac:(congruence)) as (-> & ->).
        rewrite Hit2 in Ci. inversion Ci; subst it2. rewrite Ct in Hp2.
        destruct Hp2 as [Hp2|(_ & k2 & i2 & Hk2 & Hi2 & Hx2)]; [lia|]. inversion Hk2; subst k2.
        pose proof (wfl_closes_nodup p rank W t pc it Hit2) as ND.
        assert (i2 = k). { eapply NoDup_nth_error; eauto. eapply nth_error_Some_lt; eauto. congruence. }
        lia. }
      split.
      * unfold step. rewrite Cur, Ex, Hnin. reflexivity.
      * cbn [s_thr]. split; [reflexivity|]. split; [simpl; lia | intros; discriminate].
Qed.
End Own.

Definition good (p : prog) (s : state) : Prop := Inv p s /\ InvL p s.
Definition inside_at (s : state) (tj : nat * nat) : Prop := exists vs, nth_error (s_thr s) (fst tj) = Some (TRun (snd tj) (PInside vs)).
Definition waitfree_upto (p : prog) (tj : nat * nat) : Prop :=
  (exists it, item_at p (fst tj) (snd tj) = Some it) /\ forall q it, q <= snd tj -> item_at p (fst tj) q = Some it -> it_waits it = [].
Definition own_label (t : nat) (l : label) : bool :=
  match l with LEnter u | LExitOk u | LClose u | LNext u => Nat.eqb u t | _ => false end.

Section Drive.
Variable p : prog.
Variable rank : nat -> nat.
Hypothesis W : wfl p rank.

(* drive one thread up to its item j, touching nobody else *)
Lemma drive t j its : nth_error (p_threads p) t = Some its -> waitfree_upto p (t, j) ->
  forall n s pc ph, good p s -> nth_error (s_thr s) t = Some (TRun pc ph) ->
    pos its (TRun pc ph) + n = S (base its j) -> (pc < j \/ (pc = j /\ exists k, ph = PWait k) \/ (pc = j /\ exists vs, ph = PInside vs)) ->
    exists ls s', forallb (own_label t) ls = true /\ run p s ls = Some s' /\ good p s' /\ inside_at s' (t, j) /\
                  (forall u, u <> t -> nth_error (s_thr s') u = nth_error (s_thr s) u).
Proof.
  intros Ets (Hex & Hwf). induction n as [|n IH]; intros s pc ph (I & L) Ct Hpos Hwhere.
  - (* position S (base j): we are inside item j *)
    exists [], s. split; [reflexivity|]. split; [reflexivity|]. split; [split; auto|]. split; [|auto].
    destruct Hwhere as [Hlt|[(-> & k & ->)|(-> & vs & ->)]].
    + exfalso. destruct (il_bounds _ _ L t pc ph Ct) as (Hb & _ & _).
      destruct Hex as (itj & Hj). unfold item_at, items_of in Hj. erewrite nth_error_nth in Hj by eauto. simpl in Hj.
      assert (Hm : base its (S pc) <= base its j) by (apply base_mono; lia).
      destruct (nth_error its pc) as [itp|] eqn:Ep.
      * rewrite (base_S its pc itp Ep) in Hm. simpl in Hpos. unfold icost in Hm. destruct ph as [k|vs|k]; simpl in Hpos; try lia.
        destruct (il_bounds _ _ L t pc (PClose k) Ct) as (_ & _ & Hph).
        assert (Ci : item_at p t pc = Some itp) by (unfold item_at, items_of; erewrite nth_error_nth by eauto; exact Ep).
        specialize (Hph itp Ci). simpl in Hph. lia.
      * apply nth_error_None in Ep. apply nth_error_Some_lt in Hj. simpl in Hj. lia.
    + simpl in Hpos. lia.
    + exists vs. exact Ct.
  - destruct Hwhere as [Hlt|[(-> & k & ->)|(-> & vs & ->)]].
    + (* before item j: take an own step *)
      destruct Hex as (itj & Hj). unfold item_at, items_of in Hj. erewrite nth_error_nth in Hj by eauto. simpl in Hj.
      destruct (nth_error its pc) as [it|] eqn:Eit; [|apply nth_error_None in Eit; apply nth_error_Some_lt in Hj; simpl in Hj; lia].
      assert (Hw : it_waits it = []).
      { apply (Hwf pc it); [simpl; lia|]. unfold item_at, items_of. erewrite nth_error_nth by eauto. exact Eit. }
      destruct (own_step p rank W s t pc ph it its I L Ct Ets Eit Hw (fun _ => or_intror Logic.I)) as (l & s1 & x & Hl & Hs & Ht & Hp & Hx).
      assert (Hlt' : t < length (s_thr s)) by (eapply nth_error_Some_lt; eauto).
      assert (G1 : good p s1) by (split; [eapply step_inv; eauto; apply W | eapply stepL_inv; eauto; apply W]).
      destruct x as [pc1 ph1|e]; [|exfalso; eapply Hx; eauto].
      assert (Ct1 : nth_error (s_thr s1) t = Some (TRun pc1 ph1)) by (rewrite Ht; apply nth_error_upd_eq; auto).
      assert (Hw1 : pc1 < j \/ (pc1 = j /\ exists k, ph1 = PWait k) \/ (pc1 = j /\ exists vs, ph1 = PInside vs)).
      { simpl in Hl. destruct Hl as [<-|[<-|[<-|[<-|[]]]]]; unfold step in Hs.
        - assert (Cur : cur p s t = Some (pc, ph, it)) by (unfold cur; rewrite Ct, Ets, Eit; reflexivity). rewrite Cur in Hs.
          destruct ph; try discriminate. destruct (Nat.eqb k (length (it_waits it))); try discriminate. destruct (rdall p (s_store s) (it_args it)); try discriminate.
          inversion Hs; subst s1. cbn [s_thr] in Ct1. rewrite nth_error_upd_eq in Ct1 by auto. inversion Ct1; subst. left; auto.
        - assert (Cur : cur p s t = Some (pc, ph, it)) by (unfold cur; rewrite Ct, Ets, Eit; reflexivity). rewrite Cur in Hs.
          destruct ph; try discriminate. inversion Hs; subst s1. cbn [s_thr] in Ct1. rewrite nth_error_upd_eq in Ct1 by auto. inversion Ct1; subst. left; auto.
        - assert (Cur : cur p s t = Some (pc, ph, it)) by (unfold cur; rewrite Ct, Ets, Eit; reflexivity). rewrite Cur in Hs.
          destruct ph; try discriminate. destruct (nth_error (it_closes it) k); try discriminate. destruct (mem v (s_closed s)); try discriminate.
          inversion Hs; subst s1. cbn [s_thr] in Ct1. rewrite nth_error_upd_eq in Ct1 by auto. inversion Ct1; subst. left; auto.
        - assert (Cur : cur p s t = Some (pc, ph, it)) by (unfold cur; rewrite Ct, Ets, Eit; reflexivity). rewrite Cur in Hs.
          destruct ph; try discriminate. destruct (Nat.eqb k (length (it_closes it))); try discriminate.
          inversion Hs; subst s1. cbn [setthr s_thr] in Ct1. rewrite nth_error_upd_eq in Ct1 by auto. inversion Ct1; subst.
          destruct (Nat.eq_dec (S pc) j) as [E|E]; [right; left; split; eauto | left; lia]. }
      destruct (IH s1 pc1 ph1 G1 Ct1 ltac:(lia) Hw1) as (ls & s' & Hown & Hrun & G' & Hin & Hoth).
      exists (l :: ls), s'. split; [|split; [|split; [auto|split; [auto|]]]].
      * simpl. rewrite Hown. assert (own_label t l = true); [|rewrite H; reflexivity].
        simpl in Hl. destruct Hl as [<-|[<-|[<-|[<-|[]]]]]; simpl; apply Nat.eqb_refl.
      * cbn [run]. rewrite Hs. exact Hrun.
      * intros u Hu. rewrite (Hoth u Hu). rewrite Ht. apply nth_error_upd_neq. auto.
    + (* at item j, before entering *)
      destruct Hex as (itj & Hj). pose proof Hj as Hj0. unfold item_at, items_of in Hj. erewrite nth_error_nth in Hj by eauto. simpl in Hj.
      assert (Hw : it_waits itj = []) by (apply (Hwf j itj); [simpl; lia | exact Hj0]).
      destruct (own_step p rank W s t j (PWait k) itj its I L Ct Ets Hj Hw (fun _ => or_intror Logic.I)) as (l & s1 & x & Hl & Hs & Ht & Hp & Hx).
      assert (Hlt' : t < length (s_thr s)) by (eapply nth_error_Some_lt; eauto).
      assert (G1 : good p s1) by (split; [eapply step_inv; eauto; apply W | eapply stepL_inv; eauto; apply W]).
      assert (Cur : cur p s t = Some (j, PWait k, itj)) by (unfold cur; rewrite Ct, Ets, Hj; reflexivity).
      assert (Ein : exists vs, l = LEnter t /\ nth_error (s_thr s1) t = Some (TRun j (PInside vs))).
      { simpl in Hl. destruct Hl as [<-|[<-|[<-|[<-|[]]]]]; unfold step in Hs; rewrite Cur in Hs; try discriminate.
        destruct (Nat.eqb k (length (it_waits itj))); try discriminate. destruct (rdall p (s_store s) (it_args itj)) as [vs|]; try discriminate.
        inversion Hs; subst s1. exists vs. split; auto. cbn [s_thr]. apply nth_error_upd_eq; auto. }
      destruct Ein as (vs & -> & Ct1).
      exists [LEnter t], s1. split; [simpl; rewrite Nat.eqb_refl; reflexivity|]. split; [cbn [run]; rewrite Hs; reflexivity|]. split; [auto|]. split; [exists vs; exact Ct1|].
      intros u Hu. rewrite Ht. apply nth_error_upd_neq. auto.
    + exists [], s. split; [reflexivity|]. split; [reflexivity|]. split; [split; auto|]. split; [exists vs; exact Ct | auto].
Qed.
End Drive.

Lemma own_label_ffl t l : own_label t l = true -> ffl l = true.
Proof. destruct l; simpl; auto; discriminate. Qed.
Lemma run_app p : forall l1 l2 s s1 s2, run p s l1 = Some s1 -> run p s1 l2 = Some s2 -> run p s (l1 ++ l2) = Some s2.
Proof. induction l1 as [|a r IH]; intros l2 s s1 s2 H1 H2; simpl in *; [inversion H1; subst; auto|]. destruct (step p s a); [eapply IH; eauto|discriminate]. Qed.

Theorem overlap p rank : wfl p rank -> forall F, NoDup (map fst F) -> (forall tj, In tj F -> waitfree_upto p tj) ->
  exists ls s, forallb ffl ls = true /\ run p (init p) ls = Some s /\ forall tj, In tj F -> inside_at s tj.
Proof.
  intros W F.
  assert (Gen : forall F s0, good p s0 -> NoDup (map fst F) -> (forall tj, In tj F -> waitfree_upto p tj) ->
                 (forall tj, In tj F -> nth_error (s_thr s0) (fst tj) = Some (TRun 0 (PWait 0))) ->
                 exists ls s, forallb ffl ls = true /\ run p s0 ls = Some s /\ good p s /\ (forall tj, In tj F -> inside_at s tj) /\
                              (forall u, ~ In u (map fst F) -> nth_error (s_thr s) u = nth_error (s_thr s0) u)).
  { clear F. induction F as [|[t j] F IH]; intros s0 G0 ND Hwf H0.
    - exists [], s0. split; [reflexivity|]. split; [reflexivity|]. split; [auto|]. split; [intros tj []|auto].
    - inversion ND as [|? ? Hnin ND']; subst.
      destruct (IH s0 G0 ND' (fun tj H => Hwf tj (or_intror H)) (fun tj H => H0 tj (or_intror H))) as (ls1 & s1 & F1 & R1 & G1 & In1 & Oth1).
      assert (Ct : nth_error (s_thr s1) t = Some (TRun 0 (PWait 0))) by (rewrite (Oth1 t Hnin); apply (H0 (t, j)); left; auto).
      destruct (Hwf (t, j) (or_introl eq_refl)) as ((itj & Hj) & Hw).
      assert (Ets : exists its, nth_error (p_threads p) t = Some its).
      { destruct (nth_error (p_threads p) t) as [its|] eqn:E; [eauto|]. unfold item_at, items_of in Hj. simpl in Hj. rewrite nth_overflow in Hj by (apply nth_error_None; auto). destruct j; discriminate. }
      destruct Ets as (its & Ets).
      destruct (drive p rank W t j its Ets (Hwf (t, j) (or_introl eq_refl)) (S (base its j)) s1 0 (PWait 0) G1 Ct ltac:(unfold pos, off; rewrite base_0; lia)) as (ls2 & s2 & F2 & R2 & G2 & In2 & Oth2).
      { destruct j; [right; left; split; eauto | left; lia]. }
      exists (ls1 ++ ls2), s2. split; [|split; [|split; [auto|split]]].
      + rewrite forallb_app, F1. simpl. apply forallb_forall. intros l Hl. rewrite forallb_forall in F2. apply (own_label_ffl t). auto.
      + eapply run_app; eauto.
      + intros tj [<-|Hin]; [exact In2|]. destruct (In1 tj Hin) as (vs & Hvs). exists vs. rewrite Oth2; auto.
        intro E. apply Hnin. rewrite <- E. apply in_map. exact Hin.
      + intros u Hu. simpl in Hu. rewrite Oth2 by (intro E; apply Hu; left; auto). apply Oth1. intro E. apply Hu. right. exact E. }
  intros ND Hwf. destruct (Gen F (init p) (conj (inv_init p) (invL_init p)) ND Hwf) as (ls & s & A & B & _ & C & _).
  - intros tj Hin. destruct (Hwf tj Hin) as ((it & Hi) & _). unfold init. simpl. rewrite nth_error_map.
    destruct (nth_error (p_threads p) (fst tj)) eqn:E; [reflexivity|]. unfold item_at, items_of in Hi. rewrite nth_overflow in Hi by (apply nth_error_None; auto). destruct (snd tj); discriminate.
  - exists ls, s. auto.
Qed.

(* verified shape check, evaluated on observed programs *)
Definition c05b (p : prog) (F : list (nat * nat)) : bool :=
  Check.nodupb (map fst F) &&
  forallb (fun tj => match nth_error (p_threads p) (fst tj) with
                     | Some its => Nat.ltb (snd tj) (length its) && forallb (fun it => match it_waits it with [] => true | _ => false end) (firstn (S (snd tj)) its)
                     | None => false end) F.
Lemma c05b_sound p F : c05b p F = true -> NoDup (map fst F) /\ (forall tj, In tj F -> waitfree_upto p tj).
Proof.
  unfold c05b. intros H. apply andb_true_iff in H. destruct H as (H1 & H2). split; [apply Check.nodupb_sound; exact H1|].
  rewrite forallb_forall in H2. intros tj Hin. specialize (H2 tj Hin).
  destruct (nth_error (p_threads p) (fst tj)) as [its|] eqn:E; [|discriminate]. apply andb_true_iff in H2. destruct H2 as (Hl & Hf).
  apply Nat.ltb_lt in Hl. rewrite forallb_forall in Hf.
  assert (Eit : items_of p (fst tj) = its) by (unfold items_of; eapply nth_error_nth; eauto).
  split.
  - destruct (nth_error its (snd tj)) as [it|] eqn:Ei; [|apply nth_error_None in Ei; lia]. exists it. unfold item_at. rewrite Eit. exact Ei.
  - intros q it Hq Hi. unfold item_at in Hi. rewrite Eit in Hi.
    assert (Hin' : In it (firstn (S (snd tj)) its)).
    { rewrite <- (firstn_skipn (S (snd tj)) its) in Hi. rewrite nth_error_app1 in Hi; [eapply nth_error_In; eauto|].
      rewrite firstn_length. lia. }
    specialize (Hf it Hin'). destruct (it_waits it); [reflexivity|discriminate].
Qed.
Theorem overlap_checked p rk F : Check.check_code p rk = 0 -> c05b p F = true ->
  exists ls s, forallb ffl ls = true /\ run p (init p) ls = Some s /\ forall tj, In tj F -> inside_at s tj.
Proof.
  intros C H. destruct (c05b_sound p F H) as (ND & Hw). eapply overlap; eauto. apply Check.check_code_sound. exact C.
Qed.
