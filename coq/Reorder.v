(* C02, last clause: reordering the providers of a declaration never changes the value returned.
   (Regrouping into Sets is invisible here: a declaration is the flattened provider list, in Inject-argument order.)

   The type -> supplier map that NewGraph's two passes build is characterised extensionally (sup_char): a type maps to
   provider index pi, result gi exactly when the provider at pi is a supplier (not a Struct place-holder) whose FIRST
   result group containing the type is gi.  Nothing in this description mentions the order of the list, so two accepted
   declarations whose provider lists are permutations of each other give every type the same value - the same tree of the
   same providers; only the positions at which the providers stand in the list differ (same_value). *)
From Coq Require Import List Arith Bool NArith Lia Permutation.
Import ListNotations.
Require Import Gen GenSound Resolve Spec.

(* first result group of a provider that contains t *)
Fixpoint fg (t : N) (gi : nat) (gs : list (list N)) : option nat :=
  match gs with
  | [] => None
  | g :: r => if existsb (N.eqb t) g then Some gi else fg t (S gi) r
  end.

Definition supplies (provs : list Gen.prov) (pi gi : nat) (t : N) : Prop :=
  exists p, nth_error provs pi = Some p /\ Gen.isstruct p = false /\ fg t 0 (Gen.provides p) = Some gi.

(* the map is exactly the supplier relation *)
Definition J (pm : Gen.pmap) (provs : list Gen.prov) : Prop :=
  forall t pi gi, Gen.assoc t pm = Some (pi, gi) <-> supplies provs pi gi t.

Lemma assoc_snoc_none {A} t (pm : list (N * A)) k v : Gen.assoc t pm = None ->
  Gen.assoc t (pm ++ [(k, v)]) = if N.eqb t k then Some v else None.
Proof. intros H. rewrite (assoc_app_none t pm _ H). reflexivity. Qed.

Lemma existsb_eqb_in t l : existsb (N.eqb t) l = true <-> In t l.
Proof.
  rewrite existsb_exists. split.
  - intros (x & Hin & E). apply N.eqb_eq in E. subst. exact Hin.
  - intros Hin. exists t. split; [exact Hin|apply N.eqb_refl].
Qed.

(* ---------------- add_group / add_groups, described pointwise ---------------- *)
Lemma add_group_spec pi gi : forall ts pm pm', Gen.add_group pm pi gi ts = OK pm' ->
  (forall t, Gen.assoc t pm' = match Gen.assoc t pm with
                               | Some x => Some x
                               | None => if existsb (N.eqb t) ts then Some (pi, gi) else None end) /\
  (forall t pj gj, In t ts -> Gen.assoc t pm = Some (pj, gj) -> pj = pi).
Proof.
  induction ts as [|t0 r IH]; intros pm pm' H; simpl in H.
  - injection H as <-. split; [intros t; destruct (Gen.assoc t pm); reflexivity | intros t pj gj []].
  - destruct (Gen.assoc t0 pm) as [[pj0 gj0]|] eqn:A0.
    + destruct (Nat.eqb pi pj0) eqn:E; [|discriminate]. apply Nat.eqb_eq in E. subst pj0.
      destruct (IH _ _ H) as (S1 & S2). split.
      * intros t. rewrite S1. destruct (Gen.assoc t pm) eqn:At; [reflexivity|]. simpl.
        destruct (N.eqb t t0) eqn:Et; [apply N.eqb_eq in Et; subst; congruence | reflexivity].
      * intros t pj gj [->|Hin] At; [rewrite A0 in At; inversion At; reflexivity | eapply S2; eauto].
    + destruct (IH _ _ H) as (S1 & S2). split.
      * intros t. rewrite S1. destruct (Gen.assoc t pm) eqn:At.
        -- rewrite (assoc_app_some t pm _ _ At). reflexivity.
        -- rewrite (assoc_snoc_none t pm t0 (pi, gi) At). simpl. destruct (N.eqb t t0); [reflexivity|]. reflexivity.
      * intros t pj gj [->|Hin] At; [congruence|]. apply (S2 t pj gj Hin). apply assoc_app_some. exact At.
Qed.

Lemma add_groups_spec pi : forall gs gi pm pm', Gen.add_groups pm pi gi gs = OK pm' ->
  (forall t, Gen.assoc t pm' = match Gen.assoc t pm with
                               | Some x => Some x
                               | None => option_map (fun g => (pi, g)) (fg t gi gs) end) /\
  (forall t pj gj, (exists g, In g gs /\ In t g) -> Gen.assoc t pm = Some (pj, gj) -> pj = pi).
Proof.
  induction gs as [|g r IH]; intros gi pm pm' H; simpl in H.
  - injection H as <-. split; [intros t; destruct (Gen.assoc t pm); reflexivity | intros t pj gj (g & [] & _)].
  - destruct (Gen.add_group pm pi gi g) as [pm1|] eqn:G; [|discriminate].
    destruct (add_group_spec pi gi g pm pm1 G) as (A1 & A2). destruct (IH _ _ _ H) as (S1 & S2). split.
    + intros t. rewrite S1, A1. simpl. destruct (Gen.assoc t pm); [reflexivity|].
      destruct (existsb (N.eqb t) g); reflexivity.
    + intros t pj gj (g0 & [->|Hg] & Ht) At; [eapply A2; eauto|].
      apply (S2 t pj gj); [eauto|]. rewrite A1, At. reflexivity.
Qed.

Lemma fg_some_in t : forall gs gi g0, fg t gi gs = Some g0 -> exists g, In g gs /\ In t g.
Proof.
  induction gs as [|g r IH]; intros gi g0 H; simpl in H; [discriminate|].
  destruct (existsb (N.eqb t) g) eqn:E; [exists g; split; [left; auto|apply existsb_eqb_in; exact E]|].
  destruct (IH _ _ H) as (g1 & Hin & Ht). exists g1. split; [right; auto|auto].
Qed.

Lemma nth_error_snoc_lt {A} (l : list A) x i : i < length l -> nth_error (l ++ [x]) i = nth_error l i.
Proof. intros H. apply nth_error_app1. exact H. Qed.
Lemma nth_error_snoc_eq {A} (l : list A) x : nth_error (l ++ [x]) (length l) = Some x.
Proof. rewrite nth_error_app2 by lia. rewrite Nat.sub_diag. reflexivity. Qed.
Lemma nth_error_lt {A} (l : list A) i x : nth_error l i = Some x -> i < length l.
Proof. intros H. apply nth_error_Some. congruence. Qed.

Lemma supplies_snoc_lt provs p pi gi t : pi < length provs -> (supplies (provs ++ [p]) pi gi t <-> supplies provs pi gi t).
Proof. intros H. unfold supplies. rewrite (nth_error_snoc_lt provs p pi H). tauto. Qed.
Lemma supplies_lt provs pi gi t : supplies provs pi gi t -> pi < length provs.
Proof. intros (p & Hp & _). eapply nth_error_lt; eauto. Qed.

(* ---------------- first pass ---------------- *)
Lemma pass1_J : forall ps done pm pm', Gen.pass1 pm (length done) ps = OK pm' -> J pm done -> J pm' (done ++ ps).
Proof.
  induction ps as [|p r IH]; intros done pm pm' H Jd; simpl in H.
  - injection H as <-. rewrite app_nil_r. exact Jd.
  - assert (E : done ++ p :: r = (done ++ [p]) ++ r) by (rewrite <- app_assoc; reflexivity). rewrite E.
    assert (L : S (length done) = length (done ++ [p])) by (rewrite app_length; simpl; lia).
    destruct (Gen.isstruct p) eqn:Es.
    + rewrite L in H. apply (IH _ _ _ H). intros t pi gi. rewrite (Jd t pi gi). split.
      * intros S0. apply supplies_snoc_lt; [eapply supplies_lt; eauto|exact S0].
      * intros (p0 & Hp0 & Hs & Hf). destruct (Nat.lt_ge_cases pi (length done)) as [Hlt|Hge].
        -- rewrite (nth_error_snoc_lt done p pi Hlt) in Hp0. exists p0. auto.
        -- apply nth_error_lt in Hp0 as Hl. rewrite app_length in Hl. simpl in Hl. assert (pi = length done) by lia. subst pi.
           rewrite nth_error_snoc_eq in Hp0. inversion Hp0; subst. congruence.
    + destruct (Gen.add_groups pm (length done) 0 (Gen.provides p)) as [pm1|] eqn:G; [|discriminate].
      rewrite L in H. apply (IH _ _ _ H). destruct (add_groups_spec _ _ _ _ _ G) as (S1 & S2).
      intros t pi gi. rewrite S1. split.
      * destruct (Gen.assoc t pm) as [[pj gj]|] eqn:At.
        -- intros Hx. inversion Hx; subst pj gj. apply supplies_snoc_lt; [|apply Jd; exact At].
           eapply supplies_lt. apply Jd. exact At.
        -- destruct (fg t 0 (Gen.provides p)) as [g0|] eqn:Ef; simpl; [|discriminate]. intros Hx. inversion Hx; subst pi gi.
           exists p. split; [apply nth_error_snoc_eq|]. split; auto.
      * intros (p0 & Hp0 & Hs & Hf). destruct (Nat.lt_ge_cases pi (length done)) as [Hlt|Hge].
        -- rewrite (nth_error_snoc_lt done p pi Hlt) in Hp0.
           assert (At : Gen.assoc t pm = Some (pi, gi)) by (apply Jd; exists p0; auto). rewrite At. reflexivity.
        -- apply nth_error_lt in Hp0 as Hl. rewrite app_length in Hl. simpl in Hl. assert (pi = length done) by lia. subst pi.
           rewrite nth_error_snoc_eq in Hp0. inversion Hp0; subst p0.
           destruct (Gen.assoc t pm) as [[pj gj]|] eqn:At.
           ++ exfalso. assert (pj = length done) by (eapply S2; eauto; eapply fg_some_in; eauto). subst pj.
              assert (length done < length done) by (eapply supplies_lt; apply Jd; exact At). lia.
           ++ rewrite Hf. reflexivity.
Qed.

(* ---------------- second pass: the field accessors of Struct expansions ---------------- *)
Definition fields_of (s : Gen.prov) : list Gen.prov :=
  match hd_error (Gen.requires s) with Some st => map (Gen.mkfield st) (Gen.sfields s) | None => [] end.

Lemma fg_single t u : fg t 0 [[u]] = if N.eqb t u then Some 0 else None.
Proof. simpl. destruct (N.eqb t u); reflexivity. Qed.

Lemma add_fields_J st : forall fs pm provs pm' provs', Gen.add_fields pm provs st fs = OK (pm', provs') -> J pm provs ->
  J pm' provs' /\ provs' = provs ++ map (Gen.mkfield st) fs.
Proof.
  induction fs as [|f r IH]; intros pm provs pm' provs' H Jp; simpl in H.
  - injection H as <- <-. rewrite app_nil_r. auto.
  - destruct (Gen.assoc (snd f) pm) eqn:Af; [discriminate|].
    destruct (IH _ _ _ _ H) as (J' & E).
    + intros t pi gi. split.
      * destruct (Gen.assoc t pm) as [[pj gj]|] eqn:At.
        -- rewrite (assoc_app_some t pm _ _ At). intros Hx. inversion Hx; subst pj gj.
           apply supplies_snoc_lt; [eapply supplies_lt; apply Jp; exact At | apply Jp; exact At].
        -- rewrite (assoc_snoc_none t pm _ _ At). destruct (N.eqb t (snd f)) eqn:Et; [|discriminate]. intros Hx. inversion Hx; subst pi gi.
           exists (Gen.mkfield st f). split; [apply nth_error_snoc_eq|]. split; [reflexivity|]. cbn [Gen.provides Gen.mkfield]. rewrite fg_single, Et. reflexivity.
      * intros (p0 & Hp0 & Hs & Hf). destruct (Nat.lt_ge_cases pi (length provs)) as [Hlt|Hge].
        -- rewrite (nth_error_snoc_lt provs _ pi Hlt) in Hp0. apply assoc_app_some. apply Jp. exists p0. auto.
        -- apply nth_error_lt in Hp0 as Hl. rewrite app_length in Hl. simpl in Hl. assert (pi = length provs) by lia. subst pi.
           rewrite nth_error_snoc_eq in Hp0. inversion Hp0; subst p0. cbn [Gen.provides Gen.mkfield] in Hf. rewrite fg_single in Hf.
           destruct (N.eqb t (snd f)) eqn:Et; [|discriminate]. inversion Hf; subst gi. apply N.eqb_eq in Et. subst t.
           rewrite (assoc_snoc_none _ pm _ _ Af), N.eqb_refl. reflexivity.
    + split; [exact J'|]. rewrite E, <- app_assoc. reflexivity.
Qed.

Lemma pass2_loop_J : forall fuel ss k pm provs pm' provs', Gen.pass2_loop fuel pm provs ss k = OK (pm', provs') -> J pm provs ->
  J pm' provs' /\ exists ss', Permutation ss ss' /\ provs' = provs ++ flat_map fields_of ss'.
Proof.
  induction fuel as [|fuel IH]; intros ss k pm provs pm' provs' H Jp; simpl in H; [discriminate|].
  destruct ss as [|s r].
  - injection H as <- <-. split; [exact Jp|]. exists []. split; [constructor|]. rewrite app_nil_r. reflexivity.
  - destruct (hd_error (Gen.requires s)) as [st|] eqn:Eh; [|discriminate]. destruct (Gen.assoc st pm).
    + destruct (Gen.add_fields pm provs st (Gen.sfields s)) as [[pm1 provs1]|] eqn:Af; [|discriminate].
      destruct (add_fields_J st _ _ _ _ _ Af Jp) as (J1 & E1). destruct (IH _ _ _ _ _ _ H J1) as (J2 & r' & P & E2).
      split; [exact J2|]. exists (s :: r'). split; [constructor; exact P|].
      rewrite E2, E1, <- app_assoc. cbn [flat_map]. unfold fields_of at 2. rewrite Eh. reflexivity.
    + destruct (Gen.has_field_of st r && Nat.leb k (length r)); [|discriminate].
      destruct (IH _ _ _ _ _ _ H Jp) as (J2 & ss' & P & E2). split; [exact J2|]. exists ss'. split; [|exact E2].
      eapply Permutation_trans; [apply Permutation_cons_append|exact P].
Qed.

(* the supplier map of an accepted declaration, and the provider list it refers to (the field accessors stand behind the
   declared providers, in the order in which the structs were expanded) *)
Theorem sup_char : forall d pm provs, dpm d = Some (pm, provs) ->
  J pm provs /\ exists ss, Permutation (filter Gen.isstruct (Gen.d_provs d)) ss /\ provs = Gen.d_provs d ++ flat_map fields_of ss.
Proof.
  intros d pm provs H. unfold dpm in H. destruct (Gen.pass1 [] 0 (Gen.d_provs d)) as [pm1|] eqn:P1; [|discriminate].
  destruct (Gen.pass2 pm1 (Gen.d_provs d) (filter Gen.isstruct (Gen.d_provs d))) as [r|] eqn:P2; [|discriminate]. inversion H; subst r.
  assert (J1 : J pm1 (Gen.d_provs d)).
  { apply (pass1_J (Gen.d_provs d) [] [] pm1 P1). intros t pi gi. simpl. split; [discriminate|].
    intros (p & Hp & _). destruct pi; discriminate. }
  unfold Gen.pass2 in P2. apply (pass2_loop_J _ _ _ _ _ _ _ P2 J1).
Qed.

(* ---------------- permutations ---------------- *)
Lemma perm_filter {A} (f : A -> bool) l l' : Permutation l l' -> Permutation (filter f l) (filter f l').
Proof.
  induction 1 as [|x l l' P IH|x y l|l l' l'' P1 IH1 P2 IH2]; simpl.
  - constructor.
  - destruct (f x); [constructor|]; exact IH.
  - destruct (f x), (f y); try apply Permutation_refl. apply perm_swap.
  - eapply Permutation_trans; eauto.
Qed.
Lemma perm_flat_map {A B} (f : A -> list B) l l' : Permutation l l' -> Permutation (flat_map f l) (flat_map f l').
Proof.
  induction 1 as [|x l l' P IH|x y l|l l' l'' P1 IH1 P2 IH2]; simpl.
  - constructor.
  - apply Permutation_app_head. exact IH.
  - rewrite !app_assoc. apply Permutation_app_tail. apply Permutation_app_comm.
  - eapply Permutation_trans; eauto.
Qed.

Lemma perm_all_provs ps ps' ss ss' : Permutation ps ps' -> Permutation (filter Gen.isstruct ps) ss -> Permutation (filter Gen.isstruct ps') ss' ->
  Permutation (ps ++ flat_map fields_of ss) (ps' ++ flat_map fields_of ss').
Proof.
  intros P S S'. apply Permutation_app; [exact P|]. apply perm_flat_map.
  eapply Permutation_trans; [apply Permutation_sym; exact S|]. eapply Permutation_trans; [apply perm_filter; exact P|exact S'].
Qed.

(* ---------------- the same value, standing at other positions ---------------- *)
Section Same.
Variables provs provs' : list Gen.prov.
Inductive same_value : sval -> sval -> Prop :=
| SVArg t : same_value (SArgT t) (SArgT t)
| SVApp pi pi' gi p args args' : nth_error provs pi = Some p -> nth_error provs' pi' = Some p ->
    Forall2 same_value args args' -> same_value (SApp pi gi args) (SApp pi' gi args').
End Same.

Lemma in_nth_error {A} (x : A) l : In x l -> exists i, nth_error l i = Some x.
Proof. apply In_nth_error. Qed.

Theorem reorder_same_value : forall d d' pm provs pm' provs',
  Permutation (Gen.d_provs d) (Gen.d_provs d') ->
  dpm d = Some (pm, provs) -> dpm d' = Some (pm', provs') ->
  forall k v, ssize v <= k -> forall t, spec_den pm provs t v -> exists v', spec_den pm' provs' t v' /\ same_value provs provs' v v'.
Proof.
  intros d d' pm provs pm' provs' P H H'. destruct (sup_char d pm provs H) as (Jp & ss & S & E). destruct (sup_char d' pm' provs' H') as (Jp' & ss' & S' & E').
  assert (PP : Permutation provs provs') by (rewrite E, E'; apply perm_all_provs; auto).
  induction k as [|k IH]; intros v Hk t D; [destruct v; simpl in Hk; lia|].
  destruct D as [t A|t pi gi p vs A Hp F].
  - exists (SArgT t). split; [|constructor]. constructor.
    destruct (Gen.assoc t pm') as [[pi' gi']|] eqn:A'; [|reflexivity]. exfalso.
    apply Jp' in A'. destruct A' as (p' & Hp' & Hs' & Hf').
    assert (Hin : In p' provs) by (eapply Permutation_in; [apply Permutation_sym; exact PP | eapply nth_error_In; eauto]).
    destruct (in_nth_error _ _ Hin) as (i & Hi). assert (X : Gen.assoc t pm = Some (i, gi')) by (apply Jp; exists p'; auto). congruence.
  - apply Jp in A as Sup. destruct Sup as (p0 & Hp0 & Hs & Hf). rewrite Hp in Hp0. inversion Hp0; subst p0.
    assert (Hin : In p provs') by (eapply Permutation_in; [exact PP | eapply nth_error_In; eauto]).
    destruct (in_nth_error _ _ Hin) as (pi' & Hpi'). assert (A' : Gen.assoc t pm' = Some (pi', gi)) by (apply Jp'; exists p; auto).
    rewrite ssize_app in Hk. assert (Hs' : ssizes vs <= k) by lia.
    assert (G : exists vs', Forall2 (spec_den pm' provs') (Gen.requires p) vs' /\ Forall2 (same_value provs provs') vs vs').
    { clear - IH F Hs'. induction F as [|x v l l' Hxv F IHF]; [exists []; split; constructor|].
      rewrite ssizes_cons in Hs'. destruct (IH v ltac:(lia) x Hxv) as (v' & D' & S'). destruct (IHF ltac:(lia)) as (vs' & Fd & Fs).
      exists (v' :: vs'). split; constructor; auto. }
    destruct G as (vs' & Fd & Fs). exists (SApp pi' gi vs'). split; [eapply SDApp; eauto | econstructor; eauto].
Qed.

(* together with result_is_spec_value (Spec.v): the injectors generated from d and from any reordering d' of it return,
   in every run that returns, the same tree of the same provider functions applied to the same arguments *)
Theorem order_does_not_change_value : forall d d' pm provs pm' provs' v,
  Permutation (Gen.d_provs d) (Gen.d_provs d') -> Gen.d_ret d = Gen.d_ret d' ->
  dpm d = Some (pm, provs) -> dpm d' = Some (pm', provs') ->
  spec_den pm provs (Gen.d_ret d) v ->
  exists v', spec_den pm' provs' (Gen.d_ret d') v' /\ same_value provs provs' v v' /\
             forall w, spec_den pm' provs' (Gen.d_ret d') w -> w = v'.
Proof.
  intros d d' pm provs pm' provs' v P Hr H H' D. rewrite <- Hr.
  destruct (reorder_same_value d d' pm provs pm' provs' P H H' _ v (le_n _) _ D) as (v' & D' & S').
  exists v'. split; [exact D'|]. split; [exact S'|]. intros w Dw. symmetry. eapply (spec_den_fun pm' provs' _ _ (le_n _)); eauto.
Qed.

(* non-vacuity: the diamond of Spec.spec_example with its providers in another order *)
Example reorder_example :
  let p0 := Gen.mkfn [2;3]%N [[1%N]] false false in let p1 := Gen.mkfn [4%N] [[2%N]] false true in
  let p2 := Gen.mkfn [4%N] [[3%N]] true true in let p3 := Gen.mkfn [9%N] [[4%N]] false false in
  exists pm l pm' l', dpm {| Gen.d_ret := 1%N; Gen.d_provs := [p0; p1; p2; p3] |} = Some (pm, l) /\
    dpm {| Gen.d_ret := 1%N; Gen.d_provs := [p3; p2; p0; p1] |} = Some (pm', l') /\
    spec_eval pm l 10 1%N = Some (SApp 0 0 [SApp 1 0 [SApp 3 0 [SArgT 9%N]]; SApp 2 0 [SApp 3 0 [SArgT 9%N]]]) /\
    spec_eval pm' l' 10 1%N = Some (SApp 2 0 [SApp 3 0 [SApp 0 0 [SArgT 9%N]]; SApp 1 0 [SApp 0 0 [SArgT 9%N]]]).
Proof. do 4 eexists. repeat split; vm_compute; reflexivity. Qed.

(* ---------------- acceptance of the first pass does not depend on the order ---------------- *)
(* two different positions whose (non-Struct) providers supply the same type *)
Definition clash (ps : list Gen.prov) : Prop :=
  exists i j gi gj t, i <> j /\ supplies ps i gi t /\ supplies ps j gj t.

Lemma fg_in_some t : forall gs gi, (exists g, In g gs /\ In t g) -> exists g0, fg t gi gs = Some g0.
Proof.
  induction gs as [|g r IH]; intros gi (g0 & Hin & Ht); [destruct Hin|]. simpl.
  destruct (existsb (N.eqb t) g) eqn:E; [eauto|]. destruct Hin as [->|Hin]; [|apply IH; eauto].
  apply existsb_eqb_in in Ht. congruence.
Qed.

Lemma add_group_total pi gi : forall ts pm, (forall t pj gj, In t ts -> Gen.assoc t pm = Some (pj, gj) -> pj = pi) ->
  exists pm', Gen.add_group pm pi gi ts = OK pm'.
Proof.
  induction ts as [|t0 r IH]; intros pm H; simpl; [eauto|].
  destruct (Gen.assoc t0 pm) as [[pj gj]|] eqn:A.
  - rewrite (H t0 pj gj (or_introl eq_refl) A), Nat.eqb_refl. apply IH. intros t pj' gj' Hin. apply H. right. exact Hin.
  - apply IH. intros t pj gj Hin At. destruct (Gen.assoc t pm) as [[pj' gj']|] eqn:A'.
    + rewrite (assoc_app_some t pm _ _ A') in At. inversion At; subst. eapply H; [right; exact Hin|exact A'].
    + rewrite (assoc_snoc_none t pm t0 (pi, gi) A') in At. destruct (N.eqb t t0); [inversion At; reflexivity|discriminate].
Qed.
Lemma add_groups_total pi : forall gs gi pm, (forall t pj gj, (exists g, In g gs /\ In t g) -> Gen.assoc t pm = Some (pj, gj) -> pj = pi) ->
  exists pm', Gen.add_groups pm pi gi gs = OK pm'.
Proof.
  induction gs as [|g r IH]; intros gi pm H; simpl; [eauto|].
  destruct (add_group_total pi gi g pm) as (pm1 & E1); [intros t pj gj Hin; apply H; exists g; split; [left; auto|auto]|].
  rewrite E1. apply IH. intros t pj gj (g0 & Hg0 & Ht) At. destruct (add_group_spec pi gi g pm pm1 E1) as (S1 & _).
  rewrite S1 in At. destruct (Gen.assoc t pm) as [[pj' gj']|] eqn:A'.
  - inversion At; subst. eapply H; [exists g0; split; [right; exact Hg0|exact Ht]|exact A'].
  - destruct (existsb (N.eqb t) g); [inversion At; reflexivity|discriminate].
Qed.

Lemma supplies_app_l done ps pi gi t : supplies done pi gi t -> supplies (done ++ ps) pi gi t.
Proof. intros (p & Hp & Hs & Hf). exists p. split; [rewrite nth_error_app1; [exact Hp|eapply nth_error_lt; eauto]|auto]. Qed.

Lemma pass1_total : forall ps done pm, J pm done -> ~ clash (done ++ ps) -> exists pm', Gen.pass1 pm (length done) ps = OK pm'.
Proof.
  induction ps as [|p r IH]; intros done pm Jd NC; simpl; [eauto|].
  assert (E : done ++ p :: r = (done ++ [p]) ++ r) by (rewrite <- app_assoc; reflexivity).
  assert (L : S (length done) = length (done ++ [p])) by (rewrite app_length; simpl; lia).
  destruct (Gen.isstruct p) eqn:Es.
  - rewrite L. apply IH; [|rewrite <- E; exact NC].
    intros t pi gi. rewrite (Jd t pi gi). split.
    + intros S0. apply supplies_snoc_lt; [eapply supplies_lt; eauto|exact S0].
    + intros (p0 & Hp0 & Hs & Hf). destruct (Nat.lt_ge_cases pi (length done)) as [Hlt|Hge].
      * rewrite (nth_error_snoc_lt done p pi Hlt) in Hp0. exists p0. auto.
      * apply nth_error_lt in Hp0 as Hl. rewrite app_length in Hl. simpl in Hl. assert (pi = length done) by lia. subst pi.
        rewrite nth_error_snoc_eq in Hp0. inversion Hp0; subst. congruence.
  - destruct (add_groups_total (length done) (Gen.provides p) 0 pm) as (pm1 & G).
    + intros t pj gj Hex At. apply Jd in At. destruct (Nat.eq_dec pj (length done)) as [|Hne]; [assumption|]. exfalso. apply NC.
      destruct (fg_in_some t (Gen.provides p) 0 Hex) as (g0 & Hg0).
      exists pj, (length done), gj, g0, t. split; [exact Hne|]. split; [apply supplies_app_l; exact At|].
      exists p. split; [rewrite nth_error_app2 by lia; rewrite Nat.sub_diag; reflexivity|]. split; auto.
    + rewrite G, L. apply IH; [|rewrite <- E; exact NC].
      apply (pass1_J [p] done pm pm1); [simpl; rewrite Es, G; reflexivity|exact Jd].
Qed.

Theorem pass1_accepts_iff ps : (exists pm, Gen.pass1 [] 0 ps = OK pm) <-> ~ clash ps.
Proof.
  split.
  - intros (pm & H) (i & j & gi & gj & t & Hne & Si & Sj).
    assert (J0 : J pm ps).
    { apply (pass1_J ps [] [] pm H). intros t0 pi0 gi0. simpl. split; [discriminate|]. intros (p & Hp & _). destruct pi0; discriminate. }
    apply J0 in Si. apply J0 in Sj. congruence.
  - intros NC. apply (pass1_total ps [] []); [|exact NC].
    intros t pi gi. simpl. split; [discriminate|]. intros (p & Hp & _). destruct pi; discriminate.
Qed.

Lemma clash_perm ps ps' : Permutation ps ps' -> clash ps' -> clash ps.
Proof.
  intros P (i & j & gi & gj & t & Hne & (p & Hp & Hs & Hf) & (q & Hq & Hsq & Hfq)).
  apply Permutation_nth_error in P. destruct P as (_ & f & Inj & Hn).
  exists (f i), (f j), gi, gj, t. split; [intro E; apply Hne; apply Inj; exact E|].
  split; [exists p | exists q]; rewrite <- Hn; auto.
Qed.

(* the first pass accepts a provider list exactly when it accepts every reordering of it *)
Theorem pass1_order_independent ps ps' : Permutation ps ps' ->
  (exists pm, Gen.pass1 [] 0 ps = OK pm) -> exists pm', Gen.pass1 [] 0 ps' = OK pm'.
Proof.
  intros P H. apply pass1_accepts_iff. apply pass1_accepts_iff in H. intro C. apply H.
  (* clash_perm turns a clash of the second list into one of the first *)
  exact (clash_perm ps ps' P C).
Qed.

(* a declaration without Struct expansions: acceptance (a provider map exists) does not depend on the order of its providers *)
Theorem acceptance_order_independent_no_structs d d' :
  Permutation (Gen.d_provs d) (Gen.d_provs d') -> filter Gen.isstruct (Gen.d_provs d) = [] ->
  (exists r, dpm d = Some r) -> exists r', dpm d' = Some r'.
Proof.
  intros P NS (r & H). unfold dpm in *. destruct (Gen.pass1 [] 0 (Gen.d_provs d)) as [pm1|] eqn:P1; [|discriminate].
  destruct (pass1_order_independent _ _ P (ex_intro _ pm1 P1)) as (pm1' & P1'). rewrite P1'.
  assert (NS' : filter Gen.isstruct (Gen.d_provs d') = []).
  { pose proof (perm_filter Gen.isstruct _ _ P) as PF. rewrite NS in PF. apply Permutation_nil in PF. exact PF. }
  rewrite NS'. unfold Gen.pass2. simpl. eauto.
Qed.
