From Coq Require Import List Arith Lia Bool.
Import ListNotations.

(* buildStmts: which pools become which threads *)
Section BT.
Variable np : nat.
Variable pool : nat -> list nat.
Variable deps : nat -> list nat.
Variable isasync : nat -> bool.
Variable args : list nat.
Variable rk : nat -> nat.                  (* position in the topological order *)

Definition memn (x : nat) (l : list nat) : bool := existsb (Nat.eqb x) l.
Lemma memn_In x l : memn x l = true <-> In x l.
Proof. unfold memn. rewrite existsb_exists. split; [intros (y & H & E); apply Nat.eqb_eq in E; subst; auto | intros H; exists x; split; auto; apply Nat.eqb_refl]. Qed.
Definition isnil {A} (l : list A) : bool := match l with [] => true | _ => false end.

Definition ready (processed : list nat) (i : nat) : bool :=
  match pool i with f :: _ => forallb (fun d => memn d processed) (deps f) | [] => false end.
Definition asyncfirst (i : nat) : bool := match pool i with f :: _ => isasync f | [] => false end.

Record bst := { visited : list nat; processed : list nat; mainl : list nat; gos : list nat }.

Definition visit (st : bst) (i : nat) : bst :=
  {| visited := i :: visited st; processed := pool i ++ processed st;
     mainl := if asyncfirst i then mainl st else mainl st ++ pool i;
     gos := if asyncfirst i then gos st ++ [i] else gos st |}.
Definition scan (acc : bst * bool) (i : nat) : bst * bool :=
  let (st, pr) := acc in
  if memn i (visited st) || isnil (pool i) then acc
  else if ready (processed st) i then (visit st i, true) else acc.
Definition round (st : bst) : bst * bool := fold_left scan (seq 0 np) (st, false).
Fixpoint loop (fuel : nat) (st : bst) : bst :=
  match fuel with 0 => st | S f => let (st', pr) := round st in if pr then loop f st' else st' end.

(* the initial part of buildStmts *)
Definition initial : list nat := filter (fun i => negb (isnil (pool i)) && ready args i) (seq 0 np).
Definition mainidx : option nat :=
  match filter (fun i => negb (asyncfirst i)) initial with s :: _ => Some s | [] => hd_error initial end.
Definition start (m : nat) : bst :=
  let others := filter (fun i => negb (Nat.eqb i m)) initial in
  {| visited := m :: others; processed := args ++ pool m ++ concat (map pool others); mainl := pool m; gos := others |}.
Definition build : option bst := match mainidx with Some m => Some (loop (S np) (start m)) | None => None end.

(* ---- facts supplied by the scheduler proofs ---- *)
Hypothesis pool0 : pool 0 <> [] .
Hypothesis np_pos : 0 < np.
Hypothesis first0_ready : ready args 0 = true.                        (* the first provider only depends on arguments *)
Hypothesis later_async : forall i, 0 < i -> pool i <> [] -> asyncfirst i = true.

Lemma zero_initial : In 0 initial.
Proof. unfold initial. apply filter_In. split; [apply in_seq; lia|]. rewrite first0_ready. destruct (pool 0); [contradiction pool0; auto|auto]. Qed.

Lemma initial_sorted_hd : hd_error initial = Some 0.
Proof.
  unfold initial. destruct np as [|k]; [lia|]. simpl. rewrite first0_ready. destruct (pool 0) eqn:E; [contradiction pool0; auto|]. reflexivity.
Qed.

Theorem main_is_pool0 : mainidx = Some 0.
Proof.
  unfold mainidx. destruct (filter (fun i => negb (asyncfirst i)) initial) as [|s r] eqn:F.
  - apply initial_sorted_hd.
  - assert (Hs : In s (filter (fun i => negb (asyncfirst i)) initial)) by (rewrite F; left; auto).
    apply filter_In in Hs. destruct Hs as (Hi & Ha). apply filter_In in Hi. destruct Hi as (_ & Hn).
    destruct (Nat.eq_dec s 0) as [->|Hne]; auto. exfalso.
    assert (pool s <> []). { apply andb_true_iff in Hn. destruct Hn as (Hn & _). destruct (pool s); [discriminate|congruence]. }
    rewrite later_async in Ha by (auto; lia). discriminate.
Qed.

Hypothesis dep_placed : forall i f rest, i < np -> pool i = f :: rest -> forall d, In d (deps f) ->
  In d args \/ exists j, j < np /\ In d (pool j) /\ rk d < rk f.
Hypothesis first_min : forall j f rest x, pool j = f :: rest -> In x (pool j) -> rk f <= rk x.

Record BI (st : bst) : Prop := {
  b_nodup : NoDup (visited st);
  b_vis : forall i, In i (visited st) -> i < np /\ pool i <> [];
  b_zero : In 0 (visited st);
  b_main : mainl st = pool 0;
  b_gos : forall i, In i (gos st) <-> (In i (visited st) /\ i <> 0);
  b_gos_nodup : NoDup (gos st);
  b_args : forall x, In x args -> In x (processed st);
  b_proc : forall i x, In i (visited st) -> In x (pool i) -> In x (processed st) }.

Lemma visit_BI st i : BI st -> ~ In i (visited st) -> i < np -> pool i <> [] -> BI (visit st i).
Proof.
  intros B Hni Hi Hne.
  assert (Hi0 : i <> 0) by (intro; subst; apply Hni; apply (b_zero _ B)).
  assert (Ha : asyncfirst i = true) by (apply later_async; auto; lia).
  constructor; unfold visit; cbn [visited processed mainl gos]; rewrite ?Ha.
  - constructor; auto. apply (b_nodup _ B).
  - intros j [<-|Hj]; auto. apply (b_vis _ B); auto.
  - right. apply (b_zero _ B).
  - apply (b_main _ B).
  - intros j. split.
    + intros H. apply in_app_or in H. destruct H as [H|[<-|[]]]; [apply (b_gos _ B) in H; destruct H; split; auto; right; auto | split; auto; left; auto].
    + intros ([<-|Hj] & Hj0); apply in_or_app; [right; left; auto | left; apply (b_gos _ B); auto].
  - pose proof (b_gos_nodup _ B) as ND. assert (~ In i (gos st)) by (intro H; apply (b_gos _ B) in H; tauto).
    clear - ND H. induction (gos st) as [|x l IH]; simpl; [constructor; auto; constructor|].
    inversion ND; subst. constructor; [intro Hx; apply in_app_or in Hx; destruct Hx as [Hx|[Hx|[]]]; [auto | subst; apply H; left; auto] | apply IH; auto; intro; apply H; right; auto].
  - intros x Hx. apply in_or_app. right. apply (b_args _ B); auto.
  - intros j x [<-|Hj] Hx; apply in_or_app; [left; auto | right; eapply (b_proc _ B); eauto].
Qed.

(* one scan step / one round *)
Lemma scan_spec acc i : BI (fst acc) -> i < np ->
  BI (fst (scan acc i)) /\ (forall j, In j (visited (fst acc)) -> In j (visited (fst (scan acc i)))) /\
  (snd acc = true -> snd (scan acc i) = true) /\
  (snd (scan acc i) = false -> fst (scan acc i) = fst acc) /\
  (length (visited (fst acc)) <= length (visited (fst (scan acc i)))) /\
  (snd acc = false -> snd (scan acc i) = true -> length (visited (fst acc)) < length (visited (fst (scan acc i)))).
Proof.
  destruct acc as [st pr]. simpl. intros B Hi. unfold scan.
  assert (Same : BI st /\ (forall j, In j (visited st) -> In j (visited st)) /\ (pr = true -> pr = true) /\
                 (pr = false -> st = st) /\ length (visited st) <= length (visited st) /\
                 (pr = false -> pr = true -> length (visited st) < length (visited st))).
  { split; [exact B|]. split; [auto|]. split; [auto|]. split; [auto|]. split; [lia|intros H1 H2; congruence]. }
  destruct (memn i (visited st) || isnil (pool i)) eqn:E; [simpl; exact Same|].
  apply orb_false_iff in E. destruct E as (E1 & E2).
  destruct (ready (processed st) i) eqn:R; [|simpl; exact Same].
  simpl. split; [|split; [|split; [|split; [|split]]]].
  - apply visit_BI; auto.
    + intro H. apply memn_In in H. congruence.
    + destruct (pool i); [discriminate|congruence].
  - intros j Hj. right; auto.
  - auto.
  - intros; discriminate.
  - lia.
  - intros; lia.
Qed.

Lemma fold_scan : forall l acc, BI (fst acc) -> (forall i, In i l -> i < np) ->
  let r := fold_left scan l acc in
  BI (fst r) /\ (forall j, In j (visited (fst acc)) -> In j (visited (fst r))) /\
  (snd acc = true -> snd r = true) /\
  (snd r = false -> fst r = fst acc) /\
  (length (visited (fst acc)) <= length (visited (fst r))) /\
  (snd acc = false -> snd r = true -> length (visited (fst acc)) < length (visited (fst r))).
Proof.
  induction l as [|i l IH]; intros acc B Hl; simpl.
  - split; [exact B|]. split; [auto|]. split; [auto|]. split; [auto|]. split; [lia|intros H1 H2; congruence].
  - destruct (scan_spec acc i B (Hl i (or_introl eq_refl))) as (B1 & M1 & T1 & F1 & L1 & P1).
    destruct (IH (scan acc i) B1 (fun j Hj => Hl j (or_intror Hj))) as (B2 & M2 & T2 & F2 & L2 & P2).
    split; [exact B2|]. split; [intros j Hj; apply M2; apply M1; auto|]. split; [intros H; apply T2; apply T1; auto|].
    split; [|split].
    + intros H. rewrite (F2 H). apply F1. destruct (snd (scan acc i)) eqn:E; auto. rewrite T2 in H; auto.
    + lia.
    + intros Hf Ht. destruct (snd (scan acc i)) eqn:E; [specialize (P1 Hf eq_refl); lia | specialize (P2 eq_refl Ht); lia].
Qed.

(* a round that makes no progress found nothing ready *)
Lemma fold_scan_noprogress : forall l acc, snd (fold_left scan l acc) = false ->
  forall i, In i l -> ~ In i (visited (fst acc)) -> pool i <> [] -> ready (processed (fst acc)) i = false.
Proof.
  induction l as [|k l IH]; intros acc Hf i Hi Hv Hne; [destruct Hi|]. simpl in Hf.
  assert (Hk : snd (scan acc k) = false).
  { destruct (snd (scan acc k)) eqn:E; auto. exfalso.
    assert (forall l a, snd a = true -> snd (fold_left scan l a) = true).
    { clear. induction l as [|x l IH]; intros a Ha; simpl; auto. apply IH. destruct a as [st pr]. simpl in Ha. subst. unfold scan.
      destruct (memn x (visited st) || isnil (pool x)); auto. destruct (ready (processed st) x); auto. }
    rewrite H in Hf; auto; discriminate. }
  assert (Hsame : scan acc k = acc).
  { destruct acc as [st pr]. unfold scan in *. destruct (memn k (visited st) || isnil (pool k)); auto.
    destruct (ready (processed st) k); auto. simpl in Hk. discriminate. }
  destruct Hi as [->|Hi].
  - destruct acc as [st pr]. unfold scan in Hsame, Hk. simpl in *.
    destruct (memn i (visited st) || isnil (pool i)) eqn:E.
    + apply orb_true_iff in E. destruct E as [E|E]; [apply memn_In in E; contradiction | destruct (pool i); [congruence|discriminate]].
    + destruct (ready (processed st) i); [simpl in Hk; discriminate | reflexivity].
  - rewrite Hsame in Hf. eapply IH; eauto.
Qed.

(* coverage: when nothing is ready, every non-empty pool has been visited *)
Lemma stuck_covers st : BI st ->
  (forall i, i < np -> ~ In i (visited st) -> pool i <> [] -> ready (processed st) i = false) ->
  forall i, i < np -> pool i <> [] -> In i (visited st).
Proof.
  intros B Hst.
  assert (G : forall r i f rest, i < np -> pool i = f :: rest -> rk f <= r -> In i (visited st)).
  { induction r as [r IH] using lt_wf_ind. intros i f rest Hi Ep Hr.
    destruct (in_dec Nat.eq_dec i (visited st)) as [|Hni]; auto. exfalso.
    assert (Hne : pool i <> []) by (rewrite Ep; discriminate).
    pose proof (Hst i Hi Hni Hne) as Hr0. unfold ready in Hr0. rewrite Ep in Hr0.
    (* some dependency of f is not processed *)
    assert (exists d, In d (deps f) /\ ~ In d (processed st)).
    { clear - Hr0. induction (deps f) as [|d l IHl]; simpl in Hr0; [discriminate|].
      destruct (memn d (processed st)) eqn:M; simpl in Hr0.
      - destruct (IHl Hr0) as (x & Hx & Hn). exists x. split; auto. right; auto.
      - exists d. split; [left; auto|]. intro H. apply memn_In in H. congruence. }
    destruct H as (d & Hd & Hnp).
    destruct (dep_placed i f rest Hi Ep d Hd) as [Ha|(j & Hj & Hin & Hlt)]; [apply Hnp; apply (b_args _ B); auto|].
    destruct (pool j) as [|fj restj] eqn:Ej; [destruct Hin|].
    assert (In j (visited st)).
    { apply (IH (rk fj)) with (f := fj) (rest := restj); auto.
      pose proof (first_min j fj restj d Ej). rewrite Ej in H. specialize (H Hin). lia. }
    apply Hnp. eapply (b_proc _ B); eauto. rewrite Ej. auto. }
  intros i Hi Hne. destruct (pool i) as [|f rest] eqn:Ep; [congruence|]. eapply (G (rk f)); eauto.
Qed.

Lemma loop_covers : forall fuel st, BI st -> np < fuel + length (visited st) ->
  BI (loop fuel st) /\ forall i, i < np -> pool i <> [] -> In i (visited (loop fuel st)).
Proof.
  induction fuel as [|fuel IH]; intros st B Hf.
  - (* visited is a duplicate-free subset of [0,np): impossible *)
    exfalso. assert (length (visited st) <= np); [|simpl in Hf; lia].
    rewrite <- (seq_length np 0). apply NoDup_incl_length; [apply (b_nodup _ B)|]. intros i Hi. apply in_seq. destruct (b_vis _ B i Hi). lia.
  - simpl. unfold round. destruct (fold_left scan (seq 0 np) (st, false)) as [st' pr] eqn:E.
    pose proof (fold_scan (seq 0 np) (st, false) B (fun i Hi => proj2 (proj1 (in_seq _ _ _) Hi))) as F. rewrite E in F. simpl in F.
    destruct F as (B' & M & _ & Fs & L & P).
    destruct pr.
    + apply IH; auto. specialize (P eq_refl eq_refl). lia.
    + split; auto. rewrite (Fs eq_refl). apply stuck_covers; auto.
      intros i Hi Hni Hne. apply (fold_scan_noprogress (seq 0 np) (st, false)); [rewrite E; auto | apply in_seq; lia | auto | auto].
Qed.

Lemma start_BI : BI (start 0).
Proof.
  set (others := filter (fun i => negb (Nat.eqb i 0)) initial).
  assert (Hoth : forall i, In i others <-> In i initial /\ i <> 0).
  { intros i. unfold others. rewrite filter_In. split; intros (A & B); split; auto; [apply negb_true_iff in B; apply Nat.eqb_neq; auto | apply negb_true_iff; apply Nat.eqb_neq; auto]. }
  assert (Hini : forall i, In i initial -> i < np /\ pool i <> []).
  { intros i H. unfold initial in H. apply filter_In in H. destruct H as (H1 & H2). apply in_seq in H1. apply andb_true_iff in H2.
    destruct H2 as (H2 & _). split; [lia|]. destruct (pool i); [discriminate|congruence]. }
  assert (NDo : NoDup others) by (unfold others, initial; apply NoDup_filter; apply NoDup_filter; apply seq_NoDup).
  constructor; unfold start; fold others; cbn [visited processed mainl gos].
  - constructor; auto. intro H. apply Hoth in H. destruct H; congruence.
  - intros i [<-|H]; [split; auto | apply Hini; apply Hoth in H; tauto].
  - left; auto.
  - reflexivity.
  - intros i. rewrite Hoth. split; [intros (A & B); split; auto; right; apply Hoth; auto | intros ([E|H] & B); [congruence | apply Hoth in H; auto]].
  - exact NDo.
  - intros x Hx. apply in_or_app; auto.
  - intros i x [<-|Hi] Hx; apply in_or_app; right; apply in_or_app; [left; auto | right; apply in_concat; exists (pool i); split; auto; apply in_map; auto].
Qed.

Theorem build_spec : exists st, build = Some st /\
  NoDup (0 :: gos st) /\ (forall i, In i (0 :: gos st) -> i < np /\ pool i <> []) /\
  (forall i, i < np -> pool i <> [] -> In i (0 :: gos st)) /\ mainl st = pool 0.
Proof.
  unfold build. rewrite main_is_pool0. eexists. split; [reflexivity|].
  destruct (loop_covers (S np) (start 0) start_BI) as (B & C).
  { simpl. lia. }
  split; [|split; [|split]].
  - constructor; [intro H; apply (b_gos _ B) in H; destruct H; congruence | apply (b_gos_nodup _ B)].
  - intros i [<-|H]; [split; auto | apply (b_vis _ B); apply (b_gos _ B) in H; tauto].
  - intros i Hi Hne. destruct (Nat.eq_dec i 0) as [->|Hn]; [left; auto|]. right. apply (b_gos _ B). split; auto.
  - apply (b_main _ B).
Qed.
End BT.
Print Assumptions build_spec.
