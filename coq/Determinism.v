(* Order independence of the two places where the generator iterates over a Go map whose order could reach the output
   (C11): the import block (collected from a map, then sorted by path) and the adjacency table of
   findMaximumAntichainSize (filled by ranging over the edges map). *)
From Coq Require Import List Arith Lia Bool Sorting Permutation.
Import ListNotations.

(* ---- imports: keys are distinct paths; insertion sort by key ---- *)
Section Sort.
Variable A : Type.
Variable key : A -> nat.
Fixpoint insert (x : A) (l : list A) : list A :=
  match l with [] => [x] | y :: r => if Nat.leb (key x) (key y) then x :: l else y :: insert x r end.
Fixpoint isort (l : list A) : list A := match l with [] => [] | x :: r => insert x (isort r) end.

Lemma insert_perm x l : Permutation (x :: l) (insert x l).
Proof. induction l as [|y r IH]; simpl; auto. destruct (Nat.leb (key x) (key y)); auto. apply perm_trans with (y :: x :: r); [apply perm_swap | apply perm_skip; auto]. Qed.
Lemma isort_perm l : Permutation l (isort l).
Proof. induction l as [|x r IH]; simpl; auto. apply perm_trans with (x :: isort r); [apply perm_skip; auto | apply insert_perm]. Qed.

Definition sorted (l : list A) : Prop := StronglySorted (fun a b => key a <= key b) l.
Lemma insert_sorted x l : sorted l -> sorted (insert x l).
Proof.
  unfold sorted. induction l as [|y r IH]; intros S; simpl; [repeat constructor|].
  destruct (Nat.leb_spec (key x) (key y)) as [L|L].
  - constructor; auto. inversion S; subst. constructor; auto. eapply Forall_impl; [|exact H2]. intros a Ha. simpl in *. lia.
  - inversion S; subst. constructor; [apply IH; auto|].
    apply Forall_forall. intros a Ha. apply (Permutation_in _ (Permutation_sym (insert_perm x r))) in Ha.
    destruct Ha as [<-|Ha]; [lia|]. rewrite Forall_forall in H2. apply H2; auto.
Qed.
Lemma isort_sorted l : sorted (isort l).
Proof. induction l as [|x r IH]; simpl; [constructor | apply insert_sorted; auto]. Qed.

(* two sorted lists with distinct keys that are permutations of one another are equal *)
Lemma sorted_unique : forall l l', sorted l -> sorted l' -> NoDup (map key l) -> Permutation l l' -> l = l'.
Proof.
  induction l as [|x r IH]; intros l' S S' ND P.
  - apply Permutation_nil in P. subst; auto.
  - destruct l' as [|y r']; [apply Permutation_sym, Permutation_nil in P; discriminate|].
    inversion S as [|? ? Sr Fx]; subst. inversion S' as [|? ? Sr' Fy]; subst. inversion ND as [|? ? Nx NDr]; subst.
    assert (ND' : NoDup (map key (y :: r'))) by (eapply Permutation_NoDup; [apply Permutation_map; exact P|exact ND]).
    assert (E : x = y).
    { assert (Hx : In x (y :: r')) by (eapply Permutation_in; [exact P|left; auto]).
      assert (Hy : In y (x :: r)) by (eapply Permutation_in; [apply Permutation_sym; exact P|left; auto]).
      destruct Hx as [Hx|Hx]; [auto|]. destruct Hy as [Hy|Hy]; [auto|].
      rewrite Forall_forall in Fx, Fy. pose proof (Fx _ Hy) as L1. pose proof (Fy _ Hx) as L2. simpl in *.
      assert (K : key x = key y) by lia. exfalso. inversion ND' as [|? ? Ny _]; subst. apply Ny. rewrite <- K. apply in_map. exact Hx. }
    subst y. f_equal. apply IH; auto. eapply Permutation_cons_inv; eauto.
Qed.

Theorem isort_order_independent : forall l l', NoDup (map key l) -> Permutation l l' -> isort l = isort l'.
Proof.
  intros l l' ND P. apply sorted_unique; try apply isort_sorted.
  - eapply Permutation_NoDup; [apply Permutation_map; apply isort_perm|exact ND].
  - eapply perm_trans; [apply Permutation_sym; apply isort_perm|]. eapply perm_trans; [exact P|apply isort_perm].
Qed.
End Sort.

(* ---- adjacency table: adj[idx n] = append (adj[idx n]) (targets of n), ranging over the edges map in any order ---- *)
Section Adj.
Variable targets : nat -> list nat.
Definition fupd (f : nat -> list nat) (k : nat) (v : list nat) : nat -> list nat := fun m => if Nat.eqb m k then v else f m.
Definition fill (order : list nat) : nat -> list nat := fold_left (fun adj n => fupd adj n (adj n ++ targets n)) order (fun _ => []).

Lemma fill_spec : forall order adj0 m, NoDup order ->
  fold_left (fun adj n => fupd adj n (adj n ++ targets n)) order adj0 m = if existsb (Nat.eqb m) order then adj0 m ++ targets m else adj0 m.
Proof.
  induction order as [|n r IH]; intros adj0 m ND; simpl; auto. inversion ND; subst.
  rewrite IH by auto. unfold fupd. destruct (Nat.eqb_spec m n) as [->|Hne]; simpl.
  - assert (E : existsb (Nat.eqb n) r = false).
    { apply not_true_is_false. intro H. apply existsb_exists in H. destruct H as (y & Hy & Ey). apply Nat.eqb_eq in Ey. subst. contradiction. }
    rewrite E. reflexivity.
  - reflexivity.
Qed.
Theorem fill_order_independent : forall o o', NoDup o -> Permutation o o' -> forall m, fill o m = fill o' m.
Proof.
  intros o o' ND P m. unfold fill. rewrite !fill_spec; auto; [|eapply Permutation_NoDup; eauto].
  assert (E : existsb (Nat.eqb m) o = existsb (Nat.eqb m) o').
  { destruct (existsb (Nat.eqb m) o) eqn:A; symmetry.
    - apply existsb_exists in A. destruct A as (y & Hy & Ey). apply existsb_exists. exists y. split; auto. eapply Permutation_in; eauto.
    - apply not_true_is_false. intro B. apply existsb_exists in B. destruct B as (y & Hy & Ey).
      assert (existsb (Nat.eqb m) o = true); [|congruence]. apply existsb_exists. exists y. split; auto. eapply Permutation_in; [apply Permutation_sym|]; eauto. }
  rewrite E. reflexivity.
Qed.
End Adj.
