(* C03: no completion is signalled twice - in EVERY execution (failures and cancellation included) of a well-synchronised
   program, a thread that stands at close(ch) finds ch not yet closed; and every awaited signal has exactly one sender. *)
From Coq Require Import List Arith Lia Bool.
Import ListNotations.
Require Import Sem2 Safe Live LiveInv.

Lemma runL_inv p : forall ls s s', wf p -> InvL p s -> run p s ls = Some s' -> InvL p s'.
Proof.
  induction ls as [|l ls IH]; intros s s' W I R; simpl in R.
  - inversion R; subst; exact I.
  - destruct (step p s l) as [s1|] eqn:E; [|discriminate]. apply (IH s1 s' W); auto. eapply stepL_inv; eauto.
Qed.

Theorem never_closes_twice p rank ls s t pc k it x : wfl p rank -> run p (init p) ls = Some s ->
  nth_error (s_thr s) t = Some (TRun pc (PClose k)) -> item_at p t pc = Some it -> nth_error (it_closes it) k = Some x ->
  ~ In x (s_closed s).
Proof.
  intros W R Ht Hit Hk Hin.
  pose proof (runL_inv p ls (init p) s (wfl_wf _ _ W) (invL_init p) R) as I.
  destruct (il_closed_src p s I x Hin) as (t' & j & it' & Hit' & Hx' & Hst).
  assert (Hx : In x (it_closes it)) by (eapply nth_error_In; eauto).
  assert (N1 : fst x = it_node it) by (eapply (wf_closes p (wfl_wf _ _ W)); eauto).
  assert (N2 : fst x = it_node it') by (eapply (wf_closes p (wfl_wf _ _ W)); eauto).
  destruct (loc_unique p (wfl_wf _ _ W) t t' pc j it it' Hit Hit') as (<- & <-); [congruence|].
  rewrite Hit in Hit'. inversion Hit'; subst it'. rewrite Ht in Hst.
  destruct Hst as [Hlt|(_ & k' & i & Eph & Hi & Hnth)]; [lia|].
  inversion Eph; subst k'.
  pose proof (wfl_closes_nodup p rank W t pc it Hit) as ND.
  rewrite NoDup_nth_error in ND.
  assert (i = k); [|lia]. apply ND; [apply nth_error_Some; congruence | congruence].
Qed.

(* so the close step of that thread is enabled: it is never the panic of the model (close of a closed channel) *)
Theorem close_step_enabled p rank ls s t pc k it x : wfl p rank -> run p (init p) ls = Some s ->
  cur p s t = Some (pc, PClose k, it) -> nth_error (it_closes it) k = Some x -> exists s', step p s (LClose t) = Some s'.
Proof.
  intros W R C Hk. pose proof (cur_spec p s t pc (PClose k) it C) as H.
  assert (Hn : ~ In x (s_closed s)).
  { eapply never_closes_twice; eauto; apply H. }
  simpl. rewrite C, Hk. destruct (mem x (s_closed s)) eqn:M; [|eauto].
  exfalso. apply Hn. unfold mem in M. destruct (in_dec var_eq_dec x (s_closed s)); [assumption|discriminate].
Qed.

(* every signal a thread waits for has exactly one position in the program that sends it *)
Theorem one_sender_per_signal p rank t j it x : wfl p rank -> item_at p t j = Some it -> In x (it_waits it) ->
  exists t' j' it', item_at p t' j' = Some it' /\ In x (it_closes it') /\
  forall t2 j2 it2, item_at p t2 j2 = Some it2 -> In x (it_closes it2) -> t2 = t' /\ j2 = j'.
Proof.
  intros W Hit Hx. destruct (wfl_wait p rank W t j it x Hit Hx) as (t' & j' & it' & H1 & H2 & H3 & _).
  exists t', j', it'. repeat split; auto;
  destruct (loc_unique p (wfl_wf _ _ W) t2 t' j2 j' it2 it' H H1) as (A & B); auto;
  rewrite <- (wf_closes p (wfl_wf _ _ W) t2 j2 it2 x H H0); auto.
Qed.
