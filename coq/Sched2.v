From Coq Require Import List Arith Lia Bool FinFun.
Import ListNotations.
Require Import Kahn Pool Sem2 Safe Live Threads.

(* list position utilities *)
Fixpoint pos (x : nat) (l : list nat) : nat :=
  match l with [] => 0 | y :: r => if Nat.eqb x y then 0 else S (pos x r) end.
Lemma pos_app_lt x y l1 l2 : ~ In y l1 -> In x l1 -> pos x (l1 ++ y :: l2) < pos y (l1 ++ y :: l2).
Proof.
  induction l1 as [|a l1 IH]; intros Hy Hx; [destruct Hx|]. simpl.
  destruct (Nat.eqb x a) eqn:E1; destruct (Nat.eqb y a) eqn:E2.
  - apply Nat.eqb_eq in E2; subst. exfalso. apply Hy. left; auto.
  - lia.
  - apply Nat.eqb_eq in E2; subst. exfalso. apply Hy. left; auto.
  - apply -> Nat.succ_lt_mono. apply IH; [intro; apply Hy; right; auto|]. destruct Hx as [->|Hx]; auto. rewrite Nat.eqb_refl in E1. discriminate.
Qed.

Section Sched.
Variable nn : nat.
Variable outs : nat -> list (nat * nat).
Variable nreq : nat -> nat.
Variable src : nat -> nat -> nat.
Variable sidx : nat -> nat -> nat.          (* which result of the producer feeds parameter i of c *)
Variable nprov : nat -> nat.                (* number of result groups *)
Variable isarg isasync : nat -> bool.
Variable np : nat.                          (* number of pools (antichain size) *)

Hypothesis outs_src : forall n c i, In (c, i) (outs n) <-> (c < nn /\ i < nreq c /\ src c i = n).
Hypothesis outs_nodup : forall n, NoDup (outs n).
Hypothesis src_lt : forall c i, c < nn -> i < nreq c -> src c i < nn.
Hypothesis sidx_lt : forall c i, c < nn -> i < nreq c -> isarg (src c i) = false -> sidx c i < nprov (src c i).
Hypothesis arg_noreq : forall n, isarg n = true -> nreq n = 0.
Hypothesis arg_lt : forall n, isarg n = true -> n < nn.
Variable rank0 : nat -> nat.
Hypothesis acyclic : forall c i, c < nn -> i < nreq c -> rank0 (src c i) < rank0 c.
Hypothesis np_pos : 0 < np.

Definition tp : list nat := topo nn outs nreq.
Definition deps (n : nat) : list nat := map (src n) (seq 0 (nreq n)).
Definition args : list nat := filter isarg (seq 0 nn).

Definition updf {A} (l : list A) (i : nat) (f : A -> A) : list A :=
  (fix go l i := match l, i with [] , _ => [] | x :: r, 0 => f x :: r | x :: r, S j => x :: go r j end) l i.
Lemma updf_length {A} (l : list A) i f : length (updf l i f) = length l.
Proof. revert i; induction l as [|x l IH]; intros [|i]; simpl; auto. Qed.
Lemma nth_updf_eq {A} (l : list A) i f d : i < length l -> nth i (updf l i f) d = f (nth i l d).
Proof. revert i; induction l as [|x l IH]; intros [|i] H; simpl in *; try lia; auto. apply IH; lia. Qed.
Lemma nth_updf_neq {A} (l : list A) i j f d : i <> j -> nth j (updf l i f) d = nth j l d.
Proof. revert i j; induction l as [|x l IH]; intros [|i] [|j] H; simpl; auto; congruence. Qed.

(* Build, first pass; asg is the ghost record node -> pool, in placement order *)
Record ast := { pools : list (list nat); pprov : list (list nat); asg : list (nat * nat) }.
Definition place (st : ast) (n : nat) : ast :=
  if isarg n then st
  else let i := find_pool isasync deps n (pools st) (pprov st) in
       {| pools := updf (pools st) i (fun l => l ++ [n]); pprov := updf (pprov st) i (fun l => n :: l); asg := asg st ++ [(n, i)] |}.
Definition ast0 : ast := {| pools := repeat [] np; pprov := repeat args np; asg := [] |}.
Definition final : ast := fold_left place tp ast0.

Definition inpool (a : list (nat * nat)) (i : nat) : list nat := map fst (filter (fun x => Nat.eqb (snd x) i) a).

Record ainv (st : ast) (pre : list nat) : Prop := {
  a_len : length (pools st) = np;
  a_len' : length (pprov st) = np;
  a_asg : map fst (asg st) = filter (fun n => negb (isarg n)) pre;
  a_idx : forall x, In x (asg st) -> snd x < np;
  a_pool : forall i, i < np -> nth i (pools st) [] = inpool (asg st) i }.

Lemma inpool_app a b i : inpool (a ++ b) i = inpool a i ++ inpool b i.
Proof. unfold inpool. rewrite filter_app, map_app. auto. Qed.

Lemma place_inv st pre n : ainv st pre -> ainv (place st n) (pre ++ [n]).
Proof.
  intros I. unfold place. destruct (isarg n) eqn:A.
  - destruct I. constructor; auto. rewrite filter_app. simpl. rewrite A. simpl. rewrite app_nil_r. auto.
  - set (i := find_pool isasync deps n (pools st) (pprov st)).
    assert (Hi : i < np).
    { rewrite <- (a_len _ _ I). apply find_pool_range; [rewrite (a_len _ _ I), (a_len' _ _ I); auto | rewrite (a_len _ _ I); auto]. }
    constructor; cbn [pools pprov asg].
    + rewrite updf_length. apply (a_len _ _ I).
    + rewrite updf_length. apply (a_len' _ _ I).
    + rewrite map_app, filter_app. simpl. rewrite A. simpl. rewrite (a_asg _ _ I). auto.
    + intros x Hx. apply in_app_or in Hx. destruct Hx as [Hx|[<-|[]]]; [apply (a_idx _ _ I); auto | auto].
    + intros j Hj. rewrite inpool_app. unfold inpool at 2. simpl. destruct (Nat.eq_dec i j) as [<-|Hne].
      * rewrite Nat.eqb_refl. simpl. rewrite nth_updf_eq by (rewrite (a_len _ _ I); auto). rewrite (a_pool _ _ I) by auto. auto.
      * assert (E : Nat.eqb i j = false) by (apply Nat.eqb_neq; auto). rewrite E. simpl. rewrite app_nil_r.
        rewrite nth_updf_neq by auto. apply (a_pool _ _ I); auto.
Qed.

Lemma fold_place_inv : forall l st pre, ainv st pre -> ainv (fold_left place l st) (pre ++ l).
Proof.
  induction l as [|n l IH]; intros st pre I; simpl; [rewrite app_nil_r; auto|].
  replace (pre ++ n :: l) with ((pre ++ [n]) ++ l) by (rewrite <- app_assoc; auto). apply IH. apply place_inv; auto.
Qed.

Lemma ast0_inv : ainv ast0 [].
Proof.
  constructor; unfold ast0; cbn [pools pprov asg]; auto using repeat_length.
  - intros x [].
  - intros i Hi. unfold inpool. simpl. apply nth_repeat.
Qed.

Lemma final_inv : ainv final tp.
Proof. apply (fold_place_inv tp ast0 []). apply ast0_inv. Qed.

(* ---------------- facts about the topological order ---------------- *)
Lemma tp_facts :
  NoDup tp /\ (forall c, In c tp -> c < nn) /\ (forall c, c < nn -> In c tp) /\
  (forall l1 c l2, tp = l1 ++ c :: l2 -> forall i, i < nreq c -> In (src c i) l1).
Proof.
  destruct (topo_valid nn outs nreq src outs_src outs_nodup src_lt) as (vis & E & ND & R & B & C).
  unfold tp. rewrite E. split; [apply NoDup_rev; auto|]. split; [intros c Hc; apply R; apply in_rev; auto|].
  split; [intros c Hc; apply -> in_rev; apply (C rank0 acyclic c Hc)|].
  intros l1 c l2 El i Hi.
  assert (Ev : vis = rev l2 ++ c :: rev l1).
  { rewrite <- (rev_involutive vis), El, rev_app_distr. simpl. rewrite <- app_assoc. auto. }
  assert (Hc : In c vis) by (rewrite Ev; apply in_or_app; right; left; auto).
  apply in_rev. apply (B c Hc _ _ Ev i Hi).
Qed.

(* order is inherited by filtered sublists *)
Lemma filter_order {A} (f : A -> bool) (l : list A) : forall m1 b m2, filter f l = m1 ++ b :: m2 ->
  exists l1 l2, l = l1 ++ b :: l2 /\ (forall a, In a m1 -> In a l1).
Proof.
  induction l as [|x l IH]; intros m1 b m2 E; simpl in E; [destruct m1; discriminate|].
  destruct (f x) eqn:F.
  - destruct m1 as [|y m1]; simpl in E; inversion E; subst.
    + exists [], l. split; [reflexivity | intros a []].
    + destruct (IH _ _ _ H1) as (l1 & l2 & El & Hin). exists (y :: l1), l2. split; [simpl; rewrite El; auto|].
      intros a [<-|Ha]; [left; auto | right; auto].
  - destruct (IH _ _ _ E) as (l1 & l2 & El & Hin). exists (x :: l1), l2. split; [simpl; rewrite El; auto|].
    intros a Ha. right; auto.
Qed.
Lemma map_split_fst (a : list (nat * nat)) : forall m1 b m2, map fst a = m1 ++ b :: m2 ->
  exists a1 x a2, a = a1 ++ x :: a2 /\ map fst a1 = m1 /\ fst x = b /\ map fst a2 = m2.
Proof.
  induction a as [|y a IH]; intros m1 b m2 E; simpl in E; [destruct m1; discriminate|].
  destruct m1 as [|z m1]; simpl in E; inversion E; subst.
  - exists [], y, a. auto.
  - destruct (IH _ _ _ H1) as (a1 & x & a2 & Ea & E1 & E2 & E3). exists (y :: a1), x, a2. subst. auto.
Qed.

Definition A := asg final.
Lemma A_nodes : map fst A = filter (fun n => negb (isarg n)) tp. Proof. apply (a_asg _ _ final_inv). Qed.
Lemma A_nodup : NoDup (map fst A). Proof. rewrite A_nodes. apply NoDup_filter. apply tp_facts. Qed.

Definition pool (i : nat) : list nat := inpool A i.

(* order inside a pool follows the topological order *)
Lemma pool_order i m1 b m2 : pool i = m1 ++ b :: m2 ->
  exists l1 l2, tp = l1 ++ b :: l2 /\ (forall a, In a m1 -> In a l1).
Proof.
  unfold pool, inpool. intros E.
  destruct (map_split_fst _ _ _ _ E) as (a1 & x & a2 & Ea & E1 & E2 & E3).
  destruct (filter_order _ _ _ _ _ Ea) as (b1 & b2 & Eb & Hb).
  assert (E' : map fst A = map fst b1 ++ b :: map fst b2) by (rewrite Eb, map_app; simpl; rewrite E2; auto).
  rewrite A_nodes in E'. destruct (filter_order _ _ _ _ _ E') as (l1 & l2 & El & Hl).
  exists l1, l2. split; auto. intros a Ha. apply Hl. rewrite <- E1 in Ha. apply in_map_iff in Ha. destruct Ha as (y & <- & Hy).
  apply in_map. apply Hb. auto.
Qed.

Lemma in_pool_inv n i : In n (pool i) -> In (n, i) A.
Proof. unfold pool, inpool. intros H. apply in_map_iff in H. destruct H as ((n', i') & <- & H). apply filter_In in H. destruct H as (H & E). simpl in *. apply Nat.eqb_eq in E. subst. auto. Qed.
Lemma in_pool_intro n i : In (n, i) A -> In n (pool i).
Proof. intros H. unfold pool, inpool. apply in_map_iff. exists (n, i). split; auto. apply filter_In. split; auto. simpl. apply Nat.eqb_refl. Qed.
Lemma pool_unique n i j : In n (pool i) -> In n (pool j) -> i = j.
Proof.
  intros Hi Hj. apply in_pool_inv in Hi. apply in_pool_inv in Hj.
  pose proof A_nodup as ND. clear - Hi Hj ND. induction A as [|x a IH]; [destruct Hi|]. simpl in ND. inversion ND; subst.
  destruct Hi as [->|Hi]; destruct Hj as [E|Hj].
  - congruence.
  - exfalso. apply H1. apply (in_map fst) in Hj. auto.
  - subst. exfalso. apply H1. apply (in_map fst) in Hi. auto.
  - auto.
Qed.
Lemma provider_placed n : n < nn -> isarg n = false -> exists i, i < np /\ In n (pool i).
Proof.
  intros Hn Ha. assert (Hin : In n (map fst A)).
  { rewrite A_nodes. apply filter_In. split; [apply tp_facts; auto | rewrite Ha; auto]. }
  apply in_map_iff in Hin. destruct Hin as ((n', i) & <- & H). exists i. split; [apply (a_idx _ _ final_inv _ H) | apply in_pool_intro; auto].
Qed.
Lemma pool_nodes n i : In n (pool i) -> n < nn /\ isarg n = false.
Proof.
  intros H. apply in_pool_inv in H. apply (in_map fst) in H. rewrite A_nodes in H. apply filter_In in H. destruct H as (H1 & H2).
  split; [apply tp_facts; auto | simpl in H2; destruct (isarg n); [discriminate|reflexivity]].
Qed.

(* ---------------- shape of the pools (for buildStmts) ---------------- *)
Definition allin (provd ds : list nat) : Prop := forall d, In d ds -> In d provd.
Lemma cntp_full provd ds : allin provd ds -> Pool.cntp provd ds = length ds.
Proof.
  unfold Pool.cntp, allin. induction ds as [|d r IH]; intros H; simpl; auto.
  assert (Pool.memn d provd = true).
  { unfold Pool.memn. apply existsb_exists. exists d. split; [apply H; left; auto | apply Nat.eqb_refl]. }
  rewrite H0. simpl. f_equal. apply IH. intros x Hx. apply H. right; auto.
Qed.

Record PL (st : ast) : Prop := {
  pl_later : forall i, 0 < i -> nth i (pools st) [] = [] \/ exists a r, nth i (pools st) [] = a :: r /\ isasync a = true;
  pl_zero : nth 0 (pools st) [] = [] -> forall i, nth i (pools st) [] = [];
  pl_args : forall i, i < np -> forall x, In x args -> In x (nth i (pprov st) []);
  pl_head0 : forall f r, nth 0 (pools st) [] = f :: r -> allin args (deps f) }.

Lemma nth_updf {A} (l : list A) i j f d : nth j (updf l i f) d = if Nat.eqb i j then (if Nat.ltb j (length l) then f (nth j l d) else d) else nth j l d.
Proof.
  destruct (Nat.eqb i j) eqn:E.
  - apply Nat.eqb_eq in E. subst j. destruct (Nat.ltb i (length l)) eqn:L.
    + apply Nat.ltb_lt in L. apply nth_updf_eq; auto.
    + apply Nat.ltb_ge in L. rewrite nth_overflow by (rewrite updf_length; auto). reflexivity.
  - apply Nat.eqb_neq in E. apply nth_updf_neq; auto.
Qed.

Lemma place_PL st pre n : ainv st pre -> PL st -> isarg n = false ->
  ((forall i, nth i (pools st) [] = []) -> allin args (deps n)) -> PL (place st n).
Proof.
  intros AI P Ha Hctx. unfold place. rewrite Ha.
  set (i := find_pool isasync deps n (pools st) (pprov st)).
  assert (HLp : length (pprov st) = length (pools st)) by (rewrite (a_len _ _ AI), (a_len' _ _ AI); auto).
  assert (Hi : i < np) by (rewrite <- (a_len _ _ AI); apply find_pool_range; auto; rewrite (a_len _ _ AI); auto).
  assert (Hil : i < length (pools st)) by (rewrite (a_len _ _ AI); auto).
  (* where does n go? *)
  assert (Hcase : (forall k, nth k (pools st) [] = []) /\ i = 0 \/ nth 0 (pools st) [] <> [] /\ (isasync n = false -> nth i (pools st) [] <> [])).
  { destruct (nth 0 (pools st) []) as [|f r] eqn:E0.
    - left. pose proof (pl_zero _ P E0) as Hall. split; auto. apply find_pool_first; auto; [rewrite (a_len _ _ AI); auto|].
      intros v Hv. apply cntp_full. intros d Hd. apply In_nth with (d := []) in Hv. destruct Hv as (k & Hk & <-).
      apply (pl_args _ P k); [rewrite <- (a_len' _ _ AI); auto | apply (Hctx Hall); auto].
    - right. split; [discriminate|]. intros Hs. destruct (find_pool_sync isasync deps n (pools st) (pprov st) HLp Hs) as [H|(_ & H)]; auto.
      rewrite H in E0. discriminate. }
  constructor; cbn [pools pprov asg].
  - intros j Hj. rewrite nth_updf. destruct (Nat.eqb i j) eqn:E; [|apply (pl_later _ P); auto].
    apply Nat.eqb_eq in E. subst j. replace (Nat.ltb i (length (pools st))) with true by (symmetry; apply Nat.ltb_lt; auto).
    destruct Hcase as [(Hall & Hi0)|(H0 & Hs)]; [lia|].
    destruct (pl_later _ P i Hj) as [He|(a & r & Ea & Has)].
    + rewrite He. simpl. right. exists n, []. split; auto. destruct (isasync n) eqn:An; auto. exfalso. apply (Hs eq_refl). auto.
    + right. rewrite Ea. simpl. eauto.
  - intros H0 j. exfalso. rewrite nth_updf in H0. destruct (Nat.eqb i 0) eqn:E.
    + replace (Nat.ltb 0 (length (pools st))) with true in H0 by (symmetry; apply Nat.ltb_lt; lia). destruct (nth 0 (pools st) []); discriminate.
    + destruct Hcase as [(Hall & Hi0)|(Hn0 & _)]; [apply Nat.eqb_neq in E; contradiction | contradiction].
  - intros j Hj x Hx. rewrite nth_updf. destruct (Nat.eqb i j); [|apply (pl_args _ P); auto].
    destruct (Nat.ltb j (length (pprov st))) eqn:L; [right; apply (pl_args _ P); auto|].
    apply Nat.ltb_ge in L. rewrite (a_len' _ _ AI) in L. lia.
  - intros f r H0. rewrite nth_updf in H0. destruct (Nat.eqb i 0) eqn:E.
    + replace (Nat.ltb 0 (length (pools st))) with true in H0 by (symmetry; apply Nat.ltb_lt; lia).
      destruct (nth 0 (pools st) []) as [|f0 r0] eqn:E0.
      * simpl in H0. inversion H0; subst. apply Hctx. apply (pl_zero _ P E0).
      * simpl in H0. inversion H0; subst. eapply (pl_head0 _ P); eauto.
    + eapply (pl_head0 _ P); eauto.
Qed.

Lemma nth_repeat_lt {X} (a d : X) m i : i < m -> nth i (repeat a m) d = a.
Proof. revert i; induction m as [|m IH]; intros [|i] H; simpl; auto; try lia. apply IH. lia. Qed.

Lemma ast0_PL : PL ast0.
Proof.
  constructor; unfold ast0; cbn [pools pprov].
  - intros i _. left. destruct (lt_dec i np); [apply nth_repeat | rewrite nth_overflow; auto; rewrite repeat_length; lia].
  - intros _ i. destruct (lt_dec i np); [apply nth_repeat | rewrite nth_overflow; auto; rewrite repeat_length; lia].
  - intros i Hi x Hx. rewrite nth_repeat_lt by auto. exact Hx.
  - intros f r H. rewrite nth_repeat_lt in H by auto. discriminate.
Qed.

Lemma fold_PL : forall l pre st, tp = pre ++ l -> ainv st pre -> PL st ->
  PL (fold_left place l st) /\ ainv (fold_left place l st) tp.
Proof.
  induction l as [|n l IH]; intros pre st E AI P; simpl.
  - rewrite app_nil_r in E. subst. auto.
  - assert (E' : tp = (pre ++ [n]) ++ l) by (rewrite <- app_assoc; exact E).
    apply (IH (pre ++ [n])); auto; [apply place_inv; auto|].
    destruct (isarg n) eqn:Ha; [unfold place; rewrite Ha; exact P|].
    apply (place_PL st pre); auto.
    intros Hempty d Hd. unfold deps in Hd. apply in_map_iff in Hd. destruct Hd as (i & <- & Hi). apply in_seq in Hi.
    destruct tp_facts as (ND & R & C & B).
    assert (Hn : n < nn) by (apply R; rewrite E; apply in_or_app; right; left; auto).
    assert (Hpre : In (src n i) pre) by (eapply B; eauto; lia).
    destruct (isarg (src n i)) eqn:Hsa.
    + unfold args. apply filter_In. split; auto. apply in_seq. pose proof (src_lt n i Hn ltac:(lia)). lia.
    + exfalso. assert (Hin : In (src n i) (map fst (asg st))).
      { rewrite (a_asg _ _ AI). apply filter_In. split; auto. rewrite Hsa. auto. }
      apply in_map_iff in Hin. destruct Hin as ((d & j) & Ed & Hdj). simpl in Ed. subst d.
      pose proof (a_idx _ _ AI _ Hdj) as Hj. simpl in Hj.
      pose proof (a_pool _ _ AI j Hj) as Hp. rewrite (Hempty j) in Hp.
      assert (In (src n i) (inpool (asg st) j)).
      { unfold inpool. apply in_map_iff. exists (src n i, j). split; auto. apply filter_In. split; auto. simpl. apply Nat.eqb_refl. }
      rewrite <- Hp in H. destruct H.
Qed.

Lemma final_PL : PL final.
Proof. unfold final. apply (fold_PL tp [] ast0); auto using ast0_inv, ast0_PL. Qed.

Lemma pool_is_nth i : i < np -> pool i = nth i (pools final) [].
Proof. intros H. unfold pool, A. symmetry. apply (a_pool _ _ final_inv); auto. Qed.
Lemma pool_beyond i : np <= i -> pool i = [].
Proof.
  intros H. unfold pool, inpool. destruct (filter (fun x => Nat.eqb (snd x) i) A) as [|x l] eqn:E; auto. exfalso.
  assert (Hx : In x (filter (fun x => Nat.eqb (snd x) i) A)) by (rewrite E; left; auto).
  apply filter_In in Hx. destruct Hx as (Hx & Ei). apply Nat.eqb_eq in Ei. pose proof (a_idx _ _ final_inv _ Hx). lia.
Qed.

(* the hypotheses of Threads.v *)
Theorem later_async_ok : forall i, 0 < i -> pool i <> [] -> Threads.asyncfirst pool isasync i = true.
Proof.
  intros i Hi Hne. destruct (lt_dec i np) as [Hlt|Hge]; [|rewrite pool_beyond in Hne by lia; congruence].
  unfold Threads.asyncfirst. rewrite pool_is_nth in * by auto.
  destruct (pl_later _ final_PL i Hi) as [E|(a & r & E & Ha)]; [congruence|]. rewrite E. exact Ha.
Qed.
Theorem pool0_nonempty : (exists n, n < nn /\ isarg n = false) -> pool 0 <> [].
Proof.
  intros (n & Hn & Ha) E. destruct (provider_placed n Hn Ha) as (i & Hi & Hin).
  rewrite pool_is_nth in E by auto. pose proof (pl_zero _ final_PL E i) as Hi0. rewrite <- pool_is_nth in Hi0 by auto.
  rewrite Hi0 in Hin. destruct Hin.
Qed.
Theorem first0_ready_ok : pool 0 <> [] -> Threads.ready pool deps args 0 = true.
Proof.
  intros Hne. unfold Threads.ready. destruct (pool 0) as [|f r] eqn:E; [congruence|].
  rewrite pool_is_nth in E by auto. pose proof (pl_head0 _ final_PL f r E) as Hall.
  apply forallb_forall. intros d Hd. apply Threads.memn_In. apply Hall; auto.
Qed.


(* ---------------- C05: where the roots of the graph (nodes without parameters) are placed ---------------- *)
Section Roots.
(* the pool count (maximum antichain) is at least the number of asynchronous root providers *)
Hypothesis np_roots : forall l, NoDup l -> (forall x, In x l -> x < nn /\ nreq x = 0 /\ isarg x = false /\ isasync x = true) -> length l <= np.

Definition hasasync (p : list nat) : bool := negb (Pool.noasync isasync p).
Definition cntA (st : ast) : nat := length (filter hasasync (pools st)).
Definition placedA (st : ast) : list nat := filter isasync (map fst (asg st)).

Record rinv (st : ast) (pre : list nat) : Prop := {
  r_a : ainv st pre;
  r_roots : forall n, In n pre -> nreq n = 0 /\ n < nn;
  r_nodup : NoDup pre;
  r_one : forall i, length (filter isasync (nth i (pools st) [])) <= 1;
  r_single : forall i, 1 <= i -> nth i (pools st) [] <> [] -> exists x, nth i (pools st) [] = [x] /\ isasync x = true;
  r_zero : nth 0 (pools st) [] <> [] \/ forall k, nth k (pools st) [] = [];
  r_cnt : cntA st <= length (placedA st) }.

Lemma filter_all_len {A0} (g : A0 -> bool) (l : list A0) d : (forall i, i < length l -> g (nth i l d) = true) -> length (filter g l) = length l.
Proof.
  induction l as [|x r IH]; intros H; simpl; auto. pose proof (H 0 ltac:(simpl; lia)) as H0. simpl in H0. rewrite H0. simpl. f_equal.
  apply IH. intros i Hi. apply (H (S i)). simpl. lia.
Qed.
Lemma cnt_updf (g : list nat -> bool) : forall (l : list (list nat)) i f, i < length l ->
  length (filter g (updf l i f)) + (if g (nth i l []) then 1 else 0) = length (filter g l) + (if g (f (nth i l [])) then 1 else 0).
Proof.
  induction l as [|x r IH]; intros i f Hi; [simpl in Hi; lia|]. destruct i; simpl.
  - destruct (g x); destruct (g (f x)); simpl; lia.
  - specialize (IH i f ltac:(simpl in Hi; lia)). destruct (g x); simpl; lia.
Qed.
Lemma noasync_app p n : Pool.noasync isasync (p ++ [n]) = Pool.noasync isasync p && negb (isasync n).
Proof. unfold Pool.noasync. rewrite forallb_app. simpl. rewrite andb_true_r. reflexivity. Qed.
Lemma noasync_filter p : Pool.noasync isasync p = true -> filter isasync p = [].
Proof. unfold Pool.noasync. induction p as [|x r IH]; simpl; auto. destruct (isasync x); simpl; [discriminate|auto]. Qed.
Lemma filter_noasync p : filter isasync p = [] -> Pool.noasync isasync p = true.
Proof. unfold Pool.noasync. induction p as [|x r IH]; simpl; auto. destruct (isasync x); simpl; [discriminate|auto]. Qed.

Lemma place_root st pre n : rinv st pre -> nreq n = 0 -> n < nn -> ~ In n pre -> rinv (place st n) (pre ++ [n]).
Proof.
  intros R Hr Hn Hnin. pose proof (r_a _ _ R) as I.
  assert (Rr : forall m, In m (pre ++ [n]) -> nreq m = 0 /\ m < nn).
  { intros m Hm. apply in_app_or in Hm. destruct Hm as [Hm|[<-|[]]]; [apply (r_roots _ _ R); auto | auto]. }
  assert (Rn : NoDup (pre ++ [n])).
  { pose proof (r_nodup _ _ R) as ND. clear - ND Hnin. induction pre as [|x l IH]; simpl; [constructor; auto; constructor|].
    inversion ND; subst. constructor; [intro H; apply in_app_or in H; destruct H as [H|[H|[]]]; [auto | subst; apply Hnin; left; auto] | apply IH; auto; intro; apply Hnin; right; auto]. }
  assert (Ia : ainv (place st n) (pre ++ [n])) by (apply place_inv; auto).
  unfold place in *. destruct (isarg n) eqn:Ea.
  - constructor; auto; try apply R.
  - set (i := find_pool isasync deps n (pools st) (pprov st)) in *.
    assert (HL : length (pprov st) = length (pools st)) by (rewrite (a_len _ _ I), (a_len' _ _ I); auto).
    assert (Hlen : length (pools st) = np) by apply (a_len _ _ I).
    assert (Hd : deps n = []) by (unfold deps; rewrite Hr; reflexivity).
    assert (Hi : i < np) by (rewrite <- Hlen; apply find_pool_range; [exact HL | rewrite Hlen; auto]).
    assert (Hpl : placedA {| pools := updf (pools st) i (fun l => l ++ [n]); pprov := updf (pprov st) i (fun l => n :: l); asg := asg st ++ [(n, i)] |} =
                  placedA st ++ (if isasync n then [n] else [])).
    { unfold placedA. cbn [asg]. rewrite map_app, filter_app. simpl. destruct (isasync n); reflexivity. }
    destruct (isasync n) eqn:Es.
    + (* an asynchronous root *)
      destruct (find_pool_async_root isasync deps n (pools st) (pprov st) Es Hd HL ltac:(rewrite Hlen; auto)) as (F1 & F2).
      destruct (Pool.noasync isasync (nth 0 (pools st) [])) eqn:N0.
      * (* pool 0 has no asynchronous node yet *)
        assert (E0 : i = 0) by (apply F1; reflexivity). clearbody i. subst i.
        constructor; auto; cbn [pools].
        -- intros j. destruct (Nat.eq_dec j 0) as [->|Hj].
           ++ rewrite nth_updf_eq by lia. rewrite filter_app, (noasync_filter _ N0). simpl. rewrite Es. simpl. lia.
           ++ rewrite nth_updf_neq by auto. apply (r_one _ _ R).
        -- intros j Hj. rewrite nth_updf_neq by lia. apply (r_single _ _ R); auto.
        -- left. rewrite nth_updf_eq by lia. destruct (nth 0 (pools st) []); discriminate.
        -- rewrite Hpl, app_length. simpl. pose proof (cnt_updf hasasync (pools st) 0 (fun l => l ++ [n]) ltac:(lia)) as C.
           unfold hasasync at 2 4 in C. rewrite noasync_app, N0, Es in C. simpl in C. pose proof (r_cnt _ _ R). unfold cntA in *. cbn [pools]. lia.
      * (* pool 0 already has one: an empty pool must exist *)
        destruct (first_empty (pools st) 0) as [j|] eqn:FE.
        -- assert (Ej : i = j) by (apply F2; auto). clearbody i. subst i.
           destruct (first_empty_spec _ _ _ FE) as (_ & Hej). rewrite Nat.sub_0_r in Hej.
           assert (Hj0 : j <> 0) by (intros ->; rewrite Hej in N0; discriminate).
           constructor; auto; cbn [pools].
           ++ intros k. destruct (Nat.eq_dec k j) as [->|Hk].
              ** rewrite nth_updf_eq by lia. rewrite Hej. simpl. rewrite Es. simpl. lia.
              ** rewrite nth_updf_neq by auto. apply (r_one _ _ R).
           ++ intros k Hk Hne. destruct (Nat.eq_dec k j) as [->|Hkj].
              ** rewrite nth_updf_eq by lia. rewrite Hej. exists n. auto.
              ** rewrite nth_updf_neq in * by auto. apply (r_single _ _ R); auto.
           ++ left. rewrite nth_updf_neq by auto. intro E. rewrite E in N0. discriminate.
           ++ rewrite Hpl, app_length. simpl. pose proof (cnt_updf hasasync (pools st) j (fun l => l ++ [n]) ltac:(lia)) as C.
              unfold hasasync at 2 4 in C. rewrite Hej in C. simpl in C. rewrite Es in C. simpl in C. pose proof (r_cnt _ _ R). unfold cntA in *. cbn [pools]. lia.
        -- (* no empty pool: every pool holds an asynchronous root already placed; with n that is one more than np *)
           exfalso.
           assert (Hall : forall k, k < length (pools st) -> hasasync (nth k (pools st) []) = true).
           { intros k Hk. destruct (Nat.eq_dec k 0) as [->|Hk0]; [unfold hasasync; rewrite N0; reflexivity|].
             assert (Hne : nth k (pools st) [] <> []).
             { intro E. destruct (first_empty_complete (pools st) 0 k Hk E) as (j & Ej). congruence. }
             destruct (r_single _ _ R k ltac:(lia) Hne) as (x & Ex & Ax). rewrite Ex. unfold hasasync, Pool.noasync. simpl. rewrite Ax. reflexivity. }
           pose proof (filter_all_len hasasync (pools st) [] Hall) as Efull. pose proof (r_cnt _ _ R) as Hc. unfold cntA in Hc. rewrite Efull, Hlen in Hc.
           assert (Hb : length (n :: placedA st) <= np).
           { apply np_roots.
             - constructor.
               + unfold placedA. intro Hin. apply filter_In in Hin. destruct Hin as (Hin & _). rewrite (a_asg _ _ I) in Hin. apply filter_In in Hin. apply Hnin. apply Hin.
               + unfold placedA. apply NoDup_filter. rewrite (a_asg _ _ I). apply NoDup_filter. apply (r_nodup _ _ R).
             - intros x [<-|Hx]; [repeat split; auto|]. unfold placedA in Hx. apply filter_In in Hx. destruct Hx as (Hx & Ax). rewrite (a_asg _ _ I) in Hx.
               apply filter_In in Hx. destruct Hx as (Hx & Bx). destruct (r_roots _ _ R x Hx). repeat split; auto. destruct (isarg x); [discriminate|reflexivity]. }
           simpl in Hb. lia.
    + (* a synchronous root goes to pool 0 *)
      assert (E0 : i = 0).
      { destruct (r_zero _ _ R) as [H0|He].
        - apply find_pool_sync_root; auto.
        - apply find_pool_first; auto; [rewrite Hlen; auto | intros v _; rewrite Hd; reflexivity]. }
      clearbody i. subst i.
      constructor; auto; cbn [pools].
      * intros j. destruct (Nat.eq_dec j 0) as [->|Hj].
        -- rewrite nth_updf_eq by lia. rewrite filter_app. simpl. rewrite Es. rewrite app_nil_r. apply (r_one _ _ R).
        -- rewrite nth_updf_neq by auto. apply (r_one _ _ R).
      * intros j Hj. rewrite nth_updf_neq by lia. apply (r_single _ _ R); auto.
      * left. rewrite nth_updf_eq by lia. destruct (nth 0 (pools st) []); discriminate.
      * rewrite Hpl, app_nil_r. pose proof (cnt_updf hasasync (pools st) 0 (fun l => l ++ [n]) ltac:(lia)) as C.
        unfold hasasync at 2 4 in C. rewrite noasync_app, Es in C. simpl in C. rewrite andb_true_r in C. pose proof (r_cnt _ _ R). unfold cntA in *. cbn [pools].
        destruct (Pool.noasync isasync (nth 0 (pools st) [])); simpl in C; lia.
Qed.

Lemma fold_roots : forall l st pre, rinv st pre -> (forall n, In n l -> nreq n = 0 /\ n < nn) -> NoDup (pre ++ l) -> rinv (fold_left place l st) (pre ++ l).
Proof.
  induction l as [|n l IH]; intros st pre R Hl ND; simpl; [rewrite app_nil_r; auto|].
  replace (pre ++ n :: l) with ((pre ++ [n]) ++ l) in * by (rewrite <- app_assoc; auto).
  apply IH; auto; [|intros m Hm; apply Hl; right; auto].
  destruct (Hl n (or_introl eq_refl)) as (Hr & Hn). apply place_root; auto.
  intro Hin. rewrite <- app_assoc in ND. simpl in ND. apply NoDup_remove_2 in ND. apply ND. apply in_or_app; auto.
Qed.
Lemma filter_repeat_nil (g : list nat -> bool) k : g [] = false -> filter g (repeat [] k) = [].
Proof. intros H. induction k; simpl; auto. rewrite H. auto. Qed.
Lemma ast0_rinv : rinv ast0 [].
Proof.
  constructor; unfold ast0; cbn [pools asg].
  - apply ast0_inv.
  - intros n [].
  - constructor.
  - intros i. rewrite nth_repeat. simpl. lia.
  - intros i _ H. rewrite nth_repeat in H. congruence.
  - right. intros k. apply nth_repeat.
  - unfold cntA, placedA. cbn [pools asg]. rewrite filter_repeat_nil by reflexivity. simpl. lia.
Qed.

Definition aroot (n : nat) : bool := isasync n && Nat.eqb (nreq n) 0.
Definition Q (st : ast) : Prop := forall i, length (filter aroot (nth i (pools st) [])) <= 1.
Lemma filter_sub_len (l : list nat) : length (filter aroot l) <= length (filter isasync l).
Proof. induction l as [|x r IH]; simpl; auto. unfold aroot at 1. destruct (isasync x); simpl; [destruct (Nat.eqb (nreq x) 0); simpl; lia | auto]. Qed.
Lemma rinv_Q st pre : rinv st pre -> Q st.
Proof. intros R i. eapply Nat.le_trans; [apply filter_sub_len | apply (r_one _ _ R)]. Qed.
Lemma place_nonroot_Q st pre n : ainv st pre -> Q st -> nreq n <> 0 -> Q (place st n).
Proof.
  intros I Hq Hr. unfold place. destruct (isarg n); auto.
  set (i := find_pool isasync deps n (pools st) (pprov st)).
  assert (Hi : i < length (pools st)).
  { apply find_pool_range; [rewrite (a_len _ _ I), (a_len' _ _ I); auto | rewrite (a_len _ _ I); auto]. }
  intros j. cbn [pools]. destruct (Nat.eq_dec j i) as [->|Hj].
  - rewrite nth_updf_eq by auto. rewrite filter_app. simpl. unfold aroot at 2. apply Nat.eqb_neq in Hr. rewrite Hr, andb_false_r. rewrite app_nil_r. apply Hq.
  - rewrite nth_updf_neq by auto. apply Hq.
Qed.
Lemma fold_nonroots : forall l st pre, ainv st pre -> Q st -> (forall n, In n l -> nreq n <> 0) -> Q (fold_left place l st).
Proof.
  induction l as [|n l IH]; intros st pre I Hq Hl; simpl; auto.
  apply (IH _ (pre ++ [n])); [apply place_inv; auto | eapply place_nonroot_Q; eauto; apply Hl; left; auto | intros m Hm; apply Hl; right; auto].
Qed.

Lemma tp_split : exists R NR, tp = R ++ NR /\ Forall (fun n => nreq n = 0) R /\ Forall (fun n => nreq n <> 0) NR.
Proof. apply (Kahn.topo_roots_first nn outs nreq src outs_src). Qed.

Theorem Q_final : Q final.
Proof.
  destruct tp_split as (R & NR & E & FR & FN). unfold final. rewrite E, fold_left_app.
  assert (ND : NoDup ([] ++ R)).
  { simpl. pose proof (proj1 tp_facts) as ND. rewrite E in ND. clear - ND. induction R as [|x r IH]; simpl in *; [constructor|]. inversion ND; subst. constructor; [intro H; apply H1; apply in_or_app; auto | apply IH; auto]. }
  assert (HR : forall n, In n R -> nreq n = 0 /\ n < nn).
  { intros n Hn. split; [rewrite Forall_forall in FR; auto | apply tp_facts; rewrite E; apply in_or_app; auto]. }
  pose proof (fold_roots R ast0 [] ast0_rinv HR ND) as RR. simpl in RR.
  apply (fold_nonroots NR _ R); [apply (r_a _ _ RR) | eapply rinv_Q; eauto | rewrite Forall_forall in FN; auto].
Qed.

(* two different asynchronous providers without parameters never share a pool ... *)
Theorem async_roots_apart n n' i : In n (pool i) -> In n' (pool i) -> aroot n = true -> aroot n' = true -> n = n'.
Proof.
  intros Hn Hn' An An'. destruct (lt_dec i np) as [Hi|Hi]; [|rewrite pool_beyond in Hn by lia; destruct Hn].
  rewrite pool_is_nth in * by auto. pose proof (Q_final i) as Hq.
  assert (F : In n (filter aroot (nth i (pools final) []))) by (apply filter_In; auto).
  assert (F' : In n' (filter aroot (nth i (pools final) []))) by (apply filter_In; auto).
  destruct (filter aroot (nth i (pools final) [])) as [|x [|y r]]; simpl in *; [destruct F | | lia].
  destruct F as [<-|[]]. destruct F' as [<-|[]]. reflexivity.
Qed.
End Roots.

(* ... and everything before a provider without parameters in its pool is a provider without parameters *)
Theorem before_root_roots i m1 b m2 : pool i = m1 ++ b :: m2 -> nreq b = 0 -> forall a, In a m1 -> nreq a = 0.
Proof.
  intros E Hb a Ha. destruct (pool_order i m1 b m2 E) as (l1 & l2 & Et & Hin). specialize (Hin a Ha).
  destruct (Kahn.topo_roots_first nn outs nreq src outs_src) as (R & NR & Es & FR & FN). fold tp in Es. rewrite Es in Et.
  rewrite Forall_forall in FR, FN.
  apply app_eq_app in Et. destruct Et as (l & [(E1 & E2)|(E1 & E2)]).
  - (* R = l1 ++ l *) apply FR. rewrite E1. apply in_or_app. left; auto.
  - (* l1 = R ++ l, NR = l ++ b :: l2: b would have parameters *)
    exfalso. apply (FN b); auto. rewrite E2. apply in_or_app. right. left. reflexivity.
Qed.

(* ---------------- emission ---------------- *)
Variable fallible : nat -> bool.
Variable reterr : bool.
Variable tix : list nat.                       (* pool indices in emitted thread order; head = the injector's own thread *)
Hypothesis tix_nodup : NoDup tix.
Hypothesis tix_ok : forall i, In i tix -> i < np /\ pool i <> [].
Hypothesis tix_all : forall i, i < np -> pool i <> [] -> In i tix.

Definition args_of (m : nat) : list var := map (fun i => (src m i, sidx m i)) (seq 0 (nreq m)).
Definition pidx (n : nat) : nat := match find (fun x => Nat.eqb (fst x) n) A with Some x => snd x | None => np end.
Definition cross (a b : nat) : bool := isarg a || negb (Nat.eqb (pidx a) (pidx b)).
Definition with_chan (x : var) : bool :=
  negb (isarg (fst x)) && existsb (fun e => Nat.eqb (sidx (fst e) (snd e)) (snd x) && cross (fst x) (fst e)) (outs (fst x)).
Definition mkitem (m : nat) : item :=
  {| it_node := m; it_args := args_of m;
     it_waits := filter (fun x => cross (fst x) m && with_chan x) (args_of m);
     it_nrets := nprov m;
     it_closes := filter with_chan (map (fun k => (m, k)) (seq 0 (nprov m)));
     it_fallible := fallible m |}.
Definition P : prog := {| p_threads := map (fun i => map mkitem (pool i)) tix; p_argnodes := args; p_reterr := reterr |}.

Lemma pidx_spec n i : In n (pool i) -> pidx n = i.
Proof.
  intros H. unfold pidx. destruct (find (fun x => Nat.eqb (fst x) n) A) as [x|] eqn:F.
  - apply find_some in F. destruct F as (Hx & E). apply Nat.eqb_eq in E. destruct x as [n' j]. simpl in *. subst.
    apply (pool_unique n j i); auto. apply in_pool_intro; auto.
  - exfalso. apply in_pool_inv in H. eapply find_none in F; eauto. simpl in F. rewrite Nat.eqb_refl in F. discriminate.
Qed.

Lemma item_at_P t j it : item_at P t j = Some it <->
  exists i m, nth_error tix t = Some i /\ nth_error (pool i) j = Some m /\ it = mkitem m.
Proof.
  unfold item_at, items_of, P. cbn [p_threads]. split.
  - intros H. destruct (nth_error tix t) as [i|] eqn:E.
    + rewrite (nth_error_nth _ _ _ (map_nth_error _ _ _ E)) in H. rewrite nth_error_map in H.
      destruct (nth_error (pool i) j) as [m|] eqn:E2; simpl in H; inversion H. exists i, m. auto.
    + rewrite nth_overflow in H by (rewrite map_length; apply nth_error_None; auto). destruct j; discriminate.
  - intros (i & m & E1 & E2 & ->). rewrite (nth_error_nth _ _ _ (map_nth_error _ _ _ E1)). rewrite nth_error_map, E2. auto.
Qed.

Lemma isarg_P x : Sem2.isarg P x = isarg (fst x).
Proof.
  unfold Sem2.isarg, P, args. cbn [p_argnodes]. destruct (in_dec Nat.eq_dec (fst x) (filter isarg (seq 0 nn))) as [H|H].
  - apply filter_In in H. symmetry. tauto.
  - destruct (isarg (fst x)) eqn:E; auto. exfalso. apply H. apply filter_In. split; auto.
    apply in_seq. pose proof (arg_lt _ E). lia.
Qed.

(* ---- C05: where a provider without parameters sits in the emitted program ---- *)
Lemma root_located n : n < nn -> isarg n = false -> nreq n = 0 ->
  exists t j, item_at P t j = Some (mkitem n) /\ (forall q it, q <= j -> item_at P t q = Some it -> it_waits it = []).
Proof.
  intros Hn Ha Hr. destruct (provider_placed n Hn Ha) as (i & Hi & Hin).
  assert (Hne : pool i <> []) by (intro E; rewrite E in Hin; destruct Hin).
  pose proof (tix_all i Hi Hne) as Ht. apply In_nth_error in Ht. destruct Ht as (t & Ht).
  apply In_nth_error in Hin. destruct Hin as (j & Hj).
  exists t, j. split; [apply item_at_P; exists i, n; auto|].
  intros q it Hq Hit. apply item_at_P in Hit. destruct Hit as (i' & m & Ht' & Hm & ->). rewrite Ht in Ht'. inversion Ht'; subst i'.
  assert (Hm0 : nreq m = 0).
  { destruct (Nat.eq_dec q j) as [->|Hne2]; [rewrite Hj in Hm; inversion Hm; subst; auto|].
    destruct (nth_error_split _ _ Hj) as (m1 & m2 & E & L). apply (before_root_roots i m1 n m2 E Hr).
    rewrite E in Hm. rewrite nth_error_app1 in Hm by lia. eapply nth_error_In; eauto. }
  unfold mkitem. cbn [it_waits]. unfold args_of. rewrite Hm0. reflexivity.
Qed.
Lemma root_threads_distinct
  (np_roots : forall l, NoDup l -> (forall x, In x l -> x < nn /\ nreq x = 0 /\ isarg x = false /\ isasync x = true) -> length l <= np)
  n n' t j j' : item_at P t j = Some (mkitem n) -> item_at P t j' = Some (mkitem n') ->
  nreq n = 0 -> nreq n' = 0 -> isasync n = true -> isasync n' = true -> n = n'.
Proof.
  intros H H' R R' A0 A0'. apply item_at_P in H. apply item_at_P in H'. destruct H as (i & m & Ht & Hm & E). destruct H' as (i' & m' & Ht' & Hm' & E').
  rewrite Ht in Ht'. inversion Ht'; subst i'.
  assert (m = n) by (apply (f_equal it_node) in E; simpl in E; auto). assert (m' = n') by (apply (f_equal it_node) in E'; simpl in E'; auto). subst m m'.
  apply (async_roots_apart np_roots n n' i); [eapply nth_error_In; eauto | eapply nth_error_In; eauto | |];
    unfold aroot; rewrite ?A0, ?A0', ?R, ?R'; reflexivity.
Qed.

Lemma pool_nodup i : NoDup (pool i).
Proof.
  unfold pool, inpool. pose proof A_nodup as ND. induction A as [|x a IH]; simpl in *; [constructor|].
  inversion ND; subst. destruct (Nat.eqb (snd x) i); simpl; auto. constructor; auto.
  intro H. apply H1. apply in_map_iff in H. destruct H as (y & E & Hy). apply filter_In in Hy. apply in_map_iff. exists y. tauto.
Qed.

Lemma concat_pools_nodup : forall l, NoDup l -> NoDup (concat (map pool l)).
Proof.
  induction l as [|i l IH]; intros ND; simpl; [constructor|]. inversion ND; subst.
  assert (G : forall l1 l2 : list nat, NoDup l1 -> NoDup l2 -> (forall x, In x l1 -> In x l2 -> False) -> NoDup (l1 ++ l2)).
  { clear. induction l1 as [|a l1 IH1]; intros l2 N1 N2 D; simpl; auto. inversion N1; subst. constructor.
    - intro H. apply in_app_or in H. destruct H; [auto | eapply D; eauto; left; auto].
    - apply IH1; auto. intros x Hx. apply D. right; auto. }
  apply G; auto using pool_nodup. intros x Hx Hc. apply in_concat in Hc. destruct Hc as (pl & Hpl & Hx2).
  apply in_map_iff in Hpl. destruct Hpl as (j & <- & Hj). assert (i = j) by (eapply pool_unique; eauto). subst. auto.
Qed.

Definition rk (n : nat) : nat := pos n tp.

Lemma producer_before c i l1 l2 : tp = l1 ++ c :: l2 -> i < nreq c -> rk (src c i) < rk c.
Proof.
  intros E Hi. destruct tp_facts as (ND & _ & _ & B). unfold rk. rewrite E. apply pos_app_lt.
  - rewrite E in ND. apply NoDup_remove_2 in ND. intro. apply ND. apply in_or_app; auto.
  - eapply B; eauto.
Qed.

Lemma edge_witness m i : m < nn -> i < nreq m -> isarg (src m i) = false -> cross (src m i) m = true ->
  with_chan (src m i, sidx m i) = true.
Proof.
  intros Hm Hi Ha Hc. unfold with_chan. simpl. rewrite Ha. simpl. apply existsb_exists. exists (m, i). split.
  - apply outs_src. auto.
  - simpl. rewrite Nat.eqb_refl. simpl. exact Hc.
Qed.

Theorem P_wf : wf P.
Proof.
  constructor.
  - (* wf_nodup *)
    unfold P. cbn [p_threads]. rewrite concat_map, map_map.
    replace (map (fun x => map it_node (map mkitem (pool x))) tix) with (map pool tix).
    + apply concat_pools_nodup; auto.
    + apply map_ext. intros i. rewrite map_map. simpl. symmetry. apply map_id.
  - (* wf_args *)
    intros t j it x Hit Hx. apply item_at_P in Hit. destruct Hit as (i & m & Et & Ej & ->). simpl in Hx.
    unfold args_of in Hx. apply in_map_iff in Hx. destruct Hx as (k & <- & Hk). apply in_seq in Hk.
    assert (Hm : In m (pool i)) by (eapply nth_error_In; eauto). destruct (pool_nodes _ _ Hm) as (Hmn & Hma).
    rewrite isarg_P. simpl. destruct (isarg (src m k)) eqn:Ea; [left; auto|right].
    destruct (provider_placed (src m k)) as (pi & Hpi & Hin); [apply src_lt; auto; lia | auto |].
    destruct (Nat.eq_dec pi i) as [->|Hne].
    + (* same pool: the producer is an earlier item of the same thread *)
      left. apply nth_error_split in Ej. destruct Ej as (m1 & m2 & Ep & Hlen).
      destruct (pool_order _ _ _ _ Ep) as (l1 & l2 & El & Hl).
      assert (Hlt : rk (src m k) < rk m) by (eapply producer_before; eauto; lia).
      rewrite Ep in Hin. apply in_app_or in Hin. destruct Hin as [Hin|[Heq|Hin]].
      * apply In_nth_error in Hin. destruct Hin as (j' & Hj'). exists j', (mkitem (src m k)). split; [|split; [|split]].
        -- subst j. eapply nth_error_Some_lt; eauto.
        -- apply item_at_P. exists i, (src m k). split; auto. split; auto. rewrite Ep. rewrite nth_error_app1; auto. eapply nth_error_Some_lt; eauto.
        -- reflexivity.
        -- simpl. apply sidx_lt; auto; lia.
      * rewrite <- Heq in Hlt. lia.
      * (* the producer would come after m in the pool, hence after m in tp: contradiction *)
        exfalso. apply in_split in Hin. destruct Hin as (a1 & a2 & Ea2).
        assert (Ep' : pool i = (m1 ++ m :: a1) ++ src m k :: a2) by (rewrite Ep, Ea2, <- app_assoc; auto).
        destruct (pool_order _ _ _ _ Ep') as (l1' & l2' & El' & Hl').
        assert (In m l1') by (apply Hl'; apply in_or_app; right; left; auto).
        destruct tp_facts as (ND & _). unfold rk in Hlt. rewrite El' in Hlt, ND.
        assert (pos m (l1' ++ src m k :: l2') < pos (src m k) (l1' ++ src m k :: l2')); [|lia].
        apply pos_app_lt; auto. apply NoDup_remove_2 in ND. intro. apply ND. apply in_or_app; auto.
    + (* different pool: it is awaited *)
      right. simpl. apply filter_In. split.
      * unfold args_of. apply in_map_iff. exists k. split; auto. apply in_seq. lia.
      * assert (Hc : cross (src m k) m = true).
        { unfold cross. rewrite Ea. simpl. rewrite (pidx_spec _ _ Hin), (pidx_spec _ _ Hm). apply negb_true_iff. apply Nat.eqb_neq. auto. }
        simpl. rewrite Hc. simpl. apply edge_witness; auto; lia.
  - (* wf_waits *)
    intros t j it x Hit Hx. apply item_at_P in Hit. destruct Hit as (i & m & Et & Ej & ->). simpl in Hx.
    apply filter_In in Hx. destruct Hx as (Hx & Hf). apply andb_true_iff in Hf. destruct Hf as (_ & Hw).
    unfold with_chan in Hw. apply andb_true_iff in Hw. destruct Hw as (Ha & _). apply negb_true_iff in Ha.
    unfold args_of in Hx. apply in_map_iff in Hx. destruct Hx as (k & <- & Hk). apply in_seq in Hk. simpl in *.
    assert (Hm : In m (pool i)) by (eapply nth_error_In; eauto). destruct (pool_nodes _ _ Hm) as (Hmn & Hma).
    rewrite isarg_P. simpl. split; auto.
    destruct (provider_placed (src m k)) as (pi & Hpi & Hin); [apply src_lt; auto; lia | auto |].
    assert (Hti : In pi tix) by (apply tix_all; auto; intro E; rewrite E in Hin; destruct Hin).
    apply In_nth_error in Hti. destruct Hti as (t' & Ht'). apply In_nth_error in Hin. destruct Hin as (j' & Hj').
    exists t', j', (mkitem (src m k)). split; [apply item_at_P; eauto|]. split; auto. simpl. apply sidx_lt; auto; lia.
  - (* wf_closes *)
    intros t j it x Hit Hx. apply item_at_P in Hit. destruct Hit as (i & m & Et & Ej & ->). simpl in *.
    apply filter_In in Hx. destruct Hx as (Hx & _). apply in_map_iff in Hx. destruct Hx as (k & <- & _). auto.
  - (* wf_noarg *)
    intros t j it Hit. apply item_at_P in Hit. destruct Hit as (i & m & Et & Ej & ->). simpl.
    assert (Hm : In m (pool i)) by (eapply nth_error_In; eauto). destruct (pool_nodes _ _ Hm) as (Hmn & Hma).
    unfold P, args. cbn [p_argnodes]. intro H. apply filter_In in H. destruct H. congruence.
Qed.

Lemma pool_pos_mono i j j' a b : j < j' -> nth_error (pool i) j = Some a -> nth_error (pool i) j' = Some b -> rk a < rk b.
Proof.
  intros Hj Ha Hb. apply nth_error_split in Hb. destruct Hb as (m1 & m2 & Ep & Hlen).
  destruct (pool_order _ _ _ _ Ep) as (l1 & l2 & El & Hl).
  assert (In a l1). { apply Hl. rewrite Ep in Ha. rewrite nth_error_app1 in Ha by lia. eapply nth_error_In; eauto. }
  destruct tp_facts as (ND & _). unfold rk. rewrite El in *. apply pos_app_lt; auto.
  apply NoDup_remove_2 in ND. intro. apply ND. apply in_or_app; auto.
Qed.

Theorem P_wfl : wfl P rk.
Proof.
  constructor.
  - exact P_wf.
  - (* ranks increase along a thread *)
    intros t j j' it it' Hj Hit Hit'. apply item_at_P in Hit. apply item_at_P in Hit'.
    destruct Hit as (i & m & Et & Ej & ->). destruct Hit' as (i' & m' & Et' & Ej' & ->). rewrite Et in Et'. inversion Et'; subst i'.
    simpl. eapply pool_pos_mono; eauto.
  - (* an awaited channel is closed by its producer, whose rank is smaller *)
    intros t j it x Hit Hx. apply item_at_P in Hit. destruct Hit as (i & m & Et & Ej & ->). simpl in Hx.
    apply filter_In in Hx. destruct Hx as (Hx & Hf). apply andb_true_iff in Hf. destruct Hf as (_ & Hw).
    assert (Hw' := Hw). unfold with_chan in Hw'. apply andb_true_iff in Hw'. destruct Hw' as (Ha & _). apply negb_true_iff in Ha.
    unfold args_of in Hx. apply in_map_iff in Hx. destruct Hx as (k & <- & Hk). apply in_seq in Hk. simpl in *.
    assert (Hm : In m (pool i)) by (eapply nth_error_In; eauto). destruct (pool_nodes _ _ Hm) as (Hmn & Hma).
    destruct (provider_placed (src m k)) as (pi & Hpi & Hin); [apply src_lt; auto; lia | auto |].
    assert (Hti : In pi tix) by (apply tix_all; auto; intro E; rewrite E in Hin; destruct Hin).
    apply In_nth_error in Hti. destruct Hti as (t' & Ht'). apply In_nth_error in Hin. destruct Hin as (j' & Hj').
    exists t', j', (mkitem (src m k)). split; [apply item_at_P; eauto|]. split; [reflexivity|]. split.
    + simpl. apply filter_In. split; auto. apply in_map_iff. exists (sidx m k). split; auto. apply in_seq.
      pose proof (sidx_lt m k Hmn ltac:(lia) Ha). lia.
    + simpl. assert (In m tp) by (apply tp_facts; auto). apply in_split in H. destruct H as (l1 & l2 & El).
      eapply producer_before; eauto. lia.
  - (* closes are duplicate-free *)
    intros t j it Hit. apply item_at_P in Hit. destruct Hit as (i & m & Et & Ej & ->). simpl.
    apply NoDup_filter. apply Injective_map_NoDup; [intros a b E; inversion E; auto | apply seq_NoDup].
Qed.

Theorem dep_placed_ok : forall i f rest, i < np -> pool i = f :: rest -> forall d, In d (deps f) ->
  In d args \/ exists j, j < np /\ In d (pool j) /\ rk d < rk f.
Proof.
  intros i f rest Hi Ep d Hd. unfold deps in Hd. apply in_map_iff in Hd. destruct Hd as (k & <- & Hk). apply in_seq in Hk.
  assert (Hf : In f (pool i)) by (rewrite Ep; left; auto). destruct (pool_nodes _ _ Hf) as (Hfn & Hfa).
  destruct (isarg (src f k)) eqn:Ha.
  - left. unfold args. apply filter_In. split; auto. apply in_seq. pose proof (src_lt f k Hfn ltac:(lia)). lia.
  - right. destruct (provider_placed (src f k)) as (j & Hj & Hin); [apply src_lt; auto; lia | auto |].
    exists j. split; auto. split; auto.
    assert (In f tp) by (apply tp_facts; auto). apply in_split in H. destruct H as (l1 & l2 & El). eapply producer_before; eauto. lia.
Qed.
Theorem first_min_ok : forall j f rest x, pool j = f :: rest -> In x (pool j) -> rk f <= rk x.
Proof.
  intros j f rest x Ep Hx. rewrite Ep in Hx. destruct Hx as [<-|Hx]; [lia|].
  apply In_nth_error in Hx. destruct Hx as (k & Hk).
  assert (rk f < rk x); [|lia]. apply (pool_pos_mono j 0 (S k)); [lia | rewrite Ep; reflexivity | rewrite Ep; simpl; exact Hk].
Qed.
End Sched.
Print Assumptions P_wfl.
