From Coq Require Import List Arith Lia Bool Wf_nat.
Import ListNotations.
Require Import Sem2 Safe Live.

(* either nobody failed, or the injector has an error result (so all of its waits watch the context) and every failure
   has cancelled a context *)
Definition fshape (p : prog) (s : state) : Prop :=
  ffree s \/ (p_reterr p = true /\ forall t e, nth_error (s_thr s) t = Some (TDone (Some e)) -> s_cext s = true \/ s_cint s = true).

Lemma progress_item_f p rank s : wfl p rank -> Inv p s -> InvL p s -> fshape p s ->
  forall r t pc ph it, nth_error (s_thr s) t = Some (TRun pc ph) -> item_at p t pc = Some it ->
    rank (it_node it) <= r ->
    exists l, l <> LCancel /\ enabled p s l.
Proof.
  intros W I L F. induction r as [r IHr] using lt_wf_ind. intros t pc ph it Ct Ci Hr.
  destruct (il_bounds _ _ L t pc ph Ct) as (Hpc & Hend & Hph).
  assert (Hthr : exists its, nth_error (p_threads p) t = Some its /\ items_of p t = its).
  { assert (t < length (p_threads p)) by (rewrite <- (inv_len _ _ I); eapply nth_error_Some_lt; eauto).
    destruct (nth_error (p_threads p) t) as [its|] eqn:E; [|apply nth_error_None in E; lia].
    exists its. split; auto. unfold items_of. eapply nth_error_nth; eauto. }
  destruct Hthr as (its & Ets & Eits).
  assert (Cur : cur p s t = Some (pc, ph, it)).
  { unfold cur. rewrite Ct, Ets. unfold item_at in Ci. rewrite Eits in Ci. rewrite Ci. reflexivity. }
  specialize (Hph it Ci).
  destruct ph as [k|vs|k].
  - (* waiting *)
    destruct (Nat.eq_dec k (length (it_waits it))) as [->|Hk].
    + (* ready to enter *)
      destruct (ready_reads p s t pc it W I Ct Ci) as (vs & Hrd & _).
      exists (LEnter t). split; [discriminate|]. unfold enabled, step. rewrite Cur, Nat.eqb_refl, Hrd. eauto.
    + assert (Hk' : k < length (it_waits it)) by lia.
      destruct (nth_error (it_waits it) k) as [x|] eqn:Ex; [|apply nth_error_None in Ex; lia].
      destruct (in_dec var_eq_dec x (s_closed s)) as [Hin|Hnin].
      * exists (LWaitPass t). split; [discriminate|]. unfold enabled, step. rewrite Cur, Ex. unfold mem.
        destruct (in_dec var_eq_dec x (s_closed s)); [eauto|contradiction].
      * (* producer has smaller rank and has not closed x: recurse on its thread *)
        destruct (wfl_wait p rank W t pc it x Ci (nth_error_In _ _ Ex)) as (t' & j' & it' & Hit' & Hn & Hcl & Hrk).
        destruct (nth_error (s_thr s) t') as [st'|] eqn:Ct'.
        2:{ exfalso. apply nth_error_None in Ct'. unfold item_at, items_of in Hit'.
            rewrite nth_overflow in Hit' by (rewrite <- (inv_len _ _ I); lia). destruct j'; discriminate. }
        destruct st' as [pc' ph'|[e|]].
        -- (* producer thread running: its current item has rank <= rank it' < rank it *)
           destruct (le_lt_dec pc' j') as [Hle|Hgt].
           ++ assert (Hex : exists i0, item_at p t' pc' = Some i0 /\ rank (it_node i0) <= rank (it_node it')).
              { destruct (Nat.eq_dec pc' j') as [->|Hne]; [exists it'; split; auto|].
                assert (Hlt : pc' < j') by lia.
                destruct (item_at p t' pc') as [i0|] eqn:E0.
                - exists i0. split; auto. pose proof (wfl_mono p rank W t' pc' j' i0 it' Hlt E0 Hit'). lia.
                - exfalso. unfold item_at in *. apply nth_error_None in E0. apply nth_error_Some_lt in Hit'. lia. }
              destruct Hex as (i0 & E0 & Hr0).
              eapply (IHr (rank (it_node it'))); [lia|exact Ct'|exact E0|exact Hr0].
           ++ exfalso. apply Hnin. eapply (il_done _ _ L t' j' it' x Hit' Hcl). rewrite Ct'. exact Hgt.
        -- (* the producer's thread failed: the wait can only end through the context *)
           destruct F as [F|(Hre & Hc)]; [exfalso; eapply F; eauto|].
           exists (LWaitCtx t). split; [discriminate|]. unfold enabled, step. rewrite Cur, Ex.
           assert (Haw : ctxaware p t = true) by (unfold ctxaware; destruct (Nat.eqb t 0); auto).
           rewrite Haw. destruct (Hc _ _ Ct') as [Hx|Hx]; rewrite Hx; [eauto|]. destruct (s_cext s); eauto.
        -- exfalso. apply Hnin. eapply (il_done _ _ L t' j' it' x Hit' Hcl). rewrite Ct'. exact Logic.I.
  - (* inside: exit is always possible *)
    exists (LExitOk t). split; [discriminate|]. unfold enabled, step. rewrite Cur. eauto.
  - (* closing *)
    destruct (Nat.eq_dec k (length (it_closes it))) as [->|Hk].
    + exists (LNext t). split; [discriminate|]. unfold enabled, step. rewrite Cur, Nat.eqb_refl. eauto.
    + assert (Hk' : k < length (it_closes it)) by lia.
      destruct (nth_error (it_closes it) k) as [x|] eqn:Ex; [|apply nth_error_None in Ex; lia].
      exists (LClose t). split; [discriminate|]. unfold enabled, step. rewrite Cur, Ex. unfold mem.
      destruct (in_dec var_eq_dec x (s_closed s)) as [Hin|Hnin]; [|eauto].
      (* x already closed: impossible, each channel is closed once *)
      exfalso. destruct (il_closed_src _ _ L x Hin) as (t2 & j2 & it2 & Hit2 & Hc2 & Hp2).
      assert (E1 : fst x = it_node it) by (eapply (wf_closes p W); eauto using nth_error_In).
      assert (E2 : fst x = it_node it2) by (eapply (wf_closes p W); eauto).
      destruct (loc_unique p W _ _ _ _ _ _ Hit2 Ci ltac:(congruence)) as (-> & ->).
      rewrite Hit2 in Ci. inversion Ci; subst it2. rewrite Ct in Hp2.
      destruct Hp2 as [Hp2|(_ & k2 & i2 & Hk2 & Hi2 & Hx2)]; [lia|]. inversion Hk2; subst k2.
      pose proof (wfl_closes_nodup p rank W t pc it Hit2) as ND.
      assert (i2 = k). { eapply NoDup_nth_error; eauto. eapply nth_error_Some_lt; eauto. congruence. }
      lia.
Qed.

Print Assumptions progress_item_f.
