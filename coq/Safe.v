From Coq Require Import List Arith Lia Bool.
Import ListNotations.
Require Import Sem2.

Lemma upd_length {A} (l : list A) i a : length (upd l i a) = length l.
Proof. revert i; induction l as [|x l IH]; intros [|i]; simpl; auto. Qed.

Lemma nth_error_upd_eq {A} (l : list A) i a : i < length l -> nth_error (upd l i a) i = Some a.
Proof. revert i; induction l as [|x l IH]; intros [|i] H; simpl in *; try lia; auto. apply IH; lia. Qed.

Lemma nth_error_upd_neq {A} (l : list A) i j a : i <> j -> nth_error (upd l i a) j = nth_error l j.
Proof. revert i j; induction l as [|x l IH]; intros [|i] [|j] H; simpl; auto; try congruence. Qed.

Lemma nth_error_Some_lt {A} (l : list A) i a : nth_error l i = Some a -> i < length l.
Proof. intros H. apply nth_error_Some. congruence. Qed.

Lemma NoDup_app_inv {A} (l r : list A) : NoDup (l ++ r) -> NoDup l /\ NoDup r /\ (forall x, In x l -> In x r -> False).
Proof.
  induction l as [|a l IH]; simpl; intros H.
  - repeat split; auto. constructor.
  - inversion H; subst. destruct (IH H3) as (Hl & Hr & Hd). repeat split; auto.
    + constructor; auto. intro. apply H2. apply in_or_app; auto.
    + intros x [->|Hx] Hxr; [apply H2; apply in_or_app; auto | eapply Hd; eauto].
Qed.

(* uniqueness of the location of a node *)
Lemma nodup_concat_loc {A B} (f : A -> B) (ls : list (list A)) :
  NoDup (map f (concat ls)) ->
  forall t t' j j' a a', nth_error (nth t ls []) j = Some a -> nth_error (nth t' ls []) j' = Some a' ->
    f a = f a' -> t = t' /\ j = j'.
Proof.
  induction ls as [|l ls IH]; intros ND t t' j j' a a' H1 H2 E.
  - destruct t, j; simpl in H1; discriminate.
  - simpl in ND. rewrite map_app in ND.
    destruct (NoDup_app_inv _ _ ND) as (NDl & NDr & DISJ).
    assert (INC : forall t j a, nth_error (nth t ls []) j = Some a -> In (f a) (map f (concat ls))).
    { clear. intros t j a H. apply in_map. apply in_concat. exists (nth t ls []). split; [|eapply nth_error_In; eauto].
      destruct (lt_dec t (length ls)); [apply nth_In; auto|]. rewrite nth_overflow in H by lia. destruct j; discriminate. }
    destruct t, t'; simpl in H1, H2.
    + split; auto. clear -NDl H1 H2 E. revert j j' H1 H2. induction l as [|x l IHl]; intros [|j] [|j'] H1 H2; simpl in *; try discriminate; auto.
      * inversion H1; subst. inversion NDl; subst. exfalso. apply H3. rewrite E. apply in_map. eapply nth_error_In; eauto.
      * inversion H2; subst. inversion NDl; subst. exfalso. apply H3. rewrite <- E. apply in_map. eapply nth_error_In; eauto.
      * inversion NDl; subst. f_equal. eapply IHl; eauto.
    + exfalso. eapply DISJ; [ apply in_map; eapply nth_error_In; exact H1 | rewrite E; eapply INC; eauto ].
    + exfalso. eapply DISJ; [ apply in_map; eapply nth_error_In; exact H2 | rewrite <- E; eapply INC; eauto ].
    + destruct (IH NDr t t' j j' a a' H1 H2 E); subst; auto.
Qed.

Lemma loc_unique p : wf p -> forall t t' j j' it it', item_at p t j = Some it -> item_at p t' j' = Some it' ->
  it_node it = it_node it' -> t = t' /\ j = j'.
Proof. intros W. unfold item_at, items_of. intros. eapply (nodup_concat_loc it_node); eauto using wf_nodup. Qed.

Lemma lookup_seq_hit n vs st i : forall m b, b <= i -> i < b + m ->
  lookup (n,i) (map (fun i0 => (n, i0, VApp n i0 vs)) (seq b m) ++ st) = Some (VApp n i vs).
Proof.
  induction m as [|m IH]; intros b Hb Hlt; [lia|].
  cbn [seq map app lookup]. destruct (var_eq_dec (n, i) (n, b)) as [e|ne].
  - inversion e; subst; reflexivity.
  - apply IH; [|lia]. assert (i <> b) by congruence. lia.
Qed.

Lemma lookup_rets_hit n k vs st i : i < k -> lookup (n, i) (rets n k vs ++ st) = Some (VApp n i vs).
Proof. intros H. unfold rets. apply lookup_seq_hit; lia. Qed.

Lemma lookup_rets_miss n m k vs st i : m <> n -> lookup (m, i) (rets n k vs ++ st) = lookup (m, i) st.
Proof.
  unfold rets. intros H. induction (seq 0 k) as [|b l IH]; cbn [map app lookup]; auto.
  destruct (var_eq_dec (m, i) (n, b)); [congruence|auto].
Qed.

Lemma val_eq_dec : forall a b : val, {a = b} + {a <> b}.
Proof. fix F 1. decide equality; try apply Nat.eq_dec; apply list_eq_dec; exact F. Defined.
Lemma event_eq_dec : forall a b : event, {a = b} + {a <> b}.
Proof. decide equality; try apply Nat.eq_dec; apply list_eq_dec; apply val_eq_dec. Defined.

(* ---------- preservation ---------- *)
Lemma cur_spec p s t pc ph it : cur p s t = Some (pc, ph, it) ->
  nth_error (s_thr s) t = Some (TRun pc ph) /\ item_at p t pc = Some it.
Proof.
  unfold cur, item_at, items_of. destruct (nth_error (s_thr s) t) as [[pc' ph'|]|] eqn:E1; try discriminate.
  destruct (nth_error (p_threads p) t) as [its|] eqn:E2; try discriminate.
  destruct (nth_error its pc') as [it'|] eqn:E3; try discriminate.
  intros H; inversion H; subst. split; auto. erewrite nth_error_nth; eauto.
Qed.

Definition past_stat (st : tstat) (j : nat) : Prop :=
  match st with TRun pc ph => j < pc \/ (j = pc /\ exists k, ph = PClose k) | TDone _ => True end.

Lemma past_unfold s t j : past s t j <-> exists st, nth_error (s_thr s) t = Some st /\ past_stat st j.
Proof.
  unfold past, past_stat. destruct (nth_error (s_thr s) t) as [st|].
  - split.
    + intros H. exists st. split; [reflexivity|]. destruct st; exact H.
    + intros (st' & E & H). inversion E; subst. destruct st'; exact H.
  - split; [contradiction|]. intros (st' & E & _). discriminate.
Qed.

Lemma exited_mono s s' n : (forall e, In e (s_trace s) -> In e (s_trace s')) -> exited s n -> exited s' n.
Proof. intros H (vs & Hin). exists vs; auto. Qed.

(* A generic preservation lemma for steps that only move thread t and possibly extend closed/trace/store monotonically. *)
Lemma inv_frame p s s' t old new :
  wf p -> Inv p s ->
  nth_error (s_thr s) t = Some old ->
  s_thr s' = upd (s_thr s) t new ->
  (forall j, past_stat old j -> past_stat new j) ->
  (forall e, In e (s_trace s) -> In e (s_trace s')) ->
  (forall x, In x (s_closed s) -> In x (s_closed s')) ->
  (* new obligations *)
  (forall x, In x (s_closed s') -> exited s' (fst x)) ->
  (forall n vs i k t j it, In (ExitOk n vs) (s_trace s') -> item_at p t j = Some it -> it_node it = n ->
                 k = it_nrets it -> i < k -> lookup (n, i) (s_store s') = Some (VApp n i vs)) ->
  (forall n vs, In (ExitOk n vs) (s_trace s') -> ~ In (ExitOk n vs) (s_trace s) ->
                 exists j it, item_at p t j = Some it /\ it_node it = n /\ past_stat new j) ->
  (forall pc ph, new = TRun pc ph ->
              (forall j it, j < pc -> item_at p t j = Some it -> exited s' (it_node it)) /\
              match ph with
              | PWait k => forall i it x, item_at p t pc = Some it -> i < k -> nth_error (it_waits it) i = Some x -> In x (s_closed s')
              | PClose _ => forall it, item_at p t pc = Some it -> exited s' (it_node it)
              | PInside _ => True
              end) ->
  (forall n vs ws, In (ExitOk n vs) (s_trace s') -> In (ExitOk n ws) (s_trace s') -> vs = ws) ->
  Inv p s'.
Proof.
  intros W I Hold Hthr Hadv Htr Hcl Ncl Nst Nloc Npc Nonce.
  assert (Hlt : t < length (s_thr s)) by (eapply nth_error_Some_lt; eauto).
  constructor.
  - rewrite Hthr, upd_length. apply (inv_len _ _ I).
  - exact Ncl.
  - exact Nst.
  - intros n vs Hin.
    destruct (in_dec event_eq_dec (ExitOk n vs) (s_trace s)) as [Hold'|Hnew].
    + destruct (inv_exit_loc _ _ I n vs Hold') as (t0 & j & it & Hit & Hn & Hp).
      exists t0, j, it. repeat split; auto. apply past_unfold. apply past_unfold in Hp. destruct Hp as (st & E & Hp).
      rewrite Hthr. destruct (Nat.eq_dec t t0) as [->|ne].
      * rewrite nth_error_upd_eq by auto. exists new; split; auto. apply Hadv. congruence.
      * rewrite nth_error_upd_neq by auto. eauto.
    + destruct (Nloc n vs Hin Hnew) as (j & it & Hit & Hn & Hp). exists t, j, it. repeat split; auto.
      apply past_unfold. rewrite Hthr, nth_error_upd_eq by auto. eauto.
  - intros t0 pc ph E. rewrite Hthr in E. destruct (Nat.eq_dec t t0) as [->|ne].
    + rewrite nth_error_upd_eq in E by auto. inversion E; subst. apply Npc; auto.
    + rewrite nth_error_upd_neq in E by auto. destruct (inv_pc _ _ I t0 pc ph E) as (A & B). split.
      * intros j it Hj Hit. eapply exited_mono; eauto.
      * destruct ph; auto.
        -- intros i it x Hit Hi Hx. apply Hcl. eapply B; eauto.
        -- intros it Hit. eapply exited_mono; eauto.
  - exact Nonce.
Qed.

Ltac inv_some := match goal with H : Some _ = Some _ |- _ => inversion H; subst; clear H end.
Ltac frame p s t old new W I Ct :=
  eapply (inv_frame p s _ t old new); [exact W | exact I | exact Ct | reflexivity | | | | | | | | ]; cbn [setthr fail s_thr s_trace s_closed s_store].

Lemma step_inv p s l s' : wf p -> Inv p s -> step p s l = Some s' -> Inv p s'.
Proof.
  intros W I Hs. destruct l as [t|t|t|t|t|t|t|t|]; unfold step in Hs.
  - (* LWaitPass *)
    destruct (cur p s t) as [[[pc ph] it]|] eqn:C; try discriminate. destruct ph as [k| |]; try discriminate.
    destruct (nth_error (it_waits it) k) as [x|] eqn:Ex; try discriminate.
    destruct (mem x (s_closed s)) eqn:M; try discriminate. inv_some.
    apply cur_spec in C. destruct C as (Ct & Ci).
    frame p s t (TRun pc (PWait k)) (TRun pc (PWait (S k))) W I Ct.
    + intros j [H|(H & k' & E)]; [left; auto | discriminate].
    + auto.
    + auto.
    + apply (inv_closed _ _ I).
    + apply (inv_store _ _ I).
    + intros n vs H1 H2. contradiction.
    + intros pc' ph' E. inversion E; subst. destruct (inv_pc _ _ I t pc' (PWait k) Ct) as (A & B). split; auto.
      intros i it' x' Hit Hi Hx. rewrite Ci in Hit. inversion Hit; subst.
      destruct (Nat.eq_dec i k) as [->|ne].
      * rewrite Ex in Hx. inversion Hx; subst. unfold mem in M. destruct (in_dec var_eq_dec x' (s_closed s)); auto; discriminate.
      * eapply B; eauto. lia.
    + apply (inv_once _ _ I).
  - (* LWaitCtx *)
    destruct (cur p s t) as [[[pc ph] it]|] eqn:C; try discriminate. destruct ph as [k| |]; try discriminate.
    destruct (nth_error (it_waits it) k) as [x|] eqn:Ex; try discriminate.
    destruct (ctxaware p t); try discriminate.
    apply cur_spec in C. destruct C as (Ct & Ci).
    assert (G : forall e, Inv p (fail s t e)).
    { intros e. frame p s t (TRun pc (PWait k)) (TDone (Some e)) W I Ct.
      - intros j _. exact Logic.I.
      - auto.
      - auto.
      - apply (inv_closed _ _ I).
      - apply (inv_store _ _ I).
      - intros n vs H1 H2. contradiction.
      - intros pc' ph' E. discriminate.
      - apply (inv_once _ _ I). }
    destruct (s_cext s); [inv_some; apply G|]. destruct (s_cint s); [inv_some; apply G|discriminate].
  - (* LEnter *)
    destruct (cur p s t) as [[[pc ph] it]|] eqn:C; try discriminate. destruct ph as [k| |]; try discriminate.
    destruct (Nat.eqb k (length (it_waits it))) eqn:Ek; try discriminate.
    destruct (rdall p (s_store s) (it_args it)) as [vs|] eqn:R; try discriminate. inv_some.
    apply cur_spec in C. destruct C as (Ct & Ci).
    frame p s t (TRun pc (PWait k)) (TRun pc (PInside vs)) W I Ct.
    + intros j [H|(H & k' & E)]; [left; auto | discriminate].
    + intros e H. right; auto.
    + auto.
    + intros x Hx. destruct (inv_closed _ _ I x Hx) as (ws & Hw). exists ws. right; auto.
    + intros n ws i k' t' j it' [H|H] Hit Hn Hk Hi; [discriminate|]. eapply (inv_store _ _ I); eauto.
    + intros n ws [H|H] H2; [discriminate|contradiction].
    + intros pc' ph' E. inversion E; subst. destruct (inv_pc _ _ I t pc' (PWait k) Ct) as (A & B). split; auto.
      intros j it' Hj Hit. destruct (A j it' Hj Hit) as (ws & Hw). exists ws. right; auto.
    + intros n v1 v2 [H|H] [H'|H']; try discriminate. eapply (inv_once _ _ I); eauto.
  - (* LExitOk *)
    destruct (cur p s t) as [[[pc ph] it]|] eqn:C; try discriminate. destruct ph as [|vs|]; try discriminate. inv_some.
    apply cur_spec in C. destruct C as (Ct & Ci).
    assert (Fresh : forall ws, ~ In (ExitOk (it_node it) ws) (s_trace s)).
    { intros ws Hin. destruct (inv_exit_loc _ _ I _ _ Hin) as (t' & j' & it' & Hit' & Hn & Hp).
      destruct (loc_unique p W _ _ _ _ _ _ Hit' Ci Hn) as (-> & ->).
      apply past_unfold in Hp. destruct Hp as (st & E & Hp). rewrite Ct in E. inversion E; subst. simpl in Hp.
      destruct Hp as [Hp|(_ & k & Hk)]; [lia|discriminate]. }
    frame p s t (TRun pc (PInside vs)) (TRun pc (PClose 0)) W I Ct.
    + intros j [H|(H & k' & E)]; [left; auto | discriminate].
    + intros e H. right; auto.
    + auto.
    + intros x Hx. destruct (inv_closed _ _ I x Hx) as (ws & Hw). exists ws. right; auto.
    + intros n ws i k' t' j it' [H|H] Hit Hn Hk Hi.
      * injection H as E1 E2. assert (Hn' : it_node it' = it_node it) by congruence.
        destruct (loc_unique p W _ _ _ _ _ _ Hit Ci Hn') as (-> & ->). rewrite Ci in Hit. injection Hit as <-.
        subst. apply lookup_rets_hit; auto.
      * assert (n <> it_node it) by (intro E; rewrite E in H; exact (Fresh _ H)).
        rewrite lookup_rets_miss by auto. eapply (inv_store _ _ I); eauto.
    + intros n ws [H|H] H2; [|contradiction]. inversion H; subst. exists pc, it. repeat split; auto. right. split; eauto.
    + intros pc' ph' E. inversion E; subst. destruct (inv_pc _ _ I t pc' (PInside vs) Ct) as (A & _). split.
      * intros j it' Hj Hit. destruct (A j it' Hj Hit) as (ws & Hw). exists ws. right; auto.
      * intros it' Hit. rewrite Ci in Hit. inversion Hit; subst. exists vs. left; auto.
    + intros n v1 v2 [H|H] [H'|H'].
      * inversion H; inversion H'; subst; auto.
      * inversion H; subst. exfalso. eapply Fresh; eauto.
      * inversion H'; subst. exfalso. eapply Fresh; eauto.
      * eapply (inv_once _ _ I); eauto.
  - (* LExitErr *)
    destruct (cur p s t) as [[[pc ph] it]|] eqn:C; try discriminate. destruct ph as [|vs|]; try discriminate.
    destruct (it_fallible it); try discriminate. inv_some.
    apply cur_spec in C. destruct C as (Ct & Ci).
    frame p s t (TRun pc (PInside vs)) (TDone (Some (EProv (it_node it)))) W I Ct.
    + intros j _. exact Logic.I.
    + intros e H. right; auto.
    + auto.
    + intros x Hx. destruct (inv_closed _ _ I x Hx) as (ws & Hw). exists ws. right; auto.
    + intros n ws i k' t' j it' [H|H] Hit Hn Hk Hi; [discriminate|]. eapply (inv_store _ _ I); eauto.
    + intros n ws [H|H] H2; [discriminate|contradiction].
    + intros pc' ph' E. discriminate.
    + intros n v1 v2 [H|H] [H'|H']; try discriminate. eapply (inv_once _ _ I); eauto.
  - (* LClose *)
    destruct (cur p s t) as [[[pc ph] it]|] eqn:C; try discriminate. destruct ph as [| |k]; try discriminate.
    destruct (nth_error (it_closes it) k) as [x|] eqn:Ex; try discriminate.
    destruct (mem x (s_closed s)) eqn:M; try discriminate. inv_some.
    apply cur_spec in C. destruct C as (Ct & Ci).
    destruct (inv_pc _ _ I t pc (PClose k) Ct) as (A & B).
    frame p s t (TRun pc (PClose k)) (TRun pc (PClose (S k))) W I Ct.
    + intros j [H|(H & k' & E)]; [left; auto | right; split; eauto].
    + auto.
    + intros y Hy. right; auto.
    + intros y [<-|Hy]; [|apply (inv_closed _ _ I); auto].
      assert (fst x = it_node it) by (eapply (wf_closes p W); eauto using nth_error_In). rewrite H. apply B; auto.
    + apply (inv_store _ _ I).
    + intros n vs H1 H2. contradiction.
    + intros pc' ph' E. inversion E; subst. split; auto.
    + apply (inv_once _ _ I).
  - (* LNext *)
    destruct (cur p s t) as [[[pc ph] it]|] eqn:C; try discriminate. destruct ph as [| |k]; try discriminate.
    destruct (Nat.eqb k (length (it_closes it))); try discriminate. inv_some.
    apply cur_spec in C. destruct C as (Ct & Ci).
    destruct (inv_pc _ _ I t pc (PClose k) Ct) as (A & B).
    frame p s t (TRun pc (PClose k)) (TRun (S pc) (PWait 0)) W I Ct.
    + intros j [H|(H & k' & E)]; left; lia.
    + auto.
    + auto.
    + apply (inv_closed _ _ I).
    + apply (inv_store _ _ I).
    + intros n vs H1 H2. contradiction.
    + intros pc' ph' E. inversion E; subst. split.
      * intros j it' Hj Hit. destruct (Nat.eq_dec j pc) as [->|ne]; [apply B; auto | apply (A j); auto; lia].
      * intros i it' x _ Hi. lia.
    + apply (inv_once _ _ I).
  - (* LFin *)
    destruct (nth_error (s_thr s) t) as [[pc [[|k]| |]|]|] eqn:Ct; try discriminate.
    destruct (nth_error (p_threads p) t) as [its|] eqn:Et; try discriminate.
    destruct (Nat.eqb pc (length its)); try discriminate.
    assert (G : forall e, Inv p (setthr s t (TDone e))).
    { intros e. frame p s t (TRun pc (PWait 0)) (TDone e) W I Ct.
      - intros j _. exact Logic.I.
      - auto.
      - auto.
      - apply (inv_closed _ _ I).
      - apply (inv_store _ _ I).
      - intros n vs H1 H2. contradiction.
      - intros pc' ph' E. discriminate.
      - apply (inv_once _ _ I). }
    destruct (Nat.eqb t 0); [destruct (forallb isdone (tl (s_thr s))); try discriminate|]; inv_some; apply G.
  - (* LCancel *)
    inv_some. destruct I. constructor; auto.
Qed.

Lemma inv_init p : Inv p (init p).
Proof.
  constructor; unfold init; cbn [s_thr s_closed s_store s_trace].
  - apply map_length.
  - intros x [].
  - intros n vs i k t j it [].
  - intros n vs [].
  - intros t pc ph H. apply nth_error_In in H. apply in_map_iff in H. destruct H as (x & E & _). inversion E; subst. split.
    + intros j it Hj. lia.
    + intros i it x0 _ Hi. lia.
  - intros n vs ws [].
Qed.

Lemma run_inv p ls : forall s s', wf p -> Inv p s -> run p s ls = Some s' -> Inv p s'.
Proof.
  induction ls as [|l ls IH]; intros s s' W I H; simpl in H.
  - inversion H; subst; auto.
  - destruct (step p s l) as [s1|] eqn:E; try discriminate. apply (IH s1 s' W); [eapply step_inv; eauto|exact H].
Qed.

(* what a provider reads at entry *)
Definition good_read (p : prog) (s : state) (x : var) (v : val) : Prop :=
  (isarg p x = true /\ v = VArg (fst x)) \/
  (exists ws, In (ExitOk (fst x) ws) (s_trace s) /\ v = VApp (fst x) (snd x) ws).

Lemma ready_reads p s t pc it : wf p -> Inv p s ->
  nth_error (s_thr s) t = Some (TRun pc (PWait (length (it_waits it)))) -> item_at p t pc = Some it ->
  exists vs, rdall p (s_store s) (it_args it) = Some vs /\ Forall2 (good_read p s) (it_args it) vs.
Proof.
  intros W I Ct Ci.
  assert (G : forall x, In x (it_args it) -> exists v, rd p (s_store s) x = Some v /\ good_read p s x v).
  { intros x Hx. unfold rd, good_read. destruct (isarg p x) eqn:A; [eexists; split; eauto|].
    assert (Ex : exists t' j' it', item_at p t' j' = Some it' /\ it_node it' = fst x /\ snd x < it_nrets it' /\ exited s (fst x)).
    { destruct (inv_pc _ _ I t pc _ Ct) as (P1 & P2).
      destruct (wf_args p W t pc it x Ci Hx) as [H|[(j' & it' & Hj & Hit & Hn & Hr)|Hw]]; [congruence| |].
      - exists t, j', it'. repeat split; auto. rewrite <- Hn. eapply P1; eauto.
      - destruct (wf_waits p W t pc it x Ci Hw) as (_ & t' & j' & it' & Hit & Hn & Hr).
        exists t', j', it'. repeat split; auto. apply (inv_closed _ _ I).
        apply In_nth_error in Hw. destruct Hw as (i & Hi). eapply P2; eauto. eapply nth_error_Some_lt; eauto. }
    destruct Ex as (t' & j' & it' & Hit & Hn & Hr & (ws & Hws)).
    exists (VApp (fst x) (snd x) ws). split; [|right; eauto].
    destruct x as [n i]; simpl in *. eapply (inv_store _ _ I); eauto. }
  clear Ct Ci. induction (it_args it) as [|x xs IH]; simpl.
  - exists []. split; auto.
  - destruct (G x (or_introl eq_refl)) as (v & Hv & Gv). destruct IH as (vs & Hvs & Fvs); [intros; apply G; right; auto|].
    exists (v :: vs). rewrite Hv, Hvs. split; auto.
Qed.

(* C01-style corollary: in any run from init, every Enter event read producer outputs, and LEnter is never stuck *)
Theorem enter_after_deps p ls s : wf p -> run p (init p) ls = Some s ->
  forall t pc it, nth_error (s_thr s) t = Some (TRun pc (PWait (length (it_waits it)))) -> item_at p t pc = Some it ->
  exists s', step p s (LEnter t) = Some s' /\
             exists vs, s_trace s' = Enter (it_node it) vs :: s_trace s /\ Forall2 (good_read p s) (it_args it) vs.
Proof.
  intros W R t pc it Ct Ci.
  assert (I : Inv p s) by (eapply run_inv; eauto using inv_init).
  destruct (ready_reads p s t pc it W I Ct Ci) as (vs & Hr & Hf).
  unfold step, cur. rewrite Ct. unfold item_at, items_of in Ci.
  destruct (nth_error (p_threads p) t) as [its|] eqn:Et.
  - erewrite nth_error_nth in Ci by eauto. rewrite Ci, Nat.eqb_refl, Hr. eexists; split; [reflexivity|]. exists vs. split; [reflexivity|exact Hf].
  - rewrite nth_overflow in Ci by (apply nth_error_None; auto). destruct pc; discriminate.
Qed.
Print Assumptions enter_after_deps.
