From Coq Require Import List NArith. Import ListNotations.
Require Import Gen.
(* C05 probe: types 1 A 2 B 3 C 4 D 5 S 6 S2 7 E 8 R 9 Arg ; decl order: R, E(async), S, S2, A,B,C,D async *)
Definition probe : decl := {| d_ret := 8%N; d_provs := [
  mkfn [7;2;3;4;5]%N [[8%N]] false false;
  mkfn [1;5;6]%N [[7%N]] false true;
  mkfn [] [[5%N]] false false;
  mkfn [9%N] [[6%N]] false false;
  mkfn [] [[1%N]] false true; mkfn [] [[2%N]] false true; mkfn [] [[3%N]] false true; mkfn [] [[4%N]] false true ] |}.
Definition show (d : decl) :=
  match gen d with
  | OK (nodes, tp, ac, pools, (main, gos)) =>
      Some (nodes, tp, ac, pools, map (fun i => (it_node i, it_waits i, it_closes i)) main,
            map (map (fun i => (it_node i, it_waits i, it_closes i))) gos)
  | Err e => None end.
Eval vm_compute in show probe.
Eval vm_compute in show complex_async.
(* InitZ probe (C08): X sync fallible; Y async(x); A async(x); Z(a,y): types 1 X 2 Y 3 A 4 Z *)
Definition initz : decl := {| d_ret := 4%N; d_provs := [
  mkfn [] [[1%N]] true false; mkfn [1%N] [[2%N]] false true; mkfn [1%N] [[3%N]] false true; mkfn [3;2]%N [[4%N]] false false ] |}.
Eval vm_compute in show initz.
