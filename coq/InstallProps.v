(* Theorems about the installer model (C15). *)
From Coq Require Import List Arith Lia Bool.
Import ListNotations.
Require Import Install.

Lemma jobs_ok_prefix js s i : jobs_ok js s -> jobs_ok (firstn i js) s.
Proof.
  intros Ok. assert (Hin : forall j, In j (firstn i js) -> In j js) by (intros j H; rewrite <- (firstn_skipn i js); apply in_or_app; auto).
  assert (ND : forall (f : job -> nat), NoDup (map f js) -> NoDup (map f (firstn i js))).
  { intros f N. rewrite <- (firstn_skipn i js), map_app in N. clear - N. induction (map f (firstn i js)) as [|a l IH]; [constructor|].
    simpl in N. inversion N; subst. constructor; [intro; apply H1; apply in_or_app; auto | auto]. }
  constructor.
  - apply ND. apply (jo_dst _ _ Ok).
  - apply ND. apply (jo_tmp _ _ Ok).
  - intros a b Ha Hb. apply (jo_sep _ _ Ok); auto.
  - intros a Ha. apply (jo_fresh _ _ Ok); auto.
Qed.

Lemma find_dst_in js j : NoDup (map dst js) -> In j js -> find (fun a => Nat.eqb (dst j) (dst a)) js = Some j.
Proof.
  induction js as [|a l IH]; intros N H; [destruct H|]. simpl. inversion N; subst.
  destruct H as [->|H]; [rewrite Nat.eqb_refl; reflexivity|].
  destruct (Nat.eqb_spec (dst j) (dst a)) as [E|_]; [exfalso; apply H2; rewrite <- E; apply in_map; auto | auto].
Qed.
Lemma find_dst_notin js q : (forall a, In a js -> q <> dst a) -> find (fun a => Nat.eqb q (dst a)) js = None.
Proof. intros H. apply find_none_intro. intros a Ha. apply Nat.eqb_neq. auto. Qed.
Lemma existsb_tmp_notin js q : (forall a, In a js -> q <> tmp a) -> existsb (fun a => Nat.eqb q (tmp a)) js = false.
Proof.
  intros H. apply not_true_is_false. intro E. apply existsb_exists in E. destruct E as (a & Ha & E). apply Nat.eqb_eq in E. eapply H; eauto.
Qed.

(* a complete installation: every destination holds the new content with mode 0644, no temp file is left,
   everything else is untouched *)
Theorem install_complete js s : jobs_ok js s ->
  (forall j, In j js -> install js s (dst j) = Some (cnt j, m644)) /\
  (forall j, In j js -> install js s (tmp j) = None) /\
  (forall q, (forall a, In a js -> q <> dst a /\ q <> tmp a) -> install js s q = s q).
Proof.
  intros Ok. split; [|split].
  - intros j Hj. rewrite install_spec by auto. rewrite (find_dst_in js j (jo_dst _ _ Ok) Hj). reflexivity.
  - intros j Hj. rewrite install_spec by auto.
    rewrite find_dst_notin by (intros a Ha; apply (jo_sep _ _ Ok); auto).
    assert (E : existsb (fun a => Nat.eqb (tmp j) (tmp a)) js = true) by (apply existsb_exists; exists j; split; auto; apply Nat.eqb_refl).
    rewrite E. reflexivity.
  - intros q H. rewrite install_spec by auto. rewrite find_dst_notin by (intros a Ha; apply H; auto).
    rewrite existsb_tmp_notin by (intros a Ha; apply H; auto). reflexivity.
Qed.

Lemma nth_split_job (js : list job) i ji : nth_error js i = Some ji -> js = firstn i js ++ ji :: skipn (S i) js.
Proof.
  revert i. induction js as [|a l IH]; intros [|i] H; simpl in *; try discriminate.
  - inversion H; subst. reflexivity.
  - f_equal. apply IH. exact H.
Qed.

Section At.
Variables (js : list job) (s : fs) (i : nat) (ji : job).
Hypothesis Ok : jobs_ok js s.
Hypothesis Hi : nth_error js i = Some ji.
Let pre := firstn i js.
Let post := skipn (S i) js.
Let Hsplit : js = pre ++ ji :: post := nth_split_job js i ji Hi.

Lemma ji_in : In ji js. Proof. eapply nth_error_In; eauto. Qed.
Lemma pre_in j : In j pre -> In j js. Proof. intros H. rewrite Hsplit. apply in_or_app; auto. Qed.
Lemma post_in j : In j post -> In j js. Proof. intros H. rewrite Hsplit. apply in_or_app; right; right; auto. Qed.
Lemma ji_sep : tmp ji <> dst ji. Proof. apply (jo_sep _ _ Ok); apply ji_in. Qed.

Lemma dst_distinct_pre j : In j pre -> dst j <> dst ji.
Proof.
  intros H E. pose proof (jo_dst _ _ Ok) as N. rewrite Hsplit, map_app in N. simpl in N.
  apply NoDup_remove_2 in N. apply N. apply in_or_app. left. rewrite <- E. apply in_map. exact H.
Qed.
Lemma dst_distinct_post j : In j post -> dst j <> dst ji.
Proof.
  intros H E. pose proof (jo_dst _ _ Ok) as N. rewrite Hsplit, map_app in N. simpl in N.
  apply NoDup_remove_2 in N. apply N. apply in_or_app. right. rewrite <- E. apply in_map. exact H.
Qed.
Lemma dst_pre_post j j' : In j pre -> In j' post -> dst j <> dst j'.
Proof.
  intros H H' E. pose proof (jo_dst _ _ Ok) as N. rewrite Hsplit, map_app in N. simpl in N.
  apply NoDup_remove_1 in N. clear - N H H' E. induction pre as [|a l IH]; [destruct H|]. simpl in N. inversion N; subst.
  destruct H as [->|H]; [apply H2; apply in_or_app; right; rewrite E; apply in_map; auto | auto].
Qed.
Lemma tmp_distinct j : In j js -> j <> ji -> tmp j <> tmp ji.
Proof.
  intros H Hne E. pose proof (jo_tmp _ _ Ok) as N. rewrite Hsplit, map_app in N. simpl in N. apply NoDup_remove_2 in N.
  rewrite Hsplit in H. apply in_app_or in H. destruct H as [H|[H|H]]; [|congruence|].
  - apply N. apply in_or_app. left. rewrite <- E. apply in_map. auto.
  - apply N. apply in_or_app. right. rewrite <- E. apply in_map. auto.
Qed.

(* the state reached when installation of file i starts *)
Lemma before_i q : install pre s q =
  match find (fun j => Nat.eqb q (dst j)) pre with Some j => Some (cnt j, m644)
  | None => if existsb (fun j => Nat.eqb q (tmp j)) pre then None else s q end.
Proof. apply install_spec. apply jobs_ok_prefix. exact Ok. Qed.
Lemma before_i_dst_ji : install pre s (dst ji) = s (dst ji).
Proof.
  rewrite before_i. rewrite find_dst_notin by (intros a Ha E; apply (dst_distinct_pre a Ha); auto).
  rewrite existsb_tmp_notin; auto. intros a Ha E. apply (jo_sep _ _ Ok a ji (pre_in _ Ha) ji_in). auto.
Qed.
Lemma before_i_tmp_ji : install pre s (tmp ji) = None.
Proof.
  rewrite before_i. rewrite find_dst_notin by (intros a Ha; apply (jo_sep _ _ Ok); [apply ji_in | apply pre_in; auto]).
  destruct (existsb _ pre); auto. apply (jo_fresh _ _ Ok). apply ji_in.
Qed.
Lemma before_i_dst_pre j : In j pre -> install pre s (dst j) = Some (cnt j, m644).
Proof. intros H. apply (install_complete pre s (jobs_ok_prefix _ _ i Ok)). exact H. Qed.
Lemma before_i_dst_post j : In j post -> install pre s (dst j) = s (dst j).
Proof.
  intros H. rewrite before_i. rewrite find_dst_notin by (intros a Ha E; apply (dst_pre_post a j Ha H); auto).
  rewrite existsb_tmp_notin; auto. intros a Ha E. apply (jo_sep _ _ Ok a j (pre_in _ Ha) (post_in _ H)). auto.
Qed.

(* crash while installing file i: every destination is old or entirely new *)
Lemma crash_at_dst n torn j : In j js ->
  crash js i n torn s (dst j) = s (dst j) \/ crash js i n torn s (dst j) = Some (cnt j, m644).
Proof.
  intros Hj. unfold crash. rewrite Hi. fold pre. rewrite crash_file_spec by apply ji_sep.
  rewrite Hsplit in Hj. apply in_app_or in Hj. destruct Hj as [Hj|[<-|Hj]].
  - pose proof (proj2 (Nat.eqb_neq _ _) (dst_distinct_pre j Hj)) as E1. rewrite E1.
    assert (E2 : dst j <> tmp ji) by (intro E; apply (jo_sep _ _ Ok ji j ji_in (pre_in _ Hj)); auto). apply Nat.eqb_neq in E2. rewrite E2.
    right. apply before_i_dst_pre. exact Hj.
  - rewrite Nat.eqb_refl. destruct (Nat.leb 7 n); [right; reflexivity | left; apply before_i_dst_ji].
  - pose proof (proj2 (Nat.eqb_neq _ _) (dst_distinct_post j Hj)) as E1. rewrite E1.
    assert (E2 : dst j <> tmp ji) by (intro E; apply (jo_sep _ _ Ok ji j ji_in (post_in _ Hj)); auto). apply Nat.eqb_neq in E2. rewrite E2.
    left. apply before_i_dst_post. exact Hj.
Qed.
Lemma crash_at_other n torn q : (forall a, In a js -> q <> dst a /\ q <> tmp a) -> crash js i n torn s q = s q.
Proof.
  intros H. unfold crash. rewrite Hi. fold pre. rewrite crash_file_spec by apply ji_sep.
  destruct (H ji ji_in) as (A & B). apply Nat.eqb_neq in A, B. rewrite A, B.
  apply (install_complete pre s (jobs_ok_prefix _ _ i Ok)). intros a Ha. apply H. apply pre_in. exact Ha.
Qed.

(* a single failing step n < 7 of file i, no crash *)
Lemma fail_at n torn : n < 7 ->
  (forall j, In j js -> fail js i n torn s (tmp j) = None) /\
  fail js i n torn s (dst ji) = s (dst ji) /\
  (forall j, In j pre -> fail js i n torn s (dst j) = Some (cnt j, m644)) /\
  (forall j, In j post -> fail js i n torn s (dst j) = s (dst j)).
Proof.
  intros Hn. unfold fail. rewrite Hi. fold pre. unfold fail_file.
  assert (S1 := ji_sep). assert (S2 : dst ji <> tmp ji) by auto.
  assert (T : forall q, (if Nat.leb 2 n then fset (crash_file ji n torn (install pre s)) (tmp ji) None else crash_file ji n torn (install pre s)) q
                        = if Nat.eqb q (tmp ji) then (if Nat.leb 2 n then None else install pre s (tmp ji)) else crash_file ji n torn (install pre s) q).
  { intros q. destruct (Nat.leb 2 n) eqn:L.
    - unfold fset. destruct (Nat.eqb q (tmp ji)); reflexivity.
    - destruct (Nat.eqb_spec q (tmp ji)) as [->|]; [|reflexivity]. rewrite crash_file_spec by auto.
      apply Nat.eqb_neq in S1. rewrite S1, Nat.eqb_refl. apply Nat.leb_gt in L. destruct n as [|[|n]]; [reflexivity|reflexivity|lia]. }
  assert (L7 : Nat.leb 7 n = false) by (apply Nat.leb_gt; lia).
  split; [|split; [|split]].
  - intros j Hj. rewrite T. destruct (Nat.eqb_spec (tmp j) (tmp ji)) as [E|Ne].
    + destruct (Nat.leb 2 n); [reflexivity | apply before_i_tmp_ji].
    + rewrite crash_file_spec by auto.
      assert (E1 : tmp j <> dst ji) by (apply (jo_sep _ _ Ok); auto; apply ji_in). apply Nat.eqb_neq in E1, Ne. rewrite E1, Ne.
      rewrite before_i. rewrite find_dst_notin by (intros a Ha; apply (jo_sep _ _ Ok); auto; apply pre_in; auto).
      destruct (existsb _ pre); auto. apply (jo_fresh _ _ Ok). exact Hj.
  - rewrite T. apply Nat.eqb_neq in S2. rewrite S2. rewrite crash_file_spec by auto. rewrite Nat.eqb_refl, L7. apply before_i_dst_ji.
  - intros j Hj. rewrite T. assert (E2 : dst j <> tmp ji) by (intro E; apply (jo_sep _ _ Ok ji j ji_in (pre_in _ Hj)); auto).
    apply Nat.eqb_neq in E2. rewrite E2. rewrite crash_file_spec by auto. pose proof (proj2 (Nat.eqb_neq _ _) (dst_distinct_pre j Hj)) as E1. rewrite E1, E2.
    apply before_i_dst_pre. exact Hj.
  - intros j Hj. rewrite T. assert (E2 : dst j <> tmp ji) by (intro E; apply (jo_sep _ _ Ok ji j ji_in (post_in _ Hj)); auto).
    apply Nat.eqb_neq in E2. rewrite E2. rewrite crash_file_spec by auto. pose proof (proj2 (Nat.eqb_neq _ _) (dst_distinct_post j Hj)) as E1. rewrite E1, E2.
    apply before_i_dst_post. exact Hj.
Qed.
End At.
