From Coq Require Import List Arith Lia Bool.
Import ListNotations.

Section Pool.
Variable isasync : nat -> bool.
Variable deps : nat -> list nat.

Definition memn (x : nat) (l : list nat) : bool := existsb (Nat.eqb x) l.
Definition isnil {A} (l : list A) : bool := match l with [] => true | _ => false end.
Definition cntp (provd ds : list nat) : nat := length (filter (fun d => memn d provd) ds).

(* first loop of findOptimalPool: pools with the maximal number of already-provided dependencies *)
Fixpoint cands (asyncn : bool) (ds : list nat) (pools pprov : list (list nat)) (i maxc : nat) (acc : list nat) : nat * list nat :=
  match pools, pprov with
  | p :: ps, v :: vs =>
      let c := cntp v ds in
      if negb asyncn && isnil p then cands asyncn ds ps vs (S i) maxc acc
      else if Nat.ltb maxc c then cands asyncn ds ps vs (S i) c [i]
      else if Nat.eqb c maxc then cands asyncn ds ps vs (S i) maxc (acc ++ [i])
      else cands asyncn ds ps vs (S i) maxc acc
  | _, _ => (maxc, acc)
  end.

Fixpoint loop_inner (ds : list nat) (rpool : list nat) : nat (* 0 return this pool, 1 skip pool, 2 fell through *) :=
  match rpool with
  | [] => 2
  | nd :: r => if memn nd ds then 0 else if isasync nd then 1 else loop_inner ds r
  end.
Fixpoint pool_loop (asyncn : bool) (ds : list nat) (pools : list (list nat)) (cs : list nat) : option nat :=
  match cs with
  | [] => None
  | pi :: r =>
      if negb asyncn then Some pi
      else match loop_inner ds (rev (nth pi pools [])) with
           | 0 => Some pi
           | 1 => pool_loop asyncn ds pools r
           | _ => if Nat.eqb pi 0 then Some 0 else pool_loop asyncn ds pools r
           end
  end.
Fixpoint first_empty (pools : list (list nat)) (i : nat) : option nat :=
  match pools with [] => None | p :: r => if isnil p then Some i else first_empty r (S i) end.
Fixpoint min_size (asyncn : bool) (pools : list (list nat)) (cs : list nat) (minsz : option nat) (best : nat) : nat :=
  match cs with
  | [] => best
  | i :: r =>
      let sz := length (nth i pools []) in
      if negb asyncn && Nat.eqb sz 0 then min_size asyncn pools r minsz best
      else match minsz with
           | None => min_size asyncn pools r (Some sz) i
           | Some m => if Nat.ltb sz m then min_size asyncn pools r (Some sz) i else min_size asyncn pools r minsz best
           end
  end.

Definition find_pool (n : nat) (pools pprov : list (list nat)) : nat :=
  let ds := deps n in
  let asyncn := isasync n in
  let '(maxc, cs) := cands asyncn ds pools pprov 0 0 [] in
  match cs with
  | [] => 0
  | _ =>
      match (if Nat.eqb maxc (length ds) then pool_loop asyncn ds pools cs else None) with
      | Some i => i
      | None => match (if asyncn then first_empty pools 0 else None) with
                | Some i => i
                | None => min_size asyncn pools cs None 0
                end
      end
  end.

(* ---- facts ---- *)
Definition good (asyncn : bool) (pools : list (list nat)) (base : nat) (i : nat) : Prop :=
  base <= i < base + length pools /\ (asyncn = false -> nth (i - base) pools [] <> []).

Lemma cands_good asyncn ds : forall pools pprov i maxc acc m cs,
  length pprov = length pools ->
  cands asyncn ds pools pprov i maxc acc = (m, cs) ->
  forall all0, (forall x, In x acc -> x < i /\ (asyncn = false -> nth x all0 [] <> [])) ->
  (forall k, nth (i + k) all0 [] = nth k pools []) ->
  forall x, In x cs -> x < i + length pools /\ (asyncn = false -> nth x all0 [] <> []).
Proof.
  induction pools as [|p ps IH]; intros pprov i maxc acc m cs HL H all0 Hacc Hall x Hx.
  - simpl in H. inversion H; subst. destruct (Hacc x Hx). split; auto. simpl; lia.
  - destruct pprov as [|v vs]; [discriminate|]. simpl in H. injection HL as HL.
    assert (Hall' : forall k, nth (S i + k) all0 [] = nth k ps []).
    { intros k. replace (S i + k) with (i + S k) by lia. rewrite Hall. reflexivity. }
    assert (Hacc' : forall y, In y acc -> y < S i /\ (asyncn = false -> nth y all0 [] <> [])).
    { intros y Hy. destruct (Hacc y Hy). split; auto. }
    assert (Hi : asyncn = false -> isnil p = false -> nth i all0 [] <> []).
    { intros _ Hp. specialize (Hall 0). rewrite Nat.add_0_r in Hall. rewrite Hall. simpl. destruct p; [discriminate|congruence]. }
    destruct (negb asyncn && isnil p) eqn:E1.
    + destruct (IH vs (S i) maxc acc m cs HL H all0 Hacc' Hall' x Hx). split; auto. simpl; lia.
    + assert (Hi' : asyncn = false -> nth i all0 [] <> []).
      { intros Ha. apply Hi; auto. rewrite Ha in E1. simpl in E1. exact E1. }
      destruct (Nat.ltb maxc (cntp v ds)).
      * destruct (IH vs (S i) _ [i] m cs HL H all0) with (x := x) as (A & B); auto.
        -- intros y [<-|[]]. split; auto.
        -- split; auto. simpl; lia.
      * destruct (Nat.eqb (cntp v ds) maxc).
        -- destruct (IH vs (S i) _ (acc ++ [i]) m cs HL H all0) with (x := x) as (A & B); auto.
           ++ intros y Hy. apply in_app_or in Hy. destruct Hy as [Hy|[<-|[]]]; [apply Hacc'; auto | split; auto].
           ++ split; auto. simpl; lia.
        -- destruct (IH vs (S i) maxc acc m cs HL H all0 Hacc' Hall' x Hx). split; auto. simpl; lia.
Qed.

Lemma cands_acc_nonempty asyncn ds : forall pools pprov i maxc acc m cs,
  cands asyncn ds pools pprov i maxc acc = (m, cs) -> acc <> [] -> cs <> [].
Proof.
  induction pools as [|p ps IH]; intros pprov i maxc acc m cs H Hacc; simpl in H.
  - inversion H; subst; auto.
  - destruct pprov as [|v vs]; [inversion H; subst; auto|].
    destruct (negb asyncn && isnil p); [eapply IH; eauto|].
    destruct (Nat.ltb maxc (cntp v ds)); [eapply IH; eauto; discriminate|].
    destruct (Nat.eqb (cntp v ds) maxc); [eapply IH; eauto; destruct acc; discriminate | eapply IH; eauto].
Qed.
(* with maxc = 0 a pool that is not skipped always becomes a candidate *)
Lemma cands_sync_empty ds : forall pools pprov i acc m cs, length pprov = length pools ->
  cands false ds pools pprov i 0 acc = (m, cs) -> cs = [] -> forall k, nth k pools [] = [].
Proof.
  induction pools as [|p ps IH]; intros pprov i acc m cs HL H Hcs k; [destruct k; auto|].
  destruct pprov as [|v vs]; [discriminate|]. injection HL as HL. simpl in H.
  destruct (isnil p) eqn:E; simpl in H.
  - destruct p; [|discriminate]. destruct k; simpl; auto. eapply IH; eauto.
  - exfalso. destruct (Nat.ltb 0 (cntp v ds)) eqn:L.
    + eapply (cands_acc_nonempty false ds ps vs (S i) _ [i]); eauto. discriminate.
    + assert (cntp v ds = 0) by (apply Nat.ltb_ge in L; lia). rewrite H0 in H. simpl in H.
      eapply (cands_acc_nonempty false ds ps vs (S i) _ (acc ++ [i])); eauto. destruct acc; discriminate.
Qed.

Lemma pool_loop_in asyncn ds pools : forall cs i, pool_loop asyncn ds pools cs = Some i -> In i cs.
Proof.
  induction cs as [|pi r IH]; intros i H; simpl in H; [discriminate|].
  destruct (negb asyncn); [inversion H; left; auto|].
  destruct (loop_inner ds (rev (nth pi pools []))) as [|[|k]].
  - inversion H; left; auto.
  - right; auto.
  - destruct (Nat.eqb pi 0) eqn:E; [inversion H; apply Nat.eqb_eq in E; subst; left; auto | right; auto].
Qed.

Lemma first_empty_spec : forall pools i j, first_empty pools i = Some j -> i <= j < i + length pools /\ nth (j - i) pools [] = [].
Proof.
  induction pools as [|p r IH]; intros i j H; simpl in H; [discriminate|].
  destruct (isnil p) eqn:E.
  - inversion H; subst. split; [simpl; lia|]. rewrite Nat.sub_diag. simpl. destruct p; [auto|discriminate].
  - destruct (IH _ _ H) as (A & B). split; [simpl; lia|]. replace (j - i) with (S (j - S i)) by lia. simpl. exact B.
Qed.

Lemma min_size_in asyncn pools : forall cs minsz best, In (min_size asyncn pools cs minsz best) (best :: cs).
Proof.
  induction cs as [|i r IH]; intros minsz best; simpl; [left; auto|].
  destruct (negb asyncn && Nat.eqb (length (nth i pools [])) 0).
  - destruct (IH minsz best) as [H|H]; [left; auto | right; right; auto].
  - destruct minsz as [m|].
    + destruct (Nat.ltb (length (nth i pools [])) m).
      * destruct (IH (Some (length (nth i pools []))) i) as [H|H]; [right; left; auto | right; right; auto].
      * destruct (IH (Some m) best) as [H|H]; [left; auto | right; right; auto].
    + destruct (IH (Some (length (nth i pools []))) i) as [H|H]; [right; left; auto | right; right; auto].
Qed.
(* for a sync node with non-empty candidate list, min_size never returns the default *)
Lemma min_size_sync pools : forall cs minsz best,
  (forall x, In x cs -> nth x pools [] <> []) -> cs <> [] \/ minsz <> None ->
  (minsz <> None -> nth best pools [] <> []) ->
  nth (min_size false pools cs minsz best) pools [] <> [].
Proof.
  induction cs as [|i r IH]; intros minsz best Hc Hne Hb; simpl.
  - destruct Hne as [H|H]; [congruence | auto].
  - assert (Hi : nth i pools [] <> []) by (apply Hc; left; auto).
    assert (E : Nat.eqb (length (nth i pools [])) 0 = false) by (apply Nat.eqb_neq; destruct (nth i pools []); simpl; [congruence|lia]).
    rewrite E. simpl. destruct minsz as [m|].
    + destruct (Nat.ltb (length (nth i pools [])) m); apply IH; auto; try (right; discriminate); intros; apply Hc; right; auto.
    + apply IH; auto; try (right; discriminate). intros; apply Hc; right; auto.
Qed.

Theorem find_pool_range n pools pprov : length pprov = length pools -> 0 < length pools -> find_pool n pools pprov < length pools.
Proof.
  intros HL Hpos. unfold find_pool. destruct (cands (isasync n) (deps n) pools pprov 0 0 []) as [maxc cs] eqn:C.
  assert (G : forall x, In x cs -> x < length pools).
  { intros x Hx. eapply (cands_good _ _ pools pprov 0 0 [] maxc cs HL C pools) in Hx; [tauto | intros y [] | auto]. }
  destruct cs as [|c0 cs']; [auto|].
  destruct (if Nat.eqb maxc (length (deps n)) then pool_loop (isasync n) (deps n) pools (c0 :: cs') else None) as [i|] eqn:P.
  - destruct (Nat.eqb maxc (length (deps n))); [|discriminate]. apply G. eapply pool_loop_in; eauto.
  - destruct (if isasync n then first_empty pools 0 else None) as [i|] eqn:F.
    + destruct (isasync n); [|discriminate]. apply first_empty_spec in F. lia.
    + destruct (min_size_in (isasync n) pools (c0 :: cs') None 0) as [H|H]; [rewrite <- H; auto | apply G; auto].
Qed.

(* a synchronous node never opens an empty pool, except pool 0 when every pool is empty *)
Theorem find_pool_sync n pools pprov : length pprov = length pools -> isasync n = false ->
  nth (find_pool n pools pprov) pools [] <> [] \/ (find_pool n pools pprov = 0 /\ forall i, nth i pools [] = []).
Proof.
  intros HL Hs. unfold find_pool. rewrite Hs. destruct (cands false (deps n) pools pprov 0 0 []) as [maxc cs] eqn:C.
  assert (G : forall x, In x cs -> nth x pools [] <> []).
  { intros x Hx. eapply (cands_good _ _ pools pprov 0 0 [] maxc cs HL C pools) in Hx; [destruct Hx; auto | intros y [] | auto]. }
  destruct cs as [|c0 cs'].
  - right. split; auto. eapply cands_sync_empty; eauto.
  - left. destruct (Nat.eqb maxc (length (deps n))).
    + simpl. apply G. left; auto.
    + apply min_size_sync; [exact G | left; discriminate | intro H; congruence].
Qed.

(* ---- the first provider: every pool is empty and every dependency is an injector argument ---- *)
Lemma cands_full_acc ds L : forall pools pprov i acc, length pprov = length pools ->
  (forall v, In v pprov -> cntp v ds = L) ->
  cands true ds pools pprov i L acc = (L, acc ++ seq i (length pools)).
Proof.
  induction pools as [|p ps IH]; intros pprov i acc HL Hc; simpl.
  - destruct pprov; [|discriminate]. rewrite app_nil_r. reflexivity.
  - destruct pprov as [|v vs]; [discriminate|]. injection HL as HL. simpl.
    rewrite (Hc v (or_introl eq_refl)). rewrite Nat.ltb_irrefl, Nat.eqb_refl.
    rewrite IH; auto; [|intros w Hw; apply Hc; right; auto]. rewrite <- app_assoc. reflexivity.
Qed.

Lemma cands_full ds L : forall pools pprov, length pprov = length pools -> 0 < length pools ->
  (forall v, In v pprov -> cntp v ds = L) ->
  exists r, cands true ds pools pprov 0 0 [] = (L, 0 :: r).
Proof.
  intros pools pprov HL Hpos Hc. destruct pools as [|p ps]; [simpl in Hpos; lia|]. destruct pprov as [|v vs]; [discriminate|].
  injection HL as HL. simpl. rewrite (Hc v (or_introl eq_refl)).
  assert (Hc' : forall w, In w vs -> cntp w ds = L) by (intros w Hw; apply Hc; right; auto).
  destruct L as [|L'].
  - simpl. rewrite (cands_full_acc ds 0 ps vs 1 [0]); auto. simpl. eauto.
  - replace (Nat.ltb 0 (S L')) with true by (symmetry; apply Nat.ltb_lt; lia).
    rewrite (cands_full_acc ds (S L') ps vs 1 [0]); auto. simpl. eauto.
Qed.

Lemma cands_sync_all_empty ds : forall pools pprov i maxc acc, (forall k, nth k pools [] = []) ->
  cands false ds pools pprov i maxc acc = (maxc, acc).
Proof.
  induction pools as [|p ps IH]; intros pprov i maxc acc He; simpl; auto.
  destruct pprov as [|v vs]; auto. assert (p = []) by (apply (He 0)). subst. simpl.
  apply IH. intros k. apply (He (S k)).
Qed.

Theorem find_pool_first n pools pprov : length pprov = length pools -> 0 < length pools ->
  (forall k, nth k pools [] = []) -> (forall v, In v pprov -> cntp v (deps n) = length (deps n)) ->
  find_pool n pools pprov = 0.
Proof.
  intros HL Hpos He Hc. unfold find_pool. destruct (isasync n) eqn:Ea.
  - destruct (cands_full (deps n) (length (deps n)) pools pprov HL Hpos Hc) as (r & E). rewrite E.
    rewrite Nat.eqb_refl. simpl. rewrite (He 0). simpl. reflexivity.
  - rewrite cands_sync_all_empty by auto. reflexivity.
Qed.

(* ---- nodes without dependencies (the roots of the graph): where findOptimalPool puts them ---- *)
Definition noasync (p : list nat) : bool := forallb (fun x => negb (isasync x)) p.
Lemma loop_inner_nil : forall l, loop_inner [] l = if forallb (fun x => negb (isasync x)) l then 2 else 1.
Proof. induction l as [|x r IH]; simpl; auto. destruct (isasync x); simpl; auto. Qed.
Lemma forallb_rev {A} (f : A -> bool) l : forallb f (rev l) = forallb f l.
Proof.
  destruct (forallb f l) eqn:E.
  - apply forallb_forall. intros x Hx. apply in_rev in Hx. rewrite forallb_forall in E. auto.
  - destruct (forallb f (rev l)) eqn:E2; auto. rewrite forallb_forall in E2. assert (forallb f l = true); [|congruence].
    apply forallb_forall. intros x Hx. apply E2. apply -> in_rev. exact Hx.
Qed.
Lemma pool_loop_nozero pools : forall cs, (forall x, In x cs -> x <> 0) -> pool_loop true [] pools cs = None.
Proof.
  induction cs as [|pi r IH]; intros H; simpl; auto. rewrite loop_inner_nil.
  assert (Hpi : pi <> 0) by (apply H; left; auto). apply Nat.eqb_neq in Hpi.
  destruct (forallb _ _); [rewrite Hpi|]; apply IH; intros x Hx; apply H; right; auto.
Qed.
Lemma cands_nil_ds asyncn : forall pools pprov i acc, exists rest, cands asyncn [] pools pprov i 0 acc = (0, acc ++ rest).
Proof.
  induction pools as [|p ps IH]; intros pprov i acc; simpl; [exists []; rewrite app_nil_r; auto|].
  destruct pprov as [|v vs]; [exists []; rewrite app_nil_r; auto|].
  destruct (negb asyncn && isnil p); [apply IH|]. unfold cntp. simpl.
  destruct (IH vs (S i) (acc ++ [i])) as (rest & E). exists (i :: rest). rewrite E, <- app_assoc. reflexivity.
Qed.
Lemma first_empty_complete : forall pools i k, k < length pools -> nth k pools [] = [] -> exists j, first_empty pools i = Some j.
Proof.
  induction pools as [|p r IH]; intros i k Hk He; [simpl in Hk; lia|]. simpl. destruct (isnil p) eqn:E; [eauto|].
  destruct k; [simpl in He; subst; discriminate|]. simpl in *. apply (IH (S i) k); auto. lia.
Qed.

Theorem find_pool_async_root n pools pprov : isasync n = true -> deps n = [] -> length pprov = length pools -> 0 < length pools ->
  (noasync (nth 0 pools []) = true -> find_pool n pools pprov = 0) /\
  (noasync (nth 0 pools []) = false -> forall j, first_empty pools 0 = Some j -> find_pool n pools pprov = j).
Proof.
  intros Ha Hd HL Hpos. unfold find_pool. rewrite Ha, Hd.
  rewrite (cands_full_acc [] 0 pools pprov 0 [] HL) by (intros v _; reflexivity). simpl app.
  destruct pools as [|p0 ps]; [simpl in Hpos; lia|]. cbn [length seq]. cbn [Nat.eqb length].
  cbn [pool_loop negb]. rewrite loop_inner_nil, forallb_rev. cbn [nth]. fold (noasync p0).
  split; intros Hn; rewrite Hn.
  - reflexivity.
  - intros j Hj. rewrite pool_loop_nozero by (intros x Hx; apply in_seq in Hx; lia). rewrite Hj. reflexivity.
Qed.

Theorem find_pool_sync_root n pools pprov : isasync n = false -> deps n = [] -> length pprov = length pools ->
  nth 0 pools [] <> [] -> find_pool n pools pprov = 0.
Proof.
  intros Ha Hd HL H0. unfold find_pool. rewrite Ha, Hd.
  destruct pools as [|p0 ps]; [simpl in H0; congruence|]. destruct pprov as [|v0 vs]; [discriminate|].
  simpl in H0. cbn [cands]. assert (E : isnil p0 = false) by (destruct p0; [congruence|reflexivity]). rewrite E. cbn [negb andb].
  unfold cntp at 1 2. cbn [filter length Nat.ltb Nat.leb Nat.eqb].
  destruct (cands_nil_ds false ps vs 1 ([] ++ [0])) as (rest & Ec). rewrite Ec. reflexivity.
Qed.
End Pool.
Print Assumptions find_pool_sync.
Print Assumptions find_pool_first.
Print Assumptions find_pool_range.
