(* Every shape of loop over a Go map that the generator and the migrator contain, as a fold over the list of the map's
   entries in the order the runtime happens to deliver them, with the theorem that the loop's effect is the same for
   every such order (C11, C14).  A Go map holds each key once: the entry lists are duplicate free in their keys, and two
   iterations of one map differ by a permutation.  Census_gen.v (regenerated from /repo's source on every run) assigns one
   of these classes to every map iteration found in the code. *)
From Coq Require Import List Arith Lia Bool Permutation.
Import ListNotations.
Require Import Determinism.

Inductive loop_class :=
| CollectThenSort          (* append something made from the entry to a slice; the slice is sorted by the entries' distinct keys right after the loop *)
| CollectForSortedConsumer (* the same, the sort happening in the only consumer of the returned slice *)
| MarkEntries              (* set a flag on the visited entry (imp.IsUsed = true) *)
| FilterIntoMap            (* copy the visited entry into another map under its own key when a predicate holds *)
| AdjacencyFill            (* adj[idx n] = append(adj[idx n], targets n...) for every node n of the edges map *)
| AnyEntry.                (* report whether some entry satisfies a predicate (return true at the first one found, false after the loop) *)

Section Loops.
Variable E : Type.             (* map entries *)
Variable key : E -> nat.       (* the key of an entry: distinct for distinct entries of one map *)

(* --- MarkEntries: the state is the set of flagged keys --- *)
Definition mark (l : list E) (s : nat -> bool) : nat -> bool := fold_left (fun s e => fun k => Nat.eqb k (key e) || s k) l s.
Lemma mark_spec : forall l s k, mark l s k = existsb (fun e => Nat.eqb k (key e)) l || s k.
Proof.
  unfold mark. induction l as [|e r IH]; intros s k; simpl; auto. rewrite IH.
  destruct (Nat.eqb k (key e)); simpl; auto. rewrite orb_true_r. reflexivity.
Qed.
Lemma existsb_perm : forall (f : E -> bool) l l', Permutation l l' -> existsb f l = existsb f l'.
Proof.
  intros f l l' P. induction P; simpl; auto.
  - rewrite IHP. reflexivity.
  - destruct (f x), (f y); reflexivity.
  - congruence.
Qed.
Theorem mark_order_independent : forall l l' s, Permutation l l' -> forall k, mark l s k = mark l' s k.
Proof. intros l l' s P k. rewrite !mark_spec. rewrite (existsb_perm _ _ _ P). reflexivity. Qed.

(* --- FilterIntoMap: the state is the target map as a function from keys --- *)
Variable keep : E -> bool.
Definition upd (m : nat -> option E) (k : nat) (v : E) : nat -> option E := fun j => if Nat.eqb j k then Some v else m j.
Definition filter_into (l : list E) (m : nat -> option E) : nat -> option E :=
  fold_left (fun m e => if keep e then upd m (key e) e else m) l m.
Lemma filter_into_spec : forall l m k, NoDup (map key l) ->
  filter_into l m k = match find (fun e => Nat.eqb k (key e) && keep e) l with Some e => Some e | None => m k end.
Proof.
  unfold filter_into. induction l as [|e r IH]; intros m k ND; simpl; auto. inversion ND as [|? ? Nin NDr]; subst.
  rewrite IH by auto. destruct (Nat.eqb k (key e)) eqn:Ek; simpl.
  - apply Nat.eqb_eq in Ek. subst k.
    assert (F : find (fun e0 => Nat.eqb (key e) (key e0) && keep e0) r = None).
    { destruct (find _ r) eqn:Fd; auto. apply find_some in Fd. destruct Fd as (Hin & Hb). apply andb_prop in Hb. destruct Hb as (Hk & _).
      apply Nat.eqb_eq in Hk. exfalso. apply Nin. rewrite Hk. apply in_map. exact Hin. }
    rewrite F. destruct (keep e); auto. unfold upd. rewrite Nat.eqb_refl. reflexivity.
  - destruct (find _ r); auto. destruct (keep e); auto. unfold upd. rewrite Ek. reflexivity.
Qed.
Lemma find_unique_perm : forall (f : E -> bool) l l', Permutation l l' ->
  (forall a b, In a l -> In b l -> f a = true -> f b = true -> a = b) -> find f l = find f l'.
Proof.
  intros f l l' P. induction P as [|x l l' P IH|x y l|l l' l'' P1 IH1 P2 IH2]; intros U; simpl; auto.
  - destruct (f x); auto. apply IH. intros a b Ha Hb. apply U; right; auto.
  - destruct (f y) eqn:Fy, (f x) eqn:Fx; auto. f_equal. apply U; simpl; auto.
  - rewrite IH1 by auto. apply IH2. intros a b Ha Hb. apply U; eapply Permutation_in; try apply Permutation_sym; eauto.
Qed.
Theorem filter_into_order_independent : forall l l' m, NoDup (map key l) -> Permutation l l' ->
  forall k, filter_into l m k = filter_into l' m k.
Proof.
  intros l l' m ND P k. rewrite !filter_into_spec; auto; [|eapply Permutation_NoDup; [apply Permutation_map; exact P|exact ND]].
  rewrite (find_unique_perm _ l l' P); auto.
  intros a b Ha Hb Fa Fb. apply andb_prop in Fa, Fb. destruct Fa as (Ka & _), Fb as (Kb & _). apply Nat.eqb_eq in Ka, Kb.
  assert (K : key a = key b) by congruence. clear - ND Ha Hb K.
  induction l as [|x r IH]; [contradiction|]. simpl in ND. inversion ND as [|? ? Nin NDr]; subst.
  destruct Ha as [<-|Ha], Hb as [<-|Hb]; auto.
  - exfalso. apply Nin. rewrite K. apply in_map. exact Hb.
  - exfalso. apply Nin. rewrite <- K. apply in_map. exact Ha.
Qed.
End Loops.

(* what "the loop's effect does not depend on the order of iteration" says for each class *)
Definition class_sound (c : loop_class) : Prop :=
  match c with
  | CollectThenSort | CollectForSortedConsumer =>
      forall (A : Type) (key : A -> nat) (l l' : list A), NoDup (map key l) -> Permutation l l' -> isort A key l = isort A key l'
  | MarkEntries =>
      forall (E : Type) (key : E -> nat) (l l' : list E) s, Permutation l l' -> forall k, mark E key l s k = mark E key l' s k
  | FilterIntoMap =>
      forall (E : Type) (key : E -> nat) (keep : E -> bool) (l l' : list E) m, NoDup (map key l) -> Permutation l l' ->
        forall k, filter_into E key keep l m k = filter_into E key keep l' m k
  | AdjacencyFill =>
      forall targets o o', NoDup o -> Permutation o o' -> forall m, fill targets o m = fill targets o' m
  | AnyEntry =>
      forall (E : Type) (f : E -> bool) (l l' : list E), Permutation l l' -> existsb f l = existsb f l'
  end.

Theorem every_class_sound : forall c, class_sound c.
Proof.
  intros []; simpl.
  - intros; apply isort_order_independent; auto.
  - intros; apply isort_order_independent; auto.
  - intros; apply mark_order_independent; auto.
  - intros; apply filter_into_order_independent; auto.
  - intros; apply fill_order_independent; auto.
  - intros; apply existsb_perm; auto.
Qed.

(* a census: one line per map iteration found in the code; None = an iteration nobody has classified *)
Definition all_classified {A : Type} (census : list (A * option loop_class)) : bool :=
  forallb (fun x => match snd x with Some _ => true | None => false end) census.
Lemma all_classified_sound : forall (A : Type) (census : list (A * option loop_class)), all_classified census = true ->
  forall s c, In (s, c) census -> exists cl, c = Some cl /\ class_sound cl.
Proof.
  intros A census H s c Hin. unfold all_classified in H. rewrite forallb_forall in H. specialize (H _ Hin). simpl in H.
  destruct c as [cl|]; [|discriminate]. exists cl. split; auto. apply every_class_sound.
Qed.
