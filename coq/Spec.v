(* C02: the value an injector returns is the value of the DECLARATION evaluated by type, one provider at a time - a
   specification that mentions neither the graph the generator builds, nor Async, nor pools, channels or threads. *)
From Coq Require Import List Arith Bool NArith Lia.
Import ListNotations.
Require Import Sem2 Safe Live Denote Gen Bfs GenU CorrS Sched2 Assembly GenSound Resolve.

Inductive sval := SArgT (t : N) | SApp (pi gi : nat) (args : list sval).

Section Spec.
Variable pm : Gen.pmap.
Variable provs : list Gen.prov.
(* the value of type t: the injector argument of that type when no provider supplies it, otherwise result gi of the
   supplying provider applied to the values of the types it requires *)
Inductive spec_den : N -> sval -> Prop :=
| SDArg t : Gen.assoc t pm = None -> spec_den t (SArgT t)
| SDApp t pi gi p vs : Gen.assoc t pm = Some (pi, gi) -> nth_error provs pi = Some p ->
                       Forall2 spec_den (Gen.requires p) vs -> spec_den t (SApp pi gi vs).

Fixpoint spec_eval (fuel : nat) (t : N) : option sval :=
  match fuel with
  | 0 => None
  | S fuel =>
      match Gen.assoc t pm with
      | None => Some (SArgT t)
      | Some (pi, gi) =>
          match nth_error provs pi with
          | None => None
          | Some p => option_map (SApp pi gi)
                        ((fix go (l : list N) : option (list sval) :=
                            match l with
                            | [] => Some []
                            | y :: r => match spec_eval fuel y, go r with Some v, Some vs => Some (v :: vs) | _, _ => None end
                            end) (Gen.requires p))
          end
      end
  end.

Fixpoint ssize (v : sval) : nat :=
  match v with SArgT _ => 1 | SApp _ _ args => S ((fix go (l : list sval) : nat := match l with [] => 0 | a :: r => ssize a + go r end) args) end.
Definition ssizes (l : list sval) : nat := (fix go (l : list sval) : nat := match l with [] => 0 | a :: r => ssize a + go r end) l.
Lemma ssize_app pi gi args : ssize (SApp pi gi args) = S (ssizes args). Proof. reflexivity. Qed.
Lemma ssizes_cons a r : ssizes (a :: r) = ssize a + ssizes r. Proof. reflexivity. Qed.

(* the specification is a function: one value per type *)
Lemma spec_den_fun : forall k v, ssize v <= k -> forall t, spec_den t v -> forall v', spec_den t v' -> v = v'.
Proof.
  induction k as [|k IH]; intros v Hk t D v' D'.
  - destruct v; simpl in Hk; lia.
  - destruct D as [t A|t pi gi p vs A Hp F].
    + inversion D' as [t' A' E1 E2|t' pi' gi' p' vs' A' Hp' F' E1 E2]; subst; [reflexivity|congruence].
    + inversion D' as [t' A' E1 E2|t' pi' gi' p' vs' A' Hp' F' E1 E2]; subst; [congruence|].
      rewrite A in A'. inversion A'; subst pi' gi'. rewrite Hp in Hp'. inversion Hp'; subst p'.
      f_equal. rewrite ssize_app in Hk. assert (Hs : ssizes vs <= k) by lia. clear - IH F F' Hs.
      revert vs' F'. induction F as [|x v l l' Hxv F IHF]; intros vs' F'; inversion F'; subst; [reflexivity|].
      rewrite ssizes_cons in Hs. f_equal; [eapply (IH v); eauto; lia | apply IHF; auto; lia].
Qed.

Lemma spec_eval_den : forall fuel t v, spec_eval fuel t = Some v -> spec_den t v.
Proof.
  induction fuel as [|fuel IH]; intros t v H; simpl in H; [discriminate|].
  destruct (Gen.assoc t pm) as [[pi gi]|] eqn:A; [|inversion H; subst; constructor; exact A].
  destruct (nth_error provs pi) as [p|] eqn:Hp; [|discriminate].
  match type of H with option_map _ ?G = _ => destruct G as [vs|] eqn:Ego; [|discriminate] end. simpl in H. inversion H; subst v.
  eapply SDApp; eauto. clear - IH Ego. revert vs Ego. induction (Gen.requires p) as [|y r IHr]; intros vs E; [inversion E; constructor|].
  destruct (spec_eval fuel y) as [v|] eqn:Ey; [|discriminate].
  match type of E with match ?G with _ => _ end = _ => destruct G as [vs0|] eqn:Er; [|discriminate] end.
  inversion E; subst. constructor; [apply IH; exact Ey | apply IHr; reflexivity].
Qed.
End Spec.

(* reading a run-time value as a specification value: node numbers become provider indices and argument types *)
Section Tr.
Variable g : ugraph.
Fixpoint trv (v : val) : sval :=
  match v with
  | VArg a => SArgT (match nth_error (Bfs.nodes (ub g)) a with Some (Bfs.NArg t) => t | _ => 0%N end)
  | VApp n i args => SApp (match nth_error (Bfs.nodes (ub g)) n with Some (Bfs.NProv pi) => pi | _ => 0 end) i (map trv args)
  end.
(* x is the variable that carries type t *)
Definition var_for (pm : Gen.pmap) (t : N) (x : var) : Prop :=
  match Gen.assoc t pm with
  | Some (pi, gi) => nth_error (Bfs.nodes (ub g)) (fst x) = Some (Bfs.NProv pi) /\ snd x = gi
  | None => nth_error (Bfs.nodes (ub g)) (fst x) = Some (Bfs.NArg t)
  end.
End Tr.

Lemma uprog_isarg g st x : Sem2.isarg (uprog g st) x = true -> exists t, nth_error (Bfs.nodes (ub g)) (fst x) = Some (Bfs.NArg t).
Proof.
  unfold Sem2.isarg. destruct (in_dec Nat.eq_dec (fst x) (p_argnodes (uprog g st))) as [H|H]; [|discriminate]. intros _.
  unfold uprog, prog_of, Sched2.P in H. cbn [p_argnodes] in H. unfold Sched2.args in H. apply filter_In in H. destruct H as (_ & H).
  unfold uisarg in H. change (Bfs.nodes (GenU.b g)) with (Bfs.nodes (ub g)) in H.
  destruct (nth_error (Bfs.nodes (ub g)) (fst x)) as [[t|pi]|]; try discriminate. eauto.
Qed.

Lemma denotes_spec d g st pm : unew_graph d = OK g -> dpm d = Some (pm, uprovs g) -> wf (uprog g st) ->
  forall k v, val_size v <= k -> forall x t, denotes (uprog g st) x v -> var_for g pm t x -> spec_den pm (uprovs g) t (trv g v).
Proof.
  intros H Hpm W. destruct (params_by_type d g H) as (pm' & Hpm' & PT). rewrite Hpm in Hpm'. inversion Hpm'; subst pm'. clear Hpm'.
  induction k as [|k IH]; intros v Hk x t D V.
  - destruct v; simpl in Hk; lia.
  - destruct D as [x A|th j it i vs Hi Hr F].
    + apply uprog_isarg in A. destruct A as (t' & Et). unfold var_for in V. simpl.
      destruct (Gen.assoc t pm) as [[pi gi]|] eqn:A; [destruct V as (V & _); congruence|].
      rewrite Et in V. inversion V; subst t'. rewrite Et. constructor. exact A.
    + pose proof Hi as Hi0. unfold uprog, prog_of in Hi. apply Sched2.item_at_P in Hi. destruct Hi as (pl & m & _ & _ & Eit).
      assert (En : Sem2.it_node it = m) by (rewrite Eit; reflexivity).
      assert (Ea : Sem2.it_args it = map (fun q => (usrc g m q, usidx g m q)) (seq 0 (unreq g m))) by (rewrite Eit; reflexivity).
      unfold var_for in V. cbn [fst snd] in V. rewrite En in V.
      destruct (Gen.assoc t pm) as [[pi gi]|] eqn:A.
      * destruct V as (Vn & Vi). subst i. cbn [trv]. rewrite En, Vn.
        (* the provider exists *)
        destruct (nth_error (uprovs g) pi) as [p|] eqn:Hp.
        -- assert (Up : uprov g m = Some p) by (unfold uprov; change (Bfs.nodes (GenU.b g)) with (Bfs.nodes (ub g)); rewrite Vn; exact Hp).
           destruct (PT m p Up) as (Hn & R). eapply SDApp; eauto.
           rewrite Ea, Hn in F. rewrite val_size_app in Hk. assert (Hs : sizes vs <= k) by lia.
           clear - IH F R Hs. remember (Gen.requires p) as ts eqn:Ets.
           assert (R' : forall q t0, nth_error ts q = Some t0 -> var_for g pm t0 (usrc g m q, usidx g m q)).
           { intros q t0 Hq. unfold var_for. cbn [fst snd]. subst ts. specialize (R q t0 Hq). destruct (Gen.assoc t0 pm) as [[pi gi]|]; [destruct R; auto | auto]. }
           clear R Ets. revert vs F Hs. 
           assert (G : forall off ts' vs, (forall q t0, nth_error ts' q = Some t0 -> var_for g pm t0 (usrc g m (off + q), usidx g m (off + q))) ->
                        Forall2 (denotes (uprog g st)) (map (fun q => (usrc g m q, usidx g m q)) (seq off (length ts'))) vs -> sizes vs <= k ->
                        Forall2 (spec_den pm (uprovs g)) ts' (map (trv g) vs)).
           { intros off ts'. revert off. induction ts' as [|t0 r IHr]; intros off vs Hv F Hs; simpl in F; inversion F; subst; [constructor|].
             simpl. rewrite sizes_cons in Hs. constructor.
             - eapply IH; [|eassumption|]; [lia|]. specialize (Hv 0 t0 eq_refl). rewrite Nat.add_0_r in Hv. exact Hv.
             - apply (IHr (S off)); [|assumption|lia]. intros q t1 Hq. specialize (Hv (S q) t1 Hq). rewrite Nat.add_succ_r in Hv. exact Hv. }
           intros vs F Hs. apply (G 0 ts vs); auto.
        -- (* a provider index outside the provider list has no results: i < Sem2.it_nrets it is impossible *)
           exfalso. rewrite Eit in Hr. cbn [Sem2.it_nrets Sched2.mkitem] in Hr. unfold unprov, uprov in Hr.
           change (Bfs.nodes (GenU.b g)) with (Bfs.nodes (ub g)) in Hr. rewrite Vn, Hp in Hr. lia.
      * (* an item's node is never an argument node *)
        exfalso. apply (wf_noarg _ W _ _ _ Hi0). rewrite En. unfold uprog, prog_of, Sched2.P. cbn [p_argnodes]. unfold Sched2.args.
        apply filter_In. split; [apply in_seq; split; [lia|]; simpl; apply nth_error_Some; fold (GenU.b g); change (Bfs.nodes (GenU.b g)) with (Bfs.nodes (ub g)); congruence|].
        unfold uisarg. change (Bfs.nodes (GenU.b g)) with (Bfs.nodes (ub g)). rewrite V. reflexivity.
Qed.

(* The main statement: for every accepted declaration, in every run (any interleaving, latency, failure, cancellation) in
   which the provider of the requested type has returned, the variable the injector returns holds the specification value
   of the requested type. *)
Theorem result_is_spec_value : forall d g, unew_graph d = OK g ->
  exists st pm, Threads.build (unp g) (upool g) (udeps g) (uisasync g) (uargs g) = Some st /\ dpm d = Some (pm, uprovs g) /\
  forall ls s vs, Sem2.run (uprog g st) (Sem2.init (uprog g st)) ls = Some s -> In (ExitOk 0 vs) (s_trace s) ->
    exists v, lookup (0, uret g) (s_store s) = Some v /\ spec_den pm (uprovs g) (Gen.d_ret d) (trv g v) /\
      forall v', spec_den pm (uprovs g) (Gen.d_ret d) v' -> v' = trv g v.
Proof.
  intros d g H. destruct (gen_sound d g H) as (st & B & WL). pose proof (wfl_wf _ _ WL) as W.
  destruct (prov_nodes d g H) as (pm & pi & Hpm & Hret & H0 & _). exists st, pm. split; auto. split; auto.
  intros ls s vs R Hin.
  destruct (inv_exit_loc _ _ (run_inv _ ls _ _ W (inv_init _) R) 0 vs Hin) as (t & j & it & Hi & Hn & _).
  (* uret g is one of the root's results *)
  assert (Hr : uret g < Sem2.it_nrets it).
  { pose proof Hi as Hi0. unfold uprog, prog_of in Hi0. apply Sched2.item_at_P in Hi0. destruct Hi0 as (pl & m & _ & _ & Eit).
    assert (m = 0) by (rewrite Eit in Hn; exact Hn). subst m. rewrite Eit. cbn [Sem2.it_nrets Sched2.mkitem]. unfold unprov, uprov.
    change (Bfs.nodes (GenU.b g)) with (Bfs.nodes (ub g)). rewrite H0.
    destruct (unew_graph_inv d g H) as (pm2 & vis & pi2 & Hpm2 & Hret2 & H02 & I & Q). rewrite Hpm in Hpm2. inversion Hpm2; subst pm2.
    rewrite Hret in Hret2. inversion Hret2; subst pi2.
    assert (G : uret g < nprovides (uprovs g) pi).
    { unfold dpm in Hpm. destruct (Gen.pass1 [] 0 (Gen.d_provs d)) as [pm1|] eqn:P1; [|discriminate].
      destruct (Gen.pass2 pm1 (Gen.d_provs d) (filter Gen.isstruct (Gen.d_provs d))) as [[pmx provsx]|] eqn:P2; [|discriminate]. inversion Hpm; subst pmx provsx.
      assert (G1 : pm_good pm1 (Gen.d_provs d)) by (apply (pass1_good (Gen.d_provs d) [] [] pm1 P1); intros t0 p0 g0 Hx; discriminate).
      apply (pass2_good _ _ _ _ _ P2 G1 (Gen.d_ret d)). exact Hret. }
    unfold nprovides in G. destruct (nth_error (uprovs g) pi); [exact G|lia]. }
  destruct (stored_values_denote _ ls s W R 0 (uret g) vs t j it Hin Hi Hn Hr) as (L & D).
  exists (VApp 0 (uret g) vs). split; auto.
  assert (S1 : spec_den pm (uprovs g) (Gen.d_ret d) (trv g (VApp 0 (uret g) vs))).
  { apply (denotes_spec d g st pm H Hpm W _ _ (le_n _) (0, uret g)); auto. unfold var_for. rewrite Hret. split; auto. }
  split; auto. intros v' S2. eapply (spec_den_fun pm (uprovs g) _ _ (le_n _)); eauto.
Qed.

(* ---------------- Async (and fallibility) marks never change what is computed ---------------- *)
Definition same_shape (p p' : Gen.prov) : Prop :=
  Gen.requires p = Gen.requires p' /\ Gen.provides p = Gen.provides p' /\ Gen.isstruct p = Gen.isstruct p' /\ Gen.sfields p = Gen.sfields p'.
Lemma same_shape_refl p : same_shape p p. Proof. repeat split. Qed.
Lemma shape_refl_list l : Forall2 same_shape l l. Proof. induction l; constructor; auto using same_shape_refl. Qed.

Lemma pass1_shape : forall ps ps' pm pi, Forall2 same_shape ps ps' -> Gen.pass1 pm pi ps = Gen.pass1 pm pi ps'.
Proof.
  intros ps ps' pm pi F. revert pm pi. induction F as [|p p' l l' (R & P & S & Fs) F IH]; intros pm pi; simpl; auto.
  rewrite <- S, <- P. destruct (Gen.isstruct p); auto. destruct (Gen.add_groups pm pi 0 (Gen.provides p)); auto.
Qed.

Definition rel_res (r r' : Gen.result (Gen.pmap * list Gen.prov)) : Prop :=
  match r, r' with
  | OK (a, l), OK (a', l') => a = a' /\ Forall2 same_shape l l'
  | Err e, Err e' => e = e'
  | _, _ => False
  end.
Lemma forall2_len {A B} (R : A -> B -> Prop) l l' : Forall2 R l l' -> length l = length l'.
Proof. induction 1; simpl; auto. Qed.
Lemma add_fields_rel st : forall fs pm provs q, Forall2 same_shape provs q -> rel_res (Gen.add_fields pm provs st fs) (Gen.add_fields pm q st fs).
Proof.
  induction fs as [|f r IH]; intros pm provs q F; simpl; [split; auto|].
  destruct (Gen.assoc (snd f) pm); [reflexivity|]. rewrite (forall2_len _ _ _ F). apply IH.
  apply Forall2_app; auto. constructor; [apply same_shape_refl|constructor].
Qed.
Lemma has_field_of_shape st l l' : Forall2 same_shape l l' -> Gen.has_field_of st l = Gen.has_field_of st l'.
Proof.
  induction 1 as [|p p' l l' (R & P & S & Sf) F IH]; [reflexivity|]. unfold Gen.has_field_of in *. simpl. rewrite Sf, IH. reflexivity.
Qed.
Lemma pass2_loop_rel : forall fuel ss ss' pm provs q k, Forall2 same_shape ss ss' -> Forall2 same_shape provs q ->
  rel_res (Gen.pass2_loop fuel pm provs ss k) (Gen.pass2_loop fuel pm q ss' k).
Proof.
  induction fuel as [|fuel IH]; intros ss ss' pm provs q k Fs F; simpl; [reflexivity|].
  destruct Fs as [|s s' l l' (R & P & S & Sf) Fs]; [split; auto|].
  rewrite <- R, <- Sf. destruct (hd_error (Gen.requires s)) as [st|]; [|reflexivity].
  destruct (Gen.assoc st pm).
  - pose proof (add_fields_rel st (Gen.sfields s) pm provs q F) as A. unfold rel_res in A.
    destruct (Gen.add_fields pm provs st (Gen.sfields s)) as [[a1 l1]|e1]; destruct (Gen.add_fields pm q st (Gen.sfields s)) as [[a2 l2]|e2]; try contradiction.
    + destruct A as (-> & A). apply IH; auto.
    + exact A.
  - rewrite (has_field_of_shape st l l' Fs), (forall2_len _ _ _ Fs).
    destruct (Gen.has_field_of st l' && Nat.leb k (length l')); [|reflexivity].
    apply IH; auto. apply Forall2_app; auto. constructor; [repeat split; auto|constructor].
Qed.
Lemma pass2_rel : forall ss ss' pm provs q, Forall2 same_shape ss ss' -> Forall2 same_shape provs q ->
  rel_res (Gen.pass2 pm provs ss) (Gen.pass2 pm q ss').
Proof. intros ss ss' pm provs q Fs F. unfold Gen.pass2. rewrite (forall2_len _ _ _ Fs). apply pass2_loop_rel; auto. Qed.
Lemma filter_shape l l' : Forall2 same_shape l l' -> Forall2 same_shape (filter Gen.isstruct l) (filter Gen.isstruct l').
Proof. induction 1 as [|p p' l l' (R & P & S & Sf) F IH]; simpl; [constructor|]. rewrite <- S. destruct (Gen.isstruct p) eqn:Es; auto. constructor; auto. repeat split; auto. congruence. Qed.

Lemma dpm_shape d d' : Forall2 same_shape (Gen.d_provs d) (Gen.d_provs d') ->
  match dpm d, dpm d' with
  | Some (pm, l), Some (pm', l') => pm = pm' /\ Forall2 same_shape l l'
  | None, None => True
  | _, _ => False
  end.
Proof.
  intros F. unfold dpm. rewrite <- (pass1_shape _ _ [] 0 F). destruct (Gen.pass1 [] 0 (Gen.d_provs d)) as [pm1|]; auto.
  pose proof (pass2_rel _ _ pm1 _ _ (filter_shape _ _ F) F) as R. unfold rel_res in R.
  destruct (Gen.pass2 pm1 (Gen.d_provs d) (filter Gen.isstruct (Gen.d_provs d))) as [[a l]|]; destruct (Gen.pass2 pm1 (Gen.d_provs d') (filter Gen.isstruct (Gen.d_provs d'))) as [[a' l']|]; auto.
Qed.

Lemma spec_den_shape pm provs provs' : Forall2 same_shape provs provs' ->
  forall k v, ssize v <= k -> forall t, spec_den pm provs t v -> spec_den pm provs' t v.
Proof.
  intros F. induction k as [|k IH]; intros v Hk t D; [destruct v; simpl in Hk; lia|].
  destruct D as [t A|t pi gi p vs A Hp Fv]; [constructor; auto|].
  assert (Hp' : exists p', nth_error provs' pi = Some p' /\ same_shape p p').
  { clear - F Hp. revert pi Hp. induction F as [|a a' l l' S F IHF]; intros pi Hp; destruct pi; simpl in *; try discriminate; [inversion Hp; subst; eauto | auto]. }
  destruct Hp' as (p' & Hp' & (R & _)). eapply SDApp; eauto. rewrite <- R. rewrite ssize_app in Hk. assert (Hs : ssizes vs <= k) by lia.
  clear - IH Fv Hs. induction Fv as [|x v l l' Hxv Fv IHF]; [constructor|]. rewrite ssizes_cons in Hs. constructor; [apply IH; auto; lia | apply IHF; lia].
Qed.

(* Two declarations that differ only in which providers are marked Async (or fallible): the specification gives the requested
   type the same value in both - so, by result_is_spec_value, both injectors return the same value in every run. *)
Theorem marks_do_not_change_value : forall d d' pm l pm' l' v v',
  Gen.d_ret d = Gen.d_ret d' -> Forall2 same_shape (Gen.d_provs d) (Gen.d_provs d') ->
  dpm d = Some (pm, l) -> dpm d' = Some (pm', l') ->
  spec_den pm l (Gen.d_ret d) v -> spec_den pm' l' (Gen.d_ret d') v' -> v = v'.
Proof.
  intros d d' pm l pm' l' v v' Hr F H1 H2 S1 S2. pose proof (dpm_shape d d' F) as Sh. rewrite H1, H2 in Sh. destruct Sh as (<- & Fl).
  rewrite <- Hr in S2. apply (spec_den_shape pm l l' Fl _ _ (le_n _)) in S1. eapply (spec_den_fun pm l' _ _ (le_n _)); eauto.
Qed.

(* non-vacuity: a diamond R(X(A), Y(A)) over an injector argument of type 9 *)
Example spec_example :
  let provs := [Gen.mkfn [2;3]%N [[1%N]] false false; Gen.mkfn [4%N] [[2%N]] false true; Gen.mkfn [4%N] [[3%N]] true true; Gen.mkfn [9%N] [[4%N]] false false] in
  exists pm l, dpm {| Gen.d_ret := 1%N; Gen.d_provs := provs |} = Some (pm, l) /\
    spec_eval pm l 10 1%N = Some (SApp 0 0 [SApp 1 0 [SApp 3 0 [SArgT 9%N]]; SApp 2 0 [SApp 3 0 [SArgT 9%N]]]).
Proof. eexists. eexists. split; vm_compute; reflexivity. Qed.

(* ---- executable comparison used by the correspondence: the harness's reference value against spec_eval ---- *)
Fixpoint sval_eqb (a b : sval) : bool :=
  match a, b with
  | SArgT t, SArgT t' => N.eqb t t'
  | SApp pi gi args, SApp pi' gi' args' =>
      Nat.eqb pi pi' && Nat.eqb gi gi' &&
      (fix go (l l' : list sval) : bool :=
         match l, l' with [] , [] => true | x :: r, y :: r' => sval_eqb x y && go r r' | _, _ => false end) args args'
  | _, _ => false
  end.
(* 0: the specification value is the expected one; 31: differs; 32: no value (fuel); 33: the declaration has no provider map *)
Definition spec_code (d : Gen.decl) (expected : sval) : nat :=
  match dpm d with
  | Some (pm, l) => match spec_eval pm l 64 (Gen.d_ret d) with
                    | Some v => if sval_eqb v expected then 0 else 31
                    | None => 32 end
  | None => 33
  end.
