(* Executions are finite: every step other than the caller's cancellation strictly decreases a measure, so no emitted
   program - well-formed or not - can run forever; together with progress (Live.v) and the join theorems this is
   termination under every schedule. *)
From Coq Require Import List Arith Lia Bool.
Import ListNotations.
Require Import Sem2 Term.

Definition cost (it : item) : nat := length (it_waits it) + length (it_closes it) + 3.
Definition total (its : list item) : nat := fold_right (fun it a => cost it + a) 0 its.
Definition done_of (it : item) (ph : phase) : nat :=
  match ph with PWait k => k | PInside _ => length (it_waits it) + 1 | PClose k => length (it_waits it) + 2 + k end.
(* remaining steps of one thread *)
Definition tm (its : list item) (st : tstat) : nat :=
  match st with
  | TDone _ => 0
  | TRun pc ph => match nth_error its pc with
                  | Some it => 1 + (cost it - done_of it ph) + total (skipn (S pc) its)
                  | None => 1 end
  end.
Fixpoint musum (ps : list (list item)) (thr : list tstat) : nat :=
  match ps, thr with its :: pr, st :: tr => tm its st + musum pr tr | _, _ => 0 end.
Definition mu (p : prog) (s : state) : nat := musum (p_threads p) (s_thr s).
Definition noncancel (l : label) : bool := match l with LCancel => false | _ => true end.
(* the bound: one step per wait, enter, exit, close, next, plus the final return of each thread *)
Definition bound (p : prog) : nat := fold_right (fun its a => 1 + total its + a) 0 (p_threads p).

Lemma musum_upd : forall ps thr t its st st', nth_error ps t = Some its -> nth_error thr t = Some st -> tm its st' < tm its st ->
  musum ps (upd thr t st') < musum ps thr.
Proof.
  induction ps as [|i0 pr IH]; intros thr t its st st' Hp Ht Hlt; [destruct t; discriminate|].
  destruct thr as [|s0 tr]; [destruct t; discriminate|]. destruct t as [|t]; simpl in *.
  - inversion Hp; inversion Ht; subst. lia.
  - specialize (IH tr t its st st' Hp Ht Hlt). lia.
Qed.

Lemma cur_parts p s t pc ph it : cur p s t = Some (pc, ph, it) ->
  exists its, nth_error (p_threads p) t = Some its /\ nth_error (s_thr s) t = Some (TRun pc ph) /\ nth_error its pc = Some it.
Proof.
  unfold cur. destruct (nth_error (s_thr s) t) as [[pc' ph'|e]|]; try discriminate.
  destruct (nth_error (p_threads p) t) as [its|]; try discriminate. destruct (nth_error its pc') as [it'|] eqn:E; try discriminate.
  intros H. inversion H; subst. exists its. auto.
Qed.

Lemma total_skipn its pc it : nth_error its pc = Some it -> total (skipn pc its) = cost it + total (skipn (S pc) its).
Proof. revert pc. induction its as [|a r IH]; intros pc H; destruct pc; simpl in *; try discriminate; [inversion H; reflexivity | apply IH; auto]. Qed.
Lemma total_skipn_none its pc : nth_error its pc = None -> total (skipn pc its) = 0.
Proof. intros H. apply nth_error_None in H. rewrite skipn_all2 by lia. reflexivity. Qed.

Lemma step_decreases p s l s' : step p s l = Some s' -> mu p s' + (if noncancel l then 1 else 0) <= mu p s.
Proof.
  intros H. apply (step_cases p s l s' (fun l s' => mu p s' + (if noncancel l then 1 else 0) <= mu p s) H); clear H; unfold mu; cbn [noncancel].
  - intros t pc k it x C Hx _. destruct (cur_parts _ _ _ _ _ _ C) as (its & Hp & Ht & Hi). cbn [setthr s_thr].
    pose proof (musum_upd _ _ t its _ (TRun pc (PWait (S k))) Hp Ht) as L. simpl in L. rewrite Hi in L.
    assert (k < length (it_waits it)) by (apply nth_error_Some; congruence). unfold cost in L. simpl in L. lia.
  - intros t pc k it x e C _ _ _. destruct (cur_parts _ _ _ _ _ _ C) as (its & Hp & Ht & Hi). unfold fail. cbn [s_thr].
    pose proof (musum_upd _ _ t its _ (TDone (Some e)) Hp Ht) as L. simpl in L. rewrite Hi in L. lia.
  - intros t pc it vs C _. destruct (cur_parts _ _ _ _ _ _ C) as (its & Hp & Ht & Hi). unfold mkst. cbn [s_thr].
    pose proof (musum_upd _ _ t its _ (TRun pc (PInside vs)) Hp Ht) as L. simpl in L. rewrite Hi in L. unfold cost in L. simpl in L. lia.
  - intros t pc it vs C. destruct (cur_parts _ _ _ _ _ _ C) as (its & Hp & Ht & Hi). unfold mkst. cbn [s_thr].
    pose proof (musum_upd _ _ t its _ (TRun pc (PClose 0)) Hp Ht) as L. simpl in L. rewrite Hi in L. unfold cost in L. simpl in L. lia.
  - intros t pc it vs C _. destruct (cur_parts _ _ _ _ _ _ C) as (its & Hp & Ht & Hi). unfold mkst, fail. cbn [s_thr].
    pose proof (musum_upd _ _ t its _ (TDone (Some (EProv (it_node it)))) Hp Ht) as L. simpl in L. rewrite Hi in L. lia.
  - intros t pc k it x C Hx _. destruct (cur_parts _ _ _ _ _ _ C) as (its & Hp & Ht & Hi). unfold mkst. cbn [s_thr].
    pose proof (musum_upd _ _ t its _ (TRun pc (PClose (S k))) Hp Ht) as L. simpl in L. rewrite Hi in L.
    assert (k < length (it_closes it)) by (apply nth_error_Some; congruence). unfold cost in L. simpl in L. lia.
  - intros t pc it C. destruct (cur_parts _ _ _ _ _ _ C) as (its & Hp & Ht & Hi). cbn [setthr s_thr].
    pose proof (musum_upd _ _ t its _ (TRun (S pc) (PWait 0)) Hp Ht) as L. cbn [tm done_of] in L. rewrite Hi in L.
    destruct (nth_error its (S pc)) as [it'|] eqn:E.
    + rewrite (total_skipn its (S pc) it' E) in L. unfold cost in L. lia.
    + rewrite (total_skipn_none its (S pc) E) in L. unfold cost in L. lia.
  - intros t pc its Ht Hp Hpc _. cbn [setthr s_thr].
    pose proof (musum_upd _ _ t its _ (TDone (if Nat.eqb t 0 then if p_reterr p then s_egerr s else None else None)) Hp Ht) as L. simpl in L.
    assert (E : nth_error its pc = None) by (apply nth_error_None; lia). rewrite E in L. lia.
  - unfold mkst. cbn [s_thr]. lia.
Qed.

Lemma run_decreases p : forall ls s s', run p s ls = Some s' -> mu p s' + length (filter noncancel ls) <= mu p s.
Proof.
  induction ls as [|l r IH]; intros s s' R; simpl in R; [inversion R; simpl; lia|].
  destruct (step p s l) as [s1|] eqn:S; [|discriminate]. pose proof (step_decreases _ _ _ _ S) as D. specialize (IH _ _ R).
  simpl. destruct (noncancel l); simpl; lia.
Qed.

Lemma mu_init p : mu p (init p) = bound p.
Proof.
  unfold mu, init, bound. cbn [s_thr]. induction (p_threads p) as [|its r IH]; simpl; auto. rewrite IH.
  destruct its as [|it its']; simpl; [lia|]. unfold cost. simpl. lia.
Qed.

(* every execution takes at most `bound p` steps besides the caller's cancellations: no livelock, no infinite run *)
Theorem runs_are_finite p ls s : run p (init p) ls = Some s -> length (filter noncancel ls) <= bound p.
Proof. intros R. pose proof (run_decreases p ls _ _ R) as D. rewrite mu_init in D. lia. Qed.

(* and when the measure is exhausted every thread has returned *)
Lemma musum_zero : forall ps thr, length thr = length ps -> musum ps thr = 0 -> forall t st, nth_error thr t = Some st -> exists e, st = TDone e.
Proof.
  induction ps as [|its pr IH]; intros thr Hl Hz t st Ht; destruct thr as [|s0 tr]; simpl in *; try discriminate; [destruct t; discriminate|].
  destruct t as [|t]; simpl in Ht.
  - inversion Ht; subst. destruct st as [pc ph|e]; [|eauto]. simpl in Hz. destruct (nth_error its pc); lia.
  - apply (IH tr) with (t := t); auto; lia.
Qed.

Require Import Safe Live LiveInv.
Lemma ffl_noncancel ls : forallb ffl ls = true -> filter noncancel ls = ls.
Proof.
  induction ls as [|l r IH]; simpl; auto. intros H. apply andb_true_iff in H. destruct H as (Hl & Hr).
  destruct l; simpl in *; try discriminate; rewrite IH; auto.
Qed.
(* a fault-free execution has at most `bound p` steps *)
Theorem fault_free_runs_bounded p ls s : forallb ffl ls = true -> run p (init p) ls = Some s -> length ls <= bound p.
Proof. intros F R. pose proof (runs_are_finite p ls s R) as B. rewrite (ffl_noncancel ls F) in B. exact B. Qed.
