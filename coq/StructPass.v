(* C09, acceptance of Struct expansions from first principles: the retrying second pass of NewGraph (Gen.pass2) accepts
   whenever every expansion has a source - a provider of the first pass or, transitively, a field of another expanded
   struct - and no field type is supplied twice; in whatever order the expansions are declared.
   (Restriction: no struct has a field of its own struct type.) *)
From Coq Require Import List Arith Bool NArith Lia Permutation.
Import ListNotations.
Require Import Gen GenSound Suppliers Resolve Reorder.

Definition stype (s : Gen.prov) : option N := hd_error (Gen.requires s).
Definition ftypes (s : Gen.prov) : list N := map snd (Gen.sfields s).
Definition allfields (ss : list Gen.prov) : list N := flat_map ftypes ss.
Definition expandable (pm : Gen.pmap) (s : Gen.prov) : Prop := exists st, stype s = Some st /\ Gen.assoc st pm <> None.

(* s has a source: a provider already in the map, or a field of a struct of P that has a source itself *)
Inductive reach (pm : Gen.pmap) (P : list Gen.prov) : Gen.prov -> Prop :=
| R0 s : expandable pm s -> reach pm P s
| R1 s st s' : stype s = Some st -> In s' P -> In st (ftypes s') -> reach pm P s' -> reach pm P s.

Lemma has_field_of_true st ss : Gen.has_field_of st ss = true <-> exists s, In s ss /\ In st (ftypes s).
Proof.
  unfold Gen.has_field_of. rewrite existsb_exists. split.
  - intros (s & Hin & E). exists s. split; auto. apply existsb_exists in E. destruct E as (f & Hf & Ef). apply N.eqb_eq in Ef. subst.
    unfold ftypes. apply in_map. exact Hf.
  - intros (s & Hin & Hf). exists s. split; auto. apply existsb_exists. unfold ftypes in Hf. apply in_map_iff in Hf. destruct Hf as (f & <- & Hf).
    exists f. split; auto. apply N.eqb_refl.
Qed.

Lemma nodup_app_l {A} (a b : list A) : NoDup (a ++ b) -> NoDup a.
Proof. induction a as [|x a IH]; intros H; [constructor|]. inversion H as [|y l Hn ND]; subst. constructor; [intro Hx; apply Hn; apply in_or_app; left; exact Hx|apply IH; exact ND]. Qed.
Lemma nodup_app_r {A} (a b : list A) : NoDup (a ++ b) -> NoDup b.
Proof. induction a as [|x a IH]; intros H; [exact H|]. inversion H; subst. apply IH. assumption. Qed.
Lemma nodup_app_disj {A} (a b : list A) x : NoDup (a ++ b) -> In x a -> ~ In x b.
Proof.
  induction a as [|y a IH]; intros H Ha Hb; [destruct Ha|]. inversion H as [|z l Hn ND]; subst.
  destruct Ha as [->|Ha]; [apply Hn; apply in_or_app; right; exact Hb|exact (IH ND Ha Hb)].
Qed.

(* ---------------- add_fields: total on fresh, distinct field types; what the new map contains ---------------- *)
Lemma add_fields_total st : forall fs pm provs, NoDup (map snd fs) -> (forall f, In f fs -> Gen.assoc (snd f) pm = None) ->
  exists pm' provs', Gen.add_fields pm provs st fs = OK (pm', provs').
Proof.
  induction fs as [|f r IH]; intros pm provs ND F; simpl; [eauto|].
  rewrite (F f (or_introl eq_refl)). inversion ND as [|x l Hnin ND']; subst. apply IH; [exact ND'|].
  intros g Hg. rewrite (assoc_app_none (snd g) pm _ (F g (or_intror Hg))). simpl.
  destruct (N.eqb (snd g) (snd f)) eqn:E; [|reflexivity]. apply N.eqb_eq in E. exfalso. apply Hnin. rewrite <- E. apply in_map. exact Hg.
Qed.
Lemma add_fields_mono st t v : forall fs pm provs pm' provs', Gen.add_fields pm provs st fs = OK (pm', provs') ->
  Gen.assoc t pm = Some v -> Gen.assoc t pm' = Some v.
Proof.
  induction fs as [|f r IH]; intros pm provs pm' provs' H A; simpl in H; [inversion H; subst; exact A|].
  destruct (Gen.assoc (snd f) pm); [discriminate|]. eapply IH; [exact H|]. apply assoc_app_some. exact A.
Qed.
Lemma add_fields_adds st t : forall fs pm provs pm' provs', Gen.add_fields pm provs st fs = OK (pm', provs') ->
  In t (map snd fs) -> Gen.assoc t pm' <> None.
Proof.
  induction fs as [|f r IH]; intros pm provs pm' provs' H Hin; simpl in H; [destruct Hin|].
  destruct (Gen.assoc (snd f) pm) eqn:Af; [discriminate|]. destruct Hin as [<-|Hin]; [|eapply IH; eauto].
  assert (A : Gen.assoc (snd f) (pm ++ [(snd f, (length provs, 0))]) = Some (length provs, 0)).
  { rewrite (assoc_app_none _ pm _ Af). simpl. rewrite N.eqb_refl. reflexivity. }
  rewrite (add_fields_mono st _ _ _ _ _ _ _ H A). discriminate.
Qed.

(* ---------------- the invariant of the loop ---------------- *)
Record inv (pm : Gen.pmap) (front back : list Gen.prov) : Prop := {
  i_nodup : NoDup (allfields (front ++ back));
  i_fresh : forall t, In t (allfields (front ++ back)) -> Gen.assoc t pm = None;
  i_typed : forall s, In s (front ++ back) -> exists st, stype s = Some st /\ ~ In st (ftypes s);
  i_reach : forall s, In s (front ++ back) -> reach pm (front ++ back) s;
  i_back : forall s, In s back -> ~ expandable pm s }.

Lemma reach_has_expandable pm P s : reach pm P s -> In s P -> exists e, In e P /\ expandable pm e.
Proof. induction 1 as [s E|s st s' Hs Hin Hf R IH]; intros HP; [exists s; auto|apply IH; exact Hin]. Qed.

Lemma allfields_app a b : allfields (a ++ b) = allfields a ++ allfields b.
Proof. unfold allfields. apply flat_map_app. Qed.
Lemma allfields_cons s r : allfields (s :: r) = ftypes s ++ allfields r. Proof. reflexivity. Qed.

Lemma allfields_perm ss ss' : Permutation ss ss' -> Permutation (allfields ss) (allfields ss').
Proof.
  induction 1 as [|x l l' P IH|x y l|l l' l'' P1 IH1 P2 IH2]; unfold allfields in *; simpl.
  - constructor.
  - apply Permutation_app_head. exact IH.
  - rewrite !app_assoc. apply Permutation_app_tail. apply Permutation_app_comm.
  - eapply Permutation_trans; eauto.
Qed.
Lemma rotate_perm {A} (h : A) f b : Permutation ((h :: f) ++ b) (f ++ b ++ [h]).
Proof. cbn [app]. rewrite app_assoc. apply Permutation_cons_append. Qed.

(* after a successful expansion of the head h, everything that had a source still has one, over the smaller list *)
Lemma reach_after_expand pm pm' h r s : (forall t v, Gen.assoc t pm = Some v -> Gen.assoc t pm' = Some v) ->
  (forall t, In t (ftypes h) -> Gen.assoc t pm' <> None) ->
  reach pm (h :: r) s -> reach pm' r s.
Proof.
  intros Mono Adds. induction 1 as [s (st & Hs & A)|s st s' Hs Hin Hf R IH].
  - apply R0. exists st. split; auto. destruct (Gen.assoc st pm) as [v|] eqn:E; [|congruence]. rewrite (Mono _ _ E). discriminate.
  - destruct Hin as [<-|Hin].
    + apply R0. exists st. split; auto.
    + eapply R1; eauto.
Qed.
Lemma reach_perm pm P P' s : (forall x, In x P -> In x P') -> reach pm P s -> reach pm P' s.
Proof. intros Sub. induction 1 as [s E|s st s' Hs Hin Hf R IH]; [apply R0; auto|eapply R1; eauto]. Qed.

Lemma expandable_dec pm s : {expandable pm s} + {~ expandable pm s}.
Proof.
  unfold expandable, stype. destruct (hd_error (Gen.requires s)) as [st|]; [|right; intros (st & H & _); discriminate].
  destruct (Gen.assoc st pm) eqn:A; [left; exists st; split; auto; congruence | right; intros (st' & H & N); inversion H; subst; congruence].
Qed.

Lemma pass2_loop_no_refusal : forall fuel pm provs front back, inv pm front back ->
  (exists r, Gen.pass2_loop fuel pm provs (front ++ back) (length back) = OK r) \/
  Gen.pass2_loop fuel pm provs (front ++ back) (length back) = Err 4.
Proof.
  induction fuel as [|fuel IH]; intros pm provs front back I; [right; reflexivity|].
  destruct front as [|h front'].
  - (* nothing in front: back must be empty, for a non-empty list has an expandable element, and none of back is *)
    destruct back as [|b back']; [left; simpl; eauto|]. exfalso.
    destruct (reach_has_expandable pm _ b (i_reach _ _ _ I b (or_introl eq_refl)) (or_introl eq_refl)) as (e & He & Ee).
    exact (i_back _ _ _ I e He Ee).
  - cbn [app Gen.pass2_loop]. destruct (i_typed _ _ _ I h (or_introl eq_refl)) as (st & Hst & Hown).
    unfold stype in Hst. rewrite Hst. destruct (Gen.assoc st pm) as [v|] eqn:A.
    + (* the head is expandable *)
      destruct (add_fields_total st (Gen.sfields h) pm provs) as (pm' & provs' & Af).
      * pose proof (i_nodup _ _ _ I) as ND. cbn [app] in ND. rewrite allfields_cons in ND. apply nodup_app_l in ND. exact ND.
      * intros f Hf. apply (i_fresh _ _ _ I). cbn [app]. rewrite allfields_cons. apply in_or_app. left. unfold ftypes. apply in_map. exact Hf.
      * rewrite Af. specialize (IH pm' provs' (front' ++ back) []). rewrite app_nil_r in IH. cbn [length] in IH. apply IH.
        pose proof (i_nodup _ _ _ I) as ND. cbn [app] in ND. rewrite allfields_cons in ND.
        constructor; rewrite ?app_nil_r.
        -- apply nodup_app_r in ND. exact ND.
        -- intros t Ht. eapply add_fields_assoc_none; [exact Af| |].
           ++ apply (i_fresh _ _ _ I). cbn [app]. rewrite allfields_cons. apply in_or_app. right. exact Ht.
           ++ (* t is not a field type of h: all field types are distinct *)
              destruct (existsb (fun f : N * N => N.eqb (snd f) t) (Gen.sfields h)) eqn:E; [|reflexivity]. exfalso.
              apply existsb_exists in E. destruct E as (f & Hf & Ef). apply N.eqb_eq in Ef. subst t.
              assert (Hin : In (snd f) (ftypes h)) by (unfold ftypes; apply in_map; exact Hf).
              exact (nodup_app_disj _ _ _ ND Hin Ht).
        -- intros s Hs. apply (i_typed _ _ _ I). cbn [app]. right. exact Hs.
        -- intros s Hs. eapply (reach_after_expand pm pm' h).
           ++ intros t v0. apply (add_fields_mono st t v0 _ _ _ _ _ Af).
           ++ intros t Ht. eapply add_fields_adds; eauto.
           ++ apply (i_reach _ _ _ I). cbn [app]. right. exact Hs.
        -- intros s [].
    + (* the head has to wait: some other pending struct has a field of its type, and the counter allows it *)
      assert (NE : ~ expandable pm h) by (intros (st' & H1 & H2); unfold stype in H1; rewrite Hst in H1; inversion H1; subst; congruence).
      assert (HF : Gen.has_field_of st (front' ++ back) = true).
      { pose proof (i_reach _ _ _ I h (or_introl eq_refl)) as R. inversion R as [s E|s st0 s' Hs Hin Hf R']; subst; [contradiction|].
        unfold stype in Hs. rewrite Hst in Hs. inversion Hs; subst st0. apply has_field_of_true. exists s'. split; auto.
        cbn [app] in Hin. destruct Hin as [<-|Hin]; [contradiction|exact Hin]. }
      assert (HK : Nat.leb (length back) (length (front' ++ back)) = true) by (apply Nat.leb_le; rewrite app_length; lia).
      rewrite HF, HK. cbn [andb]. rewrite <- app_assoc.
      replace (S (length back)) with (length (back ++ [h])) by (rewrite app_length; simpl; lia).
      apply IH. constructor.
      * eapply Permutation_NoDup; [apply allfields_perm; apply rotate_perm|exact (i_nodup _ _ _ I)].
      * intros t Ht. apply (i_fresh _ _ _ I). eapply Permutation_in; [apply Permutation_sym; apply allfields_perm; apply rotate_perm|exact Ht].
      * intros s Hs. apply (i_typed _ _ _ I). cbn [app]. apply in_app_or in Hs. destruct Hs as [Hs|Hs]; [right; apply in_or_app; left; exact Hs|].
        apply in_app_or in Hs. destruct Hs as [Hs|[<-|[]]]; [right; apply in_or_app; right; exact Hs | left; reflexivity].
      * assert (Sub : forall x, In x ((h :: front') ++ back) -> In x (front' ++ back ++ [h])).
        { intros x Hx. cbn [app] in Hx. destruct Hx as [<-|Hx]; [apply in_or_app; right; apply in_or_app; right; left; reflexivity|].
          apply in_app_or in Hx. destruct Hx as [Hx|Hx]; apply in_or_app; [left; exact Hx | right; apply in_or_app; left; exact Hx]. }
        intros s Hs. apply (reach_perm pm _ _ s Sub). apply (i_reach _ _ _ I).
        cbn [app]. apply in_app_or in Hs. destruct Hs as [Hs|Hs]; [right; apply in_or_app; left; exact Hs|].
        apply in_app_or in Hs. destruct Hs as [Hs|[<-|[]]]; [right; apply in_or_app; right; exact Hs | left; reflexivity].
      * intros s Hs. apply in_app_or in Hs. destruct Hs as [Hs|[<-|[]]]; [apply (i_back _ _ _ I); exact Hs | exact NE].
Qed.

(* Every Struct expansion has a source (a first-pass provider, or transitively a field of another expansion), no field
   type is supplied twice or already supplied by the first pass, and no struct has a field of its own struct type:
   the second pass accepts, in whatever order the expansions stand. *)
Theorem structs_with_sources_accepted pm provs ss :
  NoDup (allfields ss) -> (forall t, In t (allfields ss) -> Gen.assoc t pm = None) ->
  (forall s, In s ss -> exists st, stype s = Some st /\ ~ In st (ftypes s)) ->
  (forall s, In s ss -> reach pm ss s) ->
  exists r, Gen.pass2 pm provs ss = OK r.
Proof.
  intros ND F T R. unfold Gen.pass2.
  destruct (pass2_loop_no_refusal (S (length ss * (length ss + 3))) pm provs ss []) as [H|H].
  - constructor; rewrite ?app_nil_r; auto; intros s [].
  - rewrite app_nil_r in H. exact H.
  - exfalso. rewrite app_nil_r in H. cbn [length] in H. revert H. apply pass2_loop_fuel; [lia|nia].
Qed.

(* the hypotheses do not mention the order: they hold of every permutation of the expansions *)
Theorem structs_accepted_in_any_order pm provs ss ss' : Permutation ss ss' ->
  NoDup (allfields ss) -> (forall t, In t (allfields ss) -> Gen.assoc t pm = None) ->
  (forall s, In s ss -> exists st, stype s = Some st /\ ~ In st (ftypes s)) ->
  (forall s, In s ss -> reach pm ss s) ->
  exists r, Gen.pass2 pm provs ss' = OK r.
Proof.
  intros P ND F T R. apply structs_with_sources_accepted.
  - eapply Permutation_NoDup; [apply allfields_perm; exact P|exact ND].
  - intros t Ht. apply F. eapply Permutation_in; [apply Permutation_sym; apply allfields_perm; exact P|exact Ht].
  - intros s Hs. apply T. eapply Permutation_in; [apply Permutation_sym; exact P|exact Hs].
  - intros s Hs. apply (reach_perm pm ss ss' s); [intros x Hx; eapply Permutation_in; eauto|]. apply R. eapply Permutation_in; [apply Permutation_sym; exact P|exact Hs].
Qed.

(* non-vacuity: Config{DB *DBConfig}, DBConfig{Port}; the inner expansion declared first *)
Example nested_example :
  let outer := Gen.mkstruct 1%N [(1%N, 2%N)] in let inner := Gen.mkstruct 2%N [(1%N, 3%N)] in
  Gen.pass2 [(1%N, (0, 0))] [Gen.mkfn [] [[1%N]] false false] [inner; outer] =
  OK ([(1%N, (0, 0)); (2%N, (1, 0)); (3%N, (2, 0))], [Gen.mkfn [] [[1%N]] false false; Gen.mkfield 1%N (1%N, 2%N); Gen.mkfield 2%N (1%N, 3%N)]).
Proof. vm_compute. reflexivity. Qed.

(* both passes together: a provider list whose first pass succeeds and whose expansions have sources has a provider map *)
Theorem with_sources_has_provider_map : forall d pm1,
  ~ clash (Gen.d_provs d) -> Gen.pass1 [] 0 (Gen.d_provs d) = OK pm1 ->
  let ss := filter Gen.isstruct (Gen.d_provs d) in
  NoDup (allfields ss) -> (forall t, In t (allfields ss) -> Gen.assoc t pm1 = None) ->
  (forall s, In s ss -> exists st, stype s = Some st /\ ~ In st (ftypes s)) ->
  (forall s, In s ss -> reach pm1 ss s) ->
  exists r, dpm d = Some r.
Proof.
  intros d pm1 _ P1 ss ND F T R. unfold dpm. rewrite P1.
  destruct (structs_with_sources_accepted pm1 (Gen.d_provs d) ss ND F T R) as (r & H). fold ss. rewrite H. eauto.
Qed.
