From Coq Require Import List Arith Lia Bool.
Import ListNotations.

Inductive col := White | Gray | Black.

Section DFS.
Variable succs : nat -> list nat.      (* graph.edges[n] targets, in order *)

Definition colour := nat -> col.
Definition setc (c : colour) (n : nat) (k : col) : colour := fun m => if Nat.eqb m n then k else c m.

Inductive res := Cycle | Fuel | Done (c : colour) (fin : list nat).

Fixpoint dfs (fuel : nat) (c : colour) (fin : list nat) (n : nat) : res :=
  match fuel with
  | 0 => Fuel
  | S fuel =>
      (fix go (vs : list nat) (c : colour) (fin : list nat) : res :=
         match vs with
         | [] => Done (setc c n Black) (n :: fin)
         | v :: r => match c v with
                     | Gray => Cycle
                     | White => match dfs fuel c fin v with Done c' fin' => go r c' fin' | x => x end
                     | Black => go r c fin
                     end
         end) (succs n) (setc c n Gray) fin
  end.

Fixpoint go (fuel : nat) (n : nat) (vs : list nat) (c : colour) (fin : list nat) : res :=
  match vs with
  | [] => Done (setc c n Black) (n :: fin)
  | v :: r => match c v with
              | Gray => Cycle
              | White => match dfs fuel c fin v with Done c' fin' => go fuel n r c' fin' | x => x end
              | Black => go fuel n r c fin
              end
  end.
Lemma dfs_unfold fuel c fin n : dfs (S fuel) c fin n = go fuel n (succs n) (setc c n Gray) fin.
Proof. simpl. generalize (setc c n Gray) as c0. generalize fin as f0. induction (succs n) as [|v r IH]; intros; simpl; auto.
  destruct (c0 v); auto. destruct (dfs fuel c0 f0 v); auto. Qed.

Inductive okfin : list nat -> Prop :=
| okfin_nil : okfin []
| okfin_cons u l : okfin l -> (forall v, In v (succs u) -> In v l) -> okfin (u :: l).

Definition J (c : colour) (fin : list nat) : Prop := (forall m, c m = Black <-> In m fin) /\ okfin fin /\ NoDup fin.

Definition post (c : colour) (n : nat) (c' : colour) (fin' : list nat) : Prop :=
  J c' fin' /\ c' n = Black /\ (forall m, c m = Black -> c' m = Black) /\ (forall m, c m = Gray <-> c' m = Gray).

Lemma setc_eq c n k : setc c n k n = k. Proof. unfold setc. rewrite Nat.eqb_refl. auto. Qed.
Lemma setc_neq c n k m : m <> n -> setc c n k m = c m. Proof. unfold setc. intros H. apply Nat.eqb_neq in H. rewrite H. auto. Qed.

Lemma dfs_sound : forall fuel c fin n c' fin', J c fin -> c n = White -> dfs fuel c fin n = Done c' fin' -> post c n c' fin'.
Proof.
  induction fuel as [|fuel IH]; intros c fin n c' fin' HJ Hn H; [discriminate|].
  rewrite dfs_unfold in H.
  assert (G : forall vs c0 f0,
             J c0 f0 -> c0 n = Gray ->
             (forall m, c m = Black -> c0 m = Black) -> (forall m, m <> n -> (c m = Gray <-> c0 m = Gray)) ->
             (forall v, In v (succs n) -> In v vs \/ c0 v = Black) ->
             go fuel n vs c0 f0 = Done c' fin' -> post c n c' fin').
  { induction vs as [|v r IHr]; intros c0 f0 J0 Hg Hb Hgr Hs Hgo; simpl in Hgo.
    - inversion Hgo; subst. destruct J0 as (Jb & Jo & Jn). split; [split; [|split]|split; [|split]].
      + intros m. destruct (Nat.eq_dec m n) as [->|Hne].
        * rewrite setc_eq. split; [left; auto|auto].
        * rewrite setc_neq by auto. split; [intro; right; apply Jb; auto | intros [E|Hm]; [congruence|apply Jb; auto]].
      + constructor; auto. intros v Hv. destruct (Hs v Hv) as [[]|Hv2]. apply Jb; auto.
      + constructor; auto. intro Hin. apply Jb in Hin. congruence.
      + apply setc_eq.
      + intros m Hm. destruct (Nat.eq_dec m n) as [->|Hne]; [apply setc_eq | rewrite setc_neq by auto; auto].
      + intros m. destruct (Nat.eq_dec m n) as [->|Hne].
        * rewrite setc_eq. split; intro; congruence.
        * rewrite setc_neq by auto. apply Hgr; auto.
    - destruct (c0 v) eqn:Cv.
      + destruct (dfs fuel c0 f0 v) as [| |c1 f1] eqn:D; try discriminate.
        destruct (IH _ _ _ _ _ J0 Cv D) as (J1 & Hv2 & Hb1 & Hg1).
        apply (IHr c1 f1); auto.
        * apply Hg1; auto.
        * intros m Hm. rewrite (Hgr m Hm). apply Hg1.
        * intros w Hw. destruct (Hs w Hw) as [[->|Hin]|Hw2]; auto.
      + discriminate.
      + apply (IHr c0 f0); auto.
        intros w Hw. destruct (Hs w Hw) as [[->|Hin]|Hw2]; auto. }
  apply (G (succs n) (setc c n Gray) fin); auto.
  - destruct HJ as (Jb & Jo & Jn). split; [|split; auto]. intros m. destruct (Nat.eq_dec m n) as [->|Hne].
    + rewrite setc_eq. split; [discriminate|]. intro Hin. apply Jb in Hin. congruence.
    + rewrite setc_neq by auto. apply Jb.
  - apply setc_eq.
  - intros m Hm. destruct (Nat.eq_dec m n) as [->|Hne]; [congruence | rewrite setc_neq by auto; auto].
  - intros m Hm. rewrite setc_neq by auto. tauto.
Qed.

(* the finish list of a successful run is a topological certificate: edges point to older entries *)
Lemma okfin_acyclic fin : okfin fin -> NoDup fin ->
  forall l1 u l2, fin = l1 ++ u :: l2 -> forall v, In v (succs u) -> In v l2.
Proof.
  induction 1 as [|x l Hok IH Hx]; intros ND l1 u l2 E v Hv.
  - destruct l1; discriminate.
  - destruct l1 as [|y l1]; simpl in E; inversion E; subst.
    + apply Hx; auto.
    + inversion ND; subst. eapply IH; eauto.
Qed.

(* detectCycles: run from every still-white node *)
Fixpoint dfs_all (fuel : nat) (ns : list nat) (c : colour) (fin : list nat) : option (colour * list nat) :=
  match ns with
  | [] => Some (c, fin)
  | x :: r => match c x with
              | White => match dfs fuel c fin x with Done c' f' => dfs_all fuel r c' f' | _ => None end
              | _ => dfs_all fuel r c fin
              end
  end.

Lemma dfs_all_sound fuel : forall ns c fin c' fin', J c fin -> (forall m, c m <> Gray) -> dfs_all fuel ns c fin = Some (c', fin') ->
  J c' fin' /\ (forall m, c' m <> Gray) /\ (forall m, c m = Black -> c' m = Black) /\ (forall x, In x ns -> c' x = Black).
Proof.
  induction ns as [|x r IH]; intros c fin c' fin' HJ Hg H; simpl in H.
  - inversion H; subst. split; [exact HJ|]. split; [exact Hg|]. split; [auto|intros x []].
  - destruct (c x) eqn:Cx.
    + destruct (dfs fuel c fin x) as [| |c1 f1] eqn:D; try discriminate.
      destruct (dfs_sound _ _ _ _ _ _ HJ Cx D) as (J1 & Hx & Hb & Hgr).
      assert (Hg1 : forall m, c1 m <> Gray) by (intros m E; apply Hgr in E; eapply Hg; eauto).
      destruct (IH _ _ _ _ J1 Hg1 H) as (J2 & G2 & B2 & A2). split; auto. split; auto. split; [intros m Hm; apply B2; apply Hb; auto|].
      intros y [<-|Hy]; [apply B2; auto | apply A2; auto].
    + exfalso. eapply Hg; eauto.
    + destruct (IH _ _ _ _ HJ Hg H) as (J2 & G2 & B2 & A2). split; auto. split; auto. split; auto.
      intros y [<-|Hy]; [apply B2; auto | apply A2; auto].
Qed.

Fixpoint posn (x : nat) (l : list nat) : nat := match l with [] => 0 | y :: r => if Nat.eqb x y then 0 else S (posn x r) end.
Lemma posn_after x y l1 l2 : ~ In y l1 -> y <> x -> In y l2 -> posn x (l1 ++ x :: l2) < posn y (l1 ++ x :: l2).
Proof.
  induction l1 as [|a l1 IH]; intros H1 H2 H3; simpl.
  - rewrite Nat.eqb_refl. apply Nat.eqb_neq in H2. rewrite H2. lia.
  - destruct (Nat.eqb x a) eqn:E1; destruct (Nat.eqb y a) eqn:E2.
    + apply Nat.eqb_eq in E2. subst. exfalso. apply H1. left; auto.
    + lia.
    + apply Nat.eqb_eq in E2. subst. exfalso. apply H1. left; auto.
    + apply -> Nat.succ_lt_mono. apply IH; auto. intro. apply H1. right; auto.
Qed.

Lemma nodup_app_disj {A} (l1 l2 : list A) x : NoDup (l1 ++ l2) -> In x l1 -> In x l2 -> False.
Proof.
  induction l1 as [|a l1 IH]; simpl; intros ND H1 H2; [destruct H1|]. inversion ND; subst.
  destruct H1 as [->|H1]; [apply H3; apply in_or_app; auto | eapply IH; eauto].
Qed.

(* a successful cycle check yields a rank: every edge goes from smaller to larger rank *)
Theorem acyclic_rank fuel n c' fin' : dfs_all fuel (seq 0 n) (fun _ => White) [] = Some (c', fin') ->
  forall u v, u < n -> In v (succs u) -> posn u fin' < posn v fin'.
Proof.
  intros H u v Hu Hv.
  assert (J0 : J (fun _ => White) []) by (split; [intros m; split; [discriminate|intros []] | split; constructor]).
  destruct (dfs_all_sound _ _ _ _ _ _ J0 ltac:(intros m; discriminate) H) as ((Jb & Jo & Jn) & _ & _ & A).
  assert (Hin : In u fin') by (apply Jb; apply A; apply in_seq; lia).
  apply in_split in Hin. destruct Hin as (l1 & l2 & E). pose proof (okfin_acyclic _ Jo Jn _ _ _ E v Hv) as Hv2.
  rewrite E in *. apply posn_after; auto.
  - intro H1. eapply (nodup_app_disj l1 (u :: l2)); eauto. right; auto.
  - intro; subst. apply NoDup_remove_2 in Jn. apply Jn. apply in_or_app; auto.
Qed.

(* ---------------- completeness: an acyclic graph always passes the cycle check (no false Cycle, fuel suffices) ---------------- *)
Section Complete.
Variable n : nat.
Variable rho : nat -> nat.
Hypothesis closed : forall u v, u < n -> In v (succs u) -> v < n.
Hypothesis rk : forall u v, u < n -> In v (succs u) -> rho u < rho v.
Definition isw (k : col) : bool := match k with White => true | _ => false end.
Definition W (c : colour) : nat := length (filter (fun m => isw (c m)) (seq 0 n)).

Lemma cnt_mono (l : list nat) (c c' : colour) : (forall m, In m l -> isw (c' m) = true -> isw (c m) = true) ->
  length (filter (fun m => isw (c' m)) l) <= length (filter (fun m => isw (c m)) l).
Proof.
  induction l as [|a l IH]; intros H; simpl; auto.
  assert (IH' := IH (fun m Hm => H m (or_intror Hm))). specialize (H a (or_introl eq_refl)).
  destruct (isw (c' a)); destruct (isw (c a)); simpl; first [lia | discriminate (H eq_refl)].
Qed.
Lemma cnt_strict (l : list nat) (c c' : colour) x : In x l -> isw (c x) = true -> isw (c' x) = false ->
  (forall m, In m l -> isw (c' m) = true -> isw (c m) = true) ->
  length (filter (fun m => isw (c' m)) l) < length (filter (fun m => isw (c m)) l).
Proof.
  induction l as [|a l IH]; intros Hx Hc Hc' H; [destruct Hx|]. simpl.
  assert (M := cnt_mono l c c' (fun m Hm => H m (or_intror Hm))).
  destruct Hx as [->|Hx].
  - rewrite Hc, Hc'. simpl. lia.
  - specialize (IH Hx Hc Hc' (fun m Hm => H m (or_intror Hm))). specialize (H a (or_introl eq_refl)).
    destruct (isw (c' a)); destruct (isw (c a)); simpl; first [lia | discriminate (H eq_refl)].
Qed.

Lemma J_gray c fin x : J c fin -> c x = White -> J (setc c x Gray) fin.
Proof.
  intros (Jb & Jo & Jn) Hx. split; [|split; auto]. intros m. destruct (Nat.eq_dec m x) as [->|Hne].
  - rewrite setc_eq. split; [discriminate|]. intro Hin. apply Jb in Hin. congruence.
  - rewrite setc_neq by auto. apply Jb.
Qed.

Lemma dfs_complete : forall fuel c fin x, J c fin -> x < n -> c x = White -> W c <= fuel -> (forall g, c g = Gray -> rho g < rho x) ->
  exists c' fin', dfs fuel c fin x = Done c' fin'.
Proof.
  induction fuel as [|fuel IH]; intros c fin x HJ Hx Hw HW Hg.
  - exfalso. unfold W in HW. assert (In x (filter (fun m => isw (c m)) (seq 0 n))) by (apply filter_In; split; [apply in_seq; lia | rewrite Hw; reflexivity]).
    destruct (filter (fun m => isw (c m)) (seq 0 n)); [destruct H | simpl in HW; lia].
  - rewrite dfs_unfold.
    assert (G : forall vs c0 f0, incl vs (succs x) -> J c0 f0 -> c0 x = Gray -> W c0 <= fuel -> (forall g, c0 g = Gray -> rho g <= rho x) ->
                exists c' fin', go fuel x vs c0 f0 = Done c' fin').
    { induction vs as [|v r IHr]; intros c0 f0 Hin J0 Hx0 HW0 Hg0; simpl; [eauto|].
      assert (Hv : In v (succs x)) by (apply Hin; left; auto).
      assert (Hr : incl r (succs x)) by (intros y Hy; apply Hin; right; auto).
      destruct (c0 v) eqn:Cv.
      - assert (HG : forall g, c0 g = Gray -> rho g < rho v) by (intros g Hgg; specialize (Hg0 g Hgg); specialize (rk x v Hx Hv); lia).
        destruct (IH c0 f0 v J0 (closed x v Hx Hv) Cv HW0 HG) as (c1 & f1 & D).
        rewrite D. destruct (dfs_sound _ _ _ _ _ _ J0 Cv D) as (J1 & _ & Hb1 & Hg1).
        apply IHr; auto.
        + apply Hg1. exact Hx0.
        + eapply Nat.le_trans; [|exact HW0]. apply cnt_mono. intros m _ Hm. destruct (c0 m) eqn:Em; auto.
          * apply Hg1 in Em. rewrite Em in Hm. discriminate.
          * apply Hb1 in Em. rewrite Em in Hm. discriminate.
        + intros g Hgg. apply Hg0. apply Hg1. exact Hgg.
      - exfalso. specialize (Hg0 v Cv). specialize (rk x v Hx Hv). lia.
      - apply IHr; auto. }
    apply G.
    + apply incl_refl.
    + apply J_gray; auto.
    + apply setc_eq.
    + assert (W (setc c x Gray) < W c); [|lia]. apply (cnt_strict (seq 0 n) c (setc c x Gray) x).
      * apply in_seq. lia.
      * rewrite Hw. reflexivity.
      * rewrite setc_eq. reflexivity.
      * intros m _ Hm. destruct (Nat.eq_dec m x) as [->|Hne]; [rewrite setc_eq in Hm; discriminate | rewrite setc_neq in Hm by auto; auto].
    + intros g Hgg. destruct (Nat.eq_dec g x) as [->|Hne]; [lia|]. rewrite setc_neq in Hgg by auto. specialize (Hg g Hgg). lia.
Qed.

Lemma W_le_n c : W c <= n.
Proof. unfold W. rewrite <- (seq_length n 0) at 2. generalize (seq 0 n). induction l as [|a l IH]; simpl; auto. destruct (isw (c a)); simpl; lia. Qed.

Theorem dfs_all_complete fuel : n <= fuel -> forall ns c fin, J c fin -> (forall m, c m <> Gray) -> (forall x, In x ns -> x < n) ->
  exists r, dfs_all fuel ns c fin = Some r.
Proof.
  intros Hf. induction ns as [|x r IH]; intros c fin HJ Hg Hn; simpl; [eauto|].
  destruct (c x) eqn:Cx.
  - assert (HW : W c <= fuel) by (eapply Nat.le_trans; [apply W_le_n | exact Hf]).
    assert (HG : forall g, c g = Gray -> rho g < rho x) by (intros g Hgg; exfalso; eapply Hg; eauto).
    destruct (dfs_complete fuel c fin x HJ (Hn x (or_introl eq_refl)) Cx HW HG) as (c1 & f1 & D).
    rewrite D. destruct (dfs_sound _ _ _ _ _ _ HJ Cx D) as (J1 & _ & _ & Hgr).
    apply IH; [auto | intros m E; apply Hgr in E; eapply Hg; eauto | intros y Hy; apply Hn; right; auto].
  - exfalso. eapply Hg; eauto.
  - apply IH; auto. intros y Hy; apply Hn; right; auto.
Qed.
End Complete.
End DFS.
Print Assumptions acyclic_rank.
