From Coq Require Import List NArith Arith Bool. Import ListNotations.
Require Import Gen.
Inductive src := SArg (t : N) | SVar (pi idx : nat).
Record oitem := mko { o_pi : nat; o_args : list src; o_waits : list src; o_closes : list nat }.
Definition src_eqb a b := match a, b with SArg x, SArg y => N.eqb x y | SVar p i, SVar q j => Nat.eqb p q && Nat.eqb i j | _, _ => false end.
Fixpoint list_eqb {A} (e : A -> A -> bool) (l r : list A) : bool :=
  match l, r with [], [] => true | x :: l', y :: r' => e x y && list_eqb e l' r' | _, _ => false end.
Definition oitem_eqb a b := Nat.eqb (o_pi a) (o_pi b) && list_eqb src_eqb (o_args a) (o_args b) && list_eqb src_eqb (o_waits a) (o_waits b) && list_eqb Nat.eqb (o_closes a) (o_closes b).
Definition observe (d : decl) : option (list oitem * list (list oitem)) :=
  match new_graph d with
  | Err _ => None
  | OK g => match emit g with
            | Err _ => None
            | OK (main, gos) =>
                let tosrc (x : nat * nat) := match nth_error (g_nodes g) (fst x) with
                                             | Some (NArg t) => SArg t | Some (NProv pi) => SVar pi (snd x) | None => SArg 0 end in
                let conv (it : item) := mko (match nth_error (g_nodes g) (it_node it) with Some (NProv pi) => pi | _ => 9999 end)
                                            (map tosrc (it_args it)) (map tosrc (it_waits it)) (map snd (it_closes it)) in
                Some (map conv main, map (map conv) gos)
            end
  end.
Definition same (a b : list oitem * list (list oitem)) : bool :=
  list_eqb oitem_eqb (fst a) (fst b) && list_eqb (list_eqb oitem_eqb) (snd a) (snd b).
Definition mismatches (cs : list (nat * (decl * (list oitem * list (list oitem))))) : list nat :=
  flat_map (fun c => match observe (fst (snd c)) with Some o => if same o (snd (snd c)) then [] else [fst c] | None => [fst c] end) cs.
