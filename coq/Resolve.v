(* Declaration-level facts about how NewGraph's model resolves parameters: by type, through the provider map or as an
   injector argument; one argument node per unsupplied type; one node per provider. *)
From Coq Require Import List Arith Bool NArith Lia.
Import ListNotations.
Require Import Gen Bfs Final1 Dfs GenU CorrS GenSound.

Lemma NoDup_app_one {A} (l : list A) x : NoDup l -> ~ In x l -> NoDup (l ++ [x]).
Proof.
  induction l as [|y l IH]; simpl; intros ND H; [constructor; auto; constructor|].
  inversion ND; subst. constructor; [intro Hin; apply in_app_or in Hin; destruct Hin as [Hin|[Hin|[]]]; [auto | subst; apply H; left; auto] | apply IH; auto].
Qed.

Definition dpm (d : Gen.decl) : option (Gen.pmap * list Gen.prov) :=
  match Gen.pass1 [] 0 (Gen.d_provs d) with
  | Err _ => None
  | OK pm1 => match Gen.pass2 pm1 (Gen.d_provs d) (filter Gen.isstruct (Gen.d_provs d)) with
              | Err _ => None | OK r => Some r end
  end.
Definition ureq (provs : list Gen.prov) : nat -> list N := fun pi => match nth_error provs pi with Some p => Gen.requires p | None => [] end.

Lemma unew_graph_inv : forall d g, unew_graph d = OK g ->
  exists pm vis pi, dpm d = Some (pm, uprovs g) /\ Gen.assoc (Gen.d_ret d) pm = Some (pi, uret g) /\
    nth_error (Bfs.nodes (ub g)) 0 = Some (Bfs.NProv pi) /\
    Bfs.inv (ureq (uprovs g)) (pm_of pm) (nprovides (uprovs g)) (ub g) vis None /\ Bfs.queue (ub g) = [].
Proof.
  intros d g H. unfold unew_graph in H. unfold dpm.
  destruct (Gen.pass1 [] 0 (Gen.d_provs d)) as [pm1|e] eqn:P1; [|discriminate].
  destruct (Gen.pass2 pm1 (Gen.d_provs d) (filter Gen.isstruct (Gen.d_provs d))) as [[pm provs]|e] eqn:P2; [|discriminate].
  destruct (Gen.assoc (Gen.d_ret d) pm) as [[pi gi]|] eqn:Er; [|discriminate].
  set (req := fun pi0 => match nth_error provs pi0 with Some p => Gen.requires p | None => [] end) in *.
  set (b0 := {| Bfs.nodes := [Bfs.NProv pi]; red := fun _ => []; out := fun _ => []; pn := []; an := []; queue := [0] |}) in *.
  destruct (Bfs.loop req (pm_of pm) (2 + 2 * (length provs + fold_right (fun p a => length (Gen.requires p) + a) 0 provs)) b0 []) as [[b vis]|] eqn:L; [|discriminate].
  destruct (Dfs.dfs_all (fun m => map fst (Bfs.out b m)) (S (length (Bfs.nodes b))) (seq 0 (length (Bfs.nodes b))) (fun _ => White) []) as [[c' fin']|] eqn:D; [|discriminate].
  inversion H; subst g. clear H. cbn [uprovs uret ub].
  assert (G1 : pm_good pm1 (Gen.d_provs d)).
  { apply (pass1_good (Gen.d_provs d) [] [] pm1 P1). intros t p0 g0 H0. discriminate. }
  assert (G : pm_good pm provs) by (eapply pass2_good; eauto).
  assert (PMOK : forall t p0 g0, pm_of pm t = Some (p0, g0) -> g0 < nprovides provs p0) by (intros t p0 g0 H0; apply (G t p0 g0 H0)).
  destruct (Bfs.loop_inv req (pm_of pm) (nprovides provs) PMOK _ b0 [] b vis (Final1.b0_inv req (pm_of pm) (nprovides provs) pi) L) as (I & Q).
  destruct (loop_prefix req (pm_of pm) _ b0 [] b vis L) as (ext & Eext). simpl in Eext.
  exists pm, vis, pi. split; auto. split; auto. split; [rewrite Eext; reflexivity|]. split; auto.
Qed.

(* Every parameter of every provider in the graph is resolved by its type: when a provider supplies the type, to the node of
   that provider and the index of that result; when none does, to the argument node of that type. *)
Theorem params_by_type : forall d g, unew_graph d = OK g -> exists pm, dpm d = Some (pm, uprovs g) /\
  forall c p, uprov g c = Some p ->
    unreq g c = length (Gen.requires p) /\
    forall i t, nth_error (Gen.requires p) i = Some t ->
      match Gen.assoc t pm with
      | Some (pi, gi) => usidx g c i = gi /\ nth_error (Bfs.nodes (ub g)) (usrc g c i) = Some (Bfs.NProv pi)
      | None => nth_error (Bfs.nodes (ub g)) (usrc g c i) = Some (Bfs.NArg t)
      end.
Proof.
  intros d g H. destruct (unew_graph_inv d g H) as (pm & vis & pi0 & Hpm & _ & _ & I & Q). exists pm. split; auto.
  intros c p Hp. unfold uprov in Hp. change (GenU.b g) with (ub g) in Hp.
  destruct (nth_error (Bfs.nodes (ub g)) c) as [[ta|pc]|] eqn:Ec; try discriminate.
  assert (Hc : c < length (Bfs.nodes (ub g))) by (apply nth_error_Some; congruence).
  assert (Hreq : ureq (uprovs g) pc = Gen.requires p) by (unfold ureq; rewrite Hp; reflexivity).
  assert (Hn : unreq g c = length (Gen.requires p)).
  { pose proof (Bfs.nreq_is_requires _ _ _ _ _ I Q c Hc) as E. unfold Bfs.nreq, Bfs.nreq_of in E. rewrite Ec, Hreq in E. exact E. }
  split; auto. intros i t Ht.
  assert (Hi : i < Bfs.nreq (ub g) c).
  { unfold Bfs.nreq. change (length (Bfs.red (ub g) c)) with (unreq g c). rewrite Hn. apply nth_error_Some. congruence. }
  destruct (Bfs.res_by_type _ _ _ _ _ I c pc i Ec Hi) as (t' & Ht' & Hm). rewrite Hreq, Ht in Ht'. inversion Ht'; subst t'.
  unfold pm_of in Hm. destruct (Gen.assoc t pm) as [[pi gi]|]; [exact Hm | apply Hm].
Qed.

(* One argument node per type, and only for types no provider supplies. *)
Theorem arg_nodes : forall d g, unew_graph d = OK g -> exists pm, dpm d = Some (pm, uprovs g) /\
  NoDup (uarg_types g) /\ (forall t, In t (uarg_types g) -> Gen.assoc t pm = None) /\
  (forall c p t, uprov g c = Some p -> In t (Gen.requires p) -> Gen.assoc t pm = None -> In t (uarg_types g)).
Proof.
  intros d g H. destruct (unew_graph_inv d g H) as (pm & vis & pi0 & Hpm & _ & _ & I & Q). exists pm. split; auto.
  assert (Hin : forall t, In t (uarg_types g) <-> exists n, nth_error (Bfs.nodes (ub g)) n = Some (Bfs.NArg t)).
  { intros t. unfold uarg_types, unodes. rewrite in_flat_map. split.
    - intros (k & Hk & Ht). destruct k as [t'|]; [|destruct Ht]. destruct Ht as [<-|[]]. apply In_nth_error in Hk. exact Hk.
    - intros (n & Hn). exists (Bfs.NArg t). split; [eapply nth_error_In; eauto | left; auto]. }
  split; [|split].
  - pose proof (Bfs.arg_unique _ _ _ _ _ I) as U. unfold uarg_types, unodes. revert U. generalize (Bfs.nodes (ub g)). intros l.
    induction l as [|k l IH] using rev_ind; intros U; [constructor|].
    rewrite flat_map_app. simpl. rewrite app_nil_r.
    assert (IH' : NoDup (flat_map (fun k0 => match k0 with Bfs.NArg t => [t] | Bfs.NProv _ => [] end) l)).
    { apply IH. intros n n' t Hn Hn'. apply (U n n' t); rewrite nth_error_app1; auto; apply nth_error_Some; congruence. }
    destruct k as [t|pi]; [|rewrite app_nil_r; exact IH'].
    apply NoDup_app_one; auto. intro Hbad. apply in_flat_map in Hbad. destruct Hbad as (k & Hk & Ht). destruct k as [t'|]; [|destruct Ht].
    destruct Ht as [<-|[]]. apply In_nth_error in Hk. destruct Hk as (n & Hn).
    assert (Hl : n < length l) by (apply nth_error_Some; congruence).
    assert (n = length l); [|lia]. apply (U n (length l) t'); [rewrite nth_error_app1; auto | rewrite nth_error_app2 by lia; rewrite Nat.sub_diag; reflexivity].
  - intros t Ht. apply Hin in Ht. destruct Ht as (n & Hn). apply (Bfs.arg_unsupplied _ _ _ _ _ I n t Hn).
  - intros c p t Hp Ht Hnone. destruct (params_by_type d g H) as (pm' & Hpm' & PT). rewrite Hpm in Hpm'. inversion Hpm'; subst pm'.
    destruct (PT c p Hp) as (_ & R). apply In_nth_error in Ht. destruct Ht as (i & Hi). specialize (R i t Hi). rewrite Hnone in R.
    apply Hin. eauto.
Qed.

(* The signature never lists a parameter type twice. *)
Theorem uparams_nodup : forall d g, unew_graph d = OK g -> NoDup (uparams g).
Proof.
  intros d g H. destruct (arg_nodes d g H) as (pm & _ & ND & _). unfold uparams. destruct (uhas_async g); auto.
  constructor; [intro Hin; apply filter_In in Hin; destruct Hin as (_ & Hn); rewrite N.eqb_refl in Hn; discriminate | apply NoDup_filter; auto].
Qed.

(* One node per provider (the root, which is never registered in the provider-node map, aside), and node 0 is the provider
   of the requested type. *)
Theorem prov_nodes : forall d g, unew_graph d = OK g -> exists pm pi, dpm d = Some (pm, uprovs g) /\
  Gen.assoc (Gen.d_ret d) pm = Some (pi, uret g) /\ nth_error (Bfs.nodes (ub g)) 0 = Some (Bfs.NProv pi) /\
  forall n n' pj, n <> 0 -> n' <> 0 -> nth_error (Bfs.nodes (ub g)) n = Some (Bfs.NProv pj) -> nth_error (Bfs.nodes (ub g)) n' = Some (Bfs.NProv pj) -> n = n'.
Proof.
  intros d g H. destruct (unew_graph_inv d g H) as (pm & vis & pi & Hpm & Hret & H0 & I & Q). exists pm, pi. repeat split; auto.
  apply (Bfs.prov_unique _ _ _ _ _ I).
Qed.

(* ---------------- every node of the graph is needed for the requested type ---------------- *)
From Coq Require Import Relations.
(* a feeds c: some parameter of c is resolved to a *)
Definition feeds (g : ugraph) (a c : nat) : Prop := exists i, c < nn g /\ i < unreq g c /\ usrc g c i = a.
Lemma posn_le x l : posn x l <= length l.
Proof. induction l as [|y r IH]; simpl; auto. destruct (Nat.eqb x y); lia. Qed.

Theorem all_nodes_needed : forall d g, unew_graph d = OK g -> forall n, n < nn g -> clos_refl_trans nat (feeds g) n 0.
Proof.
  intros d g H. pose proof H as H'. unfold unew_graph in H'.
  destruct (Gen.pass1 [] 0 (Gen.d_provs d)) as [pm1|e] eqn:P1; [|discriminate].
  destruct (Gen.pass2 pm1 (Gen.d_provs d) (filter Gen.isstruct (Gen.d_provs d))) as [[pm provs]|e] eqn:P2; [|discriminate].
  destruct (Gen.assoc (Gen.d_ret d) pm) as [[pi gi]|] eqn:Er; [|discriminate].
  set (req := fun pi0 => match nth_error provs pi0 with Some p => Gen.requires p | None => [] end) in *.
  set (b0 := {| Bfs.nodes := [Bfs.NProv pi]; red := fun _ => []; out := fun _ => []; pn := []; an := []; queue := [0] |}) in *.
  destruct (Bfs.loop req (pm_of pm) (2 + 2 * (length provs + fold_right (fun p a => length (Gen.requires p) + a) 0 provs)) b0 []) as [[b vis]|] eqn:L; [|discriminate].
  destruct (Dfs.dfs_all (fun m => map fst (Bfs.out b m)) (S (length (Bfs.nodes b))) (seq 0 (length (Bfs.nodes b))) (fun _ => White) []) as [[c' fin']|] eqn:D; [|discriminate].
  inversion H'; subst g. clear H'.
  destruct (unew_graph_inv d _ H) as (pm2 & vis2 & pi2 & _ & _ & _ & I & Q). cbn [ub uprovs] in I, Q.
  assert (HO : Bfs.hasout b).
  { eapply (Bfs.loop_hasout req (pm_of pm)); [|exact L]. intros n Hn Hl. simpl in Hl. lia. }
  set (g := {| ub := b; uprovs := provs; uret := gi |}) in *.
  assert (OS : forall n c i, In (c, i) (uouts g n) <-> c < nn g /\ i < unreq g c /\ usrc g c i = n) by (intros; apply (Bfs.outs_src _ _ _ b vis2 I)).
  assert (AC : forall c i, c < nn g -> i < unreq g c -> posn (usrc g c i) fin' < posn c fin').
  { intros c i Hc Hi. apply (Dfs.acyclic_rank _ _ _ _ _ D); [apply (Bfs.src_lt _ _ _ b vis2 I); auto|]. apply in_map_iff. exists (c, i). split; auto. apply OS. auto. }
  assert (G : forall k n, length fin' - posn n fin' <= k -> n < nn g -> clos_refl_trans nat (feeds g) n 0).
  { induction k as [|k IH]; intros n Hk Hn.
    - destruct (Nat.eq_dec n 0) as [->|Hne]; [apply rt_refl|]. exfalso.
      assert (Ho : Bfs.out b n <> []) by (apply HO; [lia | exact Hn]).
      destruct (Bfs.out b n) as [|[c i] r] eqn:E; [contradiction|]. assert (Hin : In (c, i) (uouts g n)) by (unfold uouts; change (GenU.b g) with b; rewrite E; left; auto).
      apply OS in Hin. destruct Hin as (Hc & Hi & Hs). pose proof (AC c i Hc Hi) as A. rewrite Hs in A. pose proof (posn_le c fin'). lia.
    - destruct (Nat.eq_dec n 0) as [->|Hne]; [apply rt_refl|].
      assert (Ho : Bfs.out b n <> []) by (apply HO; [lia | exact Hn]).
      destruct (Bfs.out b n) as [|[c i] r] eqn:E; [contradiction|]. assert (Hin : In (c, i) (uouts g n)) by (unfold uouts; change (GenU.b g) with b; rewrite E; left; auto).
      apply OS in Hin. destruct Hin as (Hc & Hi & Hs). pose proof (AC c i Hc Hi) as A. rewrite Hs in A.
      apply rt_trans with c; [apply rt_step; exists i; auto | apply IH; auto; lia]. }
  intros n Hn. apply (G (length fin') n); auto. lia.
Qed.
